import vlib

CFG = dict(
    imports=["From Verif.C45 Require Import Model Spec."],
    checker="check_any",
    n=dict(quick=300, thorough=3600),
    shard=50,
    rule="insert/remove/lookup/len histories (8-37 ops) over small pools of node names (incl. prefixes of each other, the empty "
         "string, an embedded NUL) on the real hashring.Ring with replicas in {1,2,3,5,8,100} and probes in {1,2,3,5}; hash = the "
         "ring's default (xxh3) or an adversarial low-entropy hash (constant, few boundary points incl. 0 and 2^64-1, small, high, "
         "salt-ignoring, key-ignoring, evenly spread); every 50th case is the production configuration of proxy_neigh_mgr.go "
         "(xxh3, 100 replicas, 1 probe, value = key); every 50th case (index 3 mod 50) is a LARGE ring in that configuration: 11-36 "
         "members (1100-3600 virtual nodes; xxh3, or a tie-heavy spread/high hash), Lookups also during the initial load, then 5-9 "
         "batches of 0-3 removes and 0-3 inserts in random order with no Lookup inside a batch (remove+insert pairs, multi-member "
         "batches, remove-then-reinsert of the same member, re-join of an earlier removed member), each batch followed by 6-10 sampled "
         "addresses asked of the ring under test and of a fresh ring; its hash calls are handed over grouped by name; two cases in 50 (indices 13, 38 mod 50) run 3-7 REAL proxy-neighbour managers "
         "(felix/dataplane/linux/proxy_neigh_mgr.go), one per node, each fed its own interleaving of the same per-host "
         "HostMetadataUpdate/Remove streams with repeats, flaps, selectNodeForIP and CompleteDeferredWork calls, sometimes missing the "
         "last event, hosts without an address of the family, mixed families, an outsider node, then asked which of 6-10 addresses "
         "they own; in ring cases each Lookup is also asked of a ring built fresh from the current members in "
         "shuffled order; non-trivial = some Lookup happened with >=2 current members after at least one effective Remove; "
         "distinct by (replicas, probes, ops, recorded hash table)",
    trusted=["Coq 8.16.1 kernel + vm_compute",
             "hand-written model coq/theories/C45/Model.v tied to lib/datastructures/hashring by this correspondence run",
             "Go driver harness/C45 (overlay build, tag verif; shims: hashring.VerifDefaultHash exposes the package's defaultHash, "
             "intdataplane.VerifC45Node wraps a real proxyNeighManager: OnUpdate, dirty, CompleteDeferredWork, selectNodeForIP)",
             "slices.SortFunc sorts and slices.DeleteFunc is stable (Go standard library contracts)"],
    assumptions=["the hash function is an arbitrary function []byte -> uint64 (Section variable; no injectivity or distribution assumed)",
                 "replicas >= 1 and probes >= 1 (New panics otherwise)",
                 "Go int is 64-bit; replicas < 2^32 so uint32(i) in saltedHash does not truncate",
                 "all nodes run the same hash function and ring parameters (true for proxy_neigh_mgr.go: compiled-in defaults)"],
)

def run(ctx):
    return vlib.standard_flow(ctx, CFG)

def replay(ctx, path):
    """Re-evaluate a recorded case (inputs, recorded hash table, implementation observations) in Coq."""
    import json
    obj = json.load(open(path))
    c = obj.get("case") or obj.get("first_case")
    if not c:
        print(open(path).read())
        return 0
    print(json.dumps(c.get("sample"), indent=1))
    failing, _ = vlib.coq_eval_cases(ctx, CFG["imports"], CFG["checker"], [c["coq"]])
    agree, ok = (failing[0][1], failing[0][2]) if failing else (True, True)
    print("model == recorded implementation observations: %s ; specification oracle accepts them: %s" % (agree, ok))
    return 0 if ok else 1


MANIFEST = dict(
    category="proof",
    text="Theorems over an executable model of hashring.Ring (deferred sweep, lazy sort, virtual nodes, multi-probe bisection "
         "lookup) for ANY hash function and any insert/remove/lookup history: the owner is a current member with its latest value "
         "(none iff no members, never a panic), and the lookup result equals that of any other history, in particular a freshly "
         "built ring, with the same member set; the winner is the member with a virtual node at the smallest clockwise distance from a probe; the model's bisection equals a linear scan on every reachable table; the oracle accepts every model run; for the caller (proxy_neigh_mgr.go HostMetadata handling, dirty flag, selectNodeForIP): every node that knows the same hosts answers 'mine' exactly for one common owner, dirty is raised exactly by membership changes, node oracle accepts all model nodes; plus a correspondence run of the model and a spec oracle against the real Go ring.",
    note="Trusted: Coq kernel; hand-written model tied to the code only by the correspondence run; Go driver; sort/stable-delete "
         "contracts of the Go standard library.",
)
