import vlib


def classify(case_line):
    # The dedicated "vtep-retarget" stream (every 25th sequencer case) re-points a route the dataplane has to
    # another node in the same flush interval in which the old node's VTEP is removed.  The main stream never
    # contains that pattern (the generator repairs it away), so nothing else can hide behind this key.
    if "vtep-retarget" in (case_line.get("tags") or []):
        return "vtep-removed-before-route-retargeted"
    return None


CFG = dict(
    imports=["From Verif.C02 Require Import Model Spec ModelX SpecX."],
    checker="check_xcase",
    n=dict(quick=280, thorough=3360),
    driver_args=lambda ctx, n, seed: ["-n", n, "-seed", seed, "-mode", "all"],
    shard=50,
    classify=classify,
    rule="sequencer histories (8-50 callbacks over 5 IP sets x 6 members, 4 policies, 3 profiles, 4 endpoints (workload and host), "
         "3 VTEPs, 4 routes, 2 each of host metadata / pools / service accounts / namespaces / services) that satisfy the upstream "
         "contract, flushed after every callback, in batches, or only at the end, optionally followed by a partial teardown; "
         "non-trivial = some flush emits both additions and removals and some object carried references; distinct by callback sequence.  "
         "25% of the cases drive the REAL AsyncCalcGraph.loop (real sequencer, real calculation graph) over unbuffered channels with "
         "generated mixes of update batches (callbacks run on the loop goroutine inside CalcGraph.OnUpdates), status updates "
         "(in-sync first / late / repeated / never), flush ticks (incl. bursts against the leaky-bucket cap) and health ticks; messages "
         "are attributed to loop iterations by a select handshake (no sleeps); non-trivial = updates, output and an input in-sync.  "
         "18% (mode xseq) add the callbacks of the complete sequencer (ModelX.v): OnDatastoreNotReady, OnConfigUpdate (stub config object), "
         "OnEncapUpdate, OnGlobalBGPConfigUpdate, OnWireguardUpdate (incl. empty v4/v6 keys) / OnWireguardRemove, compared with xflush and "
         "checked by ok_xtrace (wireguard removes name existing endpoints).  "
         "12% are a contract-respecting prefix followed by one callback outside the contract: log.Panic in the real code vs None in the model",
    trusted=["Coq 8.16.1 kernel + vm_compute", "std++ (axiom-free)",
             "hand-written model coq/theories/C02/Model.v tied to felix/calc/event_sequencer.go and async_calc_graph.go by this correspondence run",
             "Go driver harness/C02 (overlay build, tag verif): its mapping of proto messages to abstract (kind,id,refs,version) messages"],
    assumptions=["the config object behind the sequencer's configInterface is a driver stub (changed = raw value differs from the last one "
                 "for that source), mirrored by ModelX.x_cfg; felix/config itself is C27's subject",
                 "the code now has the repaired VXLAN phase order (fix b52c0b5; Model `late = true`; comments in Model.v/Spec.v that say "
                 "'the code as it stands' for `late = false` predate that fix): no extra restriction is needed for it.  For the old order "
                 "the theorems need Spec.no_retarget and without it the statement is refuted (c02_vtep_retarget_refuted)",
                 "loop correspondence: sequencer callbacks are injected on the loop goroutine through the real dispatcher (an update with a "
                 "key type the graph does not use carries the closure); the calculation graph's own reaction to status updates is real; "
                 "ConfigUpdate / Encapsulation messages it emits are outside the model and dropped from the observed stream",
                 "upstream contract (Spec.v cb_ok, closed at flush): IP set added only when absent, removed only when present, member "
                 "added only when absent / removed only when present in an existing set; at every Flush the net upstream state is reference-closed",
                 "a route 'needs' the VTEP of DstNodeName when IpPoolType=VXLAN and it is a REMOTE_WORKLOAD route"],
)


def run(ctx):
    return vlib.standard_flow(ctx, CFG)


MANIFEST = dict(
    category="proof",
    text="Theorems over an executable model of EventSequencer (pending maps/sets, sent sets, Flush phase order with arbitrary "
         "intra-phase order) for all callback histories inside the upstream contract and all flush points, plus a correspondence run "
         "of model and specification oracle (closedness checked after every single message of the IMPLEMENTATION's stream) against the "
         "real EventSequencer driven directly, against the real AsyncCalcGraph.loop (flush throttling, in-sync forwarding) fed over "
         "unbuffered channels, and of the real log.Panic guards against the model's None; ModelX.v completes the sequencer (ready flag, config, encapsulation, "
         "BGP config, wireguard) around the unchanged Model.v with projection and wireguard theorems.",
    note="Trusted: Coq kernel; hand-written model tied to the code only by the correspondence run; Go driver.",
)
