import vlib

CFG = dict(
    imports=["From Coq Require String.", "Import String.StringSyntax.", "From Verif.C37 Require Import Model Spec."],
    checker="check_case",
    shard=30,
    search_rounds=1,
    search_n=400,
    n=dict(quick=130, thorough=1560),
    rule="clusters of 8-40 identities per case run through the real name builders (GetLengthLimitedID directly with "
         "arbitrary prefix/limit, PolicyID.ID, Policy/Profile/EndpointChainName, PolicyGroup.ChainName, MakeUniqueID, "
         "NameForMainIPSet/NameForTempIPSet, nftables LegalizeSetName, NFLOG maybeHash/CalculateNFLOGPrefixStr, VethNameForWorkload, "
         "vmipam.CreateVMHandleID): suffixes at limit-1/limit/limit+1, starting with the marker '_', the text "
         "a shortened name turns into used as an identity itself, long names differing only in the tail, one text pushed "
         "through every chain family, v4/v6 and main/temp sets; plus a malformed stream (names with '/', unknown kinds, "
         "empty names, over-long fixed set IDs). non-trivial = at least one name in the case was hashed/truncated and the "
         "case has >= 4 identities; distinct by the list of identities",
    trusted=["Coq 8.16.1 kernel + vm_compute",
             "hand-written model coq/theories/C37/Model.v tied to the Go code by this correspondence run",
             "Go driver harness/C37 (overlay build, tag verif); digests in the case table are computed by the driver with "
             "crypto/sha256, crypto/sha3, crypto/sha1 and passed to the model as data"],
    assumptions=["the three hashes are Section variables producing base64url text; theorems are stated modulo equality of "
                 "truncated digests of different inputs",
                 "strings are byte lists; Go int is 64-bit; uint is 64-bit",
                 "SHA-224 base64url text is 38 characters long and contains no ':' (hypotheses of the global theorem)",
                 "nftables set names: fixed IDs without ':'; NFLOG rule prefixes: ASCII-letter action/owner/direction, index < 2^63; veth: namespace "
                 "without '.'; VM handle: non-empty dot-free network name of at most 60 bytes, namespace without '.'",
                 "domain of the 'apart' clause: non-empty suffix/profile/interface names, policy kinds among the 7 known kinds, "
                 "no '/' or newline in policy names/namespaces, fixed IP set IDs of at most 25 bytes, MakeUniqueID tags of at most 9 bytes without ':'"],
)

def classify(line):
    # The one known class: a case containing an identity whose name must be shortened while maxLength leaves more
    # room than the 43 characters of the digest text (nftables limit 256) -- the pinned code panics there.
    # Such identities are generated only in cases carrying the tag below, and only those cases are excused.
    if "arp-dispatch-clash" in line.get("tags") or []:
        # dedicated cases holding the fixed chain cali-arp-dispatch and the ARP chain of an interface called "dispatch"
        return "arp-dispatch-name-clash"
    if "beyond-hash" in line.get("tags") or [] and any(s.endswith("-> PANIC") for s in line.get("sample", {}).get("names", [])):
        return "nft-long-name-panic"
    return None

CFG["classify"] = classify

def run(ctx):
    return vlib.standard_flow(ctx, CFG)

MANIFEST = dict(
    category="proof",
    text="Theorems over the executable model of GetLengthLimitedID and every chain / IP-set name builder for all byte "
         "strings: length bound, determinism, exact characterisation of when two names are equal (same effective suffix, or "
         "both shortened with equal truncated digests), injectivity of PolicyID.ID() on validated IDs, disjointness of the "
         "name families, main/temp and v4/v6 IP set names; plus a correspondence run of model and specification oracle "
         "against the real Go functions on generated identity clusters.",
    note="Trusted: Coq kernel; hand-written model tied to the code only by the correspondence run; Go driver; collision "
         "resistance of truncated SHA-256/SHA-224/SHA3-224 is outside the theorems (they are stated modulo it).",
)
