import vlib

# Feature streams of the driver.  On the pinned tree each is a defect class of the application-layer checker that the
# checker model carries as a `kvariant` flag (probed from the tree by the driver):
_FEAT_KEY = {
    "profile-pass": "checker-profile-pass-denies",
    "default-unset": "checker-unset-tier-default-action-fails-evaluation",
    "ipver": "checker-ignores-rule-ip-version",
    "trie": "checker-ipset-net-prefix-below-bitmap-never-matches",
    "named": "checker-named-port-lookup-by-bare-port-never-matches",
}
_EXPLAINED = {}


def _install_classifier():
    """After the main evaluation, evaluate Spec.classify_case (inside Coq) on the cases the oracle rejected: a rejected
    case is a known finding only if the three dataplanes agree with the reference on every probe, the checker model of
    the probed variant predicts every real checker status, and the fixed-variant checker model reaches the reference
    verdict on every probe (see Spec.v)."""
    orig = vlib.coq_eval_cases

    def wrapped(ctx, imports, checker, cases, **kw):
        res, log = orig(ctx, imports, checker, cases, **kw)
        if checker == CFG["checker"]:
            bad = [i for (i, a, o) in res if not o]
            if bad:
                sub = [cases[i] for i in bad]
                # run_cases keeps only (false, _) rows: a row that is missing was classified `explained`
                r2, _ = orig(ctx, imports, "classify_case", sub, **kw)
                unexplained = {j for (j, is_class, _o) in r2 if not is_class}
                for j, c in enumerate(sub):
                    _EXPLAINED[c] = j not in unexplained
        return res, log
    vlib.coq_eval_cases = wrapped
    return orig


def classify(case_line):
    feat = case_line.get("feat")
    if feat in _FEAT_KEY and _EXPLAINED.get(case_line.get("coq")):
        return _FEAT_KEY[feat]
    return None


CFG = dict(
    imports=["From Verif.Common Require Import Packet PolicyRef Ipt.", "From Verif.C08 Require Import Model.",
             "From Verif.C11 Require Import Bpf.", "From Verif.C12 Require Import Model Spec.", "Open Scope string_scope."],
    checker="check_case",
    n=dict(quick=64, thorough=500),
    shard=6,
    deps=["Common", "C08", "C09", "C11"],
    harness_dirs=["C12", "C11"],
    rule="5 corpus cases (minimal witnesses of the five checker finding classes, fixed in /repo since) + generated workload-endpoint states: 0-3 tiers "
         "(default action Deny / Pass, unset only where the tree supports it or in its own stream) x 0-4 policies per tier (GNP, NP, KNP "
         "and the three staged kinds), policies split into policy groups at random, 0-3 rules per policy and direction, 0-3 profiles, "
         "ingress and egress, IPv4 and IPv6, 4 mark layouts, flow logs on/off, DROP/REJECT; rules of the COMMON FRAGMENT over a small "
         "universe: protocol by number or name, CIDRs, port ranges, negations, NET IP sets (selectors), IP+port sets (services), every "
         "action; at most two positive match blocks.  Each state is handed as the SAME proto objects to the real iptables renderer, the "
         "real nftables renderer (chains parsed back into Ipt syntax), the real bpfEndpointManager.extractRules + polprog builder "
         "(instruction words; program splitting in 40% of cases) and a real policystore (ProcessUpdate) + checker.checkStore; up to 18 "
         "probe packets per case (one aimed at each rule + a one-field perturbation, randoms; random entry marks, drop bit clear) are "
         "evaluated on all four (Ipt.run x2, Bpf interpreter, real checker) and compared with each other and PolicyRef.  Feature streams "
         "(10% each): profile Pass rules, unset tier default action, explicit ip_version, NET set members with prefix length "
         "between w-8 and w, named-port sets; where the checker matches named ports, 40% of the plain cases put IP+port sets on BOTH legs of one evaluation (src named port + dst named port / service set / negated variants, in one rule, in consecutive rules, or policy then profile; members chosen so that the source key and the destination key answer differently; probes with the same port on both sides and the two addresses in every arrangement); out-of-fragment stream (10%: ICMP type matches, negated CIDRs of the other family, SCTP "
         "service members, missing policies / profiles / sets) compares the checker with its model only.  non-trivial = >= 2 enforced policies or profiles, >= 2 rules, "
         ">= 8 packets; distinct by (ip version, direction, state)",
    trusted=["Coq 8.16.1 kernel + vm_compute",
             "Common/Ipt.v match_one/apply_mark/run as the meaning of iptables/nftables rules, jumps and returns (kernel evaluation)",
             "coq/theories/C11/Bpf.v as the meaning of the eBPF instruction subset and of the helpers (map_lookup_elem, tail_call); "
             "C11/Spec.state_bytes: byte layout of struct cali_tc_state",
             "Common/PolicyRef.v endpoint_verdict as the meaning of tiers, staged policies, profiles",
             "harness/C12/cmd/parse.go: text->AST grammar (copy of C09's)",
             "hand-written model coq/theories/C12/Model.v tied to app-policy/checker/check.go + match.go + policystore/ipset.go by this "
             "correspondence run (status code of every probe)",
             "Go driver harness/C12 (overlay build, tag verif; add-only shims exposing checkStore, extractRules, maxJumpsPerProgram)"],
    assumptions=["the checker is given a flow without HTTP data and without source/destination principal (plain L3/L4): the HTTP, "
                 "service-account and namespace matches of match.go are then vacuously true",
                 "COMMON FRAGMENT (Spec.rule_in_fragment / state_in_fragment / packet_in_fragment): no ICMP type/code match "
                 "(the checker lacks it), no negated CIDR list of the other address family, every referenced IP set "
                 "and policy/profile present in the checker's store, IP+port set members tcp/udp only (the checker cannot name sctp), "
                 "protocol number 1..255, <= 2 positive match blocks per rule (C08 scratch-bit finding), rule action one of "
                 "allow/deny/pass/next-tier/log; on the pinned tree additionally (each a known finding, see known-findings.txt): no Pass "
                 "rule in a profile, tier default action set, no explicit ip_version, NET set members of length <= w-8 or = w, no named-port "
                 "match",
                 "iptables/nftables: packet enters with conntrack state NEW and the drop mark clear; workload endpoint, admin up, no "
                 "VXLAN/IPIP blocking (C09 covers those)",
                 "BPF: instruction-level equivalence IR -> assembled eBPF is established per generated program by execution (C11), not "
                 "by a theorem over all programs; no NAT (pre-DNAT destination = destination)",
                 "the model variant of the checker (profile pass / unset default action / ip_version / trie / named ports) is the one the driver probes "
                 "from the tree"],
    classify=classify,
)


def run(ctx):
    orig = _install_classifier()
    try:
        return vlib.standard_flow(ctx, CFG)
    finally:
        vlib.coq_eval_cases = orig


def replay(ctx, path):
    """Re-evaluate one stored case (state, the real chains / instruction words / checker statuses, probes) inside Coq."""
    import json, os
    d = json.load(open(path))
    c = d.get("case") or d.get("first_case")
    if not c:
        print(json.dumps(d, indent=1)[:4000]); return 0
    vlib.coq_build(sum([vlib.prop_targets(x) for x in ["Common", "C08", "C09", "C11", "C12"]], []))
    failing, _ = vlib.coq_eval_cases(ctx, CFG["imports"], CFG["checker"], [c["coq"]])
    print("sample :", {k: v for k, v in c.get("sample", {}).items() if k != "endpoint_chain_iptables"}); print("tags   :", c.get("tags"))
    if not failing:
        print("checker model agrees with the stored checker statuses; the four stored verdicts agree"); return 0
    for (_, agree, okk) in failing:
        print("checker model == checker:", agree, "| the four verdicts agree with each other and the reference:", okk)
    vf = os.path.join(ctx.build, "replay_explain.v")
    with open(vf, "w") as f:
        f.write("From Coq Require Import List NArith ZArith String.\nImport ListNotations.\n" + "\n".join(CFG["imports"]) + "\n")
        f.write("Definition the_case := %s.\nEval vm_compute in explain_case the_case.\n" % c["coq"])
    ok, out = vlib.coqc(vf)
    print("differing probes (index, (reference, iptables, nftables, bpf, checker), checker-model status, in fragment):")
    print(out[-3000:])
    return 1


MANIFEST = dict(
    category="proof",
    text="Theorems: a Gallina model of the application-layer checker (checkTiers / checkRules / match, policystore IP sets) reaches "
         "PolicyRef.endpoint_verdict on the common rule fragment (c12_checker_verdict); composed with C09's c09_endpoint_verdict "
         "(iptables and nftables) and C11's c11_ir_verdict (BPF) this gives c12_agree: on the common fragment all four give the same "
         "allow/deny verdict for every endpoint state and packet.  Correspondence: one driver hands the SAME proto objects to the real "
         "iptables and nftables renderers, the real BPF extractRules + program builder and a real policystore + checker; the four "
         "verdicts (Ipt.run x2 and the eBPF interpreter inside Coq, the checker in Go) are compared with each other and the reference "
         "on every probe packet.",
    note="Trusted: Coq kernel; Ipt.v / Bpf.v semantics; PolicyRef; text parser.  BPF IR->instructions per program (C11 partial).",
)
