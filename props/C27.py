"""C27 — Felix configuration resolves by source priority, deterministically.

Own flow (variant of vlib.standard_flow) because part of the model is TRANSLATED on every run:
  * the Go driver (harness/C27, built from $VERIF_REPO with the overlay) run with -gen reflects over the real
    config package (config.Params() + Metadata of every parameter, config.New(), SourcesInDescendingOrder,
    Source.Local(), Source.String()) and prints Gen.v;
  * coq/gen/C27/PropsGen.v is re-checked against that Gen.v (source order = the property's order, the table meets
    the hypotheses of the general theorems, the general theorems instantiated with the real table);
  * the correspondence cases are evaluated with the generated table (`check_case genv`).
The driver probes which variant of resolve() the tree has (shadow check before/after parsing; sorted/unsorted key
order); the model has both switches, so model == implementation on either tree, while the oracle (Spec.v) accepts
only what the property allows.
"""
import glob, hashlib, json, os, re, threading
import vlib

PROP = "C27"
GEN_DIR = os.path.join(vlib.COQ, "gen", PROP)
KEY_SHADOW = "shadowed-invalid-fatal"
KEY_VARIANT = "case-variant-order"


def classify(case_line):
    tags = case_line.get("tags") or []
    if "order-dependent-outcome" in tags:
        return KEY_VARIANT
    if "shadowed-fatal-value" in tags:
        return KEY_SHADOW
    return None


CFG = dict(
    imports=["From Verif.C27 Require Import Model Spec.", "From VerifGen Require Import Gen.", "Open Scope N_scope.", "Open Scope string_scope."],
    checker="(check_case genv)",
    n=dict(quick=160, thorough=1920),
    shard=dict(quick=20, thorough=100),
    rule="histories of Config.UpdateFrom calls on a fresh Config (Felix's loading order or a random order, sources "
         "sometimes loaded twice, empty updates, empty values; in 1/5 of the cases followed by an UpdateFromConfigUpdate "
         "message carrying the same content, a source dropped, a value replaced or an empty value) over ~50 representative parameters of every type and flag "
         "combination with valid / invalid / 'none' raw values and case-variant spellings of the names; streams: priority "
         "(1-4 parameters in 1-4 sources each), shadow (flagged parameter valid in a high source and invalid/'none' lower, "
         "and the mirror image), anyparam (any of the 218 parameters with type-agnostic raw values), variant (one source "
         "spells a parameter in 2-3 ways; run 40 times on fresh maps, every distinct outcome recorded), unknown names; history (1/4 of the cases: ONE long-lived Config over 3-12 calls of UpdateFrom / OverrideParam / "
         "UpdateFromConfigUpdate with poisoned updates = a good value plus a fatal one in one source, later emptied or "
         "repaired; plus 4 fixed corpus histories); after the last call a FRESH Config fed the Config's own ToConfigUpdate() "
         "message is compared on all 218 parameters and RawValues(); the "
         "real Parse of every (parameter, raw) pair is recorded as the parse oracle; observed: error of every call, Config.Err "
         "after every call, the `changed` result / changedFields of every call whose predecessor succeeded, the "
         "rendered Config fields of the parameters involved (and of some untouched ones), RawValues(); non-trivial = a "
         "parameter set by >= 2 sources, or a local-only parameter set from a datastore source, or case-variant names in one "
         "source; distinct by the list of calls",
    trusted=["Coq 8.16.1 kernel + vm_compute",
             "hand-written model coq/theories/C27/Model.v (UpdateFrom/resolve) tied to felix/config by this correspondence run",
             "translator = harness/C27 -gen (reflection over the real config package) producing Gen.v",
             "Go driver harness/C27 (overlay build, tag verif); canonical rendering of field values (long renderings replaced by prefix+FNV-64a digest)",
             "Param.Parse enters as an oracle: the theorems hold for every parse function, the correspondence uses the real Parse"],
    assumptions=["parameter and key names are ASCII (strings.ToLower modelled on ASCII letters)",
                 "a Go map holds each exact key once (NoDup hypothesis of the order theorems)",
                 "Param.Parse is a function of (parameter, raw value) during one run"],
)


def scan_gen_forbidden():
    bad = []
    for f in sorted(glob.glob(os.path.join(GEN_DIR, "*.v"))):
        txt = re.sub(r"\(\*.*?\*\)", " ", open(f).read(), flags=re.S)
        for i, line in enumerate(txt.split("\n"), 1):
            if vlib.FORBIDDEN.search(line) or re.match(r"\s*(Variables?|Hypothes[ie]s|Context)\b", line):
                bad.append("%s:%d: %s" % (os.path.relpath(f, vlib.ROOT), i, line.strip()))
    return bad


def make_gen(ctx, exe):
    """Runs the translator and compiles Gen.v.  Returns (ok, log, info)."""
    lines = vlib.run_driver(ctx, exe, ["-gen"])
    g = [l for l in lines if "gen" in l]
    if not g:
        return False, "driver -gen printed nothing", {}
    gd = os.path.join(ctx.build, "gen")
    os.makedirs(gd, exist_ok=True)
    for f in glob.glob(os.path.join(gd, "*.vo")) + glob.glob(os.path.join(gd, "*.glob")) + glob.glob(os.path.join(gd, "*.vo?")):
        os.remove(f)
    gp = os.path.join(gd, "Gen.v")
    open(gp, "w").write(g[0]["gen"])
    ok, out = vlib.coqc(gp, extra_q=[(gd, "VerifGen")])
    return ok and os.path.exists(os.path.join(gd, "Gen.vo")), out, dict(nparams=g[0].get("nparams"))


def run(ctx):
    cfg = CFG
    violations, known_hits = [], []
    kf = dict(vlib.known_findings(PROP))
    gq = [(os.path.join(ctx.build, "gen"), "VerifGen")]

    built = {}
    def _build():
        built["r"] = vlib.go_build(ctx)
    bt = threading.Thread(target=_build)
    bt.start()

    # 1. hand-written development
    ctx.log("building Coq development")
    ok, log = vlib.coq_build(["theories/Common/CaseLib.vo"] + vlib.prop_targets(PROP))
    forb = vlib.scan_forbidden([PROP]) + scan_gen_forbidden()
    theorems, axioms = [], set()
    obligations = discharged = 0
    proof_broken = None
    if not ok:
        proof_broken = "Coq build failed:\n" + log[-4000:]
        ctx.log(proof_broken)
    elif forb:
        proof_broken = "forbidden declarations: " + "; ".join(forb)
    else:
        pr = vlib.coq_props(ctx)
        obligations += pr["obligations"]; discharged += pr["discharged"]; theorems += pr["theorems"]; axioms.update(pr["axioms"])
        if not pr["ok"]:
            proof_broken = "Props.v does not check: " + pr["log"][-3000:]

    # 2. driver + translated part
    bt.join()
    exe, blog = built.get("r", (None, "driver build thread died"))
    tinfo, gen_ok, glog = {}, False, ""
    if exe is not None:
        try:
            gen_ok, glog, tinfo = make_gen(ctx, exe)
        except RuntimeError as e:
            glog = str(e)
    if gen_ok and ok and not forb:
        pg = vlib.coq_props(ctx, props_file=os.path.join(GEN_DIR, "PropsGen.v"), extra_q=gq)
        obligations += max(pg["obligations"], 1); discharged += pg["discharged"]; theorems += pg["theorems"]; axioms.update(pg["axioms"])
        if not pg["ok"]:
            proof_broken = (proof_broken or "") + "\ncoq/gen/C27/PropsGen.v does not check against the regenerated Gen.v: " + pg["log"][-3000:]
    ctx.log("translated: %s; proof obligations: %d, discharged: %d, axioms: %s" % (json.dumps(tinfo), obligations, discharged, sorted(axioms)))

    def coverage(extra=None):
        cov = dict(obligations=obligations, discharged=discharged,
                   checker_cmd="make -C /verif/coq (coq_makefile full .vo build, Coq 8.16.1) ; coqc Props.v ; driver -gen > Gen.v ; coqc Gen.v + coq/gen/C27/PropsGen.v ; "
                               "coqc cases_*.v (vm_compute of model+oracle on implementation observables)",
                   trusted_base=cfg["trusted"] + ["Print Assumptions: " + (", ".join(sorted(axioms)) if axioms else
                                                  "Closed under the global context (no axioms) for every theorem")],
                   theorems=theorems, translated=tinfo, rule=cfg["rule"], repo=ctx.repo,
                   evaluations=0, distinct_nontrivial=0, samples=[])
        cov.update(extra or {})
        return cov

    if exe is None or not gen_ok:
        what = "driver does not build against the tree" if exe is None else "Gen.v could not be produced/compiled"
        rp = vlib.write_replay(ctx, "driver-build", dict(kind="driver-build-failure", log=((blog or "") + "\n" + glog)[-6000:], proof=proof_broken,
                               unchecked="correspondence %s (%s)" % (PROP, what)))
        return vlib.finish(ctx, [(rp, "no-failing-input-found")], [], "proof", coverage(), cfg["assumptions"])

    def run_once(n, seed):
        lines = vlib.run_driver(ctx, exe, ["-n", n, "-seed", seed])
        cases = [l for l in lines if "coq" in l]
        failing, _ = vlib.coq_eval_cases(ctx, cfg["imports"], cfg["checker"], [c["coq"] for c in cases],
                                         shard=cfg["shard"][ctx.tier], extra_q=gq, par=12)
        return lines, cases, failing

    n = cfg["n"][ctx.tier]
    ctx.log("running driver: %d cases, seed %d" % (n, ctx.seed))
    lines, cases, failing = run_once(n, ctx.seed)
    ctx.log("cases: %d, failing: %d" % (len(cases), len(failing)))
    stats = {}
    for l in lines:
        if "stats" in l:
            stats = l["stats"]
    ctx.log("tree variant probed by the driver: %s" % json.dumps(stats))

    keys, nontrivial = set(), set()
    for c in cases:
        k = hashlib.sha1(c.get("key", c["coq"]).encode()).hexdigest()
        keys.add(k)
        if c.get("nt", True):
            nontrivial.add(k)

    seen = set()
    counts = {}

    def handle(failing, cases, origin):
        oracle_fail = [(i, a, o) for (i, a, o) in failing if not o]
        disagree = [(i, a, o) for (i, a, o) in failing if o and not a]
        def cls(c):
            # the two historical classes exist only on a tree without the respective fix (probed by the driver)
            key = classify(c)
            if key == KEY_SHADOW and stats.get("probe_shadow_check_before_parse", False):
                return None
            if key == KEY_VARIANT and stats.get("probe_deterministic_key_order", False):
                return None
            return key
        for (i, a, o) in oracle_fail:
            key = cls(cases[i])
            counts[key or "oracle"] = counts.get(key or "oracle", 0) + 1
        # smallest failing case of each class first
        for (i, a, o) in sorted(oracle_fail, key=lambda t: len(cases[t[0]]["coq"])):
            c = cases[i]
            key = cls(c)
            if key and key in kf:
                if key not in seen:
                    known_hits.append("key=%s %s" % (key, kf[key]))
                    seen.add(key)
                continue
            tag = key or "oracle"
            if tag in seen:
                continue
            seen.add(tag)
            h = hashlib.sha1(c["coq"].encode()).hexdigest()[:10]
            note = "specification oracle rejects the implementation's observable output"
            if key == KEY_SHADOW:
                note = ("a value that is shadowed by a higher-priority source is still parsed, and its parse failure / 'none' on a non-zero "
                        "parameter is fatal (resolve() checks `source < currentSource` only after parsing).  Theorem "
                        "c27_shadowed_irrelevant_refuted_unfixed.  Fix: /verif/fixes/C27-shadow-check-before-parse.patch")
            elif key == KEY_VARIANT:
                note = ("one source spells a parameter in several ways (names differing only in case): the winner depends on Go's map "
                        "iteration order; several distinct outcomes were observed over repeated runs.  Theorem "
                        "c27_order_independent_refuted_unsorted.  Fix: /verif/fixes/C27-deterministic-key-order.patch")
            rp = vlib.write_replay(ctx, "%s-%s" % (tag, h), dict(kind="oracle-failure", origin=origin, case=c, model_agrees=a, cls=key, note=note,
                                   tree_variant=stats))
            violations.append((rp, ""))
        return oracle_fail, disagree

    oracle_fail, disagree = handle(failing, cases, "main run")

    searched = 0
    if (disagree or proof_broken) and not violations:
        ctx.log("searching for a failing input (larger budget): %s" % ("proof broken" if proof_broken else "%d disagreements" % len(disagree)))
        for k in range(1, 3):
            l2, c2, f2 = run_once(min(n * 3, 3000), ctx.seed + 7919 * k)
            searched += len(c2)
            handle(f2, c2, "search %d" % k)
            if violations:
                break
        if not violations:
            if disagree:
                c = dict(cases[disagree[0][0]])
                rp = vlib.write_replay(ctx, "correspondence", dict(kind="correspondence-broken",
                                       unchecked="correspondence stream %s: model %s/Model.v and the implementation disagree" % (PROP, PROP),
                                       n_disagreements=len(disagree), first_case=c, searched_cases=searched))
            else:
                rp = vlib.write_replay(ctx, "proof", dict(kind="proof-broken", unchecked=proof_broken, searched_cases=searched))
            violations.append((rp, "no-failing-input-found"))

    cov = coverage(dict(evaluations=len(cases) + searched, distinct_nontrivial=len(nontrivial), distinct=len(keys),
                        samples=[c.get("sample") for c in cases[11:14]],
                        traces_validated_against_impl=len(cases) + searched,
                        disagreements_model_vs_impl=len(disagree), oracle_failures=len(oracle_fail), oracle_failures_by_class=counts,
                        input_distribution=vlib.distribution(lines), driver_stats=stats))
    return vlib.finish(ctx, violations, known_hits, "proof", cov, cfg["assumptions"])


def replay(ctx, path):
    """Re-evaluates the stored case (inputs + recorded observations) through model and oracle with Gen.v regenerated
    from $VERIF_REPO, then re-runs the corpus on the current tree."""
    obj = json.load(open(path))
    case = obj.get("case") or obj.get("first_case")
    if not case:
        print(json.dumps(obj, indent=1)[:4000])
        return 0
    vlib.coq_build(["theories/Common/CaseLib.vo"] + vlib.prop_targets(PROP))
    exe, blog = vlib.go_build(ctx)
    if exe is None:
        print("driver does not build:\n" + blog[-2000:])
        return 1
    gok, glog, _ = make_gen(ctx, exe)
    gq = [(os.path.join(ctx.build, "gen"), "VerifGen")]
    print("replay %s: kind=%s class=%s" % (path, obj.get("kind"), obj.get("cls")))
    print("sample:", json.dumps(case.get("sample"))[:3000])
    failing, _ = vlib.coq_eval_cases(ctx, CFG["imports"], CFG["checker"], [case["coq"]], extra_q=gq)
    print("recorded observations -> %s" % ("agree=true ok=true" if not failing else "agree=%s ok=%s" % (failing[0][1], failing[0][2])))
    lines = vlib.run_driver(ctx, exe, ["-n", 11, "-seed", 1])
    cur = [l for l in lines if l.get("key") == case.get("key")]
    if cur:
        failing, _ = vlib.coq_eval_cases(ctx, CFG["imports"], CFG["checker"], [cur[0]["coq"]], extra_q=gq)
        print("same input on the current tree: observations %s -> %s" % (json.dumps(cur[0]["sample"]["observations"]),
              "agree=true ok=true" if not failing else "agree=%s ok=%s" % (failing[0][1], failing[0][2])))
    return 0


MANIFEST = dict(
    category="proof",
    text="Theorems over an executable model of Config.UpdateFrom/resolve for every parameter table, parse function, "
         "configuration and key order (the highest-priority source that sets a parameter decides its value and the error "
         "outcome; shadowed values and datastore values of local-only parameters are irrelevant; independence of the key "
         "order: for the sorted code now in the tree for ALL inputs incl. case-variant spellings, the last spelling in byte "
         "order wins; Config.Err is sticky; an update that leaves the raw config unchanged reports no changed field; a "
         "ConfigUpdate message decides alone), with the parameter table, source order and Source.Local() TRANSLATED from the real config package on "
         "every run, plus a correspondence run of model and spec oracle against the real Config.UpdateFrom.",
    note="Trusted: Coq kernel; hand-written model tied to the code by the correspondence run; reflection-based translator; Go "
         "driver and its canonical rendering; Param.Parse as an oracle.",
)
