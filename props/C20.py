import vlib

CFG = dict(
    imports=["From Verif.Common Require Import Cas.", "From Verif.C19 Require Import Model.", "From Verif.C20 Require Import Model Spec."],
    checker="check_case",
    n=dict(quick=50, thorough=600),
    shard=20,
    deps=["C19"],
    harness_dirs=["C19", "C20"],
    rule="each case = 1-4 disjoint IPv4 pools (1-4 blocks of /26../30, allowedUses subsets of Workload/Tunnel/LoadBalancer, node and "
         "namespace selectors (conjunctions of ==, !=, has, !has), disabled and Manual pools), 2-3 labelled nodes, 0-5 IP reservations "
         "(single addresses, pairs, half blocks, whole blocks, two blocks; overlapping), an IPAMConfig (StrictAffinity / "
         "AutoAllocateBlocks / MaxBlocksPerHost) and a history of 25-40 calls of the REAL ipamClient on the in-memory CAS backend: "
         "AutoAssign (node, use, namespace labels or nil, requested pools incl. disabled / unknown ones, per-request block limit, "
         "1-9 addresses), ReleaseIPs, ReleaseByHandle, ReleaseAffinity.  A quarter of the AutoAssign calls run on the membackend "
         "scheduler and are PREEMPTED once (after a random number of datastore accesses, at the latest when about to write a block "
         "for the first time) by 1-3 complete operations: ReleaseAffinity of one of the caller's blocks (mustBeEmpty or not), "
         "AutoAssign / ReleaseByHandle of another node; the model replays the same schedule (run_upto).  Every fifth case is the "
         "boundary stream (many reservations, many requested pools).  Compared per operation: returned addresses with masks + error "
         "class + datastore summary (blocks with affinity and size, affinities) at its start and at its return; at the end the full "
         "datastore.  Non-trivial = at least one fully served AutoAssign, one failed or partial AutoAssign and one effective release.  "
         "Distinct by (config, schedule).",
    trusted=["Coq 8.16.1 kernel + vm_compute",
             "hand-written model coq/theories/C20/Model.v (+ C19/Model.v, Common/Cas.v) tied to libcalico-go/lib/ipam by this correspondence run",
             "in-memory CAS backend harness/C19/cmd/membackend; fake PoolAccessor (enabled = the real clientv3.filterIPPool) and fake "
             "IPReservation lister in harness/C20", "Go driver harness/C20 (overlay build, tag verif)"],
    assumptions=["datastore = linearizable key/value store with per-key compare-and-swap on a revision (Common/Cas.v)",
                 "IPv4; pools pairwise disjoint, block sizes 2..64 addresses; IPCooldownSeconds=0; no HostReservedAttr; no MaxAllocToHandlePerIPVersion",
                 "randomBlockGenerator's start index per (pool, node) and the Go map order of ReleaseByHandle are inputs",
                 "blocks claimed less than one minute ago are never reclaimed (EmptyBlockMinReclaimAge)",
                 "selectors restricted to conjunctions of ==, !=, has(), !has() atoms (selector semantics itself is C06/C07)",
                 "cidrSliceFilter.MatchesWholeCIDR modelled by its meaning (every address of the block reserved)",
                 "two variants of the code are modelled and selected per run by probes of the tree under test (flags g_fx, g_capfix in "
                 "every case): claimAffineBlock with/without fixes/C22-claim-existing-block-bumps-revision.patch, and the block limit "
                 "counting the usable pools' blocks (pinned) or all blocks affine to the host (fixes/C20-count-all-affine-blocks.patch); "
                 "all run theorems are stated for every configuration, hence both variants"],
)

def classify(line):
    for t in line.get("tags") or []:
        if t.startswith("finding:"):
            return t[len("finding:"):]
    return None

CFG["classify"] = classify


def run(ctx):
    return vlib.standard_flow(ctx, CFG)


def replay(ctx, path):
    import json, os
    obj = json.load(open(path))
    case = obj.get("case") or obj.get("first_case") or obj
    args = (case.get("sample") or {}).get("replay_args")
    coq_term = case.get("coq")
    exe, log = vlib.go_build(ctx, CFG["harness_dirs"])
    if exe and args:
        lines = vlib.run_driver(ctx, exe, args.split())
        if lines:
            coq_term = lines[0]["coq"]
            print("re-ran the implementation: %s" % args)
            for k in ("pools", "reservations", "nodes", "ipamconfig"):
                print("  %s: %s" % (k, lines[0]["sample"].get(k)))
            for i, l in enumerate(lines[0]["sample"].get("ops", [])):
                print("  %2d %s" % (i, l))
    src = os.path.join(ctx.build, "replay.v")
    open(src, "w").write("From Coq Require Import List NArith ZArith String.\nImport ListNotations.\n" + "\n".join(CFG["imports"]) + "\n"
                         "Definition c := " + coq_term + ".\n"
                         "(* (model agrees with the implementation, oracle accepts the implementation) *)\n"
                         "Eval vm_compute in check_case c.\n"
                         "(* oracle without / with the literal reading of the block cap *)\n"
                         "Eval vm_compute in (ok_case c, ok_case_global_cap c).\n"
                         "(* index of the first operation where model and implementation differ *)\n"
                         "Eval vm_compute in first_bad c.\n")
    ok, out = vlib.coqc(src, timeout=300)
    print(out[-6000:])
    return 0 if ok else 1

MANIFEST = dict(
    category="proof",
    text="Theorems over an executable model of AutoAssign (pool selection by use / node / namespace / requested pools, reservations, "
         "strict affinity, block cap) as a client program on a CAS store, for every schedule of any number of clients, plus a "
         "correspondence run of the model and a spec oracle against the real ipamClient on an in-memory CAS backend.",
    note="Trusted: Coq kernel; hand-written model tied to the code only by the correspondence run; in-memory backend and fake pool / reservation accessors.",
)
