import vlib

CFG = dict(
    imports=["From Verif.C10 Require Import Nf Model Spec.", "Open Scope N_scope."],
    checker="check_case",
    n=dict(quick=400, thorough=12000),
    shard=50,
    rule="interface-name sets (0-21 names, <=15 bytes) built from workload prefixes / host-style bases with tiny alphabets "
         "so that shared prefixes, names that are prefixes of others, one-char suffixes and duplicates are common; both "
         "renderers (iptables '+', nftables '*' incl. verdict maps via DispatchMappings+CanonicaliseMapMember); workload "
         "dispatch and all three host dispatch entry points with/without default chain; ~1/12 boundary cases (empty name, "
         "name ending in the wildcard byte). Probes per case: every name, every proper prefix, one-char extensions, "
         "last-char changes, workload prefixes, unrelated names, each with a decoy on the other direction. "
         "non-trivial = valid stream and >=2 distinct names; distinct by (renderer, config, kind, sorted names)",
    trusted=["Coq 8.16.1 kernel + vm_compute",
             "abstract netfilter semantics coq/theories/C10/Nf.v (exact / trailing-wildcard interface match, goto/jump/return, "
             "verdict-map lookup then fall through) stands for the kernel's",
             "hand-written model coq/theories/C10/Model.v tied to felix/rules/dispatch.go by this correspondence run",
             "Go driver harness/C10 (overlay build, tag verif): parses the renderer's own Render() text and action types, "
             "hard error on anything unrecognised; chain names mapped back to (kind, interface) one-to-one (collisions are C37's subject)"],
    assumptions=["interface names are non-empty and do not end in the dataplane's wildcard byte ('+' iptables, '*' nftables); "
                 "the v3 validator admits only [a-zA-Z0-9_.-]{1,15}",
                 "EndpointChainName is injective on the names of one case (checked by the driver on every case)"],
)

def run(ctx):
    return vlib.standard_flow(ctx, CFG)


def replay(ctx, path):
    """Re-evaluate one replay file inside Coq: model == implementation?, oracle verdict, and the
    (dispatch chain kind, probe interface, verdict reached, verdict the specification demands) of every failing probe."""
    import json, os
    r = json.load(open(path))
    case = r.get("case") or r.get("first_case")
    if not case:
        print(json.dumps(r, indent=1)); return 0
    print("kind:", r.get("kind"), "| sample:", json.dumps(case.get("sample")))
    ok, log = vlib.coq_build(vlib.prop_targets("Common") + vlib.prop_targets("C10"))
    if not ok:
        print(log[-3000:]); return 1
    v = os.path.join(ctx.build, "replay_case.v")
    with open(v, "w") as f:
        f.write("From Coq Require Import List NArith.\nImport ListNotations.\n" + "\n".join(CFG["imports"]) + "\nFrom Verif.C10 Require Import Diag.\n")
        f.write("Definition c : case := %s.\n" % case["coq"])
        f.write("Set Printing Width 200.\nSet Printing Depth 100000.\n")
        f.write("Eval vm_compute in (check_case c).\nEval vm_compute in (diagnose c).\n")
    ok, out = vlib.coqc(v)
    print(out[-6000:])
    return 0 if ok else 1

MANIFEST = dict(
    category="proof",
    text="Theorems over an executable model of the dispatch-chain construction (sort, common prefix, prefix tree with goto "
         "child chains, nftables verdict-map variant, host dispatch end rules) evaluated in a small abstract netfilter "
         "machine: for every name set and every probe interface, dispatch reaches exactly the probe's own endpoint chain "
         "iff it is in the set, otherwise the deny/default/return outcome the property names; plus a correspondence run "
         "that renders with the real iptables and nftables renderers and checks model == implementation structurally and "
         "the spec oracle on the implementation's chains for generated probes.",
    note="Trusted: Coq kernel; netfilter interface-match semantics as modelled in Nf.v; hand model tied to code by the correspondence run; Go driver.",
)
