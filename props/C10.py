import json, os
import vlib

KEY_SETMARK = "setmark-child-no-end-rules"


def classify(line):
    # known finding: probes of a set-endpoint-mark case that are in neither endpoint set but match the prefix of a
    # bin with a child chain; the driver puts exactly those probes into a case of their own and tags it.
    if "setmark:unknown-probe-captured-by-child" in (line.get("tags") or []):
        return KEY_SETMARK
    return None


CFG = dict(
    classify=classify,
    imports=["From Verif.C10 Require Import Nf Model Spec MapsModel MapsSpec.", "Open Scope N_scope."],
    checker="check_any",
    n=dict(quick=400, thorough=1600),
    shard=50,
    rule="interface-name sets (0-21 names, <=15 bytes) built from workload prefixes / host-style bases with tiny alphabets "
         "so that shared prefixes, names that are prefixes of others, one-char suffixes and duplicates are common; both "
         "renderers (iptables '+', nftables '*' incl. verdict maps via DispatchMappings+CanonicaliseMapMember); workload "
         "dispatch and all three host dispatch entry points with/without default chain; ~1/12 boundary cases (empty name, "
         "name ending in the wildcard byte). Probes per case: every name, every proper prefix, one-char extensions, "
         "last-char changes, workload prefixes, unrelated names, each with a decoy on the other direction. "
         "non-trivial = valid stream and >=2 distinct names; distinct by (renderer, config, kind, sorted names). "
         "PART 2 (1/7 of the cases, tag part:maps-sync): histories of 3-8 rounds on the REAL nftables.NftablesTable+Maps over the "
         "package's fake nft: per round at most one AddOrReplaceMap per dispatch map (members = real DispatchMappings of a random "
         "subset of 6 interfaces, duplicates included) then Apply() under a scripted failure schedule (per transaction: fail?, per "
         "resync: ListAll fails?, element listings fail?; shapes: healthy, write failures only, outage of 4-8 failed writes with "
         "failing reads, total outage (Apply gives up), random mix); observed after every Apply: gave up?, number of transactions "
         "and resyncs, the fake kernel's dispatch maps; non-trivial = a table recreate or a failed element listing happened",
    trusted=["Coq 8.16.1 kernel + vm_compute",
             "abstract netfilter semantics coq/theories/C10/Nf.v (exact / trailing-wildcard interface match, goto/jump/return, "
             "verdict-map lookup then fall through) stands for the kernel's",
             "hand-written model coq/theories/C10/Model.v tied to felix/rules/dispatch.go by this correspondence run",
             "hand-written model coq/theories/C10/MapsModel.v (Maps + Apply/retry/recreate loop + abstract kernel table) tied to "
             "felix/nftables/maps.go and table.go by the part-2 correspondence run (kernel maps, transaction and resync counts per Apply)",
             "in-package test driver harness/C10/shims/felix/nftables/zz_verif_c10_test.go and the package's fake nft (fake_test.go, knftables.Fake)",
             "Go driver harness/C10 (overlay build, tag verif): parses the renderer's own Render() text and action types, "
             "hard error on anything unrecognised; chain names mapped back to (kind, interface) one-to-one (collisions are C37's subject)"],
    assumptions=["interface names are non-empty and do not end in the dataplane's wildcard byte ('+' iptables, '*' nftables); "
                 "the v3 validator admits only [a-zA-Z0-9_.-]{1,15}",
                 "EndpointChainName is injective on the names of one case (checked by the driver on every case)",
                 "part 2: the kernel table is changed only by Felix's own transactions and starts absent; a transaction applies "
                 "atomically or not at all; dispatch-map members are key -> goto <that key's chain> (value determined by key); "
                 "RemoveMap is not modelled (Felix never removes the dispatch maps); every applyUpdates has a chain to rewrite, "
                 "so every attempt runs a transaction; at most one AddOrReplaceMap per map between two Apply() calls"],
)

NFT_PKG = "./felix/nftables/"


def _tree_key(ctx):
    """Identity of everything the two driver binaries are built from: the commit of $REPO, its uncommitted diff,
    its untracked files (by content), and the harness sources.  Same key => same binaries, so they can be reused."""
    import hashlib, subprocess, glob
    h = hashlib.sha256()
    def git(*a):
        return subprocess.run(["git", "-C", ctx.repo] + list(a), stdout=subprocess.PIPE, stderr=subprocess.DEVNULL).stdout
    head = git("rev-parse", "HEAD")
    if not head.strip():
        return None                      # not a git tree: no caching
    h.update(head); h.update(git("diff", "HEAD"))
    for f in sorted(git("ls-files", "-o", "--exclude-standard").decode().split("\n")):
        fp = os.path.join(ctx.repo, f)
        if f and os.path.isfile(fp):
            h.update(f.encode()); h.update(hashlib.sha256(open(fp, "rb").read()).digest())
    for f in sorted(glob.glob(os.path.join(vlib.HARNESS, "C10", "**", "*.go"), recursive=True)):
        h.update(f.encode()); h.update(open(f, "rb").read())
    h.update(json.dumps(sorted((k, v) for k, v in vlib.go_env().items() if k.startswith("GO") or k == "CGO_ENABLED")).encode())
    return h.hexdigest()[:24]


def _build(ctx, harness_dirs=None, pkg=None, tags="verif", timeout=2400):
    """Two drivers: the stand-alone renderer driver (part 1) and the in-package test binary of felix/nftables
    (part 2: the fake nft lives in that package's _test.go files).  Both are cached under .build/cache-C10/<key>
    where the key identifies the whole source tree + harness (see _tree_key), so an unchanged tree skips the builds."""
    import subprocess, shutil
    exe = os.path.join(ctx.build, "driver")
    texe = os.path.join(ctx.build, "driver_maps.test")
    key = _tree_key(ctx)
    cdir = os.path.join(vlib.ROOT, ".build", "cache-C10", key) if key else None
    if cdir and os.path.exists(os.path.join(cdir, "ok")):
        shutil.copy2(os.path.join(cdir, "driver"), exe)
        shutil.copy2(os.path.join(cdir, "driver_maps.test"), texe)
        ctx.log("drivers reused from cache %s" % key)
        return exe, "cached"
    exe, log = _orig_go_build(ctx, harness_dirs, pkg, tags, timeout)
    if exe is None:
        return None, log
    ov = vlib.make_overlay(ctx, harness_dirs)
    if os.path.exists(texe):
        os.remove(texe)
    r = subprocess.run(["timeout", str(timeout), "go", "test", "-c", "-tags", tags, "-overlay", ov, "-vet=off", "-o", texe, NFT_PKG],
                       cwd=ctx.repo, env=vlib.go_env(), stdout=subprocess.PIPE, stderr=subprocess.STDOUT, text=True)
    if r.returncode != 0 or not os.path.exists(texe):
        return None, log + "\n" + r.stdout
    if cdir:
        base = os.path.dirname(cdir)
        os.makedirs(base, exist_ok=True)
        old = sorted((os.path.getmtime(os.path.join(base, d)), d) for d in os.listdir(base))
        for _, d in old[:-3]:              # keep at most a few entries (disk is limited)
            shutil.rmtree(os.path.join(base, d), ignore_errors=True)
        tmp = cdir + ".tmp%d" % os.getpid()
        os.makedirs(tmp, exist_ok=True)
        shutil.copy2(exe, os.path.join(tmp, "driver")); shutil.copy2(texe, os.path.join(tmp, "driver_maps.test"))
        open(os.path.join(tmp, "ok"), "w").write(key)
        try:
            os.rename(tmp, cdir)
        except OSError:
            shutil.rmtree(tmp, ignore_errors=True)
    return exe, log


def _run(ctx, exe, args, timeout=3600, env=None):
    import subprocess
    n, seed = int(args[1]), int(args[3])
    n_maps = max(20, n // 8)
    lines = _orig_run_driver(ctx, exe, ["-n", n - n_maps, "-seed", seed], timeout=timeout, env=env)
    for l in lines:
        if "coq" in l:
            l["coq"] = "(CDispatch %s)" % l["coq"]
            l.setdefault("tags", []).append("part:rendering")
    out = os.path.join(ctx.build, "maps_cases.jsonl")
    if os.path.exists(out):
        os.remove(out)
    e = vlib.go_env()
    e.update(VERIF_C10_OUT=out, VERIF_C10_SEED=str(seed), VERIF_C10_N=str(n_maps))
    r = subprocess.run(["timeout", str(timeout), os.path.join(ctx.build, "driver_maps.test"), "-test.run", "^TestVerifC10Maps$", "-test.count=1"],
                       cwd=ctx.build, env=e, stdout=subprocess.PIPE, stderr=subprocess.STDOUT, text=True)
    if r.returncode != 0 or not os.path.exists(out):
        raise RuntimeError("maps driver failed (%d): %s" % (r.returncode, r.stdout[-3000:]))
    for l in open(out):
        if l.startswith("{"):
            d = json.loads(l)
            d["coq"] = "(CMaps %s)" % d["coq"]
            lines.append(d)
    return lines


def run(ctx):
    global _orig_go_build, _orig_run_driver
    _orig_go_build, _orig_run_driver = vlib.go_build, vlib.run_driver
    vlib.go_build, vlib.run_driver = _build, _run
    try:
        return vlib.standard_flow(ctx, CFG)
    finally:
        vlib.go_build, vlib.run_driver = _orig_go_build, _orig_run_driver


def replay(ctx, path):
    """Re-evaluate one replay file inside Coq: model == implementation?, oracle verdict, and the
    (dispatch chain kind, probe interface, verdict reached, verdict the specification demands) of every failing probe."""
    import json, os
    r = json.load(open(path))
    case = r.get("case") or r.get("first_case")
    if not case:
        print(json.dumps(r, indent=1)); return 0
    print("kind:", r.get("kind"), "| sample:", json.dumps(case.get("sample")))
    ok, log = vlib.coq_build(vlib.prop_targets("Common") + vlib.prop_targets("C10"))
    if not ok:
        print(log[-3000:]); return 1
    v = os.path.join(ctx.build, "replay_case.v")
    with open(v, "w") as f:
        f.write("From Coq Require Import List NArith.\nImport ListNotations.\n" + "\n".join(CFG["imports"]) + "\nFrom Verif.C10 Require Import Diag.\n")
        f.write("Definition c : anycase := %s.\n" % case["coq"])
        f.write("Set Printing Width 200.\nSet Printing Depth 100000.\n")
        f.write("Eval vm_compute in (check_any c).\n")
        if case["coq"].startswith("(CDispatch"):
            f.write("Eval vm_compute in (match c with CDispatch d => diagnose d | _ => [] end).\n")
        else:
            f.write("Eval vm_compute in (match c with CMaps m => (model_obs m, mc_obs m) | _ => ([], []) end).\n")
    ok, out = vlib.coqc(v)
    print(out[-6000:])
    return 0 if ok else 1

MANIFEST = dict(
    category="proof",
    text="Theorems over an executable model of the dispatch-chain construction (sort, common prefix, prefix tree with goto "
         "child chains, nftables verdict-map variant, host dispatch end rules) evaluated in a small abstract netfilter "
         "machine: for every name set and every probe interface, dispatch reaches exactly the probe's own endpoint chain "
         "iff it is in the set, otherwise the deny/default/return outcome the property names; plus a correspondence run "
         "that renders with the real iptables and nftables renderers and checks model == implementation structurally and "
         "the spec oracle on the implementation's chains for generated probes.  Part 2: an executable model of the nftables "
         "verdict-map programming layer (maps.go Maps, table.go Apply/retry/table-recreate) with the theorem that after ANY history "
         "of desired-map changes, failed transactions, failed listings, cache invalidations and table recreates, whenever Apply() "
         "returns the kernel's dispatch verdict maps equal the desired mappings exactly (invariant proof; hypotheses: only Felix "
         "writes the table, it starts absent - or the invariant holds, e.g. after one fully successful resync), composed with part 1 "
         "into 'known interface -> own chain, others dropped' over the kernel's map, the oracle-accepts-every-model-run theorem, "
         "and a correspondence run driving the real NftablesTable over the package's fake nft under injected transaction and "
         "listing failures.",
    note="Trusted: Coq kernel; netfilter interface-match semantics as modelled in Nf.v; hand model tied to code by the correspondence run; Go driver.",
)
