"""C43 - cluster routes take the path their pool's encapsulation requires."""
import vlib

CFG = dict(
    imports=["From Verif.Common Require Import Prefix.", "From Verif.C43 Require Import Model Spec.", "Open Scope N_scope."],
    checker="check_case",
    n=dict(quick=120, thorough=1440),
    shard=60,
    rule="histories (4-30 updates) of IP pools (IPIP/VXLAN x Always/CrossSubnet, no-encap, load-balancer-only, deleted), nodes "
         "(absent / known without IPv4 / address+subnet drawn from flat, split /25, single and nested subnet layouts, shared "
         "addresses), IPAM blocks (/26 /28 /30 /32, inside and outside pools; affinity none/local/remote; 0-3 allocations "
         "recorded for the affine node, another node or no node = borrowed addresses) and local workload endpoints (addresses "
         "in local blocks, in remote blocks, outside pools, equal to a block CIDR) fed to the REAL L3RouteResolver: random "
         "prefix (reverts, deletions, repeats) then one update per key in shuffled order; every 5th case is a scripted shape "
         "(local node last / local subnet moves / peer moves / local node deleted / local IPv4 appears or disappears / affinity "
         "moves with borrowed address / local workload before or after the remote block / pool mode flips), half of them with a "
         "random tail; 1 universe in 6 has overlapping pool and nested block keys (outside the datastore's invariants: model "
         "must agree, oracle is vacuous).  DUAL STACK: pools, blocks and workload addresses of an IPv6 family (inside one /96, "
         "IPv6 pools without IPIP), nodes with an IPv4 and/or IPv6 address+subnet, 4 dual-stack scripted shapes (local node arriving "
         "last / renumbered / deleted and back on both families, IPv6 subnet only); the IPv6 VXLAN and no-encap managers run too and "
         "both families' route sets and kernel routes are compared and judged by the oracle.  The emitted RouteUpdate/RouteRemove stream is accumulated and also handed to the "
         "REAL vxlan/ipip/noencap managers (routeManager) with a recording route table; host metadata / VTEPs for the nodes "
         "that have an address in the final state arrive before or after the history; CompleteDeferredWork at random points. "
         "non-trivial = the final route set has a remote-workload route of a pool with an encapsulation type and the history "
         "has >= 4 updates; distinct by history",
    trusted=["Coq 8.16.1 kernel + vm_compute",
             "hand-written model coq/theories/C43/Model.v tied to felix/calc/l3_route_resolver.go and felix/dataplane/linux/"
             "{route_mgr,vxlan_mgr,ipip_mgr,noencap_mgr}.go by this correspondence run",
             "the CIDR trie is represented by the map of its stored prefixes (C36 proves felix/ip/trie.go implements that map and "
             "LookupPath = stored prefixes covering the query, shortest first)",
             "Go driver harness/C43/cmd/main.go and the add-only shim harness/C43/shims/felix/dataplane/linux/zz_verif_c43.go "
             "(overlay build, tag verif)"],
    assumptions=["both IP families (IPv6 inside one /96, represented by the last 32 bits); nodes carry no IPIP/VXLAN/Wireguard tunnel addresses; routeSource CalicoIPAM (only local workload "
                 "endpoints reach the resolver); NAT-outgoing constant",
                 "the route managers know their parent device; host metadata / VTEPs exist exactly for the nodes that have an IPv4 "
                 "address in the final state (what VXLANResolver / the host-metadata path deliver)",
                 "iteration over Go maps/sets: flush()'s order over the dirty set is proved irrelevant (c43_flush_order_independent); "
                 "the other loops (cached routes of a block, nodeRoutes of a node, trie Visit) only mark CIDRs dirty or update "
                 "distinct CIDRs, the model runs them in list order (not proved; exercised by Go's randomised map order in every case)",
                 "the oracle's demands apply to states the datastore admits (valid_state: disjoint pools, disjoint blocks, blocks "
                 "inside or apart from pools, node addresses outside blocks, real subnets)"],
)


def run(ctx):
    return vlib.standard_flow(ctx, CFG)


MANIFEST = dict(
    category="proof",
    text="Theorems over an executable model of L3RouteResolver (trie of RouteInfo, dirty set, flush) and of the route managers' "
         "target selection: for every state the datastore admits, every remote block / borrowed address gets a direct route via "
         "its owner exactly when the pool is unencapsulated or cross-subnet with the owner in the local subnet, otherwise the "
         "pool's tunnel route; local non-/32 blocks are blackholed and a blackhole is never a local workload's own address; the "
         "managers' pending maps are a function of the route set for every message stream; flush() is independent of the dirty "
         "set's iteration order; dual stack (c43_order_independent_dual: both families after any dual-stack history); c43_order_independent: after ANY history of pool, block, node and workload updates (block keys "
         "never overlapping) the route set held downstream is the function of the final datastore state (invariant: no stale "
         "routes + trie / node table / allPools / blockToRoutes / workloadIDToCIDRs are images of the datastore state); the "
         "originally pinned code is refuted with replayed witnesses (fixed in /repo by b294575).  Correspondence run of model "
         "and spec oracle against the real resolver and the real vxlan/ipip/noencap managers on generated histories.",
    note="Trusted: Coq kernel; hand-written model tied to the code only by the correspondence run; Go driver + shim.",
)
