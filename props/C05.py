import vlib

def classify(case_line):
    # The dedicated stream:unknown-action cases (every 10th) make rules invalid by an action outside the validator's
    # backendAction set; the main stream never does, so nothing else can hide behind this key.
    if "stream:unknown-action" in (case_line.get("tags") or []):
        return "rule-action-not-validated"
    # Likewise the stream:hep-label cases (every 10th, offset 5) give a host endpoint a label value that breaks the
    # validator's "labels" rule; the main stream never does.
    if "stream:hep-label" in (case_line.get("tags") or []):
        return "hostendpoint-labels-not-validated"
    return None


CFG = dict(
    classify=classify,
    imports=["From Verif.Common Require Import Packet PolicyRef Labels.", "From Verif.C05 Require Import Model Spec ModelSync SpecSync."],
    checker="check_scase",
    n=dict(quick=90, thorough=3000),
    shard=15,
    rule="histories of 10-37 datastore updates, delivered to the real ValidationFilter.OnUpdates in BATCHES (a start-of-day "
         "snapshot of 3-6 updates, then single updates and coalesced bursts of 2-6; a third of the batches are invalid-heavy: "
         "0/1/2/3+ invalid values per batch at any positions; forwarded batch checked position by position, the caller's slice "
         "checked for mutation) interleaved with sync-status messages (optional WaitForDatastore / ResyncInProgress, InSync at a "
         "random batch boundary or at the very end, repeated InSync; the end-of-resync warning is captured through a logrus hook), over 4 profiles, 4 policies, 3 tiers, 3 workload + 2 host endpoints, fed through "
         "the real ValidationFilter into the real ActiveRulesCalculator (3 of 4 cases: callbacks compared message for message) or "
         "into the whole real calculation graph + EventSequencer (every 4th case: proto.ActiveProfileUpdate/Remove compared as "
         "the dataplane's profile view after every update); every 5th case chains Typha's own ValidationFilter in front of "
         "Felix's, as in a Typha deployment; values are valid or made invalid in one of ~20 ways; every 10th case "
         "is the unknown-rule-action stream, another 10th the invalid-host-endpoint-label stream; "
         "non-trivial = the deny stand-in was emitted for a referenced missing profile AND the history contains a late creation, "
         "a delete while referenced, or an invalid version written over a valid one; distinct by update sequence",
    trusted=["Coq 8.16.1 kernel + vm_compute",
             "hand-written model coq/theories/C05/Model.v tied to felix/calc/active_rules_calculator.go, validation_filter.go and "
             "felix/labelindex/label_inheritance_index.go by this correspondence run",
             "Go driver harness/C05 (overlay build, tag verif): its mapping of model.Rule/Policy/ProfileRules to the abstract values"],
    assumptions=["validate : value -> bool is universally quantified in the theorems; in the correspondence run it is the generator's "
                 "statement of which objects break a rule of the v1 validator / validateWorkloadEndpoint, and the real validators are "
                 "checked against it (oracle clause ok_filter)",
                 "Go map iteration orders (label-index scan order, added/removed profile id maps) are universally quantified inputs "
                 "of every model step (i_sched may even be wrong, partial or duplicated); the ARC-mode correspondence reads them off "
                 "the implementation's own trace, the whole-graph mode compares order-independent profile views",
                 "domain: no v3 Profile resources (labels to apply) are fed, so endpoints do not inherit labels; rules use action / "
                 "protocol / destination ports / ip_version only; the PolicyResolver/PolicySorter (tier ordering, invalid tiers "
                 "sorting last) is NOT modelled here: tiers enter the ARC only through its counters, and the verdict theorems are "
                 "stated for every way of assembling tiers from the dataplane's view",
                 "c05_no_panic assumes well-typed updates (the value's type matches its key), as the typed syncer guarantees"],
)


def run(ctx):
    return vlib.standard_flow(ctx, CFG)


MANIFEST = dict(
    category="proof",
    text="Theorems over an executable model of ValidationFilter + ActiveRulesCalculator + label index for every update history and "
         "every Go map iteration order (a referenced missing/invalid profile is emitted as the single-deny stand-in and denies every "
         "packet reaching it; a late profile's own rules replace it; an invalid write is message-for-message a delete; never more "
         "open than absence; the dataplane holds exactly the current valid version of every selecting policy; no panic branch is "
         "reachable; status messages change nothing and the stand-in is there before, across and after the first InSync; the "
         "end-of-resync warning names exactly the dangling references), plus a correspondence run of model and spec oracle against the real filter and calculator (callback level) "
         "and against the whole real calculation graph + EventSequencer (proto.ActiveProfileUpdate level).",
    note="Trusted: Coq kernel; hand-written model tied to the code only by the correspondence run; Go driver.",
)
