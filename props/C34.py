"""C34 - tiered policy authorization is correct and race-free (proof by translation + model).

Flow of one run (everything is re-derived from $VERIF_REPO):
  1. build coq/theories/C34 (Model.v: closures' writes as steps, interleavings, verdict; Spec.v: the property; Proofs.v:
     a variable written at most once ends with the same value under every interleaving);
  2. build + run the go/ast TRANSLATOR harness/C34/cmd/translate over authorizer.go: for each `go func` literal of
     AuthorizeTierOperation the outer variables it writes / reads, the a.Authorize result assignments, the question its
     attrs literal asks, the parent's concurrent statements, wg.Add(n), the decision expression after wg.Wait() -> Gen.v;
  3. re-check coq/gen/C34/Props.v (c34_shape, c34_schedule_independent, c34_decision) and PropsRace.v (c34_race_free)
     against the regenerated Gen.v.  When PropsRace.v does not hold, PropsRaceRefuted.v (c34_race_refuted) is checked and
     the conflicting (variable, closure, closure) triples computed by Coq from the access sets are the replay;
  4. correspondence: the real AuthorizeTierOperation over a scripted authorizer for all 27 decisions x 8 error flags x
     4 request shapes; model verdict and Spec oracle evaluated inside Coq;
  5. supporting evidence, in parallel: `go test -race -run TestVerifC34Race` (same combinations, randomised sleeps in the
     scripted authorizer).  A race report or a wrong decision there is reported as a violation as well.
"""
import hashlib, json, os, re, subprocess, threading, time
import vlib

PROP = "C34"
GEN_DIR = os.path.join(vlib.COQ, "gen", PROP)
PKG = "./apiserver/pkg/registry/projectcalico/authorizer/"

TRUSTED = [
    "Coq 8.16.1 kernel + vm_compute",
    "translator harness/C34/cmd/translate (go/ast with the parser's identifier resolution; refuses unknown shapes): a closure's "
    "access to a variable of the enclosing function is a WRITE when the identifier (or the base of a selector/index/deref) is the "
    "target of an assignment, ++/--, a range clause, a var declaration or has its address taken, otherwise a READ",
    "interleaving (sequentially consistent) semantics of the goroutines' writes in Model.v; c34_race_free (no conflicting "
    "accesses between concurrent parties) + wg.Add/Done/Wait (c34_shape) is what justifies it for Go (DRF-SC)",
    "the underlying authorizer's Authorize is itself safe for concurrent use and touches none of the method's variables",
    "Go driver harness/C34 (overlay build, tag verif); go test -race as supporting evidence only",
]
ASSUMPTIONS = [
    "a.Authorizer is non-nil and the request context carries authorizer attributes (otherwise the method returns before starting goroutines)",
    "the three goroutines are the only concurrency in the method; wg.Wait() orders their writes before the decision is read",
]
RULE = ("complete enumeration: decision of each of the three questions in {Deny, Allow, NoOpinion} x error flag of each x 4 request "
        "shapes (GlobalNetworkPolicy get by name, list; NetworkPolicy create, delete by bare name); per-question delays from the seed "
        "vary the completion order; non-trivial = tier GET allowed or some error flag set; distinct by the whole input")


def scan_gen_forbidden():
    bad = []
    d = os.path.join(vlib.COQ, "gen", PROP)
    for f in sorted(os.listdir(d)):
        if f.endswith(".v"):
            txt = re.sub(r"\(\*.*?\*\)", " ", open(os.path.join(d, f)).read(), flags=re.S)
            for i, line in enumerate(txt.split("\n"), 1):
                if vlib.FORBIDDEN.search(line) or re.match(r"\s*(Variables?|Hypothes[ie]s|Context)\b", line):
                    bad.append("coq/gen/%s/%s:%d: %s" % (PROP, f, i, line.strip()))
    return bad


def build_tools(ctx):
    ov = vlib.make_overlay(ctx)
    out = os.path.join(ctx.build, "bin")
    os.makedirs(out, exist_ok=True)
    for f in os.listdir(out):
        os.remove(os.path.join(out, f))
    r = subprocess.run(["timeout", "2400", "go", "build", "-tags", "verif", "-overlay", ov, "-o", out + "/", "./zz_verif/c34", "./zz_verif/c34/translate"],
                       cwd=ctx.repo, env=vlib.go_env(), stdout=subprocess.PIPE, stderr=subprocess.STDOUT, text=True)
    drv, tr = os.path.join(out, "c34"), os.path.join(out, "translate")
    return (drv if os.path.exists(drv) else None), (tr if os.path.exists(tr) else None), r.stdout


def translate(ctx, tr):
    r = subprocess.run(["timeout", "120", tr, "-repo", ctx.repo], stdout=subprocess.PIPE, stderr=subprocess.PIPE, text=True)
    if r.returncode != 0:
        raise ValueError((r.stderr or "translator failed").strip()[-1500:])
    d = json.loads(r.stdout)
    return d["gen"], d["info"]


def coq_conflicts(ctx, gq):
    """let Coq compute the conflicting (variable, party, party) triples from the generated access sets"""
    p = os.path.join(ctx.build, "Diag.v")
    open(p, "w").write("From Coq Require Import List String.\nFrom Verif.C34 Require Import Model.\nFrom VerifGen Require Import Gen.\n"
                       "Set Printing Width 100000.\nEval vm_compute in (conflicts G).\n")
    ok, out = vlib.coqc(p, extra_q=gq)
    return sorted(set(re.findall(r"\(\"(\w+)\",\s*(\d+),\s*(\d+)\)", out))) if ok else []


def run(ctx):
    violations, known_hits = [], []
    kf = dict(vlib.known_findings(PROP))
    built, race = {}, {}
    bt = threading.Thread(target=lambda: built.update(r=build_tools(ctx)))
    bt.start()

    def _race():
        t0 = time.time()
        ok, out = vlib.go_test(ctx, PKG, "TestVerifC34Race", race=True, timeout=1500,
                               env={"VERIF_SEED": str(ctx.seed), "VERIF_ROUNDS": "2" if ctx.tier == "quick" else "12"})
        race.update(ok=ok, out=out, secs=round(time.time() - t0, 1))
    rt = threading.Thread(target=_race, daemon=True)
    rt.start()

    ctx.log("building Coq development")
    ok, log = vlib.coq_build(["theories/Common/CaseLib.vo"] + vlib.prop_targets(PROP))
    forb = vlib.scan_forbidden([PROP]) + scan_gen_forbidden()
    proof_broken = None
    if not ok:
        proof_broken = "Coq build failed:\n" + log[-4000:]
        ctx.log(proof_broken)
    elif forb:
        proof_broken = "forbidden declarations: " + "; ".join(forb)

    ctx.log("waiting for the translator / driver build from %s" % ctx.repo)
    bt.join()
    drv, tr, blog = built.get("r", (None, None, "build thread died"))

    theorems, axioms = [], set()
    obligations = discharged = 0
    tinfo, gen_ok, race_refuted, conflicts = {}, False, False, []
    gq = [(os.path.join(ctx.build, "gen"), "VerifGen")]
    if tr is None:
        proof_broken = (proof_broken or "") + "\ntranslator does not build: " + blog[-2000:]
    elif ok and not forb:
        try:
            gen_text, tinfo = translate(ctx, tr)
            ctx.log("translated: %s" % json.dumps(tinfo)[:600])
            pr = vlib.coq_gen(ctx, gen_text, os.path.join(GEN_DIR, "Props.v"))
            gen_ok = os.path.exists(os.path.join(ctx.build, "gen", "Gen.vo"))
            obligations += max(pr["obligations"], 3); discharged += pr["discharged"]; theorems += pr["theorems"]; axioms.update(pr["axioms"])
            if not pr["ok"]:
                proof_broken = (proof_broken or "") + "\ncoq/gen/C34/Props.v (c34_shape / c34_schedule_independent / c34_decision) does not check against the regenerated Gen.v: " + pr["log"][-3000:]
            if gen_ok:
                obligations += 1
                pb = vlib.coq_props(ctx, props_file=os.path.join(GEN_DIR, "PropsRace.v"), extra_q=gq)
                if pb["ok"]:
                    discharged += pb["discharged"]; theorems += pb["theorems"]; axioms.update(pb["axioms"])
                else:
                    conflicts = coq_conflicts(ctx, gq)
                    pbr = vlib.coq_props(ctx, props_file=os.path.join(GEN_DIR, "PropsRaceRefuted.v"), extra_q=gq)
                    if pbr["ok"] or conflicts:
                        race_refuted = True
                        theorems += pbr["theorems"]; axioms.update(pbr["axioms"])
                        ctx.log("c34_race_free does not hold; conflicts computed from the generated access sets: %s" % conflicts)
                    else:
                        proof_broken = (proof_broken or "") + "\nneither PropsRace.v nor PropsRaceRefuted.v checks: " + pb["log"][-1500:] + pbr["log"][-1500:]
        except (ValueError, OSError) as e:
            proof_broken = (proof_broken or "") + "\ntranslator refused the source: " + str(e)
            ctx.log("translator refused: %s" % e)
    ctx.log("proof obligations: %d, discharged: %d, axioms: %s" % (obligations, discharged, sorted(axioms)))

    def coverage(extra=None):
        cov = dict(obligations=max(obligations, 4), discharged=discharged,
                   checker_cmd="coqc theories/C34/*.v ; go build -tags verif -overlay ... ./zz_verif/c34/translate && translate -repo $VERIF_REPO > Gen.v ; "
                               "coqc Gen.v ; coqc coq/gen/C34/Props.v PropsRace.v (Print Assumptions) ; driver ; coqc cases_*.v ; go test -race -run TestVerifC34Race",
                   trusted_base=TRUSTED + ["Print Assumptions: " + (", ".join(sorted(axioms)) if axioms else
                                           "Closed under the global context (no axioms) for every theorem")],
                   theorems=theorems, translated=tinfo, rule=RULE, repo=ctx.repo, exhaustive=True,
                   evaluations=0, distinct_nontrivial=0, samples=[])
        cov.update(extra or {})
        return cov

    if drv is None:
        rp = vlib.write_replay(ctx, "driver-build", dict(kind="driver-build-failure", log=(blog or "")[-6000:], proof=proof_broken,
                               unchecked="correspondence C34 (driver does not build against the tree)"))
        return vlib.finish(ctx, [(rp, "no-failing-input-found")], [], "proof", coverage(), ASSUMPTIONS)

    ctx.log("running driver (complete enumeration), seed %d" % ctx.seed)
    try:
        lines = vlib.run_driver(ctx, drv, ["-seed", ctx.seed])
    except RuntimeError as e:
        # the real code panicked / crashed under the driver (e.g. "sync: negative WaitGroup counter")
        rp = vlib.write_replay(ctx, "driver-crash", dict(kind="implementation-crash", log=str(e)[-5000:], proof=proof_broken,
                               note="the real AuthorizeTierOperation crashed while the driver ran the enumeration"))
        return vlib.finish(ctx, [(rp, "")], [], "proof", coverage(), ASSUMPTIONS)
    cases = [l for l in lines if "coq" in l]
    if gen_ok:
        imports, checker, q = ["From Verif.C34 Require Import Model Spec.", "From VerifGen Require Import Gen."], "(check_case G)", gq
    else:
        imports, checker, q = ["From Verif.C34 Require Import Model Spec."], "(fun c => (true, ok_case c))", ()
    failing, _ = vlib.coq_eval_cases(ctx, imports, checker, [c["coq"] for c in cases], shard=220, extra_q=q, par=8)
    ctx.log("cases: %d, failing: %d" % (len(cases), len(failing)))
    keys = {hashlib.sha1(c["key"].encode()).hexdigest() for c in cases}
    nontrivial = {hashlib.sha1(c["key"].encode()).hexdigest() for c in cases if c.get("nt")}
    oracle_fail = [(i, a, o) for (i, a, o) in failing if not o]
    disagree = [(i, a, o) for (i, a, o) in failing if o and not a]
    if oracle_fail:
        c = cases[oracle_fail[0][0]]
        rp = vlib.write_replay(ctx, "oracle-" + hashlib.sha1(c["key"].encode()).hexdigest()[:10],
                               dict(kind="oracle-failure", case=c, n_failing=len(oracle_fail), other_inputs=[cases[i]["key"] for (i, _, _) in oracle_fail[1:12]],
                                    note="the real AuthorizeTierOperation does not allow exactly when tier GET = Allow and (policy = Allow or wildcard = Allow), "
                                         "or did not ask exactly the three expected questions once each"))
        violations.append((rp, ""))

    # supporting evidence: the race detector
    budget = 420 if ctx.tier == "quick" else 1500
    rt.join(max(5, budget - (time.time() - ctx.t0)))
    race_report, race_note = None, None
    if rt.is_alive():
        race_note = "go test -race did not finish within the budget of this tier (build of the race-instrumented packages)"
    else:
        out = race.get("out", "")
        if "WARNING: DATA RACE" in out:
            m = re.search(r"WARNING: DATA RACE.*?(?:==================|\Z)", out, flags=re.S)
            race_report = (m.group(0) if m else out)[:5000]
            race_note = "race detector: %d report(s)" % out.count("WARNING: DATA RACE")
        elif race.get("ok"):
            race_note = "go test -race -run TestVerifC34Race: ok, no race reported (%ss)" % race.get("secs")
        elif "cgo" in out.lower() or "gcc" in out.lower() or "-race requires" in out:
            race_note = "go test -race unavailable here: " + out[-300:]
        else:
            race_note = "go test -race -run TestVerifC34Race FAILED without a race report: " + out[-1500:]
    ctx.log(race_note)

    if race_refuted:
        names = {c["id"]: c for c in tinfo.get("closures", [])}
        cc = [t for t in conflicts if int(t[1]) < 100 and int(t[2]) < 100] or conflicts
        var, c1, c2 = cc[0] if cc else ("?", "0", "0")
        def party(k):
            k = int(k)
            if k in names:
                return dict(closure=k, go_statement_line=names[k]["line"], question=names[k]["query"], writes=names[k]["writes"], reads=names[k]["reads"])
            return dict(parent_statements_after_closures=k - 100)
        rp = vlib.write_replay(ctx, "race-" + var, dict(
            kind="proof-refuted", theorem="c34_race_refuted (coq/gen/C34/PropsRaceRefuted.v)", unchecked="c34_race_free",
            racing_variable=var, first=party(c1), second=party(c2), all_conflicts=[dict(variable=v, a=int(a), b=int(b)) for (v, a, b) in conflicts],
            file="apiserver/pkg/registry/projectcalico/authorizer/authorizer.go", race_detector=race_note, race_report=race_report,
            fix="/verif/fixes/C34-goroutine-local-err.patch",
            note="two goroutines started by AuthorizeTierOperation assign the same variable of the enclosing function without synchronisation (data race); "
                 "reproduce: CGO_ENABLED=1 go test -race -run TestNetworkPolicyByName " + PKG))
        key = "shared-" + var
        if key in kf:
            known_hits.append("key=%s %s" % (key, kf[key]))
        else:
            violations.append((rp, ""))
    elif race_report:
        rp = vlib.write_replay(ctx, "race-detector", dict(kind="race-detector", race_report=race_report, translated=tinfo,
                               note="the race detector reports a data race in the run of TestVerifC34Race although the translated access sets are conflict free"))
        violations.append((rp, ""))
    elif race_note and "FAILED" in race_note:
        rp = vlib.write_replay(ctx, "race-test", dict(kind="race-test-failure", log=race.get("out", "")[-4000:]))
        violations.append((rp, ""))

    if (disagree or proof_broken) and not violations:
        if disagree:
            rp = vlib.write_replay(ctx, "correspondence", dict(kind="correspondence-broken", proof=proof_broken, n_disagreements=len(disagree), first_case=cases[disagree[0][0]],
                                   unchecked="correspondence stream C34: the verdict of the model built from the translated Gen.v and the real AuthorizeTierOperation disagree"))
        else:
            rp = vlib.write_replay(ctx, "proof", dict(kind="proof-broken", unchecked=proof_broken, searched_cases=len(cases)))
        violations.append((rp, "no-failing-input-found"))

    cov = coverage(dict(evaluations=len(cases), distinct_nontrivial=len(nontrivial), distinct=len(keys),
                        samples=[c.get("sample") for c in cases[:3]], traces_validated_against_impl=len(cases),
                        disagreements_model_vs_impl=len(disagree), oracle_failures=len(oracle_fail),
                        input_distribution=vlib.distribution(lines), race_detector=race_note,
                        race_theorem=("c34_race_refuted (finding)" if race_refuted else "c34_race_free")))
    return vlib.finish(ctx, violations, known_hits, "proof", cov, ASSUMPTIONS)


def replay(ctx, path):
    obj = json.load(open(path))
    print("replay %s: kind=%s" % (path, obj.get("kind")))
    print(json.dumps({k: v for k, v in obj.items() if k != "race_report"}, indent=1)[:5000])
    if obj.get("race_report"):
        print(obj["race_report"][:3000])
    drv, tr, blog = build_tools(ctx)
    if tr:
        try:
            _, info = translate(ctx, tr)
            print("access sets on %s now:" % ctx.repo)
            for c in info["closures"]:
                print("  closure %d (line %d, %s): writes %s" % (c["id"], c["line"], c["query"], c["writes"]))
        except ValueError as e:
            print("translator refused:", e)
    return 0


MANIFEST = dict(
    category="proof",
    text="Theorems over access sets and the decision expression TRANSLATED on every run from authorizer.go (go/ast): the verdict is "
         "allowed iff tier GET = Allow and (policy = Allow or wildcard = Allow) for all answers (decisions x errors) and ALL "
         "interleavings of the three goroutines' writes; the verdict is schedule independent; concurrent closures have pairwise "
         "disjoint write / write-read sets (race freedom) - or, when they do not, the refutation with the racing variable; plus a "
         "correspondence run of the real AuthorizeTierOperation over a scripted authorizer (all 27x8 combinations x 4 request shapes) "
         "and a go test -race run with randomised delays as supporting evidence.",
    note="Trusted: Coq kernel; go/ast translator; interleaving semantics (justified by race freedom); Go driver.",
)
