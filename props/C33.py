"""C33 — Maglev lookup tables are complete, balanced and node-independent.

Own flow (a variant of vlib.standard_flow) because part of the model is TRANSLATED on every run:
  * translate(): reads $REPO's Go source and regenerates Gen.v: the prime table `pr`, the literal limit of
    NextPrimeUint16, MaglevEndpointLUTFactor, the int(min:max) range of BPFMaglevMaxEndpointsPerService and the
    byte-order identifier used in consistenthash.go (binary.NativeEndian / LittleEndian / BigEndian);
  * coq/gen/C33/PropsGenSizes.v and PropsGenBO.v are re-checked against that Gen.v.  When the source names
    binary.NativeEndian, PropsGenBO.v cannot hold; PropsGenBORefuted.v (concrete witness) is checked instead and
    the finding is reported with the witness case, run on the real code, as the replay.
"""
import glob, hashlib, json, os, re, subprocess, threading
import vlib

PROP = "C33"
GEN_DIR = os.path.join(vlib.COQ, "gen", PROP)
BO_KEY = "byteorder-native"

CFG = dict(
    imports=["From Verif.C33 Require Import Model ArithModel Spec.", "From VerifGen Require Import Gen."],
    n=dict(quick=100, thorough=1200),
    big=dict(quick=2, thorough=60),
    rule="(a) table-size cases: BPFMaglevMaxEndpointsPerService set through Felix's own parameter validation "
         "(boundary values, out-of-range values, random values; thorough tier: every value -2..3005), BPFLUTSizeMaglev() observed; "
         "(b) table cases: prime sizes 2..97, primes 101..997, default-ish sizes, sizes Felix configures (up to 15013), a boundary "
         "stream of composite sizes (outside the property's domain: model agreement only); 0..40 backends named as pod "
         "IPv4/IPv6 host:port, common-prefix names or short arbitrary byte strings, with duplicates, more backends than slots, "
         "exactly as many as slots; each set is inserted in 3-4 orders (given, reversed, shuffled, shuffled with repeats) into a "
         "ConsistentHash built by the Syncer's own constructor; non-trivial = prime size, >= 2 distinct backends, >= 2 orders; "
         "distinct by (size, names)",
    trusted=["Coq 8.16.1 kernel + vm_compute",
             "hand-written model coq/theories/C33/Model.v (ConsistentHash, fnv.New32, NextPrimeUint16's bisection) tied to the Go code by this correspondence run",
             "translator props/C33.py:translate (regular expressions over primes.go, constants.go, config_params.go, consistenthash.go) producing Gen.v",
             "Go driver harness/C33 (overlay build, tag verif; shim felix/bpf/proxy/zz_verif_c33.go calls Syncer.newConsistentHash)",
             "the table a CPU of the other byte order would produce is predicted by the model with the byte-order identifier found in the source "
             "(encoding/binary semantics of LittleEndian/BigEndian/NativeEndian as documented)"],
    assumptions=["Go int is 64 bit (amd64/arm64/ppc64le/s390x); c33_go_int64_exact: with a 64-bit two's-complement int and truncated % the Go "
                 "expressions equal the model's for every table size < 2^31 (general bound m*m <= 2^(bits-1), 2^32 <= 2^(bits-1)); "
                 "c33_go_int32_refuted: a 32-bit int is not enough",
                 "table size >= 2 (NextPrimeUint16 never returns less)",
                 "hash functions enter the theorems as arbitrary functions bytes -> bytes; the correspondence uses FNV-1 32 as configured"],
)


# ----------------------------------------------------------------------------- translator

def translate(repo):
    """Returns (gen_text, info).  Raises ValueError with a description when the source no longer has the expected shape."""
    def rd(rel):
        return open(os.path.join(repo, rel)).read()

    info = {}
    primes_src = rd("libcalico-go/lib/consistenthash/primes.go")
    m = re.search(r"var\s+pr\s*=\s*\[\]uint16\s*\{(.*?)\}", primes_src, flags=re.S)
    if not m:
        raise ValueError("primes.go: table `var pr = []uint16{...}` not found")
    body = re.sub(r"//[^\n]*", "", m.group(1))
    toks = [t.strip() for t in body.replace("\n", " ").split(",") if t.strip()]
    if not all(re.fullmatch(r"\d+", t) for t in toks):
        raise ValueError("primes.go: non-literal entry in table pr")
    table = [int(t) for t in toks]
    m = re.search(r"func NextPrimeUint16\(i int\) uint16 \{\s*if i > (\d+) \{", primes_src)
    if not m:
        raise ValueError("primes.go: NextPrimeUint16 guard `if i > <literal>` not found")
    limit = int(m.group(1))
    m = re.search(r"MaglevEndpointLUTFactor\s*=\s*(\d+)", rd("libcalico-go/lib/consistenthash/constants.go"))
    if not m:
        raise ValueError("constants.go: MaglevEndpointLUTFactor not found")
    factor = int(m.group(1))
    cfg_src = rd("felix/config/config_params.go")
    m = re.search(r"BPFMaglevMaxEndpointsPerService\s+int\s+`config:\"int\((-?\d+):(-?\d+)\);(\d+)", cfg_src)
    if not m:
        raise ValueError("config_params.go: BPFMaglevMaxEndpointsPerService `config:\"int(min:max);default\"` not found")
    cmin, cmax, cdef = int(m.group(1)), int(m.group(2)), int(m.group(3))
    if cmin < 0:
        raise ValueError("config_params.go: negative lower bound for BPFMaglevMaxEndpointsPerService")
    m = re.search(r"func \(config \*Config\) BPFLUTSizeMaglev\(\) int \{\s*return int\(consistenthash\.NextPrimeUint16\("
                  r"config\.BPFMaglevMaxEndpointsPerService \* consistenthash\.MaglevEndpointLUTFactor\)\)\s*\}", cfg_src)
    if not m:
        raise ValueError("config_params.go: BPFLUTSizeMaglev is no longer NextPrimeUint16(maxEndpoints * factor)")
    ch_src = re.sub(r"//[^\n]*", "", rd("felix/bpf/consistenthash/consistenthash.go"))
    orders = sorted(set(re.findall(r"\bbinary\.(\w+Endian)\b", ch_src)))
    if len(orders) != 1 or orders[0] not in ("NativeEndian", "LittleEndian", "BigEndian"):
        raise ValueError("consistenthash.go: expected exactly one byte-order identifier binary.<X>Endian, found %s" % orders)
    bo = {"NativeEndian": "BONative", "LittleEndian": "BOLittle", "BigEndian": "BOBig"}[orders[0]]

    def arith_of_source():
        # integer types of the arithmetic in hashFromString / offsetAndSKip / permutation
        TYPES = {"int": (64, True), "int64": (64, True), "uint": (64, False), "uint64": (64, False), "uintptr": (64, False),
                 "uint32": (32, False), "int32": (32, True), "uint16": (16, False), "int16": (16, True), "uint8": (8, False), "int8": (8, True)}
        def nows(x):
            return re.sub(r"\s+", "", x)
        def fbody(sig_re):
            mm = re.search(sig_re, ch_src)
            if not mm:
                return None, None
            rest = ch_src[mm.end():]
            end = re.search(r"\n}\n", rest)
            return mm, rest[:end.start()] if end else rest
        mh, hbody = fbody(r"func hashFromString\(s string, h hash\.Hash, seed \[\]byte\) \((\w+), error\) \{")
        if not mh:
            raise ValueError("consistenthash.go: hashFromString(s, h, seed) (T, error) not found")
        hash_ty = mh.group(1)
        mr = re.search(r"var result (\w+)", hbody)
        if not mr or mr.group(1) != "uint32":
            raise ValueError("consistenthash.go: hashFromString no longer decodes a uint32 (`var result uint32`)")
        hret = [nows(x) for x in re.findall(r"return (.+), nil", hbody)]
        if hret != ["int(result)"] and hret != ["result"] and hret != [hash_ty + "(result)"]:
            raise ValueError("consistenthash.go: hashFromString returns %s, expected a plain conversion of result" % hret)
        mo, obody = fbody(r"func \(ch \*ConsistentHash\) offsetAndSKip\(s string\) \((\w+), (\w+), error\) \{")
        if not mo:
            raise ValueError("consistenthash.go: offsetAndSKip(s) (T, T, error) not found")
        off_ty, skip_ty = mo.group(1), mo.group(2)
        if not (hash_ty == off_ty == skip_ty) or off_ty not in TYPES:
            raise ValueError("consistenthash.go: hash/offset/skip types %s/%s/%s are not one known integer type" % (hash_ty, off_ty, skip_ty))
        rets = [x for x in re.findall(r"return (.+), nil", obody)]
        if len(rets) != 1:
            raise ValueError("consistenthash.go: offsetAndSKip has %d successful returns" % len(rets))
        depth, cut = 0, None
        for i, c in enumerate(rets[0]):
            depth += c == "("
            depth -= c == ")"
            if c == "," and depth == 0:
                cut = i
                break
        if cut is None:
            raise ValueError("consistenthash.go: cannot split offsetAndSKip's return expression")
        off_e, skip_e = nows(rets[0][:cut]), nows(rets[0][cut + 1:])
        mty = r"(?:%s\()?" % off_ty
        if re.fullmatch(r"\(?offset%" + mty + r"ch\.m\)?\)?", off_e):
            off_red = True
        elif off_e == "offset":
            off_red = False
        else:
            raise ValueError("consistenthash.go: unrecognised offset expression %r" % off_e)
        if re.fullmatch(r"\(skip%" + mty + r"\(?ch\.m-1\)?\)?\)\+1", skip_e):
            skip_red = True
        elif skip_e == "skip":
            skip_red = False
        else:
            raise ValueError("consistenthash.go: unrecognised skip expression %r" % skip_e)
        mp, pbody = fbody(r"func \(ch \*ConsistentHash\) permutation\(backendName string\) \(\[\]int, error\) \{")
        if not mp:
            raise ValueError("consistenthash.go: permutation(backendName) ([]int, error) not found")
        pe = [nows(x) for x in re.findall(r"permutation\[j\] = (.+)", pbody)]
        if len(pe) != 1 or not re.fullmatch(r"(?:int\()?\(offset\+\(j\*skip\)\)%(ch\.m|m)\)?", pe[0]):
            raise ValueError("consistenthash.go: unrecognised preference-list expression %r" % pe)
        if pe[0].endswith("%m") or pe[0].endswith("%m)"):
            mm = re.search(r"\bm := (\w+)\(ch\.m\)", pbody)
            if not mm or mm.group(1) != off_ty:
                raise ValueError("consistenthash.go: permutation(): local m is not %s(ch.m)" % off_ty)
        bits, signed = TYPES[off_ty]
        arith = "{| a_bits := %d%%Z; a_signed := %s; a_offset_reduced := %s; a_skip_reduced := %s |}" % (
            bits, "true" if signed else "false", "true" if off_red else "false", "true" if skip_red else "false")
        return off_ty, off_red, skip_red, arith

    try:
        off_ty, off_red, skip_red, arith = arith_of_source()
        arith_gen = arith
    except ValueError as e:
        # unrecognised shape: the obligation over source_arith must fail (then the search runs); the driver's model
        # keeps the 64-bit int description so that only the implementation's own output decides
        info["arith_error"] = str(e)
        off_ty, off_red, skip_red = "UNRECOGNISED: " + str(e).replace("*)", "* )"), None, None
        arith = "{| a_bits := 64%Z; a_signed := true; a_offset_reduced := true; a_skip_reduced := true |}"
        arith_gen = "{| a_bits := 0%Z; a_signed := false; a_offset_reduced := false; a_skip_reduced := false |}"
    info.update(arith_type=off_ty, offset_reduced=off_red, skip_reduced=skip_red, arith=arith)
    info.update(table_len=len(table), table_max=max(table) if table else None, limit=limit, factor=factor,
                cfg_min=cmin, cfg_max=cmax, cfg_default=cdef, byte_order="binary." + orders[0], bo=bo)
    rows = []
    for i in range(0, len(table), 20):
        rows.append("  " + "; ".join(str(x) for x in table[i:i + 20]))
    gen = """(* GENERATED on every run by /verif/props/C33.py from the Go source of $VERIF_REPO.  Do not edit. *)
From Coq Require Import List NArith ZArith.
From Verif.C33 Require Import Model ArithModel Spec.
Import ListNotations.
Open Scope N_scope.

(* felix/bpf/consistenthash/consistenthash.go: %s *)
Definition hash_byte_order : byte_order := %s.

(* libcalico-go/lib/consistenthash/primes.go: var pr (%d entries) *)
Definition prime_table : list N := [
%s
].
(* NextPrimeUint16: if i > %d { panic } *)
Definition prime_limit : N := %d.
(* constants.go: MaglevEndpointLUTFactor *)
Definition lut_factor : N := %d.
(* felix/config/config_params.go: BPFMaglevMaxEndpointsPerService `config:"int(%d:%d);%d"` *)
Definition cfg_min : N := %d.
Definition cfg_max : N := %d.

(* consistenthash.go: hashFromString / offsetAndSKip / permutation compute in Go type `%s`;
   offset reduced mod m in offsetAndSKip: %s; skip reduced mod (m-1), plus 1: %s *)
Definition source_arith : arith := %s.

Definition env : size_env :=
  {| e_table := prime_table; e_limit := prime_limit; e_factor := lut_factor; e_min := cfg_min; e_max := cfg_max |}.
""" % ("binary." + orders[0], bo, len(table), ";\n".join(rows), limit, limit, factor, cmin, cmax, cdef, cmin, cmax,
       off_ty, off_red, skip_red, arith_gen)
    return gen, info


def scan_gen_forbidden():
    bad = []
    for f in sorted(glob.glob(os.path.join(GEN_DIR, "*.v"))):
        txt = re.sub(r"\(\*.*?\*\)", " ", open(f).read(), flags=re.S)
        for i, line in enumerate(txt.split("\n"), 1):
            if vlib.FORBIDDEN.search(line) or re.match(r"\s*(Variables?|Hypothes[ie]s|Context)\b", line):
                bad.append("%s:%d: %s" % (os.path.relpath(f, vlib.ROOT), i, line.strip()))
    return bad


# ----------------------------------------------------------------------------- flow

def run(ctx):
    cfg = CFG
    violations, known_hits = [], []
    kf = dict(vlib.known_findings(PROP))

    # the driver build does not depend on the Coq side: run it alongside
    built = {}
    def _build():
        built["r"] = vlib.go_build(ctx)
    bt = threading.Thread(target=_build)
    bt.start()

    # 1. hand-written development
    ctx.log("building Coq development")
    ok, log = vlib.coq_build(["theories/Common/CaseLib.vo"] + vlib.prop_targets(PROP))
    forb = vlib.scan_forbidden([PROP]) + scan_gen_forbidden()
    theorems, axioms = [], set()
    obligations = discharged = 0
    proof_broken = None
    if not ok:
        proof_broken = "Coq build failed:\n" + log[-4000:]
        ctx.log(proof_broken)
    elif forb:
        proof_broken = "forbidden declarations: " + "; ".join(forb)
    else:
        pr = vlib.coq_props(ctx)
        obligations += pr["obligations"]; discharged += pr["discharged"]; theorems += pr["theorems"]; axioms.update(pr["axioms"])
        if not pr["ok"]:
            proof_broken = "Props.v does not check: " + pr["log"][-3000:]

    # 2. translated part
    bo = "BONative"
    tinfo = {}
    bo_refuted = False
    gen_ok = False
    gq = [(os.path.join(ctx.build, "gen"), "VerifGen")]
    try:
        gen_text, tinfo = translate(ctx.repo)
        bo = tinfo["bo"]
        ctx.log("translated: %s" % json.dumps(tinfo))
    except (ValueError, OSError) as e:
        gen_text = None
        proof_broken = (proof_broken or "") + "\ntranslator: " + str(e)
        ctx.log("translator failed: %s" % e)
    if gen_text is not None and ok and not forb:
        gd = os.path.join(ctx.build, "gen")
        os.makedirs(gd, exist_ok=True)
        for f in glob.glob(os.path.join(gd, "*.vo")) + glob.glob(os.path.join(gd, "*.glob")) + glob.glob(os.path.join(gd, "*.vo?")):
            os.remove(f)
        open(os.path.join(gd, "Gen.v"), "w").write(gen_text)
        gok, glog = vlib.coqc(os.path.join(gd, "Gen.v"), extra_q=gq)
        gen_ok = gok and os.path.exists(os.path.join(gd, "Gen.vo"))
        if not gen_ok:
            proof_broken = (proof_broken or "") + "\ngenerated model Gen.v does not compile: " + glog[-2000:]
        else:
            ps = vlib.coq_props(ctx, props_file=os.path.join(GEN_DIR, "PropsGenSizes.v"), extra_q=gq)
            obligations += max(ps["obligations"], 3); discharged += ps["discharged"]; theorems += ps["theorems"]; axioms.update(ps["axioms"])
            if not ps["ok"]:
                proof_broken = (proof_broken or "") + "\nPropsGenSizes.v (c33_sizes_prime / c33_table_all_prime) does not check against the regenerated Gen.v: " + ps["log"][-2500:]
            pc = vlib.coq_props(ctx, props_file=os.path.join(GEN_DIR, "PropsGenConfig.v"), extra_q=gq)
            obligations += max(pc["obligations"], 1); discharged += pc["discharged"]; theorems += pc["theorems"]; axioms.update(pc["axioms"])
            if not pc["ok"]:
                proof_broken = (proof_broken or "") + "\nPropsGenConfig.v (c33_configured_tables_ok) does not check against the regenerated Gen.v: " + pc["log"][-2500:]
            pa = vlib.coq_props(ctx, props_file=os.path.join(GEN_DIR, "PropsGenArith.v"), extra_q=gq)
            obligations += max(pa["obligations"], 2); discharged += pa["discharged"]; theorems += pa["theorems"]; axioms.update(pa["axioms"])
            if not pa["ok"]:
                proof_broken = (proof_broken or "") + ("\nPropsGenArith.v (c33_source_arith_exact / c33_source_permutation_bijective) does not check: with the integer "
                                "types the source uses (%s, offset reduced: %s) the preference list is not the verified permutation: " % (tinfo.get("arith_type"), tinfo.get("offset_reduced"))) + pa["log"][-1500:]
            pb = vlib.coq_props(ctx, props_file=os.path.join(GEN_DIR, "PropsGenBO.v"), extra_q=gq)
            obligations += 2
            if pb["ok"]:
                discharged += pb["discharged"]; theorems += pb["theorems"]; axioms.update(pb["axioms"])
            else:
                pbr = vlib.coq_props(ctx, props_file=os.path.join(GEN_DIR, "PropsGenBORefuted.v"), extra_q=gq)
                if pbr["ok"]:
                    bo_refuted = True
                    theorems += pbr["theorems"]; axioms.update(pbr["axioms"])
                    ctx.log("c33_byte_order_independent does not hold for %s; c33_byte_order_refuted proved" % tinfo.get("byte_order"))
                else:
                    proof_broken = (proof_broken or "") + "\nneither PropsGenBO.v nor PropsGenBORefuted.v checks: " + pb["log"][-1500:] + pbr["log"][-1500:]
    ctx.log("proof obligations: %d, discharged: %d, axioms: %s" % (obligations, discharged, sorted(axioms)))

    def coverage(extra=None):
        cov = dict(obligations=obligations, discharged=discharged,
                   checker_cmd="make -C /verif/coq (coq_makefile full .vo build, Coq 8.16.1) ; coqc Props.v ; coqc Gen.v (regenerated) + coq/gen/C33/PropsGen*.v ; "
                               "coqc cases_*.v (vm_compute of model+oracle on implementation observables)",
                   trusted_base=cfg["trusted"] + ["Print Assumptions: " + (", ".join(sorted(axioms)) if axioms else
                                                  "Closed under the global context (no axioms) for every theorem")],
                   theorems=theorems, translated=tinfo, rule=cfg["rule"], repo=ctx.repo,
                   evaluations=0, distinct_nontrivial=0, samples=[])
        cov.update(extra or {})
        return cov

    # 3. implementation run
    ctx.log("waiting for the driver build from %s" % ctx.repo)
    bt.join()
    exe, blog = built.get("r", (None, "driver build thread died"))
    if exe is None or not gen_ok:
        what = "driver does not build against the tree" if exe is None else "Gen.v could not be produced/compiled"
        rp = vlib.write_replay(ctx, "driver-build", dict(kind="driver-build-failure", log=(blog or "")[-6000:], proof=proof_broken,
                               unchecked="correspondence %s (%s)" % (PROP, what)))
        return vlib.finish(ctx, [(rp, "no-failing-input-found")], [], "proof", coverage(), cfg["assumptions"])

    def evaluate(cases, checker):
        failing, _ = vlib.coq_eval_cases(ctx, cfg["imports"], checker, [c["coq"] for c in cases], shard=12, extra_q=gq, par=14)
        return failing

    def run_once(n, seed, big, allsizes):
        args = ["-n", n, "-seed", seed, "-bo", bo, "-big", big, "-arith", tinfo.get("arith", ""), "-cfgmax", tinfo.get("cfg_max", 3000),
                "-dsizes", 2 if ctx.tier == "quick" else 40] + (["-allsizes"] if allsizes else [])
        lines = vlib.run_driver(ctx, exe, args)
        cases = [l for l in lines if "coq" in l]
        return lines, cases, evaluate(cases, "(check_case env)")

    n = cfg["n"][ctx.tier]
    ctx.log("running driver: %d cases, seed %d" % (n, ctx.seed))
    lines, cases, failing = run_once(n, ctx.seed, cfg["big"][ctx.tier], ctx.tier == "thorough")
    ctx.log("cases: %d, failing: %d" % (len(cases), len(failing)))

    keys, nontrivial = set(), set()
    for c in cases:
        k = hashlib.sha1(c.get("key", c["coq"]).encode()).hexdigest()
        keys.add(k)
        if c.get("nt", True):
            nontrivial.add(k)

    seen = set()

    def handle(failing, cases, origin):
        oracle_fail = [(i, a, o) for (i, a, o) in failing if not o]
        disagree = [(i, a, o) for (i, a, o) in failing if o and not a]
        if oracle_fail:
            # classify: does the case pass once the cross-CPU clause is left out?  then it fails ONLY because the table
            # depends on the CPU's byte order.
            sub = [cases[i] for (i, _, _) in oracle_fail]
            still = {j for (j, _, o2) in evaluate(sub, "(check_case_same_cpu env)") if not o2}
            for j, (i, a, o) in enumerate(oracle_fail):
                c = cases[i]
                key = None if j in still else BO_KEY   # passes without the cross-CPU clause: fails only because of the byte order
                if key and key in kf:
                    if key not in seen:
                        known_hits.append("key=%s %s" % (key, kf[key]))
                        seen.add(key)
                    continue
                tag = key or "oracle"
                if tag in seen:
                    continue
                seen.add(tag)
                h = hashlib.sha1(c["coq"].encode()).hexdigest()[:10]
                note = "specification oracle rejects the implementation's observable output"
                if key == BO_KEY:
                    note = ("the table depends on the CPU's byte order: hashFromString decodes the hash with %s; on a CPU of the other byte "
                            "order the same backends give a different table (c_obs = real code on this host; the other CPU's table is the "
                            "model's, theorem c33_byte_order_refuted). Fix: /verif/fixes/C33-byteorder.patch" % tinfo.get("byte_order"))
                rp = vlib.write_replay(ctx, "%s-%s" % (tag, h), dict(kind="oracle-failure", origin=origin, case=c, model_agrees=a, cls=key, note=note,
                                       n_failing_cases_of_this_class=sum(1 for jj in range(len(oracle_fail)) if (jj in still) == (j in still))))
                violations.append((rp, ""))
        return oracle_fail, disagree

    oracle_fail, disagree = handle(failing, cases, "main run")

    if bo_refuted and BO_KEY not in seen:
        # theorem-level refutation without a failing case in this run (cannot normally happen: the witness is in the corpus)
        rp = vlib.write_replay(ctx, "byteorder-theorem", dict(kind="proof-refuted", theorem="c33_byte_order_refuted",
                               unchecked="c33_byte_order_independent", translated=tinfo))
        if BO_KEY in kf:
            known_hits.append("key=%s %s" % (BO_KEY, kf[BO_KEY]))
        else:
            violations.append((rp, "no-failing-input-found"))

    searched = 0
    if (disagree or proof_broken) and not violations:
        ctx.log("searching for a failing input (larger budget): %s" % ("proof broken" if proof_broken else "%d disagreements" % len(disagree)))
        for k in range(1, 4):
            l2, c2, f2 = run_once(min(n * 3, 3000), ctx.seed + 7919 * k, 6, k == 1)
            searched += len(c2)
            handle(f2, c2, "search %d" % k)
            if violations:
                break
        if not violations:
            if disagree:
                c = dict(cases[disagree[0][0]])
                c["coq"] = c["coq"][:20000]
                rp = vlib.write_replay(ctx, "correspondence", dict(kind="correspondence-broken",
                                       unchecked="correspondence stream %s: model %s/Model.v and the implementation disagree" % (PROP, PROP),
                                       n_disagreements=len(disagree), first_case=c, searched_cases=searched))
            else:
                rp = vlib.write_replay(ctx, "proof", dict(kind="proof-broken", unchecked=proof_broken, searched_cases=searched))
            violations.append((rp, "no-failing-input-found"))

    cov = coverage(dict(evaluations=len(cases) + searched, distinct_nontrivial=len(nontrivial), distinct=len(keys),
                        samples=[c.get("sample") for c in cases[:4]],
                        traces_validated_against_impl=len(cases) + searched,
                        disagreements_model_vs_impl=len(disagree), oracle_failures=len(oracle_fail),
                        input_distribution=vlib.distribution(lines),
                        byte_order_theorem=("c33_byte_order_refuted (finding)" if bo_refuted else "c33_byte_order_independent")))
    return vlib.finish(ctx, violations, known_hits, "proof", cov, cfg["assumptions"])


def replay(ctx, path):
    """Re-evaluates the case stored in a replay file (inputs + the real code's recorded outputs) through the model and
    the oracle inside Coq, with Gen.v regenerated from $VERIF_REPO, and re-runs the real code on the same backend names
    when the driver builds.  Prints what disagrees."""
    obj = json.load(open(path))
    case = obj.get("case") or obj.get("first_case")
    if not case:
        print(json.dumps(obj, indent=1)[:4000])
        return 0
    ok, log = vlib.coq_build(["theories/Common/CaseLib.vo"] + vlib.prop_targets(PROP))
    gen_text, tinfo = translate(ctx.repo)
    gd = os.path.join(ctx.build, "gen")
    os.makedirs(gd, exist_ok=True)
    for f in glob.glob(os.path.join(gd, "*.vo")):
        os.remove(f)
    open(os.path.join(gd, "Gen.v"), "w").write(gen_text)
    vlib.coqc(os.path.join(gd, "Gen.v"), extra_q=[(gd, "VerifGen")])
    gq = [(gd, "VerifGen")]
    print("replay %s: kind=%s class=%s" % (path, obj.get("kind"), obj.get("cls")))
    print("source byte order now: %s" % tinfo.get("byte_order"))
    print("sample:", json.dumps(case.get("sample"))[:1500])
    for name, chk in (("recorded outputs: model agreement / full oracle", "(check_case env)"),
                      ("recorded outputs: oracle without the cross-CPU clause", "(check_case_same_cpu env)")):
        failing, _ = vlib.coq_eval_cases(ctx, CFG["imports"], chk, [case["coq"]], extra_q=gq)
        print("%s -> %s" % (name, "agree=true ok=true" if not failing else "agree=%s ok=%s" % (failing[0][1], failing[0][2])))
    exe, blog = vlib.go_build(ctx)
    if exe and case.get("kind") == "lut":
        lines = vlib.run_driver(ctx, exe, ["-n", 0, "-seed", 1, "-bo", tinfo["bo"]])
        cur = [l for l in lines if "corpus" in (l.get("tags") or [])]
        if cur and "corpus" in case.get("tags") or []:
            failing, _ = vlib.coq_eval_cases(ctx, CFG["imports"], "(check_case env)", [cur[0]["coq"]], extra_q=gq)
            print("same input on the current tree -> %s" % ("agree=true ok=true" if not failing else "agree=%s ok=%s" % (failing[0][1], failing[0][2])))
    return 0


MANIFEST = dict(
    category="proof",
    text="Theorems over the executable model of ConsistentHash for every prime table size, every backend list and arbitrary hash "
         "functions (preference lists are bijections, the fill loop never runs off a list and fills every slot, shares differ by at "
         "most one, result independent of insertion order), theorems over the prime table / size range / byte-order identifier "
         "TRANSLATED from the Go source on every run (every configurable size is prime; byte-order independence or its refutation), "
         "plus a correspondence run of model and spec oracle against the real code.",
    note="Trusted: Coq kernel; hand-written model tied to the code by the correspondence run; regex translator; Go driver; the "
         "other-CPU table is predicted by the model.",
)
