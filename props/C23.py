"""C23 - IPAM garbage collection never frees an address that is still in use."""
import vlib

CFG = dict(
    imports=["From Verif.C23 Require Import Model Spec.", "Open Scope N_scope."],
    checker="check_case",
    n=dict(quick=200, thorough=8000),
    shard=25,
    rule="TBD",
    trusted=["Coq 8.16.1 kernel + vm_compute"],
    assumptions=[],
)


def run(ctx):
    return vlib.standard_flow(ctx, CFG)


MANIFEST = dict(
    category="proof",
    text="TBD",
    note="TBD",
)
