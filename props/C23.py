"""C23 - IPAM garbage collection never frees an address that is still in use.

Driver: harness/C23/cmd (package main entered through testing.Main so that testing/synctest gives the controller's
time.Now() a virtual clock) + add-only shim harness/C23/shims/kube-controllers/pkg/controllers/node/zz_verif_c23.go.
The flow is vlib.standard_flow; classification of a failing case re-evaluates the specification oracle's parts
(Spec.diag_case) for that one case inside Coq.
"""
import os, re, subprocess
import vlib

KEY_SPLIT = "handle-split-by-late-revalidation"
KEY_CUT = "handle-split-by-batch-cut"
KEY_AFF = "stale-blocksbynode-after-affinity-move"
KEY_ZOMBIE = "stale-allocationsbynode-after-node-change"

# order of the booleans in Spec.diag_case
PARTS = ["release", "grace", "handles", "lastblock+node-cleanup", "grace-dump", "books-allocs", "books-bynode", "books-byhandle",
         "books-conf", "books-blocks", "books-blocksbynode"]


def diag(coq_term):
    d = "/tmp/diag-C23-%d" % os.getpid()
    os.makedirs(d, exist_ok=True)
    path = os.path.join(d, "diag.v")
    with open(path, "w") as f:
        f.write("From Coq Require Import List NArith.\nImport ListNotations.\nFrom Verif.C23 Require Import Model Spec.\n"
                "Open Scope N_scope.\nDefinition k := %s.\nEval vm_compute in diag_case k.\n" % coq_term)
    r = subprocess.run(["timeout", "300", "coqc", "-Q", vlib.THEORIES, "Verif", "-w", "none", path], cwd=d,
                       stdout=subprocess.PIPE, stderr=subprocess.STDOUT, text=True)
    failing = set()
    for m in re.finditer(r"\[((?:true|false)(?:;\s*(?:true|false))*)\]", r.stdout):
        vals = re.split(r";\s*", m.group(1))
        if len(vals) == len(PARTS):
            failing |= {PARTS[i] for i, v in enumerate(vals) if v == "false"}
    for fn in os.listdir(d):
        os.remove(os.path.join(d, fn))
    os.rmdir(d)
    return failing if r.returncode == 0 else None


def classify(line):
    failing = diag(line["coq"])
    if not failing:
        return None
    tags = line.get("tags") or []
    if failing == {"handles"}:
        return KEY_SPLIT
    if failing <= {"books-blocksbynode", "lastblock+node-cleanup"} and ("affinity-moved" in tags or "affinity-to-other" in tags):
        return KEY_AFF
    if failing <= {"books-blocksbynode", "lastblock+node-cleanup", "handles"} and ("affinity-moved" in tags or "affinity-to-other" in tags):
        return KEY_AFF        # both known classes in one history
    return None


def extra(ctx, lines):
    out = []
    for l in lines:
        bc = l.get("batchcut")
        if bc and bc.get("split_handles", 0) > 0:
            out.append((dict(kind="implementation-check", key=KEY_CUT, observed=bc,
                             note="garbageCollectKnownLeaks with 10001 confirmed leaks: the 10000-entry batch cut leaves one address "
                                  "of a handle out of the ReleaseIPs call that releases the handle's other addresses"), ""))
        zp = l.get("zombie")
        if zp and zp.get("stale_entries", 0) > 0:
            out.append((dict(kind="implementation-check", key=KEY_ZOMBIE, observed=zp,
                             note="an allocation re-allocated in place with a different node attribute and then freed leaves its "
                                  "allocationsByNode entry behind; the next sync releases an address no block seen contains"), ""))
    return out


CFG = dict(
    imports=["From Verif.C23 Require Import Model Spec.", "Open Scope N_scope."],
    checker="check_case",
    n=dict(quick=110, thorough=1320),
    shard=25,
    classify=classify,
    extra=extra,
    rule="histories of 14-45 inputs over 2-3 nodes, 2-4 pods, 2-3 blocks (/29, ordinals 0-4), handles shared by several "
         "addresses, tunnel / windows-reserved / handle-less / attribute-less allocations: block updates (allocate, free, "
         "re-allocate in place with a new sequence number, affinity removed / moved / non-host, delete, re-delivery, 10% of "
         "updates withheld), pods created / deleted / rescheduled / evicted / without IPs in the API server and the informer "
         "cache SEPARATELY (lag), Kubernetes nodes and Calico nodes (datastore and syncer separately) deleted and re-created, "
         "in 40% of the cases one Calico node is NOT a Kubernetes node (no k8s OrchRef, cached as \"\" by the syncer) and owns "
         "tunnel addresses and blocks, nodes occasionally change kind, 3 scripted histories around such a node, "
         "pod deletion events, full-scan requests, time steps around the grace periods (60 s, 900 s, 0, unset), GC syncs at "
         "arbitrary points; every input is applied synchronously to the REAL IPAMController (handleUpdate / syncIPAM) with a "
         "recording IPAM client, the fake clientset, real informer indexers and a virtual clock (testing/synctest); observed "
         "per sync: ReleaseIPs options (address, handle, sequence number), ReleaseBlockAffinity and ReleaseHostAffinities "
         "calls, full bookkeeping dump; 35% of the syncs run with an injected ReleaseIPs failure that releases a random subset "
         "(the sync then ends after the collector; leaks roll over); 5 scripted histories (non-Kubernetes node, tunnel "
         "address rolled over a failed release with the node re-registering); plus one full-size run of the 10000-entry "
         "batch cut (10001 confirmed leaks) and one probe of the per-node index after an in-place re-allocation to another node.  "
         "non-trivial = some allocation became a leak candidate or something was released; distinct by the input history",
    trusted=["Coq 8.16.1 kernel + vm_compute",
             "hand-written model coq/theories/C23/Model.v tied to kube-controllers/pkg/controllers/node/ipam.go and "
             "ipam_allocation.go by this correspondence run (outputs and full bookkeeping after every sync must be producible by "
             "the model under some iteration order of confirmedLeaks / emptyBlocks)",
             "Go driver harness/C23 (overlay, tag verif), the fake Kubernetes clientset, client-go indexers, testing/synctest"],
    assumptions=["KubeVirt VM/VMI allocations, IP cooldown (ReleasedAt / garbageCollectColdIPs), IP pools and metrics, flannel "
                 "migration labels and API errors other than ErrorNotKubernetes are not modelled (generator excludes them): partial",
                 "a Calico node that is not a Kubernetes node is alive as long as it exists in the datastore (the syncer cache is "
                 "trusted only when it carries a Kubernetes node name)",
                 "the IPAM client releases everything it is asked to (no partial ReleaseIPs failures)",
                 "the node attribute of an allocation id (handle/address) does not change while the id is tracked",
                 "block CIDRs do not overlap; names are modelled by numbers",
                 "the model follows the tree: the driver probes whether fixes/C23-*.patch are applied (flags k_fixaff / k_fixgc)"],
)


def run(ctx):
    return vlib.standard_flow(ctx, CFG)


MANIFEST = dict(
    category="proof",
    text="Theorems over an executable model of the kube-controllers IPAM garbage collector (block bookkeeping, leak "
         "candidates and grace period, final re-validation, per-handle release, empty-block release) for every history of "
         "block/pod/node/time events and GC syncs and every map iteration order (reachable-state invariants: index "
         "invariant, block maps = image of the blocks seen; per-sync consequences: released only if unjustified, whole "
         "handles, never a node's last block, grace chain), plus a correspondence run of the model and a specification "
         "oracle against the real IPAMController driven synchronously with a virtual clock.",
    note="Partial: KubeVirt VM/VMI validity, cooldown GC, pools/metrics not modelled. Trusted: Coq kernel; hand-written "
         "model tied to the code only by the correspondence run; Go driver and client-go fakes.",
)
