import vlib

CFG = dict(
    imports=["From Verif.Common Require Import Labels Packet.", "From Verif.C29 Require Import Model Spec."],
    checker="check_case",
    n=dict(quick=200, thorough=6000),
    shard=50,
    rule="per case: 3 namespaces with generated labels, 3-5 pods (labels, service account, named container ports, IPv4/IPv6), "
         "1-2 NetworkPolicies (podSelector/namespaceSelector with matchLabels and matchExpressions In/NotIn/Exists/DoesNotExist, "
         "empty and nil selectors, 0-3 peers incl. ipBlock with except, 0-4 ports incl. named, endPort ranges, default protocol, "
         "policyTypes I/E/IE/absent) and 16 connections; non-trivial = the policies have at least one rule; distinct by the whole case",
    trusted=["Coq 8.16.1 kernel + vm_compute",
             "hand-written model coq/theories/C29/Model.v tied to conversion.go / updateprocessors by this correspondence run",
             "reference Kubernetes NetworkPolicy semantics and Calico rule semantics in coq/theories/C29/Spec.v (read them)",
             "the real selector parser (libcalico-go/lib/selector/parser) used by the driver to turn selector strings into ASTs",
             "Go driver harness/C29 (overlay build, tag verif)"],
    assumptions=["an address identifies at most one pod (both semantics are stated over the connection's end points)",
                 "label keys used in selectors are not Calico-reserved (pcns./pcsa. prefixes, projectcalico.org/{namespace,orchestrator,serviceaccount,name})",
                 "policyTypes present or no egress rules (API-server defaulting); ports valid per the Kubernetes API validation"],
)

def classify(line):
    tags = line.get("tags", [])
    if "reserved-key" in tags:
        return "calico-reserved-label-key"
    if "types:absent-with-egress" in tags:
        return "policytypes-absent-with-egress"
    return None

CFG["classify"] = classify

def run(ctx):
    return vlib.standard_flow(ctx, CFG)

MANIFEST = dict(
    category="proof",
    text="Theorems over an executable model of the Kubernetes NetworkPolicy -> Calico conversion (conversion.go followed by the "
         "update processors): for every policy set, cluster labelling and connection the converted policies allow exactly what the "
         "Kubernetes NetworkPolicy semantics allow; plus a correspondence run of the model against the real conversion code and an "
         "evaluation of the real converted policies against the Kubernetes semantics on generated connections.",
    note="Trusted: Coq kernel; the two reference semantics in Spec.v; the model is tied to the code only by the correspondence run.",
)
