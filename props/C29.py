import vlib

CFG = dict(
    imports=["From Verif.Common Require Import Labels Packet.", "From Verif.C29 Require Import Model Spec."],
    checker="check_case",
    n=dict(quick=120, thorough=1440),
    shard=35,
    deps=["Common", "C06"],
    rule="per case: 3 namespaces with generated labels, 3-5 pods (labels, service account, named container ports, IPv4/IPv6; "
         "some carry pcns./pcsa. labels), service accounts with labels, 1-2 NetworkPolicies (podSelector/namespaceSelector with "
         "matchLabels and matchExpressions In/NotIn/Exists/DoesNotExist, empty and nil selectors, 0-3 peers incl. ipBlock with except "
         "and host bits, 0-4 ports incl. named, endPort ranges, clustered numbers, default protocol, policyTypes I/E/IE/absent) and up "
         "to 18 connections (6 aimed at one rule: selected local pod, remote satisfying a peer, port from a port entry or next to it); "
         "streams: scripted witnesses w1/w2 of the Coq refutations, objects the API validation rejects (oracle not consulted, model "
         "must agree), known-finding classes (policyTypes absent with egress rules; Calico-reserved label keys) each followed by a "
         "twin case with the construct neutralised; non-trivial = the policies have at least one rule; distinct by the whole case",
    trusted=["Coq 8.16.1 kernel + vm_compute",
             "hand-written model coq/theories/C29/Model.v tied to conversion.go / updateprocessors by this correspondence run",
             "reference Kubernetes NetworkPolicy semantics and Calico rule semantics in coq/theories/C29/Spec.v (read them)",
             "the real selector parser (libcalico-go/lib/selector/parser) used by the driver to turn selector strings into ASTs; "
             "cross-checked on every case: the C06 model of tokenizer/parser/printer maps the model's selector TEXTS (equal byte for byte to the real strings) to the same ASTs",
             "Go driver harness/C29 (overlay build, tag verif)"],
    assumptions=["an address identifies at most one endpoint (both semantics are stated over the connection's end points; "
                 "c29_rule_bridge: `who` maps an address to its endpoint)",
                 "main theorem hypotheses: the policies pass the Kubernetes API validation (Spec.k8s_np_valid), their selectors use no "
                 "Calico-reserved label key (pcns./pcsa. prefixes, projectcalico.org/{namespace,orchestrator,serviceaccount}; "
                 "projectcalico.org/name in namespace selectors), and on the pinned tree policyTypes is present or there are no egress rules",
                 "c29_rule_bridge (Section Bridge): IP-set ids are an interning of (selector | named port) specs: resolve (intern s) = Some s",
                 "the namespace profile kns.<ns> is the endpoint's first profile and allows everything (checked on the real NamespaceToProfile output "
                 "by the driver: k_impl_clean)"],
)

def classify(line):
    tags = line.get("tags") or []
    if "reserved-key" in tags:
        return "calico-reserved-label-key"
    if "types:absent-with-egress" in tags:
        return "policytypes-absent-with-egress"
    return None

CFG["classify"] = classify

def replay(ctx, path):
    """./check C29 --replay <file>: re-run the real code on the inputs stored in the replay file, then model + oracle."""
    exe, log = vlib.go_build(ctx)
    if exe is None:
        print(log[-3000:]); return 1
    import os
    lines = vlib.run_driver(ctx, exe, ["-replay", os.path.abspath(path)])
    failing, _ = vlib.coq_eval_cases(ctx, CFG["imports"], CFG["checker"], [l["coq"] for l in lines], shard=50)
    for l in lines:
        print("policies :", l["sample"]["policies"])
        print("converted:", l["sample"]["converted"])
        print("tags     :", l.get("tags"))
    if not failing:
        print("replay: model agrees with the implementation and the Kubernetes-semantics oracle accepts its output")
        return 0
    for (i, a, o) in failing:
        print("replay: model==implementation: %s ; oracle (Kubernetes verdict == Calico verdict on every connection): %s" % (a, o))
    return 1

def run(ctx):
    return vlib.standard_flow(ctx, CFG)

MANIFEST = dict(
    category="proof",
    text="Theorems over an executable model of the Kubernetes NetworkPolicy -> Calico conversion (conversion.go followed by the "
         "update processors, pod -> workload endpoint labels, namespace / service account -> profile labels): for every set of "
         "NetworkPolicies, cluster labelling and connection the converted policies allow exactly what the Kubernetes NetworkPolicy "
         "semantics allow (ingress and egress, selectors, ipBlock/except, merged ports, named ports, protocol grouping, policy types, "
         "any evaluation order), a bridge to the shared PolicyRef rule semantics, refutations showing which hypotheses are necessary; "
         "plus a correspondence run of the model against the real conversion code and an evaluation of the REAL converted policies, "
         "labels and profiles against the Kubernetes semantics on generated connections.",
    note="Trusted: Coq kernel; the two reference semantics in Spec.v; the model is tied to the code only by the correspondence run.",
)
