import vlib

KNOWN_KEY = "tiebreak-joined-string"

def classify(case_line):
    # the dedicated stream with names/namespaces that extend one another by '-' or '.', and the implementation
    # really emitted such a pair in the reverse of name order
    tags = case_line.get("tags") or []
    if any(t.startswith("stream:prefix-names") for t in tags) and "prefix-pair-out-of-name-order" in tags:
        return KNOWN_KEY
    return None

CFG = dict(
    imports=["From Verif.Common Require Import Labels.", "From Verif.C03 Require Import Model Spec Pipe.", "Open Scope N_scope."],
    checker="check_acase",
    n=dict(quick=160, thorough=1920),
    shard=30,
    classify=classify,
    rule="3/4 of the cases (stream:random/prefix-names...): histories (10-45 ops) on the real PolicyResolver+PolicySorter over 3-6 policy keys (same name in different "
         "namespaces/kinds), 4 tier names (+ a tier that never exists, + empty tier), 2-4 local endpoints (WEPs and a HEP): "
         "OnPolicyMatch / OnPolicyMatchStopped, policy updates (orders unset or 6 values incl. negative and fractional, "
         "untracked/preDNAT/applyOnForward, Types in 8 spellings) and deletes, tier updates and deletes, endpoint "
         "updates and deletes, in-sync at an arbitrary point, Flush at arbitrary points; 5/6 of the cases respect the "
         "upstream alternation contract, 1/6 are unconstrained; 1/4 contain the directed pattern match/unmatch/flush/"
         "update-while-inactive/match; 1/8 use names that extend one another by '-' or '.'; 3/16 end with the pattern "
         "'policy names tier T while T does not exist (next to a policy of a never-existing tier), flush, T created "
         "with no order and no default action'.  1/4 of the cases (stream:pipeline): datastore-level histories through the real "
         "ActiveRulesCalculator (+ its label inheritance index) registered ahead of the real PolicyResolver: 2-3 local "
         "endpoints with 0-2 own labels and 0-3 profile ids (re-ordered / first one dropped / one inserted in front, keeping "
         "the others), 3 profiles whose label resources arrive late, change, are deleted and re-created, policies with 9 "
         "selector shapes over inherited labels (has, !has, ==, !=, in, &&, ||), tiers; half of them contain the directed "
         "pattern 'endpoint references a profile with unknown labels, profile kept at another index, labels arrive'. "
         "Observed: what every Flush "
         "hands to OnEndpointTierUpdate (tier name, order, default action, ordered policies with order/flags/tier) and "
         "the real tierInfoToProtoTierInfo of every emitted list.  non-trivial = some non-empty tier list was emitted "
         "and (a match started and stopped between two flushes, or some emitted tier held >= 2 policies); distinct by ops",
    trusted=["Coq 8.16.1 kernel + vm_compute",
             "hand-written model coq/theories/C03/Model.v tied to felix/calc by this correspondence run",
             "Go driver harness/C03 (overlay build, tag verif; one add-only shim exporting tierInfoToProtoTierInfo)",
             "google/btree behaves as a sorted sequence searched with its less function"],
    assumptions=["upstream model (Pipe.translate): the label index reports exactly the difference of the match relation per datastore event (C07 c07_index_exact/c07_alternation; re-checked against the real ActiveRulesCalculator+InheritIndex by the pipeline stream on every run)", "selector text -> AST table of the driver (9 shapes; the parser is C06's subject)",
                 "float64 orders are compared only; NaN/+-Inf orders are rejected upstream; modelled as option Z",
                 "policy key components contain no '/' (validated names) - needed only for the pinned joined-string tie-break",
                 "strings.EqualFold classification of policy Types is done by the driver"],
)

def run(ctx):
    return vlib.standard_flow(ctx, CFG)

MANIFEST = dict(
    category="proof",
    text="Executable model of PolicyResolver + PolicySorter (btrees as sorted lists, pending/dirty sets, match "
         "multidicts; both variants of OnPolicyMatchStopped and of the tie-break) and of tierInfoToProtoTierInfo. "
         "Theorems: TierLess / PolKVLess are strict total orders on distinct keys and equal the specification's "
         "orders; the btree model behaves as a finite set with a unique sorted enumeration; after EVERY history "
         "the match state is the fold of the history, nothing is emitted before in-sync, only policies matching "
         "that endpoint are sent; the proto split equals the specification's class/direction split for every "
         "input; the specification function has the listed properties (exact set, grouping, tier order, policy "
         "order); refutation witnesses for the stale pending entry and for the joined-string tie-break. The "
         "refinement 'every emitted list = expected_tiers' is not proved; it is checked by the specification "
         "oracle on the real code's outputs on every run (view-based: last update per endpoint).",
    note="Trusted: Coq kernel; hand-written model tied to the code only by the correspondence run; Go driver; "
         "upstream match callbacks as characterised by C07.",
)
