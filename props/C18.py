import vlib

KNOWN_KEY = "replace-iter-duplicate-key"

def classify(case_line):
    # cases of the dedicated "dup" stream whose iterator really produced a key twice
    tags = case_line.get("tags") or []
    if "stream:dup" in tags and "replace-duplicate-key" in tags:
        return KNOWN_KEY
    return None

CFG = dict(
    imports=["From Verif.C18 Require Import Model Spec.", "Open Scope N_scope."],
    checker="check_case",
    n=dict(quick=200, thorough=2400),
    shard=15,
    classify=classify,
    rule="op sequences (6-40 ops) over 2-6 keys x 1-4 values on the real DeltaTracker[int,int] with valuesEqual = (==) "
         "(KExact), valuesEqual = (a/2==b/2) (KCoarse) and SetDeltaTracker[int] (KSet): Desired Set/Delete/DeleteAll, "
         "Dataplane Set/Delete/DeleteAll, ReplaceAllMap, ReplaceAllIter/ReplaceFromIter with a chosen order and an error "
         "after a prefix, PendingUpdates().Iter / PendingDeletions().Iter with a per-key answer table "
         "(NoOp/UpdateDataplane/NoOpStopIteration) in the runtime's iteration order, both IterBatched variants with random "
         "applyFn answers (whole batch, partial, failing item, zero); all four views (Iter, Len, Get on 7 keys) dumped "
         "after every op through view handles taken once at creation, plus the batches applyFn was shown.  1/8 of the "
         "tracker cases ('stream:dup') let the iterator produce a key twice; 1/40 of the cases ('stream:big') use 130-220 "
         "keys so that IterBatched's first loop fills batches of 128 mid-range; 1/5 of the cases (KCache) drive the real "
         "CachingMap[int,int] over a fake DataplaneMap (half of them also a DataplaneBatchedMap: BatchUpdate/BatchDelete with "
         "failing items, ErrNotExists, short writes) with injected Load/Update/Delete failures, out-of-band writes, "
         "Dataplane() pass-through Set/Delete/DeleteAll, LoadCacheFromDataplane, ApplyUpdatesOnly/ApplyDeletionsOnly/"
         "ApplyAllChanges (real map and error count dumped; InSync() cross-checked against the pending views in every dump "
         "too).  non-trivial = tracker: some iteration applied an update/deletion, some replacement happened and at some "
         "point updates and deletions were pending together; cache: a successful and a failed ApplyAllChanges and an "
         "out-of-band write; big: always; distinct by (kind, ops)",
    trusted=["Coq 8.16.1 kernel + vm_compute",
             "hand-written model coq/theories/C18/Model.v tied to felix/deltatracker by this correspondence run",
             "Go driver harness/C18 (overlay build, tag verif)"],
    assumptions=["valuesEqual is a decidable equivalence relation on values (Section hypotheses veq_refl/veq_sym/veq_trans)",
                 "callbacks passed to Iter and iterators passed to ReplaceAllIter do not themselves call into the tracker",
                 "Go map range yields every key present exactly once when the body only deletes the current key",
                 "IterBatched: applyFn's answers satisfy applied <= len(batch) and err => applied < len(batch) (else Go panics)",
                 "CachingMap theorems: nobody writes the dataplane map behind the cache's back between Load and Apply (CI); "
                 "the DataplaneBatchedMap path of CachingMap (CUpdB/CDelB/CAllB) is modelled and checked by correspondence + oracle; "
                 "its theorems are those of IterBatched (c18_views_exact) - the CachingMap-level theorems are for the per-key path"],
)

def run(ctx):
    return vlib.standard_flow(ctx, CFG)

MANIFEST = dict(
    category="proof",
    text="Theorems over an executable model of DeltaTracker's three internal maps and desiredLen, for every operation "
         "sequence, every iteration order/answer sequence and every valuesEqual that is an equivalence: the four views "
         "and the Len functions equal the two abstract maps and their exact difference and the internal maps stay "
         "disjoint; plus a correspondence run of model and spec oracle against the real generic tracker and the set "
         "wrapper.",
    note="Trusted: Coq kernel; hand-written model tied to the code only by the correspondence run; Go driver.",
)
