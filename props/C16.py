"""C16 - IP set sync converges and never breaks rules that use a set.

The fake `ipset` command of package felix/ipsets lives in _test.go files (package ipsets_test), so the driver is an
in-package test (harness/C16/shims/felix/ipsets/zz_verif_c16_test.go, tag verif, placed there by the overlay).  The
test binary is built once per run with `go test -c` and run with -test.run TestVerifC16; it writes the JSON lines
to a file.  Everything else is vlib.standard_flow (its two driver hooks are replaced for the duration of the run).
"""
import glob, hashlib, json, os, re, subprocess, threading
import vlib

PKG = "./felix/ipsets/"
KEY_LEAK = "temp-set-leaked-after-failed-write"
KEY_FLAGS = "temp-set-inherits-delete-failed"


def classify(line):
    # known-findings.txt: a temporary set created by a restore session whose input pipe broke is not tracked and stays
    # in the kernel until the next periodic resync.  Needs: unrepaired tree, an injected fault seen as a failed write.
    tags = line.get("tags") or []
    if "tree:unrepaired" in tags and "leak-shape" in tags:
        return KEY_LEAK
    # second class: a set whose destroy was refused becomes desired again with other parameters; the temporary set that
    # receives its old incarnation inherits the DeleteFailed flag and is not deleted until the next resync.
    if "tree:nofix2" in tags and "delete-failed-shape" in tags and "swap" in tags:
        return KEY_FLAGS
    return None


def apply_order(ctx, lines):
    """int_dataplane.go apply(): IP set creations/updates before the tables are written, deletions after."""
    src = open(os.path.join(ctx.repo, "felix/dataplane/linux/int_dataplane.go")).read()
    m = re.search(r"\nfunc \(d \*InternalDataplane\) apply\(\) \{\n(.*?)\n\}\n", src, flags=re.S)
    body = m.group(1) if m else ""
    marks = ["ipSets.ApplyUpdates(", "ipSetsWG.Wait()", "runTable(t.Apply)", "iptablesWG.Wait()", ".ApplyDeletions()"]
    pos = [body.find(x) for x in marks]
    if m and all(p >= 0 for p in pos) and pos == sorted(pos) and body.count(".ApplyDeletions()") == 1 and body.count("ipSets.ApplyUpdates(") == 1:
        return []
    return [(dict(kind="apply-ordering", unchecked="InternalDataplane.apply(): expected in this order: %s; found at %s" % (marks, pos)),
             "apply() ordering")]


CFG = dict(
    imports=["From Verif.C16 Require Import Model Spec.", "Open Scope N_scope."],
    checker="check_case",
    n=dict(quick=40, thorough=480),
    shard=10,
    classify=classify,
    extra=apply_order,
    rule="histories of 2-5 rounds (0-3 AddOrReplaceIPSet/AddMembers/RemoveMembers/RemoveIPSet calls over 2-4 set ids, three "
         "set types, metadata changes, optional QueueResync, then ApplyUpdates+ApplyDeletions repeated until no reschedule) "
         "on the REAL IPSets with the package's mock ipset command; starting kernel = random mix of stale main sets (right or "
         "wrong type/parameters/members), stale temporary sets, other sets matching Felix's name pattern and foreign sets; "
         "faults injected at random command indices (restore lines: bad exit status only, failed write of that line, or failed "
         "write surfacing 1-7 lines later, possibly while a later set is written; destroys); streams: random, filter (SetFilter: sets drop out of the needed set and come back while still in the kernel, members changing meanwhile), batch (every "
         "set dirty in one session + such a fault), faulty (many faults), drift (somebody else changes the kernel between applies), clean-start; "
         "observed: the mock kernel after EVERY command and after every apply.  non-trivial = a command failed or a swap "
         "was executed; distinct by starting kernel + history",
    trusted=["Coq 8.16.1 kernel + vm_compute",
             "hand-written model coq/theories/C16/Model.v tied to felix/ipsets/ipsets.go by this correspondence run (the "
             "implementation's command sequence must be one the model accepts and produce the same kernel after every command)",
             "Go test driver harness/C16/shims/felix/ipsets/zz_verif_c16_test.go (overlay, tag verif) and the package's "
             "mock ipset command (utils_for_test.go), each restore line run as its own mock session",
             "felix/deltatracker implements desired/dataplane maps with pending = their difference (property C18)"],
    assumptions=["kernel: an ipset command either takes effect completely or fails without effect; a restore session stops at "
                 "its first failing line (create fails iff the set exists, add iff the set is missing or the member present, "
                 "del/swap/destroy iff a named set is missing; any command may also fail for another reason)",
                 "ownership = the name classes of IPVersionConfig (checked against OwnsIPSet/IsTempIPSetName/NameFor*IPSet by "
                 "the driver); set ids short enough not to be truncated",
                 "`ipset list` itself does not fail; SetFilter is given main-set names",
                 "Go map iteration orders and the order of the resync queue are arbitrary: the model accepts every order",
                 "int_dataplane.go apply() ordering is checked textually (ApplyUpdates, wait, tables, wait, ApplyDeletions)"],
)


def _tree_key(ctx):
    """Identity of everything the test binary is built from: the tree's commit + its uncommitted changes + untracked
    .go files + our shim + the go.mod/go.sum.  None if the tree is not a git work tree (then nothing is cached)."""
    def git(*a):
        r = subprocess.run(["git", "-C", ctx.repo] + list(a), stdout=subprocess.PIPE, stderr=subprocess.DEVNULL)
        return r.stdout if r.returncode == 0 else None
    head = git("rev-parse", "HEAD")
    diff = git("diff", "HEAD", "--", "*.go", "go.mod", "go.sum")
    others = git("ls-files", "-o", "--exclude-standard", "--", "*.go")
    if head is None or diff is None or others is None:
        return None
    h = hashlib.sha1()
    h.update(head); h.update(diff)
    for f in sorted(others.decode().split("\n")):
        fp = os.path.join(ctx.repo, f)
        if f and os.path.isfile(fp):
            h.update(f.encode()); h.update(open(fp, "rb").read())
    for dp, dn, fn in sorted(os.walk(os.path.join(vlib.HARNESS, "C16"))):
        for f in sorted(fn):
            h.update(f.encode()); h.update(open(os.path.join(dp, f), "rb").read())
    return h.hexdigest()[:16]


def _build_real(ctx, harness_dirs=None, tags="verif", timeout=2400):
    ov = vlib.make_overlay(ctx, harness_dirs)
    key = _tree_key(ctx)
    exe = os.path.join(ctx.build, "driver-%s.test" % (key or "nocache"))
    if key and os.path.exists(exe):
        return exe, "cached test binary %s" % exe
    for old in glob.glob(os.path.join(ctx.build, "driver*.test")):
        os.remove(old)
    tmp = exe + ".tmp"
    r = subprocess.run(["timeout", str(timeout), "go", "test", "-c", "-tags", tags, "-overlay", ov, "-vet=off", "-o", tmp, PKG],
                       cwd=ctx.repo, env=vlib.go_env(), stdout=subprocess.PIPE, stderr=subprocess.STDOUT, text=True)
    if r.returncode == 0 and os.path.exists(tmp):
        os.rename(tmp, exe)
        return exe, r.stdout
    return None, r.stdout


_BG = {}


def _build(ctx, harness_dirs=None, pkg=None, tags="verif", timeout=2400):
    t = _BG.pop("thread", None)
    if t is not None:
        t.join()
        return _BG.pop("result")
    return _build_real(ctx, harness_dirs, tags, timeout)


def _run(ctx, exe, args, timeout=3600, env=None):
    n, seed = args[1], args[3]
    out = os.path.join(ctx.build, "cases.jsonl")
    if os.path.exists(out):
        os.remove(out)
    e = vlib.go_env()
    e.update(VERIF_C16_OUT=out, VERIF_C16_SEED=str(seed), VERIF_C16_N=str(n))
    r = subprocess.run(["timeout", str(timeout), exe, "-test.run", "^TestVerifC16$", "-test.count=1"], cwd=ctx.build, env=e,
                       stdout=subprocess.PIPE, stderr=subprocess.STDOUT, text=True)
    if r.returncode != 0 or not os.path.exists(out):
        raise RuntimeError("driver failed (%d): %s" % (r.returncode, r.stdout[-3000:]))
    return [json.loads(l) for l in open(out) if l.startswith("{")]


def run(ctx):
    saved = vlib.go_build, vlib.run_driver
    vlib.go_build, vlib.run_driver = _build, _run
    # the test binary is built (or found in the cache) while the Coq side is being checked
    def bg():
        try:
            _BG["result"] = _build_real(ctx)
        except Exception as e:
            _BG["result"] = (None, "build failed: %r" % e)
    _BG["thread"] = threading.Thread(target=bg)
    _BG["thread"].start()
    try:
        return vlib.standard_flow(ctx, CFG)
    finally:
        vlib.go_build, vlib.run_driver = saved


MANIFEST = dict(
    category="proof",
    text="Theorems over an executable model of felix/ipsets IPSets (desired/dataplane trackers, resync queue, retry loop, "
         "temp-set-and-swap, deferred deletions) running against a kernel of IP sets in which every single command can "
         "fail, for every history, starting kernel and map iteration order; plus a correspondence run of the model and a "
         "specification oracle against the real code with the package's mock ipset command, observed after every command.",
    note="Trusted: Coq kernel; hand-written model tied to the code only by the correspondence run; Go test driver and the "
         "package's mock ipset command; kernel command semantics as stated in the assumptions.",
)
