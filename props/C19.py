import vlib

CFG = dict(
    imports=["From Verif.Common Require Import Cas.", "From Verif.C19 Require Import Model Spec."],
    checker="check_case",
    n=dict(quick=240, thorough=6000),
    shard=30,
    rule="each case = one pool (2-8 blocks of 2-8 addresses), 1-3 hosts, an IPAM config (strict affinity / auto-allocate / "
         "block limit), and 1-3 clients of the REAL ipamClient each running 2-15 AutoAssign / AssignIP / ReleaseIPs / "
         "ReleaseByHandle operations against the in-memory CAS backend; even cases are sequential (one client), odd cases "
         "are concurrent: a seeded scheduler picks which client performs its next datastore access, injects write "
         "conflicts (4-15% of conditional writes) and at most one client crash before/after a write.  Non-trivial = "
         "sequential: at least one successful assign and one effective release; concurrent: at least one successful "
         "assign and at least one conflict or crash.  Distinct by (config, operations, schedule).",
    trusted=["Coq 8.16.1 kernel + vm_compute",
             "hand-written model coq/theories/C19/Model.v (+ Common/Cas.v) tied to libcalico-go/lib/ipam by this correspondence run: "
             "every datastore access of every client (kind, key, written value, answer) and every returned result is compared",
             "in-memory CAS backend + scheduler harness/C19/cmd/membackend (same contract as the etcdv3 backend: Create fails if "
             "present, Update/Delete compare the revision)", "Go driver harness/C19 (overlay build, tag verif)"],
    assumptions=["datastore = linearizable key/value store with per-key compare-and-swap on a revision (Common/Cas.v)",
                 "one IPv4 pool selecting every node, no IP reservations, IPCooldownSeconds=0, no MaxAllocToHandlePerIPVersion, "
                 "no Windows reserved handle, ReleaseIPs called with addresses of one block",
                 "randomBlockGenerator's start index and Go map iteration order are inputs (universally quantified in the theorems)",
                 "blocks claimed less than one minute ago are never reclaimed (EmptyBlockMinReclaimAge)"],
)

def run(ctx):
    return vlib.standard_flow(ctx, CFG)

MANIFEST = dict(
    category="proof",
    text="Theorems over an executable small-step model of the IPAM client protocol on a CAS store, for every interleaving of any "
         "number of clients with injected conflicts and crashes, plus a step-by-step correspondence run of the model and a spec "
         "oracle against the real ipamClient driven by a deterministic scheduler on an in-memory CAS backend.",
    note="Trusted: Coq kernel; hand-written model tied to the code only by the correspondence run; in-memory backend + scheduler.",
)
