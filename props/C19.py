import vlib

CFG = dict(
    imports=["From Verif.Common Require Import Cas.", "From Verif.C19 Require Import Model Spec."],
    checker="check_case",
    n=dict(quick=150, thorough=1800),
    shard=30,
    rule="cases 0-4 are scripted minimal witnesses (four handle-count findings, MaxAlloc retry after a crash); about 1 in 9 operations is an AutoAssign / AssignIP with MaxAllocToHandlePerIPVersion 1-2 (handles are shared between clients); each other case = one pool (2-8 blocks of 2-8 addresses), 1-3 hosts, an IPAM config (strict affinity / auto-allocate / "
         "block limit), and 1-3 clients of the REAL ipamClient each running 2-15 AutoAssign / AssignIP / ReleaseIPs / "
         "ReleaseByHandle / ClaimAffinity / ReleaseAffinity operations against the in-memory CAS backend; even cases are sequential (one client), odd cases "
         "are concurrent: a seeded scheduler picks which client performs its next datastore access, injects write "
         "conflicts (4-15% of conditional writes) and at most one client crash before/after a write.  Non-trivial = "
         "sequential: at least one successful assign and one effective release; concurrent: at least one successful "
         "assign and at least one conflict or crash.  Distinct by (config, operations, schedule).",
    trusted=["Coq 8.16.1 kernel + vm_compute",
             "hand-written model coq/theories/C19/Model.v (+ Common/Cas.v) tied to libcalico-go/lib/ipam by this correspondence run: "
             "every datastore access of every client (kind, key, written value, answer) and every returned result is compared",
             "in-memory CAS backend + scheduler harness/C19/cmd/membackend (same contract as the etcdv3 backend: Create fails if "
             "present, Update/Delete compare the revision)", "Go driver harness/C19 (overlay build, tag verif)"],
    assumptions=["datastore = linearizable key/value store with per-key compare-and-swap on a revision (Common/Cas.v)",
                 "one IPv4 pool selecting every node, no IP reservations, IPCooldownSeconds=0, "
                 "no Windows reserved handle, ReleaseIPs called with addresses of one block",
                 "randomBlockGenerator's start index and Go map iteration order are inputs (universally quantified in the theorems)",
                 "blocks claimed less than one minute ago are never reclaimed (EmptyBlockMinReclaimAge)",
                 "the variant of claimAffineBlock (with / without fixes/C22-claim-existing-block-bumps-revision.patch) is probed "
                 "by the driver on the tree under test and passed to the model as c_fx; all theorems are for both variants",
                 "likewise the variant of releaseByHandle (with / without fixes/C19-releasebyhandle-notfound-no-decrement.patch) is "
                 "probed and passed as c_fy; the safety theorems hold for both, the handle-agreement theorems for the fixed one",
                 "handle-agreement theorem: every client meets fewer than cf_retries-1 conflicts (otherwise the Go code abandons a "
                 "roll-back); ReleaseIPs addresses lie in the block (wf_op)"],
)

def classify(line):
    """the scripted witness cases carry the name of the finding they are the minimal replay of"""
    for t in line.get("tags") or []:
        if t.startswith("witness:"):
            return t[len("witness:"):]
    return None

CFG["classify"] = classify


def run(ctx):
    return vlib.standard_flow(ctx, CFG)


def replay(ctx, path):
    """Re-run one recorded case: the driver regenerates it against $VERIF_REPO (same seed/index), then the model and the
    oracle are evaluated on the implementation's trace; prints the first access the model cannot follow."""
    import json, subprocess, os
    obj = json.load(open(path))
    case = obj.get("case") or obj.get("first_case") or obj
    args = (case.get("sample") or {}).get("replay_args")
    coq_term = case.get("coq")
    exe, log = vlib.go_build(ctx)
    if exe and args:
        lines = [l for l in vlib.run_driver(ctx, exe, args.split()) if "coq" in l]
        if lines:
            coq_term = lines[-1]["coq"]
            print("re-ran the implementation: %s" % args)
            for l in lines[-1]["sample"].get("ops", []):
                print("  " + l)
            for l in lines[-1]["sample"].get("trace_head", []):
                print("    " + l)
    src = os.path.join(ctx.build, "replay.v")
    open(src, "w").write("From Coq Require Import List NArith ZArith String.\nImport ListNotations.\n"
                         "From Verif.Common Require Import Cas.\nFrom Verif.C19 Require Import Model Spec.\n"
                         "Definition c := " + coq_term + ".\n"
                         "(* (model agrees with the implementation, oracle accepts the implementation) *)\n"
                         "Eval vm_compute in check_case c.\n"
                         "(* first access the model of the FIXED code cannot follow: (index, request the model expected) *)\n"
                         "Eval vm_compute in first_bad c.\n")
    ok, out = vlib.coqc(src, timeout=300)
    print(out[-6000:])
    return 0 if ok else 1

MANIFEST = dict(
    category="proof",
    text="Theorems over an executable small-step model of the IPAM client protocol on a CAS store, for every interleaving of any "
         "number of clients with injected conflicts and crashes, plus a step-by-step correspondence run of the model and a spec "
         "oracle against the real ipamClient driven by a deterministic scheduler on an in-memory CAS backend.",
    note="Trusted: Coq kernel; hand-written model tied to the code only by the correspondence run; in-memory backend + scheduler.",
)
