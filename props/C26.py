import vlib

CFG = dict(
    imports=["From Verif.C26 Require Import Model Spec."],
    checker="check_case",
    n=dict(quick=150, thorough=1800),
    shard=50,
    rule="scripts of 8-35 (every tenth case 40-100) datastore outcomes for 1-3 resource types of the REAL watcherSyncer "
         "(each with/without SendDeletesOnConnFail and with/without an UpdateProcessor): successful lists (consistent "
         "snapshots of a simulated datastore that changed unobserved, arbitrary stale/partial lists, empty list with zero "
         "revision), list errors (not found, expired, too-large revision, other), watch creation outcomes (ok, expired/gone, "
         "connection refused/too many requests, not supported, other), watch events (consistent add/modify/delete, replays at "
         "the same revision, deletes of absent keys, bookmarks incl. revision 0, expired and other errors incl. bursts of >=5, "
         "channel closed, unknown type), each with an 'retry timeout elapsed' flag; non-trivial = some list returned items, "
         "InSync was reported and the status regressed afterwards; distinct by (configuration, script)",
    trusted=["Coq 8.16.1 kernel + vm_compute",
             "hand-written model coq/theories/C26/Model.v tied to libcalico-go/lib/backend/watchersyncer by this correspondence run",
             "Go driver harness/C26 (overlay build, tag verif; fake api.Client whose List/Watch/ResultChan calls block until the "
             "driver releases them one cache at a time; barrier through the results channel after every step)",
             "verif shim zz_verif_c26.go (inject a value into the results channel; shift lastSuccessfulConnTime)"],
    assumptions=["wall-clock time is abstracted to one boolean per input: 'watchRetryTimeout elapsed since the previous input'",
                 "retry sleeps (MinResyncInterval, ListRetryInterval, WatchPollInterval, MissingAPIRetryTime) are zeroed; they delay but do not change what is sent",
                 "the UpdateProcessor is a pure function of the KVPair",
                 "a revision identifies the content of a key (the code swallows an update whose revision equals the cached one): "
                 "hypothesis inputs_ok of c26_converges_content, shown necessary by c26_content_hypothesis_needed; without it convergence is of revisions",
                 "the results channel delivers each cache's results in order (FIFO), in any interleaving, with sendUpdates flushes at any points",
                 "revisions are decimal strings or the empty string (modelled as 2^64); the revision argument passed to List/Watch is not observed",
                 "shutdown (Stop) deletions are outside the observation"],
)

def run(ctx):
    return vlib.standard_flow(ctx, CFG)

MANIFEST = dict(
    category="proof",
    text="Theorems over an executable step-machine model of watcherCache/watcherSyncer, stated on the syncer's callback "
         "stream for every sequence of list/watch outcomes per resource type, every timeout pattern, every pure converter, "
         "every Go map order, every interleaving of the caches' result streams and every placement of sendUpdates flushes "
         "(convergence of the delivered updates to what the datastore last told - revisions always, contents when a "
         "revision determines content; deletion of keys that vanished during a resync; no OnUpdates while the last status "
         "is WaitForDatastore; InSync only after every cache completed a list), plus a correspondence run of the model and a "
         "specification oracle against the real watcherSyncer driven deterministically through a scripted fake client. "
         "c26_model_meets_spec: the boolean oracle accepts every scripted model run and every prefix (map order a permutation, "
         "revision determines content). The empty revision string is generated; the deliberate 'BUG: List returned items with "
         "empty/zero revision' panic is observed through a logrus hook and checked against the exact guard.",
    note="Trusted: Coq kernel; hand-written model tied to the code only by the correspondence run; Go driver and shim.",
)
