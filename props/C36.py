import vlib

CFG = dict(
    imports=["From Verif.Common Require Import Prefix.", "From Verif.C36 Require Import Model Spec IpLpm."],
    checker="check_xcase",
    n=dict(quick=240, thorough=2880),
    shard=25,
    rule="every fourth case: real calc.IpTrie (iplpm.go), 10-35 ops InsertKey/DeleteKey/GetKeys/GetLongestPrefixCidr/"
         "GetLongestPrefixCidrWithNamespaceIsolation over 3-9 keys, non-trivial = two live (cidr,key) pairs or a multi-key CIDR seen; "
         "other cases: operation sequences (12-40 ops: Update/Delete/Get/LPM/Covers/Intersects/ClosestDescendants/LookupPath/ToSlice) on "
         "the real CIDRTrie, IPv4 (60%) and IPv6 (40%), prefixes drawn from a per-case pool concentrated in 10.0.0.0/28 and "
         "fd00::/124 plus parents/children/siblings of pool members and boundary prefixes (/0, the 64-bit word boundary, "
         "all-ones); LPM queries are host addresses 3 times out of 4; non-trivial = at least 3 prefixes stored at once, at "
         "least one delete of a stored prefix and at least one query with a positive answer; distinct by (family, ops)",
    trusted=["Coq 8.16.1 kernel + vm_compute",
             "hand-written model coq/theories/C36/Model.v tied to felix/ip/trie.go by this correspondence run",
             "Go driver harness/C36 (overlay build, tag verif)"],
    assumptions=["go-patricia (third party, under felix/calc/iplpm.go) is abstracted as a finite map keyed by (ip version, prefix) whose "
                 "VisitPrefixes visits exactly the stored CIDRs containing the address, in any order",
                 "CIDRs are normalised (host bits zero), as produced by every constructor in felix/ip",
                 "uint32 / uint64-pair address arithmetic modelled as N below 2^w; data values are non-nil (Update panics on nil)",
                 "IpTrie stream: the implementation may agree with the model of DeleteKey as pinned or as patched by fixes/C36-iplpm-deletekey-nonmember.patch; the oracle (set semantics) decides"],
)

def _classify(line):
    # IpTrie.DeleteKey(cidr, key) deletes the CIDR's only key even when it is a different key
    if "iplpm:non-member-delete-of-single-key-cidr" in line.get("tags") or []:
        return "iplpm-deletekey-nonmember-single"
    return None

CFG["classify"] = _classify

def run(ctx):
    return vlib.standard_flow(ctx, CFG)

MANIFEST = dict(
    category="proof",
    text="Theorems over an executable model of the Patricia CIDR trie (intermediate nodes, width parameter covering IPv4 "
         "and IPv6): the well-formedness invariant is preserved by Update/Delete, ToSlice is the sorted finite map of "
         "stored prefixes, and Get/LPM (host and arbitrary CIDR queries)/Covers/Intersects/ClosestDescendants/LookupPath "
         "equal direct prefix arithmetic over that map for every history; the specification oracle is proved to accept "
         "every model run (c36_model_meets_spec); felix/calc/iplpm.go (IpTrie) modelled over an abstract patricia map with a set-semantics "
         "oracle and a refuted DeleteKey statement (known finding + fix patch); plus a correspondence run of models and spec "
         "oracles against the real Go code.",
    note="Trusted: Coq kernel; hand-written model tied to the code only by the correspondence run; Go driver.",
)
