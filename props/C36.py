import vlib

CFG = dict(
    imports=["From Verif.Common Require Import Prefix.", "From Verif.C36 Require Import Model Spec."],
    checker="check_case",
    n=dict(quick=240, thorough=12000),
    shard=25,
    rule="operation sequences (12-40 ops: Update/Delete/Get/LPM/Covers/Intersects/ClosestDescendants/LookupPath/ToSlice) on "
         "the real CIDRTrie, IPv4 (60%) and IPv6 (40%), prefixes drawn from a per-case pool concentrated in 10.0.0.0/28 and "
         "fd00::/124 plus parents/children/siblings of pool members and boundary prefixes (/0, the 64-bit word boundary, "
         "all-ones); LPM queries are host addresses 3 times out of 4; non-trivial = at least 3 prefixes stored at once, at "
         "least one delete of a stored prefix and at least one query with a positive answer; distinct by (family, ops)",
    trusted=["Coq 8.16.1 kernel + vm_compute",
             "hand-written model coq/theories/C36/Model.v tied to felix/ip/trie.go by this correspondence run",
             "Go driver harness/C36 (overlay build, tag verif)"],
    assumptions=["CIDRs are normalised (host bits zero), as produced by every constructor in felix/ip",
                 "uint32 / uint64-pair address arithmetic modelled as N below 2^w; data values are non-nil (Update panics on nil)",
                 "felix/calc/iplpm.go wraps the third-party go-patricia trie and is not modelled"],
)

def run(ctx):
    return vlib.standard_flow(ctx, CFG)

MANIFEST = dict(
    category="proof",
    text="Theorems over an executable model of the Patricia CIDR trie (intermediate nodes, width parameter covering IPv4 "
         "and IPv6): the well-formedness invariant is preserved by Update/Delete, ToSlice is the sorted finite map of "
         "stored prefixes, and Get/LPM (host and arbitrary CIDR queries)/Covers/Intersects/ClosestDescendants/LookupPath "
         "equal direct prefix arithmetic over that map for every history; the specification oracle is proved to accept "
         "every model run (c36_model_meets_spec); plus a correspondence run of model and spec "
         "oracle against the real Go trie.",
    note="Trusted: Coq kernel; hand-written model tied to the code only by the correspondence run; Go driver.",
)
