import vlib


def classify(line):
    tags = line.get("tags") or []
    kind = [t for t in tags if t.startswith("kind:")]
    kind = kind[0][5:] if kind else ""
    if kind in ("staged", "ep-staged") and "has:absent-policy" in tags:
        return "staged-policy-in-tier-stops-rendering"
    if kind == "rule-services-plus" or (kind == "rule-unsupported" and "unsupported:services-plus" in tags):
        return "services-rule-ignores-other-criteria"
    if kind == "ep-lastpass":
        return "pass-leaves-last-list-becomes-block"
    if kind.startswith("ep") and "tree:combine-ports-unfixed" in tags and "has:pass-ports-meet-ports" in tags:
        return "flatten-combine-ports-empty-or-panic"
    return None


CFG = dict(
    imports=["From Verif.Common Require Import Packet PolicyRef.", "From Verif.C30 Require Import Model Spec EndModel EndSpec HistModel HistSpec RenderModel RenderSpec."],
    checker="check_top",
    n=dict(quick=230, thorough=2760),
    shard=28,
    rule="RENDERING HISTORIES (kind:render-history): ONE real PolicySets + policy manager serving 2-3 renderings by the real "
         "endpoint manager with different tier layouts (tier-a / default / baseline subsets; the first rendering often ends with "
         "the default tier, later ones add the tier after it), policies with leading Pass rules, sometimes a policy re-sent "
         "(same or new content) in between; every rendering compared with the model and judged by the endpoint oracle on its own.  "
         "HISTORIES (kind:history): the real Windows IP-set cache (felix/dataplane/windows/ipsets) wired to the real PolicySets "
         "as the dataplane wires it (every IP-set change ends in ProcessIpSetUpdate(id)); sets start missing / empty / populated / "
         "disjoint from the rules' CIDRs, then 1-3 policies arrive (most rules use an IP set, often with CIDRs), then 3-7 further "
         "operations in arbitrary order: AddMembers, RemoveMembers, AddOrReplaceIPSet, RemoveIPSet, AddOrReplacePolicySet, "
         "RemovePolicySet; GetPolicySetRules observed after EVERY step, compared with the model (up to the order of an address "
         "list: the cache is a Go map) and evaluated against PolicyRef for the CURRENT policies and CURRENT set contents.  "
         "ENDPOINT LEVEL (kind:ep*): the real endpointManager (verif shim: newEndpointManager with a fake HNS endpoint list, "
         "OnUpdate(WorkloadEndpointUpdate), CompleteDeferredWork, applied rules read from activeWlACLPolicies) behind the real "
         "policyManager and PolicySets: 0-3 tiers (tier-a, tier-b, default; default action Deny/Pass; 1-2 policies each listed for "
         "ingress and/or egress, Pass rules frequent in non-last tiers), 0-2 profiles, host addresses; both directions compared "
         "with the model (flattenTiers, combineRules, rewritePriorities, host and node rules; panics are an observable) and "
         "evaluated against PolicyRef.endpoint_verdict; ep-lastpass = Pass in the default tier / in a profile, ep-staged = staged "
         "policies in tiers, ep-ports = Pass rules with ports in front of rules with ports; kind:rewrite-priorities = "
         "rewritePriorities alone with small limits (grouped branch). The driver probes combinePorts to tell the model which "
         "variant the tree has.  TIER LEVEL: real policysets.PolicySets with a fake HNS API and a fake IP-set cache. kind:tier = 1-4 policies/profiles "
         "(0-4 supported rules per direction: allow/deny/pass/log, protocol by name or number, 0-2 CIDRs per side "
         "(some with host bits, bare IPs, IPv6), port lists, at most one IP-set id per side, egress services rules) added with "
         "AddOrReplacePolicySet in shuffled order (some replaced), then GetPolicySetRules(ids, direction, endOfTierDrop); "
         "kind:rule = protoRuleToHnsRules through a verif shim with chunk size 1-3 and up to 5 entries per list; "
         "kind:unsupported / rule-unsupported = rules with negations, ICMP, named ports, two set ids, services+other criteria "
         "(model==implementation only, oracle only inside the domain); kind:staged = tiers naming a policy the policy "
         "manager never added (staged policies, exactly as endpoint_mgr.go passes them; oracle applied: known finding); kind:big = an IP set with >4000 members (real chunking at 4000). 8-10 connections per case "
         "aimed at CIDR/port boundaries and set members. non-trivial = >=2 policy rules rendered and a connection decided "
         "by a non-default rule; distinct by full case",
    classify=classify,
    trusted=["Coq 8.16.1 kernel + vm_compute",
             "hand-written model coq/theories/C30/Model.v tied to felix/dataplane/windows/policysets by this correspondence run",
             "reference policy semantics coq/theories/Common/PolicyRef.v",
             "HNS ACL evaluation as stated in C30/Spec.v (hmatch / winners): per direction, lowest priority number among matching "
             "rules wins, empty address/port field = any, protocol 256 = any, inbound local = destination",
             "endpoint level: Switch and Host rules are two layers that must both allow (EndSpec.ep_gives)",
             "Go driver harness/C30 (overlay build, tag verif) incl. its parsing of the ACL address/port strings"],
    assumptions=["IPv4 connections only (the Windows dataplane renders ipVersion 4)",
                 "domain guard Spec.in_domain: supported criteria only, at most one IP-set id per side (getIPSetAddresses unions "
                 "several ids where the reference semantics intersects; Felix cannot receive more), services rules carry no other "
                 "criterion and are egress rules, every policy of the tier is known to the policy manager (no staged policy in the tier), profile rules do not "
                 "use Pass across profiles (one GetPolicySetRules call is compared with PolicyRef.tier_verdict), < 64000 HNS rules per tier "
                 "(uint16 priorities)",
                 "endpoint level (EndSpec.ep_domain): additionally no Pass rule in profiles, and when the default tier has policies "
                 "for the direction the last tier with policies has no Pass rule and does not default to Pass (a Pass leaving the "
                 "last rule list becomes Block: known finding); connections from the node's own addresses are excluded (node->endpoint "
                 "allow rule); combinePorts as repaired by fixes/C30-combine-ports-empty-and-last-port.patch (the unrepaired variant is "
                 "modelled too and refuted)",
                 "no static rules file", "IP-set members are IPv4 CIDRs/addresses; ip,port members are <ip>,<proto>:<port>"],
)


def run(ctx):
    return vlib.standard_flow(ctx, CFG)


MANIFEST = dict(
    category="proof",
    text="Theorems over an executable model of protoRuleToHnsRules/GetPolicySetRules and IntersectCIDRs: for every policy "
         "set in the stated domain, all IP-set contents and every IPv4 connection, evaluating the generated HNS ACL rules by "
         "priority gives the verdict of the reference policy semantics (incl. chunking cross products, CIDR/IP-set "
         "intersection, the services short-circuit, pass / end-of-tier), rules sharing a priority share an action and the "
         "verdict is invariant under reordering; at endpoint level the final flattened list (flattenTiers, combineRules, "
         "rewritePriorities, host rules) evaluated by priority gives PolicyRef.endpoint_verdict for both directions "
         "(c30_endpoint_same_verdict); over histories of policy-set and IP-set operations the cached rules always equal "
         "the rules computed fresh from the current policies and sets (c30_history_independent); plus a correspondence run of the model and of the spec oracle against the "
         "real Go code on generated policies, tier layouts, IP sets and connections.",
    note="Trusted: Coq kernel; hand-written model tied to the code only by the correspondence run; stated HNS evaluation "
         "semantics; PolicyRef reference semantics; Go driver.",
)
