import vlib

CFG = dict(
    imports=["From Verif.Common Require Import Labels Prefix.", "From Verif.C04 Require Import Model Spec."],
    checker="check_case",
    deps=["C36"],
    n=dict(quick=128, thorough=1536),
    shard=16,
    rule="histories of 10-40 operations (UpdateIPSet / DeleteIPSet / workload, host endpoint and network set updates "
         "through OnUpdate / raw UpdateEndpointOrSet / DeleteEndpoint / profile label updates and deletes) on the real "
         "SelectorAndNamedPortIndex with the overlap suppressor on (half) and off (half); small pools of shared host IPs, "
         "nested/duplicate/unmasked CIDRs, /0 and its halves (v4 and v6), named ports with string/numeric/mixed-case "
         "protocols, 3 profiles, 4 IP set IDs re-used with changing selectors; non-trivial = at least 4 member events; "
         "distinct by (suppressor flag, operation list)",
    trusted=["Coq 8.16.1 kernel + vm_compute",
             "hand-written model coq/theories/C04/Model.v tied to felix/labelindex/named_port_index.go by this correspondence run",
             "Go driver harness/C04 (overlay build, tag verif); it prints the selector AST produced by the real parser"],
    assumptions=["oracles_ok: candidate pruning by the label indexes keeps every true match (property C07) and Go map / set "
                 "iteration is an arbitrary permutation, possibly different at every use; both are universally quantified in every theorem",
                 "op_wf: addresses fit their family, prefix lengths are within the width, ip.CIDR values are masked",
                 "op_interned: selectors with the same canonical text (what Selector.Equal compares) evaluate alike (property C06); "
                 "only used by the theorems stated against the datastore view",
                 "the suppressor's per-set, per-family CIDR trie is the set of stored prefixes in Model.v; Trie.v re-states "
                 "memberDeduplicator.Add/Remove on C36's trie model and proves (c04_trie_*_refines, from c36 update/delete/covers/"
                 "closest_descendants) that each call returns the set model's answer under some order of the masked CIDRs; the "
                 "composition over a whole history (choosing the shuffle oracle call by call) is not a separate theorem",
                 "uint64 reference counts do not overflow (nat)",
                 "an endpoint's profile ID list has no duplicates (generator domain; a duplicate makes DeleteEndpoint panic: "
                 "fixed in /repo by 6988aad from fixes/C04-duplicate-profile-ids.patch; the driver keeps a probe for it)"],
)

def _extra(ctx, lines):
    out = []
    for l in lines:
        if l.get("probe") == "dup-profile" and l.get("panic"):
            out.append((dict(key="dup-profile-panic", kind="implementation-panic", panic=l["panic"],
                             input="HostEndpoint with ProfileIDs [p, p] created and then deleted (OnUpdate)",
                             note="outside the C04 statement (no IP set content is wrong) but Felix's calculation graph dies"), ""))
    return out

CFG["extra"] = _extra

def run(ctx):
    return vlib.standard_flow(ctx, CFG)

MANIFEST = dict(
    category="proof",
    text="Theorems over an executable model of SelectorAndNamedPortIndex for every history of IP set, endpoint, network set and "
         "profile updates, every Go map iteration order and every sound candidate pruning (global invariant proved by induction "
         "over the history): reference count = number of contributions; the OnMemberAdded/OnMemberRemoved stream never adds a "
         "present member or removes an absent one; its accumulation equals, as a set, the members the rule selects in the "
         "datastore view (addresses / CIDRs, or address-port-protocol for named ports); with overlap suppression the emitted "
         "CIDRs are an antichain, each is a selected CIDR and every selected CIDR lies inside an emitted one; the spec oracle "
         "accepts every model run.  Plus a correspondence run of model and spec oracle against the real Go index with both "
         "suppressor settings.",
    note="Trusted: Coq kernel; hand-written model tied to the code only by the correspondence run; Go driver.",
)
