import vlib

CFG = dict(
    imports=["From Verif.Common Require Import Labels Prefix.", "From Verif.C04 Require Import Model Spec."],
    checker="check_case",
    n=dict(quick=400, thorough=12000),
    shard=50,
    rule="histories of 10-40 operations (UpdateIPSet / DeleteIPSet / workload, host endpoint and network set updates "
         "through OnUpdate / raw UpdateEndpointOrSet / DeleteEndpoint / profile label updates and deletes) on the real "
         "SelectorAndNamedPortIndex with the overlap suppressor on (half) and off (half); small pools of shared host IPs, "
         "nested/duplicate/unmasked CIDRs, /0 and its halves (v4 and v6), named ports with string/numeric/mixed-case "
         "protocols, 3 profiles, 4 IP set IDs re-used with changing selectors; non-trivial = at least 4 member events; "
         "distinct by (suppressor flag, operation list)",
    trusted=["Coq 8.16.1 kernel + vm_compute",
             "hand-written model coq/theories/C04/Model.v tied to felix/labelindex/named_port_index.go by this correspondence run",
             "Go driver harness/C04 (overlay build, tag verif); it prints the selector AST produced by the real parser"],
    assumptions=["candidate pruning (label indexes) keeps every true match (property C07): oracle hypothesis prune_*_sound",
                 "Go map iteration order = arbitrary permutation (hypothesis shuffle_perm)",
                 "the suppressor's CIDR trie is the set of stored prefixes (C36: c36_update, c36_delete, c36_covers); "
                 "ClosestDescendants = maximal stored prefixes strictly inside the query",
                 "uint64 reference counts do not overflow (nat)",
                 "an endpoint's profile ID list has no duplicates (generator domain)"],
)

def run(ctx):
    return vlib.standard_flow(ctx, CFG)

MANIFEST = dict(
    category="proof",
    text="Theorems over an executable model of SelectorAndNamedPortIndex for every history of IP set, endpoint, network set and "
         "profile updates, every Go map iteration order and every sound candidate pruning: reference count = number of "
         "contributions, the accumulated OnMemberAdded/OnMemberRemoved stream equals the members selected by the rule, no "
         "duplicate adds/removes, and with overlap suppression the emitted CIDRs are an antichain with the same cover; plus a "
         "correspondence run of model and spec oracle against the real Go index with both suppressor settings.",
    note="Trusted: Coq kernel; hand-written model tied to the code only by the correspondence run; Go driver.",
)
