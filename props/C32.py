import vlib

K_WALK = "emit-walk-aligned-with-head"
K_PHANTOM = "list-partial-bucket-phantom-flow"


def classify(line):
    tags = line.get("tags") or []
    # exactly the two recorded classes: (1) the configuration in which EmitFlowCollections' backward walk lands
    # exactly on the head bucket ((numBuckets-1-pushAfter) % bucketsToAggregate == 0; separate 1-in-8 stream of the
    # driver), (2) a List whose end bound is inside a bucket returned an all-zero flow with StartTime 0.
    if "cfg:walk-aligned-with-head" in tags:
        return K_WALK
    if "obs:list-phantom-zero-flow" in tags:
        return K_PHANTOM
    return None


CFG = dict(
    imports=["From Verif.C32 Require Import Model Spec."],
    checker="check_case",
    n=dict(quick=160, thorough=1920),
    shard=40,
    rule="random interleavings (10-44 ops) of AddFlow (now bucket, future bucket, late, boundary instants, too old, too far "
         "ahead), Rollover with/without sink, sink attach (EmitFlowCollections), List and Statistics over bucket-aligned, "
         "unaligned, unbounded and out-of-history ranges, on rings of 4-15 buckets, intervals 1/5/15/60 s, random "
         "pushAfter/bucketsToAggregate; non-trivial = at least 2 accepted flows and 1 rollover; distinct by (config, ops)",
    trusted=["Coq 8.16.1 kernel + vm_compute", "hand-written model coq/theories/C32/Model.v tied to goldmane/pkg/storage by this correspondence run",
             "Go driver harness/C32 (overlay build, tag verif) incl. its prediction of a non-terminating emission walk "
             "(the real call is skipped when the index arithmetic on the real pushed flags cannot terminate)"],
    assumptions=["int64 arithmetic modelled as Z (no overflow at unix-second magnitudes)",
                 "one goroutine drives the ring (goldmane's main loop serialises all requests)",
                 "flow keys carry one enforced policy hit; Statistics observed for GroupBy=Policy, packet and byte counts, AllowedIn",
                 "List observed through the default time index without filter or pagination"],
    classify=classify,
)


def run(ctx):
    return vlib.standard_flow(ctx, CFG)


MANIFEST = dict(
    category="proof",
    text="Theorems over the executable model of goldmane's BucketRing (index arithmetic of findBucket, ring consistency "
         "under every history, conservation between buckets and diachronic windows, emission walk), plus a correspondence "
         "run of model and specification oracle against the real BucketRing on generated interleavings.",
    note="Trusted: Coq kernel; hand-written model tied to the code only by the correspondence run; Go driver.",
)
