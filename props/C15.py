import vlib

CFG = dict(
    imports=["From Verif.C15 Require Import Model Spec."],
    checker="check_case",
    n=dict(quick=140, thorough=1680),
    shard=40,
    rule="real iptables.Table (legacy backend 3/4 and BackendMode nft 1/4, table filter) over testutils.MockDataplane: generated starting kernel tables "
         "(foreign chains/rules, stale cali-/felix-/califw- chains, old-hash and old-insert Felix rules and current rules in any "
         "position of kernel and owned chains, owned chains with only NON-FINAL rules replaced/swapped/duplicated while length and last rule are kept, missing kernel chains), histories of 4-18 ops (UpdateChain/RemoveChain with "
         "acyclic references and ForceProgramming, InsertOrAppendRules/AppendRules, insert and append mode, timer invalidation, "
         "out-of-band edits (incl. inner edits of programmed Felix chains), a converge / inner-edit / timer-invalidate / Apply tail with unchanged wanted state in 3/5 of the cases, restarts, Apply with injected save/restore failures and edits racing between save and restore); "
         "restore executed atomically by MockDataplane's executor (delete-by-value removes all matches) or by a first-match "
         "executor; non-trivial = at least one successful Apply that wrote a restore input and the case has stale/disturbed "
         "Felix state, an out-of-band edit or an injected fault; distinct by (starting kernel, ops)",
    trusted=["Coq 8.16.1 kernel + vm_compute",
             "hand-written model coq/theories/C15/Model.v tied to felix/iptables/table.go by this correspondence run",
             "Go driver harness/C15 (overlay build, tag verif); rule lines and hash strings are interned by the driver; the "
             "driver classifies kernel lines (hash comment / old-insert regex) with the same regular expressions as NewTable",
             "iptables/testutils.MockDataplane as the stand-in for iptables-save/iptables-restore"],
    assumptions=["iptables-restore --noflush is all-or-nothing (the driver wraps the mock's executor with snapshot/rollback); in nft mode the two transactions of one restore input are one all-or-nothing unit",
                 "no forged hashes: a kernel line that carries the hash of a wanted rule is that rule's rendered text "
                 "(RuleHashes collision-free and nobody edits a rule while keeping Felix's hash comment)",
                 "API discipline: UpdateChain/RemoveChain and jump/goto targets name Felix-owned chains, "
                 "InsertOrAppendRules/AppendRules name non-owned chains; rendered rules carry a non-empty hash",
                 "chain reference graph acyclic (the spec's reachability = the code's reference counts only then)",
                 "time frozen: the refresh / post-write timers enter as explicit invalidate events"],
)

def _classify(case_line):
    # UpdateChain dropping the ForceProgramming flag of a chain (executed on a live table) somewhere in the history
    if "force-downgrade" in (case_line.get("tags") or []):
        return "force-downgrade-refcount-leak"
    return None

CFG["classify"] = _classify

def run(ctx):
    return vlib.standard_flow(ctx, CFG)

MANIFEST = dict(
    category="proof",
    text="Theorems over an executable model of iptables.Table (hash read-back, dirty tracking, positional delta / nft "
         "flush-and-rewrite, hook re-insertion, stale-chain cleanup, reference counts, retry loop) and of iptables-restore: "
         "from ANY kernel table and any Table state satisfying the proved history invariant, a successful Apply after a "
         "re-read brings every chain to its target (owned chains = wanted rules in order, stale chains and stale/old-hash "
         "hook rules gone, hooks at the configured position); foreign rules/chains are never touched by any Apply (any "
         "failures, racing edits, stale caches); a chain whose hashes already match gets no line in the restore input; the "
         "invariant holds after every history of API calls, failed applies, out-of-band edits and restarts; fuel of the "
         "refcount recursion is sufficient on acyclic chain graphs; plus a correspondence run of the model and a "
         "history-level spec oracle against the real Table driven through MockDataplane (legacy and nft BackendMode).",
    note="Trusted: Coq kernel; hand-written model tied to the code only by the correspondence run; Go driver. Hypotheses of "
         "the theorems: no forged hashes (RuleHashes collision-free), iptables-restore atomic (nft: both transactions one "
         "unit), API discipline op_ok, kernel chain names not Felix-owned. Not covered: nftables backend "
         "(felix/nftables/table.go), cleanup-only tables, timers (enter as explicit invalidate events), chain-reference "
         "constraints of --delete-chain; the no-rewrite theorems are stated for the legacy backend. Finding "
         "force-downgrade-refcount-leak: fixed in /repo (3795ecd); the model carries both variants (cf_fix, probed).",
)
