import vlib

CFG = dict(
    imports=["From Verif.C25 Require Import Model Spec.", "Open Scope N_scope."],
    checker="check_case",
    n=dict(quick=500, thorough=12000),
    rule="op sequences over 6 keys x 3 values against the real DedupeBuffer with a recording sink: protocol-shaped runs "
         "(changing datastore, snapshot in batches, in-sync, deltas, 2-4 connections, restarts also mid-snapshot), "
         "unconstrained op soups and a boundary stream (duplicates, deletes of unknown keys, status flapping, back-to-back "
         "restarts, pull 0); pulls of size 0-4 and full drains at arbitrary points; non-trivial = a restart happened while "
         "the sink held at least one key and later the buffer was empty with the latest connection in sync; distinct by op list",
    trusted=["Coq 8.16.1 kernel + vm_compute",
             "hand-written model coq/theories/C25/Model.v tied to dedupe_buffer.go by this correspondence run",
             "Go driver harness/C25 (overlay build, tag verif) with the export shim zz_verif_c25.go (VerifPull = pullNextBatch + dropLockAndSendBatch)"],
    assumptions=["the consumer's pull-and-deliver is atomic w.r.t. producer callbacks (batch content and liveResourceKeys are fixed under the lock in pullNextBatch, so the sink's stream is unaffected by interleaving)",
                 "Go map iteration order over liveKeysNotSeenSinceReconnect is an explicit, universally quantified parameter of the model",
                 "model.Key values are compared by Go equality (keys are abstract naturals in the model)",
                 "syncclient calls OnTyphaConnectionRestarted() before delivering anything from a new connection (checked only at source level by props/C25.py:_restart_call_check; the client's network loop is not executed)"],
)

import os, re

def _restart_call_check(ctx, lines):
    """The theorems assume the client announces a new connection with OnTyphaConnectionRestarted() before anything
    from that connection reaches the buffer.  Source-level (translation-style) check of that one fact in
    typha/pkg/syncclient/sync_client.go: inside SyncerClient.Start's reconnect loop the call is present and precedes
    the startOneConnection call of the loop.  Silent when the function cannot be located (refactor)."""
    path = os.path.join(ctx.repo, "typha/pkg/syncclient/sync_client.go")
    try:
        src = open(path).read()
    except OSError:
        return []
    src = re.sub(r"//[^\n]*", "", src)
    m = re.search(r"func \(s \*SyncerClient\) Start\(.*?\n}\n", src, re.S)
    if not m:
        ctx.log("C25: SyncerClient.Start not found; restart-call check skipped")
        return []
    body = m.group(0)
    loop = body.find("for cxt.Err() == nil")
    if loop < 0:
        ctx.log("C25: reconnect loop not found; restart-call check skipped")
        return []
    tail = body[loop:]
    call = tail.find(".OnTyphaConnectionRestarted()")
    start = tail.find("startOneConnection(")
    if start >= 0 and (call < 0 or call > start):
        return [(dict(kind="restart-not-announced", file="typha/pkg/syncclient/sync_client.go",
                      note="SyncerClient.Start reconnects (startOneConnection in the reconnect loop) without first calling "
                           "OnTyphaConnectionRestarted() on the callbacks: the buffer then treats the new snapshot as deltas, "
                           "resources deleted while disconnected are never removed downstream (hypothesis of c25_converges unmet)"),
                 "")]
    return []

CFG["extra"] = _restart_call_check

def run(ctx):
    return vlib.standard_flow(ctx, CFG)

MANIFEST = dict(
    category="proof",
    text="Refinement proof over an executable model of DedupeBuffer (queue, keyToPendingUpdate, liveResourceKeys, "
         "liveKeysNotSeenSinceReconnect, mostRecentStatusReceived) for every sequence of updates, statuses, restarts and "
         "pulls: convergence of the sink view to the latest connection's view, new/updated typing, deletions only for held "
         "keys, nothing stale when in-sync is delivered; plus a correspondence run of model and spec oracle against the real Go code.",
    note="Trusted: Coq kernel; hand-written model tied to the code only by the correspondence run; Go driver and shim.",
)
