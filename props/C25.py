import vlib

CFG = dict(
    imports=["From Verif.C25 Require Import Model Spec.", "Open Scope N_scope."],
    checker="check_case",
    n=dict(quick=500, thorough=6000),
    driver_args=lambda ctx, n, seed: ["-n", n, "-seed", seed, "-nclient", max(40, n // 12), "-nbulk", max(8, n // 60)],
    rule="op sequences over 6 keys x 3 values against the real DedupeBuffer with a recording sink: protocol-shaped runs "
         "(changing datastore, snapshot in batches, in-sync, deltas, 2-4 connections, restarts also mid-snapshot), "
         "unconstrained op soups and a boundary stream (duplicates, deletes of unknown keys, status flapping, back-to-back "
         "restarts, pull 0; value-less updates typed deleted/new/updated/unknown); bulk stream (105-144 keys, drains in several "
         "batches of 100); callbacks structure (OnUpdates slices / statuses) compared with Model.callbacks_of; second stream (about 1 in 13 cases): the REAL syncclient.SyncerClient (Start, reconnect goroutine, "
         "startOneConnection, connect, loop) with the REAL DedupeBuffer as its callbacks over loopback TCP against a scripted "
         "Typha endpoint (snapshot in batches, in-sync, deltas, connection dropped mid-snapshot / after in-sync / refused at the "
         "handshake, datastore changed while away), history given to model and oracle = the endpoint's ground truth (every drop "
         "is a restart); pulls of size 0-4 and full drains at arbitrary points; non-trivial = a restart happened while "
         "the sink held at least one key and later the buffer was empty with the latest connection in sync; distinct by op list",
    trusted=["Coq 8.16.1 kernel + vm_compute",
             "hand-written model coq/theories/C25/Model.v tied to dedupe_buffer.go by this correspondence run",
             "Go driver harness/C25 (overlay build, tag verif) with the export shim zz_verif_c25.go (VerifPull = pullNextBatch + dropLockAndSendBatch)",
             "scripted Typha endpoint inside the driver (accept loop, handshake, MsgKVs/MsgSyncStatus/MsgPing) for the real-syncclient stream"],
    assumptions=["the consumer's pull-and-deliver is atomic w.r.t. producer callbacks (batch content and liveResourceKeys are fixed under the lock in pullNextBatch, so the sink's stream is unaffected by interleaving)",
                 "Go map iteration order over liveKeysNotSeenSinceReconnect is an explicit, universally quantified parameter of the model",
                 "model.Key values are compared by Go equality (keys are abstract naturals in the model)",
                 "second stream: the scripted endpoint speaks the gob Envelope protocol without compression (DisableDecoderRestart) and follows each message with ping/pong so that the driver acts only when the client is idle; the real Typha server side is C24's subject"],
)

def run(ctx):
    return vlib.standard_flow(ctx, CFG)

MANIFEST = dict(
    category="proof",
    text="Refinement proof over an executable model of DedupeBuffer (queue, keyToPendingUpdate, liveResourceKeys, "
         "liveKeysNotSeenSinceReconnect, mostRecentStatusReceived) for every sequence of updates, statuses, restarts and "
         "pulls: convergence of the sink view to the latest connection's view, new/updated typing, deletions only for held "
         "keys, nothing stale when in-sync is delivered; plus a correspondence run of model and spec oracle against the real Go code.",
    note="Trusted: Coq kernel; hand-written model tied to the code only by the correspondence run; Go driver and shim.",
)
