import vlib

# Known finding class: SelectorAndNamedPortIndex panics ("discard of unknown ID") when an endpoint whose parent-id list names
# the same parent twice is deleted or stops naming that parent.  Only the directed scenario produces it.
def classify(case_line):
    tags = case_line.get("tags") or []
    if "np:panic" in tags and "np:duplicate-parent-ids" in tags:
        return "np-duplicate-parent-panic"
    return None

CFG = dict(
    classify=classify,
    imports=["From Verif.Common Require Import Labels.", "From Verif.C07 Require Import Model Spec."],
    checker="check_case",
    n=dict(quick=240, thorough=8000),
    shard=30,
    rule="five streams on the real code: (idx, 40%) histories of 10-35 calls of UpdateLabels/DeleteLabels/UpdateParentLabels/"
         "DeleteParentLabels/UpdateSelector/DeleteSelector on the real InheritIndex over 2-4 items, 1-3 parents, 2-4 selector ids, "
         "labels a,b,c with values x,y,z,xy,yx (own labels overriding inherited ones, nil/empty/non-empty parent label maps, duplicate "
         "parent ids, re-sent unchanged selectors; 45% of them are 'contested label' histories: 2-3 parents set the SAME label to DIFFERENT values, items leave "
         "that label to their parents, selectors tell the values apart, and UpdateLabels calls change ONLY the order or the multiplicity of an item's "
         "parent ids ([p,q]->[q,p], [p,p,q]->[p,q,q], [p,p]->[p,q]) with identical own labels, both selector-first and endpoint-first); (restr, 20%) selectors built by the real parser (all node types, nesting <= 3, "
         "empty sets, !has, negated groups; 40% are same-label expressions: nested &&/|| over ONE label with == alternatives and in{...} lists "
         "written in non-ascending order with repeats, ORs as non-first operands of ANDs, ORs inside ORs) with their real LabelRestrictions() and real Evaluate on 12 label maps; (ri, 10%) "
         "AddSelector/DeleteSelector/AllPotentialMatches histories on the real LabelRestrictionIndex; (nv, 10%) Add/Remove/"
         "StrategyFor+Scan histories on the real LabelNameValueIndex; (np, 20%) UpdateEndpointOrSet/DeleteEndpoint/UpdateParentLabels/"
         "DeleteParentLabels histories on the real SelectorAndNamedPortIndex with the output of iterEndpointCandidates for generated "
         "selectors (compared with the model under every iteration order of the restriction map), plus one directed scenario "
         "with a duplicated parent id.  non-trivial = idx: a stop callback and a match moved by a "
         "parent-label change occur; restr: non-empty restrictions and both evaluation results occur; ri/nv/np: some query was "
         "answered with fewer candidates than live selectors/items; distinct by full input",
    trusted=["Coq 8.16.1 kernel + vm_compute",
             "hand-written models coq/theories/C07/Model.v (+ Common/Labels.v selector semantics) tied to felix/labelindex, "
             "labelrestrictionindex, labelnamevalueindex and parser/ast.go LabelRestrictions by this correspondence run",
             "Go driver harness/C07 (overlay build, tag verif) and the read-only shim felix/labelindex/zz_verif_c07.go"],
    assumptions=["uniquestr handles compare equal iff the strings are equal",
                 "Selector.Equal (hash of canonical text) is modelled by structural equality of parser ASTs; the theorems need only "
                 "that Equal implies same evaluation on every label map (C06)",
                 "Go map/set iteration order is the oracle `ord`; theorems hold for every permutation-valued oracle",
                 "parentData pointers held by items are modelled by parent ids (theorem c07_parents_live shows a referenced parent is never dropped)",
                 "AndNode/OrNode range over Go maps keyed by label; every key is handled independently, the model folds in list "
                 "order and restriction maps are compared as maps (c07_filing_order_free covers the one order-sensitive consumer, "
                 "findMostRestrictedLabel; iterEndpointCandidates is modelled and proved for every order)",
                 "LabelNameStrategy's count field is modelled by its value (number of stored (item,label) entries); "
                 "estimateParentEndpointScanCount is modelled exactly for scans of at most 10 parents (the theorem holds for any estimate)",
                 "a panic of the real code on a valid history is a failing case (CCrash/CPanic)",
                 "sort.Slice yields the ascending arrangement; the slice-level summaries (restrictions_f: in-place sort/dedup, bisection "
                 "Contains, append order) are compared with the real LabelRestrictions() value for value in order"],
)

def run(ctx):
    cfg = dict(CFG)
    if ctx.tier != "quick":
        cfg["shard"] = 300
    return vlib.standard_flow(ctx, cfg)

def replay(ctx, path):
    """./check C07 --replay <file>: regenerate the recorded case (the driver is deterministic in seed and index), run it on
    the real code of $VERIF_REPO again, and evaluate model and oracle in Coq."""
    import json
    obj = json.load(open(path))
    case = obj.get("case") or obj.get("first_case") or {}
    smp = case.get("sample", {})
    if "seed" not in smp or "index" not in smp:
        print(json.dumps(obj, indent=1)); return 0
    ok, log = vlib.coq_build(["theories/Common/CaseLib.vo"] + vlib.prop_targets("C07"))
    if not ok:
        print(log[-3000:]); return 1
    exe, blog = vlib.go_build(ctx)
    if exe is None:
        print(blog[-3000:]); return 1
    lines = vlib.run_driver(ctx, exe, ["-n", smp["index"] + 1, "-seed", smp["seed"], "-only", smp["index"]])
    failing, _ = vlib.coq_eval_cases(ctx, CFG["imports"], CFG["checker"], [l["coq"] for l in lines], shard=10)
    rc = 0
    for i, l in enumerate(lines):
        bad = [f for f in failing if f[0] == i]
        print(json.dumps(l["sample"], indent=1, sort_keys=True))
        print("tags:", l["tags"])
        print("same input as recorded:", l.get("key") == case.get("key"))
        print("model agrees with implementation:", not bad or bad[0][1])
        print("specification oracle accepts implementation output:", not bad or bad[0][2])
        if bad and not bad[0][2]:
            rc = 1
    return rc

MANIFEST = dict(
    category="proof",
    text="Theorems over executable models of InheritIndex, Selector.LabelRestrictions, LabelRestrictionIndex, "
         "LabelNameValueIndex and SelectorAndNamedPortIndex.iterEndpointCandidates for every history and every map-iteration order (index match set = direct evaluation on effective "
         "labels; start/stop callbacks alternate; restrictions are implied by a true evaluation; candidate scans of the restriction "
         "index, the name/value index and iterEndpointCandidates are supersets of the true matches), "
         "plus a correspondence run of the models and specification oracles against the real Go code.",
    note="Trusted: Coq kernel; hand-written models tied to the code only by the correspondence run; Go driver and shim.",
)
