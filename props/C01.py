"""C01 - Felix's computed dataplane state depends only on the current datastore state."""
import json, os, subprocess
import vlib

KEYS = {
    "stale-policy-order": "stale-policy-sorter-entry",
    "route-block-flags": "block-update-leaves-contained-routes-stale",
    "tier-default-action": "deleted-tier-keeps-default-action",
}


def classify(line):
    # Known classes (known-findings.txt), decided cell by cell by the driver's diff() on the two dataplane states:
    #  stale-policy-order : the ONLY difference in an endpoint is the placement (tier / position / direction / group) of policies
    #                       whose match started and stopped between two effective flushes (it vanishes when they are removed);
    #  route-block-flags  : a route differs only in LOCAL_WORKLOAD/REMOTE_WORKLOAD type bits and the borrowed flag;
    #  tier-default-action: an endpoint has the same tiers and policy lists, only a TierInfo default_action differs.
    # A case whose every differing cell is in one of these classes carries them joined by "+".  Anything else (another kind of
    # object differs, panic, stream not reference-closed) has class "other"/"panic"/"stream-not-closed" and is NEW.
    if line.get("diff_class") == "l3":
        # L3 resolver slice: the oracle is route table == route_of(final inputs).  On a tree that does not re-flag the
        # routes contained in a changed block (driver probe, sample.reflag = false) a failure is the known class;
        # on a tree with the repair every failure is new.
        return None if line.get("sample", {}).get("reflag") else KEYS["route-block-flags"]
    parts = (line.get("diff_class") or "").split("+")
    if parts and all(p in KEYS for p in parts):
        return KEYS[parts[0]]
    return None


CFG = dict(
    imports=["From Verif.C02 Require Import Model Spec.", "From Verif.C01 Require Import Vxlan Spec.", "Open Scope N_scope."],
    checker="check_case",
    n=dict(quick=120, thorough=6000),
    shard=400,
    classify=classify,
    rule="datastore histories of 30-200 events over a universe of 3 workload endpoints (2 local, 1 remote), 2 host endpoints, 3 profiles "
         "(rules + labels-to-apply; endpoints may also list the namespace profile kns.ns1 and a missing profile), 3 tiers, 4 policies (3 global + 1 namespaced; tier default/tier-1/tier-2 possibly absent, order "
         "unset/10/20/30, 11 selectors, rules with selectors, nets, named ports, negations; untracked / pre-DNAT / apply-on-forward / "
         "always-programmed variants), 2 network sets, 2 IP pools (VXLAN/IPIP x Always/CrossSubnet/none), 3 IPAM blocks (affinity any "
         "node or none, borrowed addresses), 3 nodes (BGP IPv4 address variants incl. shared, optional IPv6, labels) with VXLAN tunnel "
         "address/MAC host config, a Kubernetes namespace profile and a service-account profile (ProfileDecoder), one Wireguard key; "
         "ops: set random variant / delete (also of absent keys) / revert to an older version / duplicate the last update / flush / "
         "in-sync at a random point (or only at the end, or repeated); a populate prefix; every 6th case is scripted around a policy "
         "whose match starts and stops between two flushes and which is then updated while inactive.  Driven through the REAL "
         "ValidationFilter -> NewCalculationGraph -> EventSequencer (recording Callback), synchronous, route source CalicoIPAM or "
         "WorkloadIPs, VXLAN + BPF enabled (L3 route resolver and VXLAN resolver active).  For each history two FRESH graphs get only "
         "the final state (canonical and shuffled key order) + in-sync + flush.  Non-trivial = history contains a delete-while-"
         "referenced (profile used by a present endpoint, tier named by a present policy, matched policy, pool containing a block, "
         "node owning a block) or a policy match that starts and stops between two effective flushes or a revert; distinct by history.  "
         "The Go driver also compares history and fresh dataplane at EVERY effective flush point inside a history and cuts the history "
         "at the first point whose difference is outside the known classes (so the case given to Coq ends there).  One extra case per "
         "three graph cases drives the REAL L3RouteResolver alone (6-35 updates: values of 3 /29 IPAM blocks with affinity none/any of "
         "3 nodes and 0-4 allocations recorded for any node, block deletions, local workload endpoints on 12 addresses, repeats and "
         "spurious deletes): model L3Reflag.l3_node (re-flag variant probed from the tree) must reproduce the emitted route table and "
         "the table must equal route_of(final inputs); non-trivial there = a borrowed route and a live workload",
    trusted=["Coq 8.16.1 kernel + vm_compute",
             "the abstraction of felix/proto messages to Verif.C02.Model.msg terms done by harness/C01/cmd/main.go (abstract): ids and "
             "payload digests are numbered injectively per case; digest = deterministic protobuf encoding of the payload",
             "hand-written models of the nodes the composition theorem is instantiated with: C02 (event sequencer), C04 (IP set member "
             "index), C07 (label inheritance index), each tied to its Go code by its own correspondence run",
             "Go driver harness/C01/cmd and the add-only shim harness/C01/shims/felix/calc/zz_verif_c01.go (registers one extra, "
             "recording PolicyMatchListener); overlay build, tag verif"],
    assumptions=["c01_history_independent (six slices + sequencer) still assumes: the sequencer contract of the merged callback stream "
                 "(contract6; checked per message on the real graph by every correspondence case) and, per slice, its FEEDER and EMITTER: "
                 "the nodes PolicyResolver+Sorter (C03), ValidationFilter+ARC (C05), IP set member index (C04), L3RouteResolver (C43), label "
                 "index (C07), EventSequencer (C02), RuleScanner reference counting, dispatcher routing, generic passthru and the flusher are "
                 "discharged by theorems; assumed without a model: VXLANResolver, EncapsulationResolver, the RuleScanner's rule conversion "
                 "(ParsedRules), ModelWorkloadEndpointToProto/tierInfoToProtoTierInfo, the ARC->resolver match plumbing, the abstraction of "
                 "datastore values to each node model's operations; live-migration, Istio, BGP-peer, service index, config batching are "
                 "outside the generated universe",
                 "EventSequencer config object is a stub that never reports a change: ConfigUpdate messages are not part of the compared state"],
)


def _imported_files():
    """The files of OTHER properties' directories that C01's theories really depend on (transitive closure by coqdep).
    Only these are built (by dependency) and scanned: another builder's unrelated work-in-progress file in C02/C03/C04/
    C05/C07/C43 must not turn this check red."""
    deps = vlib._coqdep()
    seen, stack = set(), list(vlib.prop_targets("C01"))
    while stack:
        t = stack.pop()
        if t in seen:
            continue
        seen.add(t)
        stack.extend(deps.get(t, []))
    return sorted(os.path.join(vlib.COQ, t[:-1]) for t in seen if "/C01/" not in t and "/Common/" not in t)


def run(ctx):
    import re
    bad = []
    for f in _imported_files():
        if not os.path.exists(f):
            continue
        txt = re.sub(r"\(\*.*?\*\)", " ", open(f).read(), flags=re.S)
        for i, line in enumerate(txt.split("\n"), 1):
            if vlib.FORBIDDEN.search(line):
                bad.append("%s:%d: %s" % (os.path.relpath(f, vlib.ROOT), i, line.strip()))
    if bad:
        rp = vlib.write_replay(ctx, "proof", dict(kind="proof-broken", unchecked="forbidden declarations in imported theories: " + "; ".join(bad)))
        print("VIOLATION property=C01 replay=%s no-failing-input-found" % rp, flush=True)
        return 1
    return vlib.standard_flow(ctx, CFG)


def replay(ctx, path):
    """Re-run the single history named by a replay file (sample.seed / sample.index) on $VERIF_REPO, minimise it, print the
    history, the final state, the differing dataplane objects and the verdict of check_case on the minimised case."""
    obj = json.load(open(path))
    s = obj.get("case", obj.get("first_case", {})).get("sample", {})
    if "seed" not in s:
        print(open(path).read()); return 0
    exe, log = vlib.go_build(ctx)
    if exe is None:
        print(log[-3000:]); return 1
    # -shrink: greedy removal of events while the class of the difference stays the same
    lines = vlib.run_driver(ctx, exe, ["-n", s["index"] + 1, "-seed", s["seed"], "-only", s["index"], "-shrink"])
    for l in lines:
        if "sample" in l:
            print(json.dumps(l["sample"], indent=1))
            failing, _ = vlib.coq_eval_cases(ctx, CFG["imports"], CFG["checker"], [l["coq"]])
            print("check_case (agree, ok):", failing if failing else "(true, true)")
    return 0


MANIFEST = dict(
    category="proof",
    text="Generic composition theorems over an abstract calculation graph (synchronous pipelines of state machines: producer->consumer, "
         "dispatcher fan-out, fan-in of slices writing disjoint object kinds into the one sequencer): history-free nodes compose, hence the "
         "flushed dataplane is a function of the current datastore state; whole-graph theorem over six slices (feeder;node;emitter) with the "
         "nodes discharged by C02/C03/C04/C05/C07/C43 theorems plus proved RuleScanner reference counting, dispatcher routing, passthru, "
         "flusher; feeders/emitters and two resolvers remain explicit hypotheses (partial); closed instances without hypotheses.  Correspondence: the REAL calculation graph is driven with "
         "generated histories and compared, inside Coq, with a freshly started graph fed the final state (dataplane fold of both "
         "message streams, plus C02's per-message reference-closedness on the whole graph).",
    note="Partial by design: ARC / rule scanner / policy resolver+sorter / L3+VXLAN resolvers / encapsulation resolver are hypotheses of "
         "the instantiated theorem, exercised only by the correspondence run. Trusted: Coq kernel, the message abstraction in the Go driver.",
)
