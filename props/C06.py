import vlib

# Known finding class: a negation whose operand is itself a negation (only reachable through parentheses,
# e.g. "!(!has(a))") prints as "!!..." which the parser collapses on re-parse.
def classify(case_line):
    # the driver sets the tag only when the failing case has exactly the shape of the finding: still accepted by
    # Parse and Validate, same evaluations, UID = hash of text, re-parsed text = text with its "!" runs collapsed
    if "not-under-not:known-shape" in (case_line.get("tags") or []):
        return "not-under-not"
    # AcceptVisitor(PrefixVisitor): prefix + label name longer than the tokenizer's 512-byte limit, nothing else wrong
    if "prefix:name-exceeds-512:known-shape" in (case_line.get("tags") or []):
        return "prefix-label-too-long"
    return None

CFG = dict(
    imports=["From Verif.Common Require Import Labels.", "From Verif.C06 Require Import Model Spec Visitor."],
    checker="check_any",
    driver_args=lambda ctx, n, seed: ["-n", n, "-seed", seed] + (["-xl"] if n >= 2000 else []),
    n=dict(quick=440, thorough=16000),
    shard=65,
    classify=classify,
    rule="45 fixed boundary expressions, ~95 deep/long boundary expressions (parenthesis depth 15..40, 63..66, 100, 200 in shapes where String() adds parentheses, redundant parentheses, nested and long runs of negations, and/or chains of 50..300 operands, labels/values of 511..1024 bytes, 120-element sets), then 8% random deep expressions (depth 15..40) and grammar-directed selector expressions (all operators incl. both spellings of "
         "'not in'/'starts with'/'ends with', nesting <= 6, both quote styles, blank/tab noise, trailing commas, empty and duplicate "
         "set elements, labels named like keywords, non-ASCII bytes, 512/513-byte labels), 25% of them mutated by 1-3 byte edits "
         "(malformed stream) and ~9% random token soup; 8 label maps per case drawn from the labels/values the expression mentions; non-trivial = accepted, "
         "canonical text differs from the input and the 8 evaluations are not all equal; distinct by input text",
    trusted=["Coq 8.16.1 kernel + vm_compute",
             "hand-written model coq/theories/C06/Model.v + Common/Labels.v tied to libcalico-go/lib/selector/{tokenizer,parser} by this correspondence run",
             "Go driver harness/C06 (overlay build, tag verif); it probes which NotNode printer variant the tree has and passes it to the model",
             "SHA-224/base64 of hash.MakeUniqueID enter the theorems only as an arbitrary function H (the driver checks UniqueID() == MakeUniqueID(\"s\", String()))"],
    assumptions=["strings are byte sequences (Go string indexing is bytewise in the tokenizer)",
                 "sort.Slice + adjacent dedup in ConvertToStringSetInPlace modelled by its result (the unique strictly increasing list)",
                 "uniquestr handles compare equal iff the strings are equal"],
)

def run(ctx):
    # standard_flow builds every file of theories/Common; a Common file another builder is still working on must not
    # decide C06, so restrict the Common targets to the two files C06 depends on (local override, restored afterwards).
    orig = vlib.prop_targets
    def only_mine(p):
        ts = orig(p)
        if p == "Common":
            ts = [t for t in ts if t.endswith(("/CaseLib.vo", "/Labels.vo"))]
        return ts
    vlib.prop_targets = only_mine
    cfg = dict(CFG)
    cfg["shard"] = 45 if ctx.tier == "quick" else 400     # 8 parallel shards in the quick tier, fewer coqc start-ups in the thorough one
    try:
        return vlib.standard_flow(ctx, cfg)
    finally:
        vlib.prop_targets = orig

def replay(ctx, path):
    """./check C06 --replay <file>: re-run the recorded input through the real code, the model and the oracle."""
    import json
    obj = json.load(open(path))
    case = obj.get("case") or obj.get("first_case") or {}
    hx = case.get("sample", {}).get("input_hex")
    if hx is None:
        print(json.dumps(obj, indent=1)); return 0
    ok, log = vlib.coq_build(vlib.prop_targets("C06") + ["theories/Common/CaseLib.vo", "theories/Common/Labels.vo"])
    if not ok:
        print(log[-3000:]); return 1
    exe, blog = vlib.go_build(ctx)
    if exe is None:
        print(blog[-3000:]); return 1
    lines = vlib.run_driver(ctx, exe, ["-hex", hx] if hx else ["-n", 1])
    failing, _ = vlib.coq_eval_cases(ctx, CFG["imports"], CFG["checker"], [l["coq"] for l in lines], shard=10)
    for i, l in enumerate(lines):
        bad = [f for f in failing if f[0] == i]
        print(json.dumps(l["sample"], indent=1, sort_keys=True))
        print("tags:", l["tags"])
        print("model agrees with implementation:", not bad or bad[0][1])
        print("specification oracle accepts implementation output:", not bad or bad[0][2])
        if bad and not bad[0][2] and "prefix" in l["sample"]:
            smp = l["sample"]
            if not smp["reparse_accepted"]:
                print("first differing observable: after AcceptVisitor(PrefixVisitor{%r}) the canonical text (%d bytes, longest label %d+%d) is REJECTED by Parse"
                      % (smp["prefix"], len(smp["prefixed_canonical"]), len(smp["prefix"]), smp["max_label_len"]))
            else:
                print("first differing observable: prefixed canonical text %r re-parses to %r" % (smp["prefixed_canonical"][:200], smp["reparsed_canonical"][:200]))
        elif bad and not bad[0][2]:
            smp = l["sample"]
            if smp["accepted"] != smp["validate_ok"]:
                print("first differing observable: Validate and Parse disagree on acceptance")
            elif smp["canonical"] != smp["reparsed_canonical"]:
                print("first differing observable: canonical text %r re-parses to canonical text %r" % (smp["canonical"], smp["reparsed_canonical"]))
            elif smp["uid"] != smp["reparsed_uid"]:
                print("first differing observable: UniqueID")
            else:
                print("first differing observable: evaluation on the label maps (or UniqueID != hash of String())")
    return 1 if failing else 0

MANIFEST = dict(
    category="proof",
    text="Theorems over an executable model of the selector tokenizer, recursive-descent parser, canonical printer and UID for all "
         "byte strings and all label maps (print/parse round trip returns the identical AST; validate accepts exactly what parse "
         "accepts; canonical form idempotent; same UID for any hash), plus a correspondence run of model and a specification oracle "
         "against the real Parse/Validate/String/UniqueID/Evaluate on generated and mutated expressions.",
    note="Trusted: Coq kernel; hand-written model tied to the code only by the correspondence run; Go driver. "
         "Finding: with the pinned printer `!(!x)` prints as `!!x` and re-parses to `x` (theorem c06_print_parse_refuted).",
)
