import vlib

# Known finding class: a negation whose operand is itself a negation (only reachable through parentheses,
# e.g. "!(!has(a))") prints as "!!..." which the parser collapses on re-parse.
def classify(case_line):
    # the driver sets the tag only when the failing case has exactly the shape of the finding: still accepted by
    # Parse and Validate, same evaluations, UID = hash of text, re-parsed text = text with its "!" runs collapsed
    if "not-under-not:known-shape" in case_line.get("tags", []):
        return "not-under-not"
    return None

CFG = dict(
    imports=["From Verif.Common Require Import Labels.", "From Verif.C06 Require Import Model Spec."],
    checker="check_case",
    n=dict(quick=520, thorough=20000),
    shard=65,
    classify=classify,
    rule="45 fixed boundary expressions, then grammar-directed selector expressions (all operators incl. both spellings of "
         "'not in'/'starts with'/'ends with', nesting <= 6, both quote styles, blank/tab noise, trailing commas, empty and duplicate "
         "set elements, labels named like keywords, non-ASCII bytes, 512/513-byte labels), 25% of them mutated by 1-3 byte edits "
         "(malformed stream) and ~9% random token soup; 8 label maps per case drawn from the labels/values the expression mentions; non-trivial = accepted, "
         "canonical text differs from the input and the 8 evaluations are not all equal; distinct by input text",
    trusted=["Coq 8.16.1 kernel + vm_compute",
             "hand-written model coq/theories/C06/Model.v + Common/Labels.v tied to libcalico-go/lib/selector/{tokenizer,parser} by this correspondence run",
             "Go driver harness/C06 (overlay build, tag verif); it probes which NotNode printer variant the tree has and passes it to the model",
             "SHA-224/base64 of hash.MakeUniqueID enter the theorems only as an arbitrary function H (the driver checks UniqueID() == MakeUniqueID(\"s\", String()))"],
    assumptions=["strings are byte sequences (Go string indexing is bytewise in the tokenizer)",
                 "sort.Slice + adjacent dedup in ConvertToStringSetInPlace modelled by its result (the unique strictly increasing list)",
                 "uniquestr handles compare equal iff the strings are equal"],
)

def run(ctx):
    # standard_flow builds every file of theories/Common; a Common file another builder is still working on must not
    # decide C06, so restrict the Common targets to the two files C06 depends on (local override, restored afterwards).
    orig = vlib.prop_targets
    def only_mine(p):
        ts = orig(p)
        if p == "Common":
            ts = [t for t in ts if t.endswith(("/CaseLib.vo", "/Labels.vo"))]
        return ts
    vlib.prop_targets = only_mine
    try:
        return vlib.standard_flow(ctx, CFG)
    finally:
        vlib.prop_targets = orig

MANIFEST = dict(
    category="proof",
    text="Theorems over an executable model of the selector tokenizer, recursive-descent parser, canonical printer and UID for all "
         "byte strings and all label maps (print/parse round trip returns the identical AST; validate accepts exactly what parse "
         "accepts; canonical form idempotent; same UID for any hash), plus a correspondence run of model and a specification oracle "
         "against the real Parse/Validate/String/UniqueID/Evaluate on generated and mutated expressions.",
    note="Trusted: Coq kernel; hand-written model tied to the code only by the correspondence run; Go driver. "
         "Finding: with the pinned printer `!(!x)` prints as `!!x` and re-parses to `x` (theorem c06_print_parse_refuted).",
)
