"""C44 - each workload interface carries exactly the state of its preferred endpoint.

The endpoint manager can only be built together with the mock tables / mock route table that live in _test.go
files of package felix/dataplane/linux, so the driver is an in-package test (harness/C44/shims/felix/dataplane/linux/
zz_verif_c44_test.go, tag verif, placed there by the overlay).  The test binary is built once per run with
`go test -c` and run with -test.run TestVerifC44; it writes the JSON lines to a file.  Everything else is
vlib.standard_flow: its two driver hooks (go_build / run_driver) are replaced for the duration of this run.
"""
import json, os, subprocess
import vlib

PKG = "./felix/dataplane/linux/"

KEY_RENAME = "rename-with-shared-iface"
KEY_BATCH = "promotion-overwrites-pending"


def classify(line):
    # The classes of the two defects found on the tree as first pinned (now `fixed:` lines in known-findings.txt, so
    # they excuse nothing; the key only names the replay file).  Both need two live endpoints on one interface name at some point
    # ("shared"); the first needs an endpoint that changes its interface name, the second needs a batch that touches
    # two different endpoints between two CompleteDeferredWork calls.  Any failing case without these shapes is new.
    tags = line.get("tags") or []
    if "panic" in tags or "shared" not in tags:
        return None
    if "rename" in tags:
        return KEY_RENAME
    if "multi-id-batch" in tags:
        return KEY_BATCH
    return None


CFG = dict(
    imports=["From Verif.C44 Require Import Model Spec.", "Open Scope N_scope."],
    checker="check_all",
    n=dict(quick=160, thorough=1920),
    shard=40,
    classify=classify,
    rule="histories of 2-7 batches (each 0-4 WorkloadEndpointUpdate/Remove messages followed by ResolveUpdateBatch + "
         "CompleteDeferredWork) over 2-4 endpoint ids (ordered by orchestrator, workload or endpoint component) and 1-3 "
         "interface names on the REAL endpointManager with the package's mock filter table / mock route table and the real "
         "rule renderer; every update carries a fresh profile id and fresh IPs so the chains/routes found on an interface "
         "identify the endpoint version; streams: random (biased to collisions, renames, removals), scenario (the shapes "
         "of DESIGN C44 and mirror images + random tail), boundary (empty batches, removals of unknown ids, several "
         "messages for one id in a batch); observed after every apply: activeWlIfaceNameToID, cali-tw-/cali-fw- chains "
         "(admin state, profile), routes per interface, entries of the from/to dispatch chains.  non-trivial = at some "
         "point two live endpoints claim one interface name; distinct by the message sequence.  Every tenth case ('stream:order') "
         "is a cluster of 3-5 identifiers with arbitrary Go strings as components (empty strings, prefixes, bytes >= 0x80, same "
         "orchestrator / same workload, workload and endpoint ordered in opposite directions, exact duplicates) on which the real "
         "wlIdsAscending is called for every ordered pair; the matrix must equal the model's and be a strict total order "
         "(non-trivial there = the cluster has a workload/endpoint cross-over pair).  Every tenth case ('stream:routes') calls the "
         "real calculateRoutes for one endpoint: 0-3 networks, 0-2 NAT external addresses, floating IPs on/off, orchestrator "
         "k8s/openstack/cni, live-migration state none/target/live/timewait (also set-then-reset-to-base), three normal and "
         "three elevated priorities; routes (address, priority) must equal the model's and satisfy ok_routes "
         "(non-trivial = has networks and NAT entries)",
    trusted=["Coq 8.16.1 kernel + vm_compute",
             "hand-written model coq/theories/C44/Model.v tied to felix/dataplane/linux/endpoint_mgr.go by this correspondence run "
             "(the implementation's observations must be producible by the model under some iteration order of the pending map)",
             "Go test driver harness/C44/shims/felix/dataplane/linux/zz_verif_c44_test.go (overlay, tag verif) and the "
             "package's own mocks (mockTable, mockRouteTable, mock netlink)"],
    assumptions=["workload endpoint ids have a non-empty EndpointId (the code uses the empty string as 'none found')",
                 "iptables mode, IPv4 manager, no ARP table, no live migration, no policy tiers (profiles only)",
                 "a range over pendingWlEpUpdates processes entries one at a time in an arbitrary order; an entry added during "
                 "the range may or may not be produced in the same pass (Go spec) - both are covered by 'arbitrary next entry'",
                 "interface/endpoint strings are modelled by numbers carrying the same order"],
)


def _build(ctx, harness_dirs=None, pkg=None, tags="verif", timeout=2400):
    ov = vlib.make_overlay(ctx, harness_dirs)
    exe = os.path.join(ctx.build, "driver.test")
    r = subprocess.run(["timeout", str(timeout), "go", "test", "-c", "-tags", tags, "-overlay", ov, "-vet=off", "-o", exe, PKG],
                       cwd=ctx.repo, env=vlib.go_env(), stdout=subprocess.PIPE, stderr=subprocess.STDOUT, text=True)
    return (exe if r.returncode == 0 and os.path.exists(exe) else None), r.stdout


def _run(ctx, exe, args, timeout=3600, env=None):
    n, seed = args[1], args[3]
    out = os.path.join(ctx.build, "cases.jsonl")
    if os.path.exists(out):
        os.remove(out)
    e = vlib.go_env()
    e.update(VERIF_C44_OUT=out, VERIF_C44_SEED=str(seed), VERIF_C44_N=str(n))
    e.update(env or {})
    r = subprocess.run(["timeout", str(timeout), exe, "-test.run", "^TestVerifC44$", "-test.count=1"], cwd=ctx.build, env=e,
                       stdout=subprocess.PIPE, stderr=subprocess.STDOUT, text=True)
    if r.returncode != 0 or not os.path.exists(out):
        raise RuntimeError("driver failed (%d): %s" % (r.returncode, r.stdout[-3000:]))
    return [json.loads(l) for l in open(out) if l.startswith("{")]


def run(ctx):
    saved = vlib.go_build, vlib.run_driver
    vlib.go_build, vlib.run_driver = _build, _run
    try:
        return vlib.standard_flow(ctx, CFG)
    finally:
        vlib.go_build, vlib.run_driver = saved


def replay(ctx, path):
    """./check C44 --replay <file>: run the messages of a replay file (as written by this check: the failing case
    with its structured "ops"), or a bare JSON list [[message,...],...], through the REAL manager of $VERIF_REPO,
    the model (pinned and fixed) and the oracle; print the verdict batch by batch and the first difference."""
    obj = json.load(open(path))
    if isinstance(obj, list):
        ops = obj
    else:
        case = obj.get("case") or obj.get("first_case") or {}
        ops = case.get("ops")
        if ops is None:
            print(json.dumps(obj, indent=1)[:4000])
            print("replay file holds no message list (kind=%s): nothing to re-run" % obj.get("kind"))
            return 0
    ok, log = vlib.coq_build(["theories/Common/CaseLib.vo"] + vlib.prop_targets("C44"))
    if not ok:
        print(log[-3000:]); return 1
    exe, blog = _build(ctx)
    if exe is None:
        print(blog[-3000:]); return 1
    opsf = os.path.join(ctx.build, "replay-ops.json")
    json.dump(ops, open(opsf, "w"))
    lines = _run(ctx, exe, ["-n", 1, "-seed", 1], env=dict(VERIF_C44_REPLAY=opsf))
    line = lines[0]
    v = os.path.join(ctx.build, "replay_case.v")
    with open(v, "w") as f:
        f.write("From Coq Require Import List NArith ZArith String.\nImport ListNotations.\n")
        f.write("\n".join(CFG["imports"]) + "\n")
        f.write("Definition c := match %s with KHist c => c | _ => mkCase [] end.\n" % line["coq"])
        f.write("Set Printing Width 100000.\nSet Printing Depth 1000000.\n")
        f.write("Definition verdict := Eval vm_compute in check_case c.\nPrint verdict.\n")
        f.write("Definition d := Eval vm_compute in diag c.\nPrint d.\n")
    okc, out = vlib.coqc(v)
    if not okc:
        print(out[-3000:]); return 1
    import re
    m = re.search(r"verdict\s*=\s*\((true|false),\s*(true|false)\)", out)
    agree, oracle = (m.group(1) == "true", m.group(2) == "true") if m else (False, False)
    md = re.search(r"d\s*=\s*\(\[([^\]]*)\],\s*\((\d+)(?:%nat)?,\s*(\[.*?\])\),\s*\((\d+)(?:%nat)?,\s*(\[.*\])\)\)\s*:", out, flags=re.S)
    per = [x.strip() == "true" for x in md.group(1).split(";")] if md and md.group(1).strip() else []
    batches = line["sample"]["batches"]
    print("replay of %s against %s: %d batch(es)" % (path, ctx.repo, len(batches)))
    for k, b in enumerate(batches):
        print("batch %d: %s" % (k, "; ".join(b["ops"]) or "(no messages)"))
        print("   implementation after CompleteDeferredWork: %s" % json.dumps(b["after-apply"], sort_keys=True))
        if k < len(per):
            print("   specification oracle: %s" % ("accepts" if per[k] else "REJECTS"))
    if md:
        n = len(batches)
        kp, kf = int(md.group(2)), int(md.group(4))
        print("model as first pinned follows the implementation for %d/%d batches; repaired model for %d/%d" % (kp, n, kf, n))
        if kp < n and kf < n:
            k = max(kp, kf)
            print("first difference at batch %d; observations the model allows there (every iteration order):" % k)
            print("   " + (md.group(5) if kf >= kp else md.group(3))[:3000])
    print("verdict: model agrees=%s oracle=%s" % (agree, oracle))
    return 0 if (agree and oracle) else 1


MANIFEST = dict(
    category="proof",
    text="Theorems over an executable model of endpointManager.resolveWorkloadEndpoints (pending/active/shadowed maps, "
         "per-endpoint chains, routes, dispatch entries) for every update/remove history and every iteration order of the "
         "pending map: the loop terminates with an empty pending map; one active endpoint per interface name whose chains, "
         "routes (only when admin up) and dispatch entries are exactly what is programmed; for the repaired code the active "
         "endpoint of an interface is the least live claimant under wlIdsAscending, a claimed interface always has one, "
         "everything observable is a function of that preferred endpoint (order independence), nothing is left for unused "
         "names, and the specification oracle accepts every model run (model meets spec); the code as first pinned is "
         "refuted by two witnesses.  Plus a correspondence run of the model and the oracle against the real manager with the "
         "package's mock tables, and --replay of a single history.",
    note="Trusted: Coq kernel; hand-written model tied to the code only by the correspondence run; Go test driver and "
         "the package's mocks.",
)
