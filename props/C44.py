"""C44 - each workload interface carries exactly the state of its preferred endpoint.

The endpoint manager can only be built together with the mock tables / mock route table that live in _test.go
files of package felix/dataplane/linux, so the driver is an in-package test (harness/C44/shims/felix/dataplane/linux/
zz_verif_c44_test.go, tag verif, placed there by the overlay).  The test binary is built once per run with
`go test -c` and run with -test.run TestVerifC44; it writes the JSON lines to a file.  Everything else is
vlib.standard_flow: its two driver hooks (go_build / run_driver) are replaced for the duration of this run.
"""
import json, os, subprocess
import vlib

PKG = "./felix/dataplane/linux/"

KEY_RENAME = "rename-with-shared-iface"
KEY_BATCH = "promotion-overwrites-pending"


def classify(line):
    # The known classes (known-findings.txt).  Both need two live endpoints on one interface name at some point
    # ("shared"); the first needs an endpoint that changes its interface name, the second needs a batch that touches
    # two different endpoints between two CompleteDeferredWork calls.  Any failing case without these shapes is new.
    tags = line.get("tags", [])
    if "panic" in tags or "shared" not in tags:
        return None
    if "rename" in tags:
        return KEY_RENAME
    if "multi-id-batch" in tags:
        return KEY_BATCH
    return None


CFG = dict(
    imports=["From Verif.C44 Require Import Model Spec.", "Open Scope N_scope."],
    checker="check_case",
    n=dict(quick=160, thorough=12000),
    shard=40,
    classify=classify,
    rule="histories of 2-7 batches (each 0-4 WorkloadEndpointUpdate/Remove messages followed by ResolveUpdateBatch + "
         "CompleteDeferredWork) over 2-4 endpoint ids (ordered by orchestrator, workload or endpoint component) and 1-3 "
         "interface names on the REAL endpointManager with the package's mock filter table / mock route table and the real "
         "rule renderer; every update carries a fresh profile id and fresh IPs so the chains/routes found on an interface "
         "identify the endpoint version; streams: random (biased to collisions, renames, removals), scenario (the shapes "
         "of DESIGN C44 and mirror images + random tail), boundary (empty batches, removals of unknown ids, several "
         "messages for one id in a batch); observed after every apply: activeWlIfaceNameToID, cali-tw-/cali-fw- chains "
         "(admin state, profile), routes per interface, entries of the from/to dispatch chains.  non-trivial = at some "
         "point two live endpoints claim one interface name; distinct by the message sequence",
    trusted=["Coq 8.16.1 kernel + vm_compute",
             "hand-written model coq/theories/C44/Model.v tied to felix/dataplane/linux/endpoint_mgr.go by this correspondence run "
             "(the implementation's observations must be producible by the model under some iteration order of the pending map)",
             "Go test driver harness/C44/shims/felix/dataplane/linux/zz_verif_c44_test.go (overlay, tag verif) and the "
             "package's own mocks (mockTable, mockRouteTable, mock netlink)"],
    assumptions=["workload endpoint ids have a non-empty EndpointId (the code uses the empty string as 'none found')",
                 "iptables mode, IPv4 manager, no ARP table, no live migration, no policy tiers (profiles only)",
                 "a range over pendingWlEpUpdates processes entries one at a time in an arbitrary order; an entry added during "
                 "the range may or may not be produced in the same pass (Go spec) - both are covered by 'arbitrary next entry'",
                 "interface/endpoint strings are modelled by numbers carrying the same order"],
)


def _build(ctx, harness_dirs=None, pkg=None, tags="verif", timeout=2400):
    ov = vlib.make_overlay(ctx, harness_dirs)
    exe = os.path.join(ctx.build, "driver.test")
    r = subprocess.run(["timeout", str(timeout), "go", "test", "-c", "-tags", tags, "-overlay", ov, "-vet=off", "-o", exe, PKG],
                       cwd=ctx.repo, env=vlib.go_env(), stdout=subprocess.PIPE, stderr=subprocess.STDOUT, text=True)
    return (exe if r.returncode == 0 and os.path.exists(exe) else None), r.stdout


def _run(ctx, exe, args, timeout=3600, env=None):
    n, seed = args[1], args[3]
    out = os.path.join(ctx.build, "cases.jsonl")
    if os.path.exists(out):
        os.remove(out)
    e = vlib.go_env()
    e.update(VERIF_C44_OUT=out, VERIF_C44_SEED=str(seed), VERIF_C44_N=str(n))
    r = subprocess.run(["timeout", str(timeout), exe, "-test.run", "^TestVerifC44$", "-test.count=1"], cwd=ctx.build, env=e,
                       stdout=subprocess.PIPE, stderr=subprocess.STDOUT, text=True)
    if r.returncode != 0 or not os.path.exists(out):
        raise RuntimeError("driver failed (%d): %s" % (r.returncode, r.stdout[-3000:]))
    return [json.loads(l) for l in open(out) if l.startswith("{")]


def run(ctx):
    saved = vlib.go_build, vlib.run_driver
    vlib.go_build, vlib.run_driver = _build, _run
    try:
        return vlib.standard_flow(ctx, CFG)
    finally:
        vlib.go_build, vlib.run_driver = saved


MANIFEST = dict(
    category="proof",
    text="Theorems over an executable model of endpointManager.resolveWorkloadEndpoints (pending/active/shadowed maps, "
         "per-endpoint chains, routes, dispatch entries) for every update/remove history and every iteration order of the "
         "pending map, plus a correspondence run of the model and a specification oracle against the real manager with "
         "the package's mock tables.",
    note="Trusted: Coq kernel; hand-written model tied to the code only by the correspondence run; Go test driver and "
         "the package's mocks.",
)
