import vlib

CFG = dict(
    imports=["From Verif.C17 Require Import Model Spec."],
    checker="check_case",
    n=dict(quick=260, thorough=6000),
    shard=40,
    rule="histories of 10-35 operations over 4 interfaces (cali1, cali2, eth0, vxlan.calico + the no-interface pseudo "
         "interface) x 6 destination CIDRs (+2 only used by other software) x 3 route classes x 2 metrics, under 6 "
         "ownership-policy configurations (MainTableOwnershipPolicy variants incl. NewMainTable, ExclusiveOwnershipPolicy): "
         "SetRoutes/RouteUpdate/RouteRemove, interface up/down/delete/renumber with delayed or missing notifications, routes "
         "added/removed by other software in Felix's table and in other tables, QueueResync/QueueResyncIface, clock steps, "
         "Apply with failures injected (through the mock's FailNext* flags) at chosen calls: connect, LinkList, RouteList "
         "(error/EINTR), LinkByName (error/not found), per-interface RouteList, RouteReplace, RouteDel; every history ends "
         "with failure-free Applies.  Non-trivial = at least two Applies and at least one injected failure hit, link change or "
         "outside route; distinct by (configuration, operation list)",
    trusted=["Coq 8.16.1 kernel + vm_compute",
             "hand-written model coq/theories/C17/Model.v tied to felix/routetable + ownershippol by this correspondence run",
             "felix/netlinkshim/mocknetlink as the kernel (route map keyed by table/dst/priority, links)",
             "Go driver harness/C17 (overlay build, tag verif)"],
    assumptions=["IPv4, TOS 0, no multi-path targets, static ARP off, conntrack cleanup off (NoOpRouteTracker)",
                 "two interface names never share an ifindex at the same time; ifindexes are not reused",
                 "desired routes are routes the ownership policy recognises as Felix's (as Felix's managers produce them)",
                 "at most one netlink connection failure per Apply and none in consecutive Applies (handlemgr panics after 3 by design)",
                 "the kernel flushes the routes of a link that goes down or away (EFlush)"],
)

def run(ctx):
    return vlib.standard_flow(ctx, CFG)

MANIFEST = dict(
    category="proof",
    text="Theorems over an executable model of RouteTable (per-class desired routes, conflict resolution, full and "
         "per-interface resync, delta tracking, Apply with retry, grace periods) and the ownership policies, for every "
         "history, starting kernel and failure plan, plus a correspondence run of the model and a specification oracle "
         "against the real RouteTable over mocknetlink.",
    note="Trusted: Coq kernel; hand-written model tied to the code only by the correspondence run; mocknetlink as kernel; Go driver.",
)
