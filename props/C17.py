import vlib

KEY_A = "iface-resync-list-failure-swallowed"
KEY_B = "iface-resync-forgets-route-on-other-iface"
KEY_C = "renumber-keeps-old-ifindex-state"

_cache = {}          # coq term of a case -> known-finding key or None
_state = {}


def _classify_batch(ctx, terms):
    """One extra coqc run: for every oracle-failing case, does the oracle accept the run of the model with fix A / fix B /
    both applied (Spec.classify_case)?  That tells the two known findings from anything new."""
    todo = [t for t in terms if t not in _cache]
    if not todo:
        return
    # third finding first: does running the model with fix C alone make the oracle accept?
    failingC, _ = _state["orig_eval"](ctx, CFG["imports"], "(fun c => (fixedC_ok c, false))", todo, shard=CFG.get("shard", 400))
    explC = {i: a for (i, a, b) in failingC}
    for i, t in enumerate(todo):
        if explC.get(i, False):
            _cache[t] = KEY_C
    todo = [t for t in todo if t not in _cache]
    if not todo:
        return
    failing, _ = _state["orig_eval"](ctx, CFG["imports"], "classify_case", todo, shard=CFG.get("shard", 400))
    res = {i: (a, b) for (i, a, b) in failing}
    for i, t in enumerate(todo):
        if i not in res:
            # (true, true): either both single fixes explain it or nothing does -> ask which
            _cache[t] = None
            continue
        a, b = res[i]
        _cache[t] = KEY_A if a else (KEY_B if b else KEY_A)   # (false,false) = needs both fixes; both are listed
    # cases reported as (true,true) by classify_case: distinguish "both single fixes work" from "unexplained"
    amb = [t for t in todo if _cache[t] is None]
    if amb:
        failing2, _ = _state["orig_eval"](ctx, CFG["imports"], "(fun c => (fixed_ok c true true, false))", amb, shard=CFG.get("shard", 400))
        expl = {i: a for (i, a, b) in failing2}
        for i, t in enumerate(amb):
            _cache[t] = KEY_A if expl.get(i, False) else None


def _classify(c):
    return _cache.get(c["coq"])


CFG = dict(
    imports=["From Verif.C17 Require Import Model Spec."],
    checker="check_case",
    n=dict(quick=100, thorough=1200),
    shard=20,
    classify=_classify,
    rule="histories of 10-35 operations over 4 interfaces (cali1, cali2, eth0, vxlan.calico + the no-interface pseudo "
         "interface) x 6 destination CIDRs (+2 only used by other software) x 3 route classes x 2 metrics, under 6 "
         "ownership-policy configurations (MainTableOwnershipPolicy variants incl. NewMainTable, ExclusiveOwnershipPolicy): "
         "SetRoutes/RouteUpdate/RouteRemove, interface up/down/flap/delete/renumber with delayed or missing notifications, routes "
         "added/removed by other software in Felix's table and in other tables, QueueResync/QueueResyncIface, clock steps, "
         "Apply with failures injected (through the mock's FailNext* flags) at chosen calls: connect, LinkList, RouteList "
         "(error/EINTR), LinkByName (error/not found), per-interface RouteList, RouteReplace, RouteDel, one-shot or hitting "
         "the inline retry too, and whole-table dumps that yield part of the routes, are overtaken by an outside deletion/replacement of a yielded route and fail with EINTR; 1 in 4 histories opens with a directed scenario (flap + listing failure; move + replace failure; route vanishing mid-dump); "
         "every history ends with failure-free Applies.  Non-trivial = at least two Applies and at least one injected failure "
         "hit, link change or outside route; distinct by (configuration, operation list)",
    trusted=["Coq 8.16.1 kernel + vm_compute",
             "hand-written model coq/theories/C17/Model.v tied to felix/routetable + ownershippol by this correspondence run",
             "felix/netlinkshim/mocknetlink as the kernel (route map keyed by table/dst/priority, links)",
             "Go driver harness/C17 (overlay build, tag verif)"],
    assumptions=["IPv4, TOS 0, no multi-path targets, static ARP off, conntrack cleanup off (NoOpRouteTracker)",
                 "two interface names never share an ifindex at the same time; ifindexes are not reused",
                 "desired routes are routes the ownership policy recognises as Felix's (as Felix's managers produce them)",
                 "at most one netlink connection failure per Apply and none in consecutive Applies (handlemgr panics after 3 by design)",
                 "the kernel flushes the routes of a link that goes down or away (EFlush)",
                 "history theorems (c17_any_history, c17_history_keeps_invariant): kernel links well formed (unique names/ifindexes, no ifindex 0), "
                 "interface events do not renumber a name without the deletion being reported first, nobody else changes Felix's routes after start of day, "
                 "plans are honest (no overtaken dump, no LinkByName falsely answering 'not found'), an Apply is preceded by a resync request if interface churn happened while none was pending"],
)


def run(ctx):
    # local helper (no change to lib/vlib.py): after each evaluation of the cases, classify the oracle failures in one batch
    orig = vlib.coq_eval_cases
    _state["orig_eval"] = orig

    def wrapped(ctx_, imports, checker, cases, **kw):
        failing, log = orig(ctx_, imports, checker, cases, **kw)
        if checker == CFG["checker"]:
            # only a case on which the implementation behaves exactly like the model of the pinned code can be an
            # instance of a finding known for that code; anything else the oracle rejects is a new violation
            _classify_batch(ctx_, [cases[i] for (i, a, o) in failing if a and not o])
        return failing, log

    vlib.coq_eval_cases = wrapped
    try:
        return vlib.standard_flow(ctx, CFG)
    finally:
        vlib.coq_eval_cases = orig


MANIFEST = dict(
    category="proof",
    text="Theorems over an executable model of RouteTable (per-class desired routes, conflict resolution, full and "
         "per-interface resync, delta tracking, Apply with retry, grace periods) and the ownership policies, for every "
         "history, starting kernel and failure plan, plus a correspondence run of the model and a specification oracle "
         "against the real RouteTable over mocknetlink.",
    note="Trusted: Coq kernel; hand-written model tied to the code only by the correspondence run; mocknetlink as kernel; Go driver.",
)
