import vlib

# coq text of a failing case -> True iff Spec.classify_case says it is exactly the profile-pass defect class
_PASS_CLASS = {}

def _install_classifier():
    """After the main evaluation, evaluate Spec.classify_case (inside Coq) on the cases the oracle rejected.
    A case is the known profile-pass finding only if the tree was probed unfixed, the UNFIXED model equals the
    implementation's chains, a profile holds a Pass rule, and every failing packet is one that reaches the
    profiles by the reference and on which the chains of the FIXED model give the reference result (Spec.v).
    Local helper: wraps vlib.coq_eval_cases for this run only."""
    orig = vlib.coq_eval_cases
    def wrapped(ctx, imports, checker, cases, **kw):
        res, log = orig(ctx, imports, checker, cases, **kw)
        if checker == CFG["checker"]:
            bad = [i for (i, a, o) in res if not o]
            if bad:
                sub = [cases[i] for i in bad]
                r2, _ = orig(ctx, imports, "classify_case", sub, **kw)
                for (j, is_class, _o) in r2:
                    _PASS_CLASS[sub[j]] = is_class
        return res, log
    vlib.coq_eval_cases = wrapped
    return orig

def classify(case_line):
    tags = case_line.get("tags") or []
    if (_PASS_CLASS.get(case_line.get("coq")) and "variant:profile-pass-unfixed" in tags
            and "profile-has-pass-rule" in tags):
        return "profile-pass-rule-stale-pass-mark"
    return None

CFG = dict(
    imports=["From Verif.Common Require Import Packet PolicyRef Ipt.", "From Verif.C08 Require Import Model.",
             "From Verif.C09 Require Import Model Spec.", "Open Scope string_scope."],
    checker="check_case",
    n=dict(quick=75, thorough=1200),
    shard=15,
    deps=["Common", "C08"],
    rule="2 corpus cases (minimal profile-pass witness, iptables and nftables) + 14% stride-conflict layouts (one group of 11-17 enforced policies with staged ones interleaved; a chosen packet first matches allow/pass in enforced policy 6-10 or 11-15 and a conflicting rule in enforced policy 11 or 16, nothing else matches; later tier / profile deciding the other way) + generated endpoints: 0-4 tiers (default action Deny / Pass / unset) x 0-12 policies per tier (GNP, NP, KNP and the three staged "
         "kinds; 22% of cases have tiers of 5-12 policies so that group chains cross the 5-policy return stride once or twice), policies "
         "split into groups at random (including all-staged, single-policy and empty groups), 0-3 rules per policy and direction, "
         "0-3 profiles (30% of cases allow Pass rules inside profiles), workload endpoints (admin up/down, 35% with QoS controls: packet rate and/or connection limit per direction, VXLAN/IPIP from workloads allowed or not), host endpoints (failsafe jump) "
         "the forward chains of host endpoints (no profiles; allowed outright without tiers) and their raw (untracked policy, NOTRACK) and "
         "mangle (pre-DNAT) chains (no end-of-tier default, no profiles), "
         "ingress and egress, IPv4 and IPv6, iptables and nftables, 4 mark layouts, flow logs on/off, DROP/REJECT, filter allow action "
         "ACCEPT/RETURN, conntrack-invalid rule on/off; rules over a small universe of addresses/CIDRs/ports/IP sets with at most two "
         "positive match blocks (the C08 scratch-bit finding needs three); per case up to 40 probe packets: one aimed at each rule plus a "
         "one-field perturbation, randoms, conntrack states, VXLAN and IPIP packets, random entry marks (drop bit clear); "
         "non-trivial = at least 2 enforced policies and >= 10 packets; distinct by (configuration, endpoint description)",
    trusted=["Coq 8.16.1 kernel + vm_compute",
             "Common/Ipt.v match_one/apply_mark/run as the meaning of iptables/nftables rules, jumps and returns (kernel evaluation)",
             "Common/PolicyRef.v endpoint_verdict as the meaning of tiers, staged policies, profiles",
             "harness/C09/cmd/parse.go: text->AST grammar (C08's, plus jump/goto, conntrack state, NOTRACK, xt_limit / nft limit rate over, connlimit / ct count over, tcp SYN)",
             "hand-written model coq/theories/C09/Model.v (+ C08/Model.v render_rule) tied to felix/rules/endpoints.go and policy.go by this "
             "correspondence run (structural equality of every chain)"],
    classify=classify,
    assumptions=["IP set contents enter as an oracle set-id -> member -> bool",
                 "the drop mark bit is clear when the packet enters the endpoint chain (Felix's static chains clear Calico's marks on entry; "
                 "the endpoint chain itself only clears accept and pass)",
                 "mark bits accept/pass/drop/scratch0/scratch1 pairwise disjoint, non-zero, within 32 bits",
                 "per-rule correctness of the rendering is the hypothesis rule_ok (C08): proved for rules with at most two positive match "
                 "blocks on the pinned tree and for all rules with fixes/C08-scratch-bit.patch",
                 "chain names are distinct (hash collisions of GetLengthLimitedID / group UIDs excluded)",
                 "QoS packet-rate / connection-limit conditions and the TCP SYN test are oracles (MOther) that do not read the mark "
                 "(other_unmarked); for case evaluation: source port 5000 = over the rate, 40000 = over the connection limit",
                 "failsafe chains are empty (no failsafe ports configured)",
                 "the model variant (ec_profile_fix) is the one the driver probes from the tree: on the pinned tree profile chains are entered "
                 "with a possibly stale pass mark and c09_endpoint_verdict excludes Pass rules inside profiles "
                 "(c09_profile_pass_refuted_unfixed; oracle failures of exactly that class are the known finding "
                 "profile-pass-rule-stale-pass-mark); with fixes/C09-profile-pass-mark.patch there is no restriction"],
)

def run(ctx):
    orig = _install_classifier()
    try:
        return vlib.standard_flow(ctx, CFG)
    finally:
        vlib.coq_eval_cases = orig

def replay(ctx, path):
    """Re-evaluate one stored case (endpoint description, configuration, the real renderer's parsed chains, packets)
    with the model and the oracle inside Coq.  The stored case carries the implementation's own output, so the
    verdict does not depend on the tree; to see the current tree's output for the same endpoint run ./check C09."""
    import json
    d = json.load(open(path))
    c = d.get("case") or d.get("first_case")
    if not c:
        print(json.dumps(d, indent=1)[:4000]); return 0
    ok, log = vlib.coq_build(vlib.prop_targets("Common") + vlib.prop_targets("C08") + vlib.prop_targets("C09"))
    failing, _ = vlib.coq_eval_cases(ctx, CFG["imports"], CFG["checker"], [c["coq"]])
    s = c.get("sample", {})
    print("endpoint:", s.get("endpoint"), s.get("direction"), s.get("flavor"), "ipv%s" % s.get("ipver"),
          "policies:", s.get("policies"), "staged:", s.get("staged"))
    for name, rules in (s.get("endpoint_and_group_chains") or {}).items():
        print("  chain", name)
        for t in rules: print("     ", t)
    if not failing:
        print("model agrees with the stored implementation output; oracle accepts it"); return 0
    for (_, agree, okk) in failing:
        print("model == implementation:", agree, "| specification oracle accepts implementation output:", okk)
    return 1

MANIFEST = dict(
    category="proof",
    text="Theorems over an executable model of endpointIptablesChain (all four chain types), PolicyGroupToIptablesChains and the policy/profile "
         "chain wrappers, evaluated on the abstract netfilter machine: for every tier/group/policy/profile layout, default action, staged mix "
         "and packet the rendered endpoint chain reaches PolicyRef.endpoint_verdict; a group chain computes exactly what the inlined jumps "
         "compute, at every position of the return stride; staged policies are inert.  Plus a correspondence run rendering generated endpoints with the REAL renderer "
         "(iptables and nftables), parsing the text back and checking both structural equality with the model and the verdict of the real "
         "chains on probe packets against the reference.",
    note="Trusted: Coq kernel; the abstract netfilter semantics (Common/Ipt.v); the reference semantics (Common/PolicyRef.v); the text parser of the Go driver.",
)
