import vlib

CFG = dict(
    imports=["From Verif.Common Require Import Packet PolicyRef Ipt.", "From Verif.C08 Require Import Model.",
             "From Verif.C09 Require Import Model Spec.", "Open Scope string_scope."],
    checker="check_case",
    n=dict(quick=160, thorough=3000),
    shard=20,
    deps=["Common", "C08"],
    rule="generated endpoints: 0-4 tiers (default action Deny / Pass / unset) x 0-12 policies per tier (GNP, NP, KNP and the three staged "
         "kinds; 22% of cases have tiers of 5-12 policies so that group chains cross the 5-policy return stride once or twice), policies "
         "split into groups at random (including all-staged, single-policy and empty groups), 0-3 rules per policy and direction, "
         "0-3 profiles, workload endpoints (admin up/down, VXLAN/IPIP from workloads allowed or not) and host endpoints (failsafe jump), "
         "ingress and egress, IPv4 and IPv6, iptables and nftables, 4 mark layouts, flow logs on/off, DROP/REJECT, filter allow action "
         "ACCEPT/RETURN, conntrack-invalid rule on/off; rules over a small universe of addresses/CIDRs/ports/IP sets with at most two "
         "positive match blocks (the C08 scratch-bit finding needs three); per case up to 40 probe packets: one aimed at each rule plus a "
         "one-field perturbation, randoms, conntrack states, VXLAN and IPIP packets, random entry marks (drop bit clear); "
         "non-trivial = at least 2 enforced policies and >= 10 packets; distinct by (configuration, endpoint description)",
    trusted=["Coq 8.16.1 kernel + vm_compute",
             "Common/Ipt.v match_one/apply_mark/run as the meaning of iptables/nftables rules, jumps and returns (kernel evaluation)",
             "Common/PolicyRef.v endpoint_verdict as the meaning of tiers, staged policies, profiles",
             "harness/C09/cmd/parse.go: text->AST grammar (C08's, plus jump/goto, conntrack state, NOTRACK)",
             "hand-written model coq/theories/C09/Model.v (+ C08/Model.v render_rule) tied to felix/rules/endpoints.go and policy.go by this "
             "correspondence run (structural equality of every chain)"],
    assumptions=["IP set contents enter as an oracle set-id -> member -> bool",
                 "the drop mark bit is clear when the packet enters the endpoint chain (Felix's static chains clear Calico's marks on entry; "
                 "the endpoint chain itself only clears accept and pass)",
                 "mark bits accept/pass/drop/scratch0/scratch1 pairwise disjoint, non-zero, within 32 bits",
                 "per-rule correctness of the rendering is the hypothesis rule_ok (C08): proved for rules with at most two positive match "
                 "blocks on the pinned tree and for all rules with fixes/C08-scratch-bit.patch",
                 "chain names are distinct (hash collisions of GetLengthLimitedID / group UIDs excluded)",
                 "QoS controls (packet rate / connection limits) are not rendered (qosControls = nil)",
                 "failsafe chains are empty (no failsafe ports configured)"],
)

def run(ctx):
    return vlib.standard_flow(ctx, CFG)

MANIFEST = dict(
    category="proof",
    text="Theorems over an executable model of endpointIptablesChain, PolicyGroupToIptablesChains and the policy/profile chain wrappers, "
         "evaluated on the abstract netfilter machine: for every tier/group/policy/profile layout, default action, staged mix and packet "
         "the rendered endpoint chain reaches PolicyRef.endpoint_verdict; group chains behave as the inlined jumps at every position of the "
         "return stride; staged policies are inert.  Plus a correspondence run rendering generated endpoints with the REAL renderer "
         "(iptables and nftables), parsing the text back and checking both structural equality with the model and the verdict of the real "
         "chains on probe packets against the reference.",
    note="Trusted: Coq kernel; the abstract netfilter semantics (Common/Ipt.v); the reference semantics (Common/PolicyRef.v); the text parser of the Go driver.",
)
