import vlib

# Feature streams of the driver.  On the pinned tree each is a defect class the model carries as a `variant` flag:
_FEAT_KEY = {
    "profile-log": "profile-log-panic",
    "protoname": "proto-name-icmpv6-udplite-zero",
    "profile-pass": "profile-pass-denies",
}
_EXPLAINED = {}


def _install_classifier():
    """After the main evaluation, evaluate Spec.classify_case (inside Coq) on the cases the oracle rejected:
    a rejected case is a known finding only if the model of the probed variant predicts everything the real code
    did AND the fixed-variant model reaches the reference verdict on every probe (see Spec.v)."""
    orig = vlib.coq_eval_cases

    def wrapped(ctx, imports, checker, cases, **kw):
        res, log = orig(ctx, imports, checker, cases, **kw)
        if checker == CFG["checker"]:
            bad = [i for (i, a, o) in res if not o]
            if bad:
                sub = [cases[i] for i in bad]
                # run_cases keeps only (false, _) rows: a row that is missing was classified `explained`
                r2, _ = orig(ctx, imports, "classify_case", sub, **kw)
                unexplained = {j for (j, is_class, _o) in r2 if not is_class}
                for j, c in enumerate(sub):
                    _EXPLAINED[c] = j not in unexplained
        return res, log
    vlib.coq_eval_cases = wrapped
    return orig


def classify(case_line):
    feat = case_line.get("feat")
    if feat in _FEAT_KEY and _EXPLAINED.get(case_line.get("coq")):
        return _FEAT_KEY[feat]
    return None


CFG = dict(
    imports=["From Verif.Common Require Import Packet PolicyRef.", "From Verif.C11 Require Import Bpf Model Spec."],
    checker="check_case",
    n=dict(quick=48, thorough=800),
    shard=6,
    deps=["Common"],
    rule="generated polprog.Rules: workload / workload+host-* / host-interface / XDP shapes; 0-3 tiers per section with 1-3 policies "
         "of 0-4 rules, end-of-tier deny/pass/undef; 0-3 profiles; SuppressNormalHostPolicy; rules with protocol by number or name, "
         "1-3 CIDRs per field (prefix lengths on every 32-bit word boundary of IPv6, rare other-family and catch-all entries), IP sets, "
         "IP+port sets, port ranges + named-port sets, ICMP type/code, all negations, explicit/contradicting ip_version, every action; "
         "IPv4 and IPv6 builds; fixed allow/deny indexes or skb->cb[]; program splitting with 3..80 jumps per program; assembler "
         "trampolines; flow logs / policy debug on and off.  Each case: the REAL Builder's instruction words for all sub-programs, 24 probe "
         "packet states: one third drawn from CIDR edges +-1, set members, port range ends +-1, protocols, ICMP grid, host flags; two thirds "
         "aimed at one of the case's rules (its positive criteria satisfied on CIDR / port-range edges, set members) and then, 45% of them, "
         "pushed over one edge (port +-1, address +-1, other protocol); every probe is "
         "executed on the real instruction stream by the Coq eBPF interpreter (following tail calls) and compared with the IR model and "
         "with PolicyRef.  non-trivial = compiled, >=2 rules and >=1 match criterion; distinct by (options, rules, sets);  "
         "65% of the cases hold a nested CIDR family in the pool (several entries sharing one base address with different prefix lengths, "
         "plus a nested CIDR with another base), and a cidr-stress stream (20% of the plain cases) has rules whose src/dst, positive/negated "
         "CIDR lists are arrangements of that family (narrow-then-broad, broad-then-narrow, duplicates); probes aimed at a CIDR list take "
         "the first / last address of an entry or the address just outside it (inside the broader, outside the narrower entry); "
         "an emit-fragment stream (22%: only protocol / ICMP / numeric-port criteria, plain build) whose real instruction words must equal, "
         "word for word, what the Gallina emitters + assembler model of Emit.v produce; "
         "a key-stress stream (20% of the plain cases) has rules doing SEVERAL IP-set-type lookups with the same on-stack key on one leg "
         "(selector set positive/negated or IP+port set, then 0-6 numeric port ranges, then 1-2 named-port sets, positive or negated; src, dst "
         "or both legs), named-port members nested inside the selector sets, and the same rules and probes compiled with three jump limits "
         "drawn over the whole jump count of the unsplit program, so that every split point inside a rule gets hit (an uninitialised key byte "
         "after a mid-rule split is an interpreter error, hence no verdict).  Three feature "
         "streams (10% each) carry profile Log rules, protocol names icmpv6/udplite, profile Pass rules; two small out-of-domain streams "
         "(two positive destination selector sets: the builder must panic and the model says so; a tier without policies) are compared "
         "model-vs-implementation only.",
    trusted=["Coq 8.16.1 kernel + vm_compute",
             "coq/theories/C11/Bpf.v as the meaning of the eBPF instruction subset and of the two helpers (map_lookup_elem on the state "
             "map / on the IP-sets LPM map answered from the member table, tail_call)",
             "Common/PolicyRef.v as the meaning of a rule / tier / profile list; Spec.ref_verdict as the way the sections of polprog.Rules combine",
             "Spec.state_bytes: the byte layout of struct cali_tc_state (checked against the C headers by property C13)",
             "coq/theories/C11/Emit.v (instruction emitters + asm.Block label resolution / dead-code elimination for the lookup-free fragment) "
             "tied to the code by word-for-word equality with the real builder's output on every case inside the fragment",
             "hand-written IR model coq/theories/C11/Model.v tied to pol_prog_builder.go by this correspondence run (verdict and log flag of every probe)",
             "Go driver harness/C11 (overlay build, tag verif; add-only shim exposing maxJumpsPerProgram and protocolToNumber)"],
    assumptions=["PARTIAL by design: instruction-level equivalence IR -> assembled eBPF is established per generated program by executing the "
                 "real instruction stream inside Coq, not by a theorem over all programs",
                 "rule-hit recording (writeRecordRuleID) and debug comments are executed (they are in the instruction stream) but not modelled or compared",
                 "the allow/deny epilogue programs, the kernel verifier's acceptance of the program and the kernel's LPM-trie are outside: a lookup "
                 "is 'some member entry covers the key'",
                 "IP set ids are typed: selector sets hold CIDRs, named-port / service sets hold (ip, protocol, port)",
                 "valid configuration = what bpfEndpointManager.extractTiers and the calc graph produce: tiers have >=1 policy or end in pass, "
                 "at most one positive destination selector set, all set ids allocated, protocol names resolve by the IANA table",
                 "the model variant (profile log label / protocol names / profile pass) is the one the driver probes from the tree: on an unfixed "
                 "tree c11_ir_verdict_pinned / c11_pinned_compiles apply to every configuration clear of the three known-finding classes and "
                 "c11_*_pinned_* refute the rest; with the fix patches c11_ir_verdict applies outright",
                 "packet addresses are below 2^32 / 2^128 (needed only for the negated catch-all CIDR case)"],
    classify=classify,
)


def run(ctx):
    orig = _install_classifier()
    try:
        return vlib.standard_flow(ctx, CFG)
    finally:
        vlib.coq_eval_cases = orig


def replay(ctx, path):
    """Re-evaluate one stored case (configuration, the real builder's instruction words, probes) inside Coq."""
    import json
    d = json.load(open(path))
    c = d.get("case") or d.get("first_case")
    if not c:
        print(json.dumps(d, indent=1)[:4000]); return 0
    vlib.coq_build(vlib.prop_targets("Common") + vlib.prop_targets("C11"))
    failing, _ = vlib.coq_eval_cases(ctx, CFG["imports"], CFG["checker"], [c["coq"]])
    print("sample :", c.get("sample")); print("result :", c.get("result")); print("tags   :", c.get("tags"))
    if not failing:
        print("model agrees with the stored implementation output; oracle accepts it"); return 0
    for (_, agree, okk) in failing:
        print("model == implementation:", agree, "| specification oracle accepts implementation output:", okk)
    # which probes differ: (probe index, raw outcome (1 exit / 2 tail call / 3 error, value, pol_rc), reference, model)
    import os, subprocess
    vf = os.path.join(ctx.build, "replay_explain.v")
    with open(vf, "w") as f:
        f.write("From Coq Require Import List NArith ZArith String.\nImport ListNotations.\n" + "\n".join(CFG["imports"]) + "\n")
        f.write("Definition the_case := %s.\nEval vm_compute in explain_case the_case.\n" % c["coq"])
    ok, out = vlib.coqc(vf)
    print("failing probes (index, (outcome kind, value, pol_rc), reference verdict, model verdict):")
    print(out[-3000:])
    return 1


MANIFEST = dict(
    category="proof",
    text="Two layers.  (1) Theorems over a Gallina re-implementation of the policy-program builder at the level of match tests and jump "
         "targets: for every polprog.Rules and every packet state the IR program's verdict equals the reference semantics (PolicyRef per "
         "section; pre-DNAT / apply-on-forward / normal host policy / workload policy composition; suppress-normal-host-policy, "
         "for-host-interface, XDP), and cutting the program into chained sub-programs preserves the verdict.  (2) A correspondence run that "
         "compiles generated configurations with the REAL builder and executes the real instruction words on probe packets with an eBPF "
         "interpreter inside Coq (tail calls between split sub-programs followed), comparing pol_rc / tail-call target with the reference "
         "and with the IR model; builder panics and errors are observables.",
    note="PARTIAL: IR -> instruction level is per generated program (execution), not a theorem over all programs; rule-hit recording "
         "and debug comments not modelled.  Trusted: Coq kernel; Bpf.v instruction/helper semantics; PolicyRef; state struct layout.",
)
