import vlib

CFG = dict(
    imports=["From Verif.C31 Require Import Model Spec Split."],
    checker="check_any",
    n=dict(quick=110, thorough=1320),
    shard=31,
    rule="14 splitter cases (splitIPSetUpdate / splitIPSetDeltaUpdate on run-length encoded member lists of 0 .. 3x MaxMembersPerMessage "
         "members, compared with the chunking model and a completeness oracle), then two scripted scenarios (every rule field referencing an IP set, reference changes under a connected workload, "
         "join before the endpoint exists, re-join, endpoint removed while connected) followed by random "
         "histories of 12-35 operations (joins/leaves with fresh and stale join UIDs, re-joins over a live connection, "
         "endpoint/policy/profile/IP set/service account/namespace updates and removes, in-sync) over 3 workloads, "
         "4 policies (two kinds sharing names), 3 profiles, 4 IP sets, generated so that the calculation graph's "
         "contract holds; 1 history in 8 breaks the contract at one operation (malformed stream: the model must then "
         "predict the Processor's panic). non-trivial = at least 2 joins, at least 6 messages read from the channels "
         "and at least one message sent to an already connected workload; distinct by operation list",
    trusted=["Coq 8.16.1 kernel + vm_compute",
             "hand-written model coq/theories/C31/Model.v tied to felix/policysync/processor.go by this correspondence run",
             "Go driver harness/C31 (overlay build, tag verif) and its add-only shim exporting handleJoin/handleLeave/handleDataplane"],
    assumptions=["the Processor's handlers run one at a time (they do: a single goroutine loop); the driver calls them synchronously",
                 "output channels never fill up (the driver's are buffered with 4096 slots; the server's have 100 and a reader goroutine)",
                 "calculation-graph contract Spec.valid (readable: Spec.listed_once = tiers disjoint, no repeat in an ingress list): policies/profiles are sent before endpoints that list them and removed only "
                 "when unused, IP sets likewise w.r.t. policies/profiles, an endpoint lists a policy once, join UIDs are non-zero",
                 "in the Processor model IP set updates carry fewer than MaxMembersPerMessage (82200) members (the splitters themselves are modelled, proved complete and compared with the code separately, Split.v)",
                 "a single IPSetDeltaUpdate never adds and removes the same member (Chunked.op_ok; needed only for c31_split_delta_complete and the c31_chunked_* theorems)",
                 "chunked streams: the real Processor is not driven with sets above 82200 members (the model members are unary nats); the chunked theorems are tied to the code through the Processor correspondence below that size, the splitter correspondence above it, and the three call sites sendIPSetUpdate/handleIPSetUpdate/handleIPSetDeltaUpdate",
                 "proto payloads are not mutated after being handed to the Processor"],
)

def run(ctx):
    return vlib.standard_flow(ctx, CFG)

MANIFEST = dict(
    category="proof",
    text="Theorems over an executable model of the policy-sync Processor for every history of dataplane updates interleaved "
         "with joins and leaves and for every order in which Go map iterations may emit messages: each connected workload's "
         "stream applied in order yields exactly its own endpoint and the latest policies, profiles, IP sets, service accounts "
         "and namespaces it needs, never references something not yet sent, and nothing follows a leave; plus a correspondence "
         "run of model and specification oracle against the real Processor driven synchronously.",
    note="Trusted: Coq kernel; hand-written model tied to the code only by the correspondence run; Go driver and shim.",
)
