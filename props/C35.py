import vlib

CFG = dict(
    imports=["From Verif.C35 Require Import Model Spec."],
    checker="check_case",
    n=dict(quick=600, thorough=7200),
    rule="op sequences (8-40 ops) on structured masks (empty, single bit, contiguous, alternating, full, calico defaults) "
         "and random 32-bit masks; non-trivial = mask has >=2 bits and the trace contains an allocation past exhaustion "
         "or a number->mark->number round trip; distinct by (mask, ops)",
    trusted=["Coq 8.16.1 kernel + vm_compute", "hand-written model coq/theories/C35/Model.v tied to felix/markbits by this correspondence run",
             "Go driver harness/C35 (overlay build, tag verif)"],
    assumptions=["uint32 arithmetic modelled as N with explicit mod 2^32", "Go int is 64-bit"],
)

def run(ctx):
    return vlib.standard_flow(ctx, CFG)

MANIFEST = dict(
    category="proof",
    text="Theorems over the executable model of MarkBitsManager for every 32-bit mask and every allocation index/number "
         "(distinct single bits inside the mask, failure exactly at exhaustion, number<->mark round trip), plus a "
         "correspondence run of the model and a spec oracle against the real Go code on generated operation sequences.",
    note="Trusted: Coq kernel; hand-written model tied to the code only by the correspondence run; Go driver.",
)
