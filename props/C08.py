import vlib

# coq text of a failing case -> True iff Spec.classify_case says it is exactly the scratch-bit defect class
_SCRATCH_CLASS = {}

def _install_classifier():
    """After the main evaluation, evaluate Spec.classify_case (inside Coq) on the cases the oracle rejected.
    A case is the known scratch-bit finding only if the tree was probed unfixed, the UNFIXED model equals the
    implementation's rules, the rule has >= 3 positive blocks, and every failing packet is a reference non-match
    on which the implementation took the action, failing a 3rd-or-later positive block, with the FIXED model
    giving the reference outcome (see Spec.v).  Local helper: wraps vlib.coq_eval_cases for this run only."""
    orig = vlib.coq_eval_cases
    def wrapped(ctx, imports, checker, cases, **kw):
        res, log = orig(ctx, imports, checker, cases, **kw)
        if checker == CFG["checker"]:
            bad = [i for (i, a, o) in res if not o]
            if bad:
                sub = [cases[i] for i in bad]
                r2, _ = orig(ctx, imports, "classify_case2", sub, **kw)
                for (j, is_class, _o) in r2:
                    _SCRATCH_CLASS[sub[j]] = is_class
        return res, log
    vlib.coq_eval_cases = wrapped
    return orig

def classify(case_line):
    tags = case_line.get("tags") or []
    if (_SCRATCH_CLASS.get(case_line.get("coq")) and "variant:scratch-bit-unfixed" in tags
            and any(t in tags for t in ("posblocks:3", "posblocks:4"))):
        return "scratch-bit-third-positive-block"
    # nftables renders NotICMP type+code as "type != t code != c" (conjunction of inequalities)
    if "flavor:nft" in tags and "not-icmp-type-code" in tags:
        return "nft-not-icmp-type-code"
    return None

CFG = dict(
    imports=["From Verif.Common Require Import Packet PolicyRef Ipt.", "From Verif.C08 Require Import Model Spec Nft SpecNft."],
    checker="check_case2",
    n=dict(quick=400, thorough=6000),
    shard=60,
    deps=["Common"],
    rule="structured proto.Rules (protocol by name/number, 0-4 CIDRs per field with rare other-family and catch-all entries, "
         "0-40 port ranges per field, 0-3 named-port sets, IP sets, IP+port sets, ICMP type/code, all negations, every action, "
         "explicit/implicit/contradicting ip_version) x {iptables,nftables} x 3 mark layouts x flow-logs/untracked/REJECT/log-limit; "
         "12% of rules have no ip_version and CIDR fields MIXING both families in every order; for those (and 8% of the others) the SAME "
         "proto.Rule object is rendered for IPv4 then IPv6 (or 6 then 4) as the policy managers do, each rendering compared with the model of "
         "the ORIGINAL rule and judged by the oracle on packets of that version, and the input rule must be left unmodified (deep proto compare); "
         "per rule up to 44 packets: one aimed at matching, then single-field perturbations on every CIDR edge +-1, port range end +-1, "
         "set members, each protocol, ICMP type/code grid, random entry marks (own verdict bit clear, scratch bits arbitrary); "
         "non-trivial = the renderer produced >=2 rules and >=10 packets were evaluated; distinct by (flavour, ip version, config, rule)",
    trusted=["Coq 8.16.1 kernel + vm_compute",
             "Common/Ipt.v match_one/apply_mark/run as the meaning of an iptables/nftables rule (kernel evaluation)",
             "Common/PolicyRef.v rule_matches as the meaning of a Felix rule",
             "harness/C08/cmd/parse.go: text->AST grammar incl. protocol-name table and MARK/nft mark arithmetic forms",
             "hand-written model coq/theories/C08/Model.v tied to felix/rules/policy.go by this correspondence run (structural equality of rule lists)"],
    assumptions=["IP set contents enter as an oracle set-id -> member -> bool",
                 "entry condition: the rule's own verdict mark bit is clear on entry (endpoint chains clear accept/pass; a set bit means the chain already returned)",
                 "mark bits accept/pass/drop/scratch0/scratch1 pairwise disjoint, non-zero, within 32 bits",
                 "rate-limit matches (LogActionRateLimit) are an arbitrary oracle",
                 "nftables NotICMP with type AND code is outside the proved domain (known finding nft-not-icmp-type-code)",
                 "the model variant (c_fixed) is the one the driver probes from the tree: unfixed trees are compared with the unfixed model "
                 "(c08_rule_exact_refuted_unfixed applies; oracle failures of exactly that class are the known finding "
                 "scratch-bit-third-positive-block), trees with fixes/C08-scratch-bit.patch with the fixed model (c08_rule_exact applies)"],
    classify=classify,
)

def run(ctx):
    orig = _install_classifier()
    try:
        return vlib.standard_flow(ctx, CFG)
    finally:
        vlib.coq_eval_cases = orig

def replay(ctx, path):
    """Re-evaluate one stored case (rule, configuration, the real renderer's parsed rules, packets) with the
    model and the oracle inside Coq.  The stored case carries the implementation's own output, so the verdict
    does not depend on the tree; to see the current tree's output for the same rule run ./check C08."""
    import json
    d = json.load(open(path))
    c = d.get("case") or d.get("first_case")
    if not c:
        print(json.dumps(d, indent=1)[:4000]); return 0
    ok, log = vlib.coq_build(vlib.prop_targets("Common") + vlib.prop_targets("C08"))
    failing, _ = vlib.coq_eval_cases(ctx, CFG["imports"], CFG["checker"], [c["coq"]])
    s = c.get("sample", {})
    print("rule    :", s.get("rule")); print("flavour :", s.get("flavor"), "ipv%s" % s.get("ipver"))
    for t in s.get("rendered", []): print("   ", t)
    if not failing:
        print("model agrees with the stored implementation output; oracle accepts it"); return 0
    for (_, agree, okk) in failing:
        print("model == implementation:", agree, "| specification oracle accepts implementation output:", okk)
    return 1

MANIFEST = dict(
    category="proof",
    text="Theorems over an executable model of ProtoRuleToIptablesRules (match blocks with scratch mark bits, port splitting, IP-version "
         "filtering, action rules) evaluated on an abstract netfilter machine: for every rule, configuration, IP set contents and packet the "
         "rendered rules take the rule's action iff the reference semantics says the rule matches, else fall through leaving non-scratch "
         "marks unchanged; plus a correspondence run parsing the REAL renderer's iptables/nftables text into the same machine.",
    note="Trusted: Coq kernel; the abstract netfilter semantics (Common/Ipt.v); the reference semantics (Common/PolicyRef.v); the text parser of the Go driver.",
)
