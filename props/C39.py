"""C39 - overlapping IP pools resolve to one allocatable pool per address (kube-controllers ippool controller)."""
import vlib

KEY_DT = "disabled-terminating-does-not-mask"


def classify(line):
    # known class (known-findings.txt): a pool that is BOTH administratively disabled and terminating is skipped by the
    # overlap pass, so an overlapping pool becomes allocatable while the terminating pool is still there.  The driver
    # tags exactly that shape from the implementation's observations.
    if "disabled-terminating-unmasked" in line.get("tags") or []:
        return KEY_DT
    return None


CFG = dict(
    imports=["From Verif.Common Require Import Prefix.", "From Verif.C39 Require Import Model Spec Conditions Cases.", "Open Scope N_scope."],
    checker="check_xcase",
    n=dict(quick=160, thorough=1920),
    shard=25,
    deps=["C36"],
    classify=classify,
    rule="the REAL IPPoolController.reconcile() driven synchronously over a fake clientset and hand-fed informer indexers; "
         "streams: config (2-7 pools in an arbitrary state: any Allocatable condition, disabled, terminating, finalizers; 0-3 blocks; "
         "1-3 reconciles), history (from the empty cluster, 3-6 rounds of 0-3 API operations create/disable/enable/delete request/"
         "foreign finalizer removed/block appears/block gone followed by a reconcile), scenario (13 scripted shapes + random tail), "
         "faults (histories of 4-7 passes in which, in about half of the passes, the UpdateStatus call for chosen pools - terminating ones "
         "preferably - and/or the finalizer Update for chosen pools is rejected with a 409 by a reactor on the fake clientset, followed by "
         "clean passes; also 35% of the config cases have failing writes in their first pass; scripted: status write of a freshly "
         "terminating pool fails, finalizer/status writes of new pools fail, incumbent disabled with failed status write and re-enabled), "
         "malformed (unparseable pool and block CIDRs), conditions (every 8th case: the real setConditionOnPool / hasCondition on lists of 0-5 "
         "conditions of 3 types incl. nil status, duplicates of a type, already-as-wanted and one-field-differs), handle-err (every 16th case: "
         "the real handleErr with a fake queue, failed/clean x requeue count 0-7); the oracle is applied after EVERY pass including the failed ones; pool CIDRs /22../28 crowded into 10.0.0.0/22 (15% with host bits set), a few "
         "elsewhere, 0.0.0.0/0, IPv6 /46../112; names chosen to exercise byte-wise name order; creation times with ties.  "
         "non-trivial = at some reconcile two pools with overlapping CIDRs are present; distinct by (initial configuration, operations)",
    trusted=["Coq 8.16.1 kernel + vm_compute",
             "hand-written model coq/theories/C39/Model.v tied to kube-controllers/pkg/controllers/ippool/pool_controller.go by this correspondence run",
             "Go driver harness/C39 (overlay build, tag verif) incl. its simulation of the API server's finalizer semantics and the "
             "client-go fake clientset (UpdateStatus/Update store the object as sent)",
             "Verif.C36 (felix/ip CIDRTrie: Get||Intersects||Covers == some stored prefix overlaps the query) for the trie abstraction"],
    assumptions=["the informer caches are in sync with the datastore when reconcile starts",
                 "a failing API write is rejected as a whole and changes nothing (409); status is a subresource: UpdateStatus changes only "
                 ".status, Update never changes .status (reactor in the driver); resourceVersion conflicts arise only where injected",
                 "only the controller writes status.conditions; pool names are unique; spec.cidr is immutable",
                 "a delete request removes an object without finalizers at once, otherwise sets deletionTimestamp; an object with "
                 "deletionTimestamp disappears when its last finalizer is removed",
                 "at most one condition of type Allocatable per pool; IPv4-mapped IPv6 CIDRs are outside the generated domain"],
)


def run(ctx):
    return vlib.standard_flow(ctx, CFG)


MANIFEST = dict(
    category="proof",
    text="Theorems over an executable model of the ippool controller's reconcile (poolSortFunc order, overlap pass, conditions, "
         "finalizers) and of the API server's finalizer semantics, for all pool sets and all histories: no two allocatable pools "
         "overlap, incumbents are kept, terminating pools mask, allocatable pools with blocks are not deleted; plus a correspondence "
         "run of model and spec oracle against the real controller over a fake clientset.",
    note="Trusted: Coq kernel; hand-written model tied to the code only by the correspondence run; Go driver incl. simulated API server.",
)
