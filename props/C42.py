import vlib

STALE_KEY = "stale-service-id-after-failed-first-syncs"
MAGLEV_KEY = "maglev-lut-deleted-before-frontends-updated"
WRAP_KEY = "service-id-reused-after-uint32-wrap"


def classify(case_line):
    # the scripted history that reproduces the stale-prevSvcMap finding (see known-findings.txt)
    if "scripted:stale-prev-id" in (case_line.get("tags") or []):
        return STALE_KEY
    # histories in which the driver saw a maglev-flagged frontend without a complete LUT after some single write; the
    # driver emits such a history a second time with the maglev part of the oracle off, so nothing else is masked
    if "maglev-midupdate" in (case_line.get("tags") or []):
        return MAGLEV_KEY
    # the scripted history that puts the uint32 id counter at 2^32-1 (through a shim) and adds two services
    if "scripted:id-wrap" in (case_line.get("tags") or []):
        return WRAP_KEY
    return None


CFG = dict(
    imports=["From Verif.C42 Require Import Model Spec ModelMg Check3."],
    checker="check_case3",
    n=dict(quick=80, thorough=960),
    shard=30,
    classify=classify,
    rule="histories of 3-8 Syncer.Apply calls on the real bpf/proxy.Syncer over recording in-memory NAT maps: 1-6 services "
         "(cluster IP, 0-2 external IPs, 0-2 load-balancer IPs, node port on 1-2 node-port addresses incl. the 255.255.255.255 "
         "meta address, external/internal traffic policy, session affinity, natExcludeService annotation, TCP/UDP; a third of the histories with the maglev annotation) with 0-6 endpoints (ready / not ready / "
         "terminating, local or on one of 3 remote nodes); between applies services are added, removed or changed and endpoints "
         "added, removed or change state; an apply may have write failures (a hash predicate on the key, or every write after "
         "the n-th) and may be followed by a restart (new Syncer over the same maps); 4 scripted histories first. "
         "non-trivial = >=10 single writes, a completed apply, and a failed apply, a restart or >=4 frontends; distinct by the "
         "whole history",
    trusted=["Coq 8.16.1 kernel + vm_compute",
             "hand-written models coq/theories/C42/Model.v (two NAT maps) and ModelMg.v (NAT maps + Maglev LUT map, both phase orders) tied to felix/bpf/proxy/syncer.go by this correspondence run: the complete recorded schedule of single writes to all three maps must be one the models accept, with equal error flag and equal maps",
             "Go driver harness/C42 (overlay build, tag verif) incl. the recording wrapper around felix/bpf/mock.Map and the "
             "visit-order recorder shim in felix/bpf/proxy"],
    assumptions=["IPv4, no loadBalancerSourceRanges (source-range and black-hole frontends: not modelled - they need a fourth/fifth key field, an exemption of the all-ones count in `consistent`, a conditional Set in the desired map and new cases in every lemma about unit_frontends/spec_frontends; the driver panics if such a key is ever written), no topology hints, no excluded CIDRs, service is not default/kubernetes",
                 "uint32 nextSvcID: Model.v/ModelMg.v count in N, ModelWrap.exec_apply32 has the wrap; they coincide while the counter stays below 2^32 (c42_uint32_model_coincides, c42_id_counter_growth, c42_startup_counter_bound); the checker requires agreement with the uint32 model on every history; beyond the wrap see known finding service-id-reused-after-uint32-wrap; startup with a frontend carrying id 2^32-1 (counter set to id+1 = 0) is not modelled",
                 "a failed map write leaves the map unchanged; nothing but the Syncer writes the maps while it runs",
                 "Maglev LUT map: every write to it is recorded too; after EACH single write of any of the three maps the oracle checks that every maglev-flagged frontend with backends finds a complete table (lutSize 7 in the driver); at the end of a completed sync: table over the ready endpoints, no stale table.  The table contents (consistent hash, C33) are an explicit parameter of the model (the driver computes them with felix/bpf/consistenthash as the syncer does); maglev writes are never made to fail; the driver probes whether the tree uses the pinned or the repaired LUT phase order (k_mgfix)",
                 "cachingmap behaviour (a failed write stays pending, the other writes of the phase go on, the phase reports the error) is the one proved for the CachingMap model in C18 (c18_cache_failed_update_stays_pending, c18_cache_failed_delete_stays_pending, c18_cache_exact_after_failures); cited, not imported",
                 "affinity map cleanup not modelled",
                 "final_exact oracle: ExternalIP frontends and per-remote-node node-port frontends are not required to carry a local-only flag (the code never sets one on ExternalIP frontends)"],
)


def run(ctx):
    return vlib.standard_flow(ctx, CFG)


MANIFEST = dict(
    category="proof",
    text="Theorems over an executable model of bpf/proxy Syncer.Apply (id assignment, desired frontend/backend maps, the four "
         "dataplane phases as single writes in arbitrary order with arbitrary write failures, restarts): after every single "
         "write every frontend's count refers only to existing backend entries (c42_every_write_consistent); after a completed "
         "sync the maps are exactly what the services ask for (c42_completed_sync_is_desired, c42_frontends_exactly_requested, and "
         "c42_final_exact for a Syncer that empties prevSvcMap at each startup sync - the tree since fix 037302d; c42_final_exact_refuted otherwise); the boolean oracles are proved sound and complete for the Prop specification and accept every model run (c42_model_meets_spec); a valid schedule exists for every history (c42_schedule_exists); the three-map model with the Maglev LUT map keeps every maglev-flagged frontend's table complete after each single write under the repaired phase order (c42_maglev_every_write_consistent) and not under the pinned one (finding).  Correspondence run of the real Syncer over recording in-memory maps with the "
         "invariant evaluated after each recorded write.",
    note="Trusted: Coq kernel; hand-written model tied to the code only by the correspondence run; Go driver and shims.",
)
