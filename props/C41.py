"""C41 - flow offload never bypasses endpoints that need per-packet processing."""
import vlib

CFG = dict(
    imports=["From Verif.Common Require Import Packet Ipt.", "From Verif.C41 Require Import Model Spec.", "Open Scope N_scope."],
    checker="check_case",
    n=dict(quick=160, thorough=1920),
    shard=40,
    deps=["Common"],
    rule="histories (6-31 messages) for the REAL flowtableExclusionManager (IPv4 or IPv6 instance) with a recording "
         "IPSetsDataplane: WorkloadEndpointUpdate/Remove over 5 endpoint ids (two pairs differ in one id component only), "
         "HostEndpointUpdate/Remove over 3 ids, unrelated messages and CompleteDeferredWork at random points; each update "
         "carries 0-3 addresses per family from a pool of 4 (so addresses are shared and change) and one of the QoS shapes "
         "none / DSCP policies / ingress or egress connection limit / ingress or egress packet rate / bandwidth-burst-peakrate "
         "only / all-zero controls / packet burst only / random mix / DSCP+bandwidth; every 5th case is a scripted shape (shared "
         "address then one owner removed, QoS switched off, address change, add+remove in one batch then idle flush, QoS on "
         "late, host+workload sharing an address, partial address loss, ids differing in one component, host endpoint DSCP "
         "toggle) with a random tail; every 5th is a boundary stream (nil Endpoint, no addresses, nets without mask, duplicate "
         "address in one endpoint, negative / 2^62 limits, leading idle flushes).  Observed per CompleteDeferredWork: the "
         "AddOrReplaceIPSet call (member multiset) or its absence.  Each case also renders all static chains of all four "
         "tables with the REAL renderer (nftables/iptables x NFTablesFlowTableOffload on/off x IP version) and parses every rule "
         "with a flow-offload statement into the abstract syntax (hard error on unknown tokens; the set name is tied to the "
         "set id the manager wrote through the nftables IP-set naming function).  For every workload update the REAL renderer's per-endpoint "
         "filter chains (WorkloadEndpointToIptablesChains) are rendered for its QoSControls and it is recorded whether a packet-rate or "
         "connection-limit rule appears: the oracle requires that to coincide with the property's 'connection or packet rate limit'.  Every call the manager makes is also "
         "forwarded to the REAL felix/nftables.IPSets writing into knftables' in-memory fake; after each CompleteDeferredWork the driver "
         "calls ApplyUpdates and lists the elements of the set THE RENDERED RULE NAMES: that programmed set must equal, as a sorted "
         "duplicate-free list, the excluded addresses of the history so far.  On the SAME fake kernel the REAL nftables.NftablesTable "
         "then programs the real rendered offload rule into cali-FORWARD, receives random SetOverlayDevices / SetWorkloadInterfaces / "
         "SetExternalDevices lists (universe of 6 devices, duplicates, 1 case in 3 with every device present, else ~1/3 missing) and "
         "Apply()s: the rule read back from the kernel is parsed and must be guarded, the flowtable it names must exist, and its device "
         "list must be exactly the offered devices that exist.  non-trivial = at some flush two endpoints "
         "that need the hooks share an address, or an endpoint in the set lost its QoS feature by an update, or changed its "
         "addresses; distinct by (ip version, history, renderer configuration)",
    trusted=["Coq 8.16.1 kernel + vm_compute",
             "Common/Ipt.v match_one/matches as the meaning of an nftables rule's matches (kernel evaluation); `flow offload @ft` "
             "hands exactly the packets the rule matches to the flowtable",
             "hand-written model coq/theories/C41/Model.v tied to felix/dataplane/linux/flowtable_mgr.go, the offload rule of "
             "felix/rules/static.go, felix/nftables/ipsets.go (set replace) and felix/nftables/table.go (flowtable object) by this correspondence run",
             "Go driver harness/C41 (overlay build, tag verif): recording IPSetsDataplane, rule text -> AST grammar",
             "sigs.k8s.io/knftables Fake as the kernel's set store (the programmed set is read back from it)"],
    assumptions=["the interface lister of NftablesTable works (its fall-open error path is not modelled); device names are numbered in string order",
                 "workload IPNetworks hold one address each (/32, /128: enforced by the v3 validator); host endpoint expected IPs carry "
                 "no mask; histories with multi-address nets are outside the proved domain (wf_history)",
                 "an address is the numeric value of the member string (what the IP set layer canonicalises members to; the real "
                 "nftables IP set layer is run and its programmed elements are compared with Spec.progs = support of the latest replacement)",
                 "HostEndpointUpdate always carries an Endpoint (the calc graph fills it; a nil one would panic the manager)",
                 "'already established' = conntrack state ESTABLISHED or RELATED, as felix/design/dataplane.md states the rule "
                 "(Felix accepts both before any policy in every endpoint chain); NEW/INVALID/UNTRACKED are never offloaded",
                 "the kernel's own flow-offload preconditions (confirmed conntrack, TCP established, no helper) are not modelled: "
                 "they only narrow what is offloaded",
                 "Go map iteration order is a universally quantified parameter of CompleteDeferredWork in the theorems"],
)


def run(ctx):
    return vlib.standard_flow(ctx, CFG)


MANIFEST = dict(
    category="proof",
    text="Theorems over the executable model of flowtableExclusionManager for every history of endpoint updates/removes and "
         "every map iteration order (the member list handed to the IP set has exactly the addresses of the endpoints with DSCP "
         "marking or a connection/packet rate limit), and over the abstract netfilter match semantics for every packet and "
         "every IP-set content (the rendered rule offloads only established flows with source and destination outside the "
         "set), plus a correspondence run of model and spec oracle against the real manager and the real rendered rule.",
    note="Trusted: Coq kernel; Common/Ipt.v match semantics; hand-written model tied to the code only by the correspondence run; Go driver.",
)
