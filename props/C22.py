import vlib

CFG = dict(
    imports=["From Verif.Common Require Import Cas.", "From Verif.C19 Require Import Model.", "From Verif.C22 Require Import Model Spec."],
    checker="check_case",
    n=dict(quick=56, thorough=672),
    shard=100,
    harness_dirs=["C19", "C22"],
    rule="case 0 is the scripted minimal witness of the same-host release/claim race, case 1 the scripted left-over affinity row: AutoAssign claims a block, ReleaseAffinity(mustBeEmpty=false) of the non-empty block crashes after clearing the block's Affinity field and before deleting the pendingDeletion row, the restarted host runs AutoAssign (getBlockFromAffinity on a block with nil Affinity), the addresses are released and another host claims the block; crashes are also injected preferentially just before an affinity row is deleted; each other case = one pool (1-4 blocks of 2-4 "
         "addresses), 2-3 hosts, an IPAM config (strict affinity / auto-allocate / block limit) and 1-3 clients of the REAL "
         "ipamClient, each running 2-15 ClaimAffinity / ReleaseAffinity(mustBeEmpty or not) / ReleaseHostAffinities / AutoAssign / "
         "AssignIP / ReleaseIPs / ReleaseByHandle operations aimed mostly at one contested block, against the in-memory CAS backend; "
         "even cases are sequential (one client), odd cases concurrent: a seeded scheduler picks which client performs its next "
         "datastore access, injects write conflicts (4-15% of conditional writes) and up to two crashes before/after a write "
         "(the crashed client restarts with its next operation); clients of a concurrent case run on distinct hosts except in "
         "the samehost stream (every fifth seed).  Non-trivial = sequential: a block was claimed and an affinity released; "
         "concurrent: a block was claimed and (two hosts wrote an affinity for the same block, or a conflict, or a crash).  "
         "Distinct by (config, operations, schedule).",
    trusted=["Coq 8.16.1 kernel + vm_compute",
             "hand-written model coq/theories/C22/Model.v (on C19/Model.v + Common/Cas.v) tied to libcalico-go/lib/ipam by this "
             "correspondence run: every datastore access of every client (kind, key, written value, answer), every returned result "
             "and the IPAM contents of the datastore after every write are compared",
             "in-memory CAS backend + scheduler harness/C19/cmd/membackend (same contract as the etcdv3 backend: Create fails if "
             "present, Update/Delete compare the revision)", "Go driver harness/C22 (overlay build, tag verif)"],
    assumptions=["datastore = linearizable key/value store with per-key compare-and-swap on a revision (Common/Cas.v)",
                 "one IPv4 pool selecting every node, no IP reservations, IPCooldownSeconds=0, no MaxAllocToHandlePerIPVersion, "
                 "no Windows reserved handle, ReleaseIPs called with addresses of one block, ClaimAffinity/ReleaseAffinity of exactly one block",
                 "randomBlockGenerator's start index and Go map iteration order are inputs (universally quantified in the theorems)",
                 "blocks claimed less than one minute ago are never reclaimed by another host (EmptyBlockMinReclaimAge branch of findUsableBlock is outside the model)",
                 "theorems c22_one_confirmed_owner / c22_block_affinity_matches_claim / c22_release_only_if_empty (pinned and repaired code): the clients "
                 "run on pairwise distinct hosts; crash = abandon the operation and go on with the next",
                 "theorems c22_*_same_host (repaired code, fx = true): NO hypothesis on the hosts - any number of processes per host",
                 "oracle clause 'a block naming h has an affinity object (h,c)' is applied to cases whose clients act for distinct hosts "
                 "(refuted for same-host processes: c22_named_block_has_affinity_same_host_refuted); not a theorem"],
)

def classify(line):
    """the scripted witness case carries the name of the finding it is the minimal replay of; a randomly generated
    case of the samehost stream that fails is attributed to the same class"""
    for t in (line.get("tags") or []):
        if t.startswith("witness:"):
            return t[len("witness:"):]
    if "samehost" in (line.get("tags") or []):
        return "same-host-release-races-claim"
    return None

CFG["classify"] = classify


def run(ctx):
    return vlib.standard_flow(ctx, CFG)


def replay(ctx, path):
    """Re-run one recorded case: the driver regenerates it against $VERIF_REPO (same seed/index), then the model and the
    oracle are evaluated on the implementation's trace."""
    import json, os
    obj = json.load(open(path))
    case = obj.get("case") or obj.get("first_case") or obj
    args = (case.get("sample") or {}).get("replay_args")
    coq_term = case.get("coq")
    exe, log = vlib.go_build(ctx, CFG["harness_dirs"])
    if exe and args:
        lines = vlib.run_driver(ctx, exe, args.split())
        if lines:
            coq_term = lines[-1]["coq"]
            print("re-ran the implementation: %s" % args)
            for l in lines[-1]["sample"].get("ops", []):
                print("  " + l)
            for l in lines[-1]["sample"].get("trace_head", []):
                print("    " + l)
    src = os.path.join(ctx.build, "replay.v")
    open(src, "w").write("From Coq Require Import List NArith ZArith String.\nImport ListNotations.\n"
                         + "\n".join(CFG["imports"]) + "\n"
                         "Definition c := " + coq_term + ".\n"
                         "(* (model agrees with the implementation, oracle accepts the implementation) *)\n"
                         "Eval vm_compute in check_case c.\n"
                         "(* first access the model cannot follow: (index, request the model expected, model store) *)\n"
                         "Eval vm_compute in first_bad c.\n"
                         "(* index of the first access after which the oracle rejects the datastore / the change / a result *)\n"
                         "Eval vm_compute in first_rejected c.\n")
    ok, out = vlib.coqc(src, timeout=300)
    print(out[-6000:])
    return 0 if ok else 1

MANIFEST = dict(
    category="proof",
    text="Theorems over an executable small-step model of the two-phase block claim / release protocol on a CAS store "
         "(rely/guarantee invariant proof for every interleaving of any number of hosts with injected conflicts and crash/restart), "
         "plus a step-by-step correspondence run of the model and a spec oracle against the real ipamClient driven by a "
         "deterministic scheduler on an in-memory CAS backend.",
    note="Trusted: Coq kernel; hand-written model tied to the code only by the correspondence run; in-memory backend + scheduler.",
)
