"""C14 - BPF conntrack cleanup never removes a live connection.

Userspace (Go) side: vlib.standard_flow with the driver harness/C14 (real conntrack.Scanner + LivenessScanner on an
in-memory conntrack map with an injected clock; observable = the cleanup queue handed to the cleaner).

Kernel (C) side: PARTIAL BY DESIGN.  The kernel program cannot run here.  process_ccq_entry (conntrack_cleanup.c) and
the last_seen refresh of calico_ct_lookup (conntrack.h) are modelled by hand (Model.v `clean`, `packet`) and assumed
atomic per invocation.  The only tie to the C text is the hash check below: the function text (comments and white
space stripped) must be the one the model was written against.  If it differs the check reports
`VIOLATION property=C14 replay=... no-failing-input-found` naming the C function: the theorems then no longer say
anything about the kernel side of the tree being checked.
"""
import hashlib, os, re
import vlib

# sha256 of the normalised text the model was written against
C_EXPECTED = {
    "felix/bpf-gpl/conntrack_cleanup.c:process_ccq_entry": "bc9d813468f6bc29f803c89a74774bc88e87a46dc5f45f67a0a0ab95e1e6857c",
    "felix/bpf-gpl/conntrack.h:last_seen-statements": "d07eaf1bbfbb4a133dfe3ed7821dc895ec5da6717efb6ea496669c68d39ea8b2",
}


def _strip(txt):
    txt = re.sub(r"/\*.*?\*/", " ", txt, flags=re.S)
    txt = re.sub(r"//[^\n]*", " ", txt)
    return txt


def _c_function(txt, name):
    """text of the C function `name` (from its name to the matching closing brace), comments/white space stripped"""
    txt = _strip(txt)
    m = re.search(r"\b%s\s*\(" % re.escape(name), txt)
    if not m:
        return None
    i = txt.find("{", m.end())
    if i < 0:
        return None
    depth, j = 0, i
    while j < len(txt):
        if txt[j] == "{":
            depth += 1
        elif txt[j] == "}":
            depth -= 1
            if depth == 0:
                break
        j += 1
    return re.sub(r"\s+", "", txt[m.start():j + 1])


def c_fingerprints(repo):
    out = {}
    try:
        t = open(os.path.join(repo, "felix/bpf-gpl/conntrack_cleanup.c")).read()
        f = _c_function(t, "process_ccq_entry")
        out["felix/bpf-gpl/conntrack_cleanup.c:process_ccq_entry"] = hashlib.sha256(f.encode()).hexdigest() if f else "function-not-found"
    except OSError as e:
        out["felix/bpf-gpl/conntrack_cleanup.c:process_ccq_entry"] = "unreadable: %s" % e
    try:
        t = _strip(open(os.path.join(repo, "felix/bpf-gpl/conntrack.h")).read())
        # every statement of conntrack.h that mentions last_seen (the two creations with .last_seen = now, the
        # refresh of the entry that was hit and the refresh of the tracking entry on a NAT_FWD hit), plus the
        # handling of a NAT_FWD hit whose reverse entry is gone
        stm = [re.sub(r"\s+", "", l) for l in t.split("\n") if "last_seen" in l and "CALI_CT_VERB" not in l and "CALI_DEBUG" not in l]
        m = re.search(r"tracking_v\s*=\s*cali_ct_lookup_elem\(&v->nat_rev_key\);\s*if\s*\(!tracking_v\)\s*\{(.*?)\}", t, flags=re.S)
        stm.append(re.sub(r"\s+", "", m.group(0)) if m else "nat-fwd-miss-block-not-found")
        out["felix/bpf-gpl/conntrack.h:last_seen-statements"] = hashlib.sha256("\n".join(stm).encode()).hexdigest()
    except OSError as e:
        out["felix/bpf-gpl/conntrack.h:last_seen-statements"] = "unreadable: %s" % e
    return out


KEY_EQ = "nat-fwd-queued-alone-equal-timestamps"


def classify(line):
    # the known class: a forward entry visited while its reverse entry carried the same last_seen, and queued with
    # the dummy reverse key although that reverse entry existed
    tags = line.get("tags") or []
    if "nat-pair-equal-timestamps" in tags and "fwd-queued-alone-with-reverse-present" in tags:
        return KEY_EQ
    return None


CFG = dict(
    imports=["From Verif.C14 Require Import Model Spec Cases.", "Open Scope Z_scope."],
    checker="check_any",
    n=dict(quick=240, thorough=8000),
    shard=75,
    classify=classify,
    rule="three streams per 20 cases: 12 scanner cases (below), 7 direct calls of EntryExpired+EntryFinished (random timeouts, protocol 6/17/1/58/132/47/0, every TCP flag shape, DSR, rst_seen timestamps between last_seen and now, idle time at/around every applicable timeout; reasons compared with the model and checked against the rule table), 1 timeouts.GetTimeouts call on a random configuration map (valid, negative, unparsable, unknown and CreationGracePeriod keys).  Scanner cases: IPv4 (60%) or IPv6 (40%: KeyV6/ValueV6, ipVersion-6 Scanner, cali_v6_ccq cleanup values) flavour per case; 1-3 Scan() calls of the real Scanner+LivenessScanner over a table of 1-8 groups (normal entries of TCP/UDP/ICMP/"
         "ICMPv6/SCTP/GRE/protocol 0 in every TCP flag shape incl. DSR and rst_seen timestamp, NAT forward/reverse pairs "
         "with older / equal / random forward timestamps, forward entries without reverse, two forward entries sharing a "
         "reverse, unknown types), last_seen placed at / one ns around / a second around / far from every timeout that can "
         "apply; timeouts default / small distinct / random / boundary (0, established below the fixed 120 s rule); between "
         "the iteration callbacks the driver plays 0-4 dataplane events (packet on any key with the refresh rules of "
         "conntrack.h, state rewrite, re-pointed forward entry, eviction, clock ticks below and above the 1 s kernel-time "
         "cache); observed: the cleanup queue (key -> rev key, ts, rev ts) the cleaner finds at each run.  non-trivial = "
         "something was queued and the case has a NAT pair or an interleaved dataplane event; distinct by the whole case",
    trusted=["Coq 8.16.1 kernel + vm_compute",
             "hand-written model coq/theories/C14/Model.v; its userspace half (entry_done, judge, handle_nat, drain) is tied "
             "to felix/bpf/conntrack/{cleanup,scanner}.go by this correspondence run",
             "KERNEL SIDE NOT EXECUTED: Model.v `clean` (process_ccq_entry) and `packet` (calico_ct_lookup refresh) are "
             "hand translations of felix/bpf-gpl/conntrack_cleanup.c and conntrack.h lines 786-787 / 813-835, assumed atomic "
             "per invocation; tied to the tree only by a hash of the normalised C text",
             "Go driver harness/C14 (overlay build, tag verif): its in-memory conntrack map, clock shim and recording cleaner"],
    assumptions=["each process_ccq_entry callback and each packet's conntrack update is atomic (the window between the "
                 "cleaner's lookup and its delete is not modelled)",
                 "bpf_ktime_get_ns is monotone; every dataplane write to an entry stores the current kernel time in last_seen",
                 "a scanner iteration callback takes at least one unit of kernel time (Model.tick1; the driver's clock ticks "
                 "the same way) - this replaces any assumption on the sign of the configured timeouts",
                 "last_seen values are < 2^63 (int64/uint64 conversions are the identity); timestamps in the start state are "
                 "not in the future",
                 "NAT reverse keys have a non-zero IP protocol (the kernel cleaner treats rev_key.protocol == 0 as the dummy key); "
                 "the generator never points a forward entry at a protocol-0 key",
                 "no conntrack entry has the all-zero key; a non-forward entry's first 16 leg bytes never equal a queued reverse key",
                 "Scanner configured with a BPF cleaner and the LivenessScanner as only entry scanner; fewer than 1000 expired "
                 "entries per scan (one cleaner run per scan)",
                 "the scanner's iteration delivers the current value of each key (batch-read staleness not modelled)"],
)


def run(ctx):
    fp = c_fingerprints(ctx.repo)
    bad = {k: (v, C_EXPECTED[k]) for k, v in fp.items() if v != C_EXPECTED[k]}
    extra_v = []
    if bad:
        for name, (got, want) in sorted(bad.items()):
            ctx.log("C source tie broken: %s hash %s, model written against %s" % (name, got, want))
        rp = vlib.write_replay(ctx, "c-source-changed", dict(
            kind="translation-tie-broken",
            unchecked="hand model of the kernel side (Model.v clean / packet) vs " + ", ".join(sorted(bad)),
            detail={k: dict(found=v[0], model_written_against=v[1]) for k, v in bad.items()},
            note="the C text the model was written against has changed; theorems c14_safety / c14_liveness no longer "
                 "speak about this tree's kernel cleaner until Model.v is re-read against the new text and the hash updated"))
        extra_v.append((rp, "no-failing-input-found"))
    orig = vlib.finish

    def finish2(c, violations, known_hits, level, coverage, assumptions):
        coverage["c_source_tie"] = dict(kind="text hash only (kernel program not executed)", found=fp, expected=C_EXPECTED,
                                        ok=not bad)
        return orig(c, violations + extra_v, known_hits, level, coverage, assumptions)
    vlib.finish = finish2
    try:
        return vlib.standard_flow(ctx, CFG)
    finally:
        vlib.finish = orig


def replay(ctx, path):
    """./check C14 --replay <file>: re-evaluate the recorded case (model vs implementation observables, spec oracle)
    inside Coq and print the verdict; for the C-source tie print the recorded hashes against the tree's."""
    import json
    d = json.load(open(path))
    if d.get("kind") == "translation-tie-broken":
        print(json.dumps(dict(recorded=d, now=c_fingerprints(ctx.repo), expected=C_EXPECTED), indent=1))
        return 0
    case = d.get("case") or d.get("first_case")
    if not case:
        print(open(path).read())
        return 0
    ok, log = vlib.coq_build(["theories/Common/CaseLib.vo"] + vlib.prop_targets("C14"))
    if not ok:
        print(log[-3000:])
        return 1
    res, _ = vlib.coq_eval_cases(ctx, CFG["imports"], CFG["checker"], [case["coq"]])
    if not res:
        print("replay: model agrees with the recorded implementation output and the specification oracle accepts it")
        return 0
    for (_, agree, okk) in res:
        print("replay: model_agrees=%s oracle_accepts=%s tags=%s" % (agree, okk, case.get("tags")))
        print(case["coq"])
    return 1


MANIFEST = dict(
    category="proof",
    text="Theorems over an executable model of the userspace conntrack scanner (entryDone timeout table, LivenessScanner with "
         "its cached kernel time, Scan's NAT pairing and cleanup-queue writes) and of the kernel cleaner's per-entry callback, "
         "for every interleaving of scanner callbacks, cleaner callbacks, packets, dataplane rewrites/evictions and clock ticks: "
         "an entry is deleted only if it was judged idle past the timeout of its protocol/state and is unchanged since; "
         "a complete scan + cleaner pass (any orders) removes every idle entry, forward entries within two rounds; the spec oracle "
         "accepts every model run.  Correspondence run of the userspace half (IPv4 and IPv6 map types) against the real Go code.",
    note="PARTIAL: the kernel program is not executed; process_ccq_entry and the last_seen refresh are hand-modelled, assumed "
         "atomic, and tied to the C source only by a text hash (a change is reported as VIOLATION ... no-failing-input-found).",
)
