"""C28 - exactly one of Felix and BIRD programs each IP pool's cluster routes (proof by translation).

Flow of one run (everything is re-derived from $VERIF_REPO):
  1. build the hand-written, source-independent part coq/theories/C28 (Model.v: how the pieces plug together; Spec.v: the
     property as a boolean oracle over the implementation's observables; Lemmas.v: generic lemmas);
  2. build (overlay, tag verif) and run the go/ast TRANSLATOR harness/C28/cmd/translate: it reads confd's
     clusterRoutePolicyFromBGPConfig / programsPool / processIPPool (+ the conditions under which processIPPools produces a
     pool's kernel statement), Felix's ProgramClusterRoutes parameter + accessors, the EncapsulationCalculator (both entry
     points handleModelPool / handleAPIPool: every condition - enclosing `if`s AND earlier `if c { return }` / switch-with-return
     statements - under which updatePool is reached, over the pool's attributes), the wiring in daemon.go / driver.go, the conditions under which int_dataplane.go creates
     the route-programming managers, ipip_mgr.go's gates, calc_graph.go's L3 route resolver condition and the tables of
     design/cluster-route-programming/DESIGN.md, and prints Gen.v.  It REFUSES source it does not recognise;
  3. re-check coq/gen/C28/Props.v (the theorems) against the regenerated Gen.v;
  4. build + run the correspondence driver harness/C28/cmd (real Config.UpdateFrom + accessors + EncapsulationCalculator;
     real clusterRoutePolicyFromBGPConfig / programsPool / processIPPools through a shim) on the complete enumeration of
     raw values x BGPConfiguration states x pool modes, and evaluate model (= Gen.v plugged into Model.v) and the Spec
     oracle on the implementation's observables inside Coq - this validates the translator itself.
"""
import hashlib, json, os, re, subprocess, threading
import vlib

PROP = "C28"
PROPS_SRC = os.path.join(vlib.COQ, "gen", PROP, "Props.v")
KEY_NONENUM = "felix-recognises-non-enum-values"

TRUSTED = [
    "Coq 8.16.1 kernel + vm_compute",
    "translator harness/C28/cmd/translate (go/ast; refuses unknown shapes) producing Gen.v; validated on every run by the "
    "correspondence: the generated definitions are evaluated against the real functions on the complete enumeration",
    "hand-written plumbing coq/theories/C28/Model.v (which generated piece feeds which) - tied to the code by the same run for "
    "everything up to the EncapsulationCalculator / BirdBGPConfig; the last step (dataplane Config -> managers created, "
    "ipipManager's gates, L3 route resolver condition) is translated from int_dataplane.go / ipip_mgr.go / calc_graph.go but "
    "cannot be executed here (NewIntDataplaneDriver needs a kernel)",
    "Go driver harness/C28 + shim confd/pkg/backends/calico/zz_verif_c28.go (overlay build, tag verif)",
    "BIRD semantics: a route is written to the kernel unless filter calico_kernel_programming rejects it (the template ends with `accept;`)",
]
ASSUMPTIONS = [
    "FelixConfiguration overrides IpInIpEnabled / VXLANEnabled (deprecated) are unset",
    "IPv6 pools: Felix's IPv6 support is enabled; IPIP pools are IPv4 (validation rejects others)",
    "a pool has at most one of ipipMode / vxlanMode set (validation)",
    "pool attributes considered: disabled, natOutgoing, disableBGPExport (any other attribute consulted on the path to updatePool / to the "
    "kernel-filter statement makes the translator refuse); a fresh EncapsulationCalculator handles the pool once; type assertions in "
    "handleModelPool / handleAPIPool succeed (handlePool dispatches on the dynamic type); JSON decoding / datastore reads in confd succeed",
    "confd can read the local node's subnet (otherwise processIPPools emits no IPv4 kernel filter statements at all)",
    "the value reaches Felix through Config.UpdateFrom and confd through the default BGPConfiguration",
    "domain of the all-strings theorem: a raw value is absent, one of the four documented values, or a string neither "
    "component recognises (not a case variant of a value, not the Felix keyword `none`); the excluded strings are the recorded finding",
]
RULE = ("complete enumeration: Felix raw value in {absent, 4 values, empty, 4 unrecognised strings (1 random per seed; thorough tier 13), 2 case variants (thorough 5), "
        "none/NONE (thorough: +None/nOnE)} x BGPConfiguration in {no default resource, field unset, the same strings} x pool mode in {VXLAN, "
        "VXLAN-CrossSubnet, IPIP, IPIP-CrossSubnet, none} (IPv4) + {VXLAN, VXLAN-CrossSubnet, none} (IPv6); non-trivial = the pair "
        "resolves (absent/unrecognised -> default) to one of the four supported pairings; distinct by the whole input; "
        "second stream: default pair + the four supported pairings x every pool mode/family x pool attributes that must not matter "
        "(disabled, natOutgoing, disableBGPExport singly and together, plus a nodeSelector) x Felix path (syncer: model.IPPool through "
        "handleModelPool; start-up: v3 IPPool through handleAPIPool)")


def classify(c):
    """known-finding class of a failing case: the Felix raw value is a string the API enum does not contain but Felix's
    generic parameter parsing gives a meaning to (case variant -> canonical value, `none` -> zero value)."""
    fc = c.get("sample", {}).get("felix_class")
    if fc in ("case-variant", "none-keyword"):
        return KEY_NONENUM
    return None


def scan_gen_forbidden():
    bad = []
    d = os.path.join(vlib.COQ, "gen", PROP)
    for f in sorted(os.listdir(d)):
        if f.endswith(".v"):
            txt = re.sub(r"\(\*.*?\*\)", " ", open(os.path.join(d, f)).read(), flags=re.S)
            for i, line in enumerate(txt.split("\n"), 1):
                if vlib.FORBIDDEN.search(line) or re.match(r"\s*(Variables?|Hypothes[ie]s|Context)\b", line):
                    bad.append("coq/gen/%s/%s:%d: %s" % (PROP, f, i, line.strip()))
    return bad


def build_tools(ctx):
    ov = vlib.make_overlay(ctx)
    out = os.path.join(ctx.build, "bin")
    os.makedirs(out, exist_ok=True)
    for f in os.listdir(out):
        os.remove(os.path.join(out, f))
    r = subprocess.run(["timeout", "1800", "go", "build", "-tags", "verif", "-overlay", ov, "-o", out + "/", "./zz_verif/c28", "./zz_verif/c28/translate"],
                       cwd=ctx.repo, env=vlib.go_env(), stdout=subprocess.PIPE, stderr=subprocess.STDOUT, text=True)
    drv, tr = os.path.join(out, "c28"), os.path.join(out, "translate")
    return (drv if os.path.exists(drv) else None), (tr if os.path.exists(tr) else None), r.stdout


def translate(ctx, tr):
    r = subprocess.run(["timeout", "120", tr, "-repo", ctx.repo], stdout=subprocess.PIPE, stderr=subprocess.PIPE, text=True)
    if r.returncode != 0:
        raise ValueError((r.stderr or "translator failed").strip()[-1500:])
    d = json.loads(r.stdout)
    return d["gen"], d["info"]


def run(ctx):
    kf = dict(vlib.known_findings(PROP))
    violations, known_hits = [], []
    built = {}
    bt = threading.Thread(target=lambda: built.update(r=build_tools(ctx)))
    bt.start()

    # history stream: in-package test driver over the real resolvers and the real IPIP / VXLAN / no-encap managers
    hist = {}
    hist_out = os.path.join(ctx.build, "hist.jsonl")
    if os.path.exists(hist_out):
        os.remove(hist_out)

    def _hist():
        ok_h, out_h = vlib.go_test(ctx, "./felix/dataplane/linux/", "TestVerifC28History", timeout=2400,
                                   env={"VERIF_C28_OUT": hist_out, "VERIF_SEED": str(ctx.seed), "VERIF_N": "3" if ctx.tier == "quick" else "40"})
        hist.update(ok=ok_h, out=out_h)
    ht = threading.Thread(target=_hist)
    ht.start()

    ctx.log("building Coq development")
    ok, log = vlib.coq_build(["theories/Common/CaseLib.vo"] + vlib.prop_targets(PROP))
    forb = vlib.scan_forbidden([PROP]) + scan_gen_forbidden()
    proof_broken = None
    if not ok:
        proof_broken = "Coq build failed:\n" + log[-4000:]
        ctx.log(proof_broken)
    elif forb:
        proof_broken = "forbidden declarations: " + "; ".join(forb)

    ctx.log("waiting for the translator / driver build from %s" % ctx.repo)
    bt.join()
    drv, tr, blog = built.get("r", (None, None, "build thread died"))

    pr = dict(obligations=0, discharged=0, axioms=[], theorems=[], ok=False, log="")
    tinfo, gen_ok = {}, False
    gq = [(os.path.join(ctx.build, "gen"), "VerifGen")]
    if tr is None:
        proof_broken = (proof_broken or "") + "\ntranslator does not build: " + blog[-2000:]
    elif ok and not forb:
        try:
            gen_text, tinfo = translate(ctx, tr)
            pr = vlib.coq_gen(ctx, gen_text, PROPS_SRC)
            gen_ok = os.path.exists(os.path.join(ctx.build, "gen", "Gen.vo"))
            if not pr["ok"]:
                proof_broken = (proof_broken or "") + "\ncoq/gen/C28/Props.v does not check against the regenerated Gen.v: " + pr["log"][-3000:]
        except (ValueError, OSError) as e:
            proof_broken = (proof_broken or "") + "\ntranslator refused the source: " + str(e)
            ctx.log("translator refused: %s" % e)
    n_thm = max(pr["obligations"], len(re.findall(r"^\s*Theorem\s+\w+", open(PROPS_SRC).read(), flags=8)))
    ctx.log("proof obligations: %d, discharged: %d, axioms: %s" % (n_thm, pr["discharged"], pr["axioms"]))

    def coverage(extra=None):
        cov = dict(obligations=n_thm, discharged=pr["discharged"],
                   checker_cmd="coqc theories/C28/*.v ; go build -tags verif -overlay ... ./zz_verif/c28/translate && translate -repo $VERIF_REPO > Gen.v ; "
                               "coqc Gen.v ; coqc coq/gen/C28/Props.v (Print Assumptions) ; driver ; coqc cases_*.v (vm_compute of model+oracle on "
                               "implementation observables)",
                   trusted_base=TRUSTED + ["Print Assumptions: " + (", ".join(pr["axioms"]) if pr["axioms"] else
                                           "Closed under the global context (no axioms) for every theorem in Props.v")],
                   theorems=pr["theorems"], translated=tinfo, rule=RULE, repo=ctx.repo, exhaustive=True,
                   evaluations=0, distinct_nontrivial=0, samples=[])
        cov.update(extra or {})
        return cov

    if drv is None:
        rp = vlib.write_replay(ctx, "driver-build", dict(kind="driver-build-failure", log=(blog or "")[-6000:], proof=proof_broken,
                               unchecked="correspondence C28 (driver/shim does not build against the tree)"))
        return vlib.finish(ctx, [(rp, "no-failing-input-found")], [], "proof", coverage(), ASSUMPTIONS)

    ctx.log("running driver (complete enumeration), seed %d" % ctx.seed)
    try:
        lines = vlib.run_driver(ctx, drv, ["-seed", ctx.seed] + (["-full"] if ctx.tier == "thorough" else []))
    except RuntimeError as e:
        rp = vlib.write_replay(ctx, "driver-crash", dict(kind="implementation-crash", log=str(e)[-5000:], proof=proof_broken,
                               note="the real code crashed (or rejected a documented value) while the driver ran the enumeration"))
        return vlib.finish(ctx, [(rp, "")], [], "proof", coverage(), ASSUMPTIONS)
    cases = [l for l in lines if "coq" in l]
    defs = [l["def"] for l in lines if "def" in l]      # the two halves of the cases, shared between cases
    if gen_ok:
        imports, checker, q = ["From Verif.C28 Require Import Model Spec.", "From VerifGen Require Import Gen."], "(check_case G)", gq
    else:
        # no generated model: still look for a concrete failing input with the specification oracle alone
        imports, checker, q = ["From Verif.C28 Require Import Model Spec."], "(fun c => (true, ok_case c))", ()
    failing, _ = vlib.coq_eval_cases(ctx, imports + defs, checker, [c["coq"] for c in cases], shard=340, extra_q=q, par=14)
    ctx.log("cases: %d, failing: %d" % (len(cases), len(failing)))

    keys, nontrivial = set(), set()
    for c in cases:
        k = hashlib.sha1(c["key"].encode()).hexdigest()
        keys.add(k)
        if c.get("nt"):
            nontrivial.add(k)

    oracle_fail = [(i, a, o) for (i, a, o) in failing if not o]
    disagree = [(i, a, o) for (i, a, o) in failing if o and not a]
    seen = {}
    for (i, a, o) in oracle_fail:
        c = cases[i]
        key = classify(c)
        tag = key or "oracle"
        seen.setdefault(tag, []).append(c)
    def with_defs(c):
        names = set(re.findall(r"\b[fb]_\d+\b", c["coq"]))
        c2 = dict(c)
        c2["defs"] = [d for d in defs if d.split()[1] in names]
        return c2

    for tag, cs in seen.items():
        if tag in kf:
            known_hits.append("key=%s %s" % (tag, kf[tag]))
            continue
        c = with_defs(cs[0])
        h = hashlib.sha1(c["key"].encode()).hexdigest()[:10]
        rp = vlib.write_replay(ctx, "%s-%s" % (tag, h), dict(kind="oracle-failure", case=c, cls=tag, n_failing_cases_of_this_class=len(cs),
                               other_inputs=[x["key"] for x in cs[1:12]],
                               note="specification oracle (Spec.ok_case) rejects the implementation's observable output: for this supported "
                                    "pairing the pool's cluster routes are not programmed by exactly the component the pairing names"))
        violations.append((rp, ""))

    if (disagree or proof_broken) and not violations:
        # the enumeration is complete: there is nothing larger to search
        if disagree:
            c = with_defs(cases[disagree[0][0]])
            rp = vlib.write_replay(ctx, "correspondence", dict(kind="correspondence-broken", proof=proof_broken,
                                   unchecked="correspondence stream C28: the definitions translated into Gen.v (plugged together by Model.v) and the real "
                                             "functions disagree", n_disagreements=len(disagree), first_case=c))
        else:
            rp = vlib.write_replay(ctx, "proof", dict(kind="proof-broken", unchecked=proof_broken, searched_cases=len(cases)))
        violations.append((rp, "no-failing-input-found"))

    # ---- history stream
    ht.join()
    hcases, hfail = [], []
    if not hist.get("ok") or not os.path.exists(hist_out):
        rp = vlib.write_replay(ctx, "history-driver", dict(kind="driver-build-failure", log=(hist.get("out") or "")[-6000:],
                               unchecked="history stream C28: the in-package driver zz_verif_c28_test.go did not build / run against the tree"))
        violations.append((rp, "no-failing-input-found"))
    else:
        hcases = [json.loads(l) for l in open(hist_out) if l.strip().startswith("{")]
        if gen_ok:
            himports, hchecker = ["From Verif.C28 Require Import Model Spec Hist.", "From VerifGen Require Import Gen."], "(check_hist G)"
        else:
            himports, hchecker = ["From Verif.C28 Require Import Model Spec Hist."], "(fun c => (true, hist_ok c))"
        hfail, _ = vlib.coq_eval_cases(ctx, himports, hchecker, [c["coq"] for c in hcases], shard=4, extra_q=q, par=14)
        ctx.log("histories: %d, failing: %d" % (len(hcases), len(hfail)))
        h_or = [(i, a, o) for (i, a, o) in hfail if not o]
        h_dis = [(i, a, o) for (i, a, o) in hfail if o and not a]
        if h_or:
            c = hcases[h_or[0][0]]
            rp = vlib.write_replay(ctx, "history-" + hashlib.sha1(c["key"].encode()).hexdigest()[:10], dict(
                kind="oracle-failure", stream="history", case=c, n_failing_histories=len(h_or), model_agrees=h_or[0][1],
                note="after some operation of this history (pool mode changed / pool deleted / block added or released, Felix not restarted because its "
                     "Encapsulation flags did not change) a pool's block is held for programming by a Felix manager although the static assignment for the "
                     "pool's CURRENT mode gives it to BIRD (or to another manager), or is held by nobody although Felix owns it (Hist.hist_ok)"))
            violations.append((rp, ""))
        elif h_dis and not violations:
            c = hcases[h_dis[0][0]]
            rp = vlib.write_replay(ctx, "history-correspondence", dict(kind="correspondence-broken", stream="history", first_case=c, n_disagreements=len(h_dis),
                                   unchecked="history stream C28: the route-manager model (Hist.run) / the translated manager conditions and the real managers disagree"))
            violations.append((rp, "no-failing-input-found"))

    cov = coverage(dict(evaluations=len(cases) + len(hcases), distinct_nontrivial=len(nontrivial) + len(hcases), distinct=len(keys) + len(hcases),
                        histories=len(hcases), history_steps=sum(len(c.get("sample", {}).get("ops", [])) for c in hcases), history_failures=len(hfail),
                        samples=[c.get("sample") for c in cases[:3]], traces_validated_against_impl=len(cases),
                        disagreements_model_vs_impl=len(disagree), oracle_failures=len(oracle_fail),
                        input_distribution=vlib.distribution(lines)))
    for l in lines:
        if "stats" in l:
            cov["driver_stats"] = l["stats"]
    return vlib.finish(ctx, violations, known_hits, "proof", cov, ASSUMPTIONS)


def replay(ctx, path):
    obj = json.load(open(path))
    case = obj.get("case") or obj.get("first_case")
    print("replay %s: kind=%s" % (path, obj.get("kind")))
    if not case:
        print(json.dumps(obj, indent=1)[:6000])
        return 0
    print("input:", case.get("key"))
    print("recorded observables:", json.dumps(case.get("sample"), indent=1))
    vlib.coq_build(["theories/Common/CaseLib.vo"] + vlib.prop_targets(PROP))
    drv, tr, blog = build_tools(ctx)
    q, imports, checker = (), ["From Verif.C28 Require Import Model Spec."], "(fun c => (true, ok_case c))"
    if tr:
        try:
            gen_text, _ = translate(ctx, tr)
            vlib.coq_gen(ctx, gen_text, PROPS_SRC)
            q, imports, checker = [(os.path.join(ctx.build, "gen"), "VerifGen")], imports + ["From VerifGen Require Import Gen."], "(check_case G)"
        except ValueError as e:
            print("translator refused:", e)
    failing, _ = vlib.coq_eval_cases(ctx, imports + case.get("defs", []), checker, [case["coq"]], extra_q=q)
    print("recorded outputs -> %s" % ("model agrees, oracle accepts" if not failing else "model agrees=%s oracle accepts=%s" % (failing[0][1], failing[0][2])))
    if drv:
        now = vlib.run_driver(ctx, drv, ["-seed", ctx.seed])
        cur = [l for l in now if l.get("key") == case.get("key")]
        if cur:
            failing, _ = vlib.coq_eval_cases(ctx, imports + [l["def"] for l in now if "def" in l], checker, [cur[0]["coq"]], extra_q=q)
            print("same input on %s -> %s" % (ctx.repo, "model agrees, oracle accepts" if not failing else
                                               "model agrees=%s oracle accepts=%s; observables now: %s" % (failing[0][1], failing[0][2], json.dumps(cur[0]["sample"]))))
    return 0


MANIFEST = dict(
    category="proof",
    text="Theorems over definitions TRANSLATED on every run from the Go source (confd's clusterRoutePolicyFromBGPConfig / programsPool / "
         "processIPPool, Felix's ProgramClusterRoutes parameter, accessors, EncapsulationCalculator, manager gating, design document "
         "tables): for every supported pairing, absent and mutually unrecognised raw values (all strings), every pool mode, both "
         "families, any other pools, BPF/WireGuard on or off, exactly one of Felix and BIRD programs the pool, VXLAN always Felix; "
         "plus a correspondence run of the generated definitions and the spec oracle against the real functions on the complete "
         "enumeration of inputs (which validates the translator).",
    note="Trusted: Coq kernel; go/ast translator (validated by the correspondence run); plumbing in Model.v; the manager-creation "
         "conditions are translated but not executed.",
)
