import vlib

_CLASS = {}   # coq text of a failing case -> set of known-finding classes that explain ALL of its oracle failures

def _install_classifier():
    """After the main evaluation, evaluate Spec.classify_* (inside Coq) on the cases the strict oracle rejected:
    a class explains a case iff the oracle accepts the case once ONLY that deviation is excused."""
    orig = vlib.coq_eval_cases
    def wrapped(ctx, imports, checker, cases, **kw):
        res, log = orig(ctx, imports, checker, cases, **kw)
        if checker == CFG["checker"]:
            bad = [i for (i, a, o) in res if not o]
            if bad:
                sub = [cases[i] for i in bad]
                for key, fn in (("wl-to-host-pre-policy-accepts", "classify_pre_policy"),
                                ("unknown-wl-established-accepted-early", "classify_est_early")):
                    r2, _ = orig(ctx, imports, fn, sub, **kw)
                    for (j, is_class, _o) in r2:
                        if is_class:
                            _CLASS.setdefault(sub[j], set()).add(key)
        return res, log
    vlib.coq_eval_cases = wrapped
    return orig

def classify(case_line):
    ks = _CLASS.get(case_line.get("coq"), set())
    tags = case_line.get("tags") or []
    if "class:pre-policy" in tags and "wl-to-host-pre-policy-accepts" in ks:
        return "wl-to-host-pre-policy-accepts"
    if "class:est-early" in tags and "unknown-wl-established-accepted-early" in ks:
        return "unknown-wl-established-accepted-early"
    return None

CFG = dict(
    imports=["From Verif.Common Require Import Packet Ipt.", "From Verif.C40 Require Import Model Spec.",
             "Open Scope N_scope.", "Open Scope string_scope."],
    checker="check_case",
    n=dict(quick=16, thorough=192),
    shard=4,
    deps=["Common", "C08"],
    rule="both renderers (rules.NewRenderer(cfg, false|true), iptables and nftables text, ~50/50); generated rules.Config (4 mark layouts, 6 workload-prefix sets, 0-13 inbound/outbound failsafe entries with nets of either "
         "family / bare IPs / unparsable nets, IPIP, VXLAN v4/v6 with port possibly equal to a failsafe port, Wireguard, OpenStack special "
         "cases, DefaultEndpointToHostAction x FilterAllowAction x MangleAllowAction x FilterDenyAction, both IP versions) x generated "
         "workloads, named + wildcard host endpoints, tiers/groups/profiles with real policy chains (normal, untracked, pre-DNAT); "
         "the REAL renderer's static, dispatch, endpoint and policy chains parsed from iptables text; per configuration 25-50 probe packets "
         "(failsafe hits and responses, unknown / known workload interfaces, tunnel packets from cluster and non-cluster sources, "
         "pre-policy special cases, established flows, random), every conntrack state and entry mark; "
         "non-trivial = >=8 probes, >=1 failsafe entry, >=8 chains in the filter table; distinct by (class, config, endpoints)",
    trusted=["Coq 8.16.1 kernel + vm_compute",
             "Common/Ipt.v match_one/apply_mark/run as the meaning of an iptables rule (kernel evaluation)",
             "harness/C40/cmd/parse.go: iptables and nftables text -> AST grammar (C08's, extended: interfaces incl. + / * wildcards, conntrack state/status, "
             "addrtype / fib, rpfilter / fib oif 0, ipvs, jumps, notrack); an nft verdict-map rule `iifname vmap @M` is expanded by the driver into one "
             "exact-interface rule per element of the REAL DispatchMappings output (a vmap lookup takes the verdict of the element equal to the key, else continues)",
             "harness/C40/shims/felix/dataplane/linux/zz_verif_c40.go: recording generictables.Table fakes under the REAL (*InternalDataplane).setUpIptablesNormal",
             "hand-written model coq/theories/C40/Model.v tied to felix/rules/static.go by this correspondence run (structural equality of rule lists)"],
    assumptions=["netfilter hook order raw -> mangle -> filter; a table's ACCEPT ends that table only; DROP/REJECT end the packet; "
                 "between tables only skb mark and conntrack state change (theorems are per hook for arbitrary entry mark / ct state)",
                 "hook wiring OBSERVED: the static chains and the rules put into the kernel chains are the UpdateChains / InsertOrAppendRules / AppendRules calls of the "
                 "real setUpIptablesNormal (raw, mangle, filter tables; NAT/ARP tables and XDP absent), compared with Model.hook_wiring; that insert-or-append puts the rule at "
                 "the head of the kernel chain is the table layer's contract (not exercised)",
                 "IP set contents, address types (LOCAL), RPF result, conntrack DNAT status are oracles; the address-type oracle does not look at the skb mark",
                 "PARTIAL: NAT table, mangle POSTROUTING, Wireguard crypto routing, BPF-mode raw chains, kube-proxy IPVS paths (KubeIPVSSupportEnabled=false), "
                 "nftables flow offload (NFTablesFlowTableOffload=false) are outside the model",
                 "callee chains (dispatch, endpoint, policy, profile, cali-rpf-skip, cali-cidr-block) are universally quantified in the theorems, constrained only by "
                 "the decidable shape conditions of Shape.v, which every run evaluates on the real renderer's chains (Spec.shapes_ok)",
                 "failsafe clause: conntrack state INVALID excluded (c40_failsafe_invalid_ct_refuted: endpoint chains drop INVALID before the failsafe jump); "
                 "packets that the tunnel clause governs excluded (IPIP; a failsafe UDP port equal to the VXLAN port from a non-cluster source); "
                 "WireguardMark disjoint from MarkScratch0 (Config.validate)",
                 "unknown-interface clause on FORWARD: the chains cali-FORWARD visits before the from-workload dispatch do not ACCEPT the packet "
                 "(c40_unknown_iface_forward_established_refuted; known finding unknown-wl-established-accepted-early); on INPUT and in the workload-to-host "
                 "clause the pre-policy special cases are excluded (c40_unknown_iface_nd_refuted; known finding wl-to-host-pre-policy-accepts)",
                 "workload-to-host clause: the endpoint's egress chain evaluates within 11 nested jumps (acyclic chain graph)",
                 "driver domain: Wireguard interface names non-empty (an empty name renders a malformed '--in-interface  --jump RETURN' rule in cali-wireguard-incoming-mark)"],
    classify=classify,
)

def run(ctx):
    orig = _install_classifier()
    try:
        return vlib.standard_flow(ctx, CFG)
    finally:
        vlib.coq_eval_cases = orig

MANIFEST = dict(
    category="proof",
    text="Theorems over an executable model of Felix's static raw/mangle/filter chains on an abstract netfilter machine, with dispatch, "
         "endpoint and policy chains universally quantified (constrained only by decidable shape conditions): failsafe traffic is never "
         "dropped at any hook whatever the policy chains contain, packets from unknown workload interfaces are dropped on INPUT and FORWARD, "
         "workload-to-host traffic meets the workload's egress chain before the endpoint-to-host action, tunnel packets from non-cluster "
         "sources are dropped; plus a correspondence run comparing the model with the REAL renderer's chains and evaluating the "
         "specification oracle by traversal of the real static + dispatch + endpoint + policy chains on probe packets.",
    note="PARTIAL by design: NAT table, mangle POSTROUTING, Wireguard, BPF-mode raw chains and kube-ipvs paths are outside the model. "
         "Trusted: Coq kernel; Common/Ipt.v semantics; the text parser of the Go driver; stated netfilter hook ordering.",
)
