import json, os, subprocess
import vlib

GEN_REL = "cni-plugin/pkg/ipamplugin/zz_verif_c38_gen.go"
SRC_REL = "cni-plugin/pkg/ipamplugin/ipam_plugin.go"


def generate_seam(ctx):
    """cmdAdd/cmdDel build their own client (utils.CreateClient) and the tree has no seam; harness/C38/gen/gen.go
    re-emits the two functions from the tree's CURRENT source with that one call redirected to the shim's
    verifCreateClient.  The output lives in the build directory and enters the package through the overlay only."""
    out = os.path.join(ctx.build, "zz_verif_c38_gen.go")
    r = subprocess.run(["timeout", "300", "go", "run", os.path.join(vlib.HARNESS, "C38", "gen", "gen.go"),
                        "-src", os.path.join(ctx.repo, SRC_REL), "-out", out],
                       cwd=ctx.repo, env=vlib.go_env(), stdout=subprocess.PIPE, stderr=subprocess.STDOUT, text=True)
    if r.returncode != 0:
        # keep the failure visible as a driver build failure (the tie to the code is gone)
        open(out, "w").write("//go:build verif\n\npackage ipamplugin\n\nfunc init() { c38SeamGenerationFailed(%s) }\n"
                             % json.dumps(r.stdout[-1500:]))
    return out


def _with_seam(fn):
    orig = vlib.make_overlay

    def mk(ctx, harness_dirs=None):
        p = orig(ctx, harness_dirs)
        ov = json.load(open(p))
        ov["Replace"][os.path.join(ctx.repo, GEN_REL)] = generate_seam(ctx)
        json.dump(ov, open(p, "w"), indent=1)
        return p
    vlib.make_overlay = mk
    try:
        return fn()
    finally:
        vlib.make_overlay = orig


CFG = dict(
    imports=["From Verif.C38 Require Import Names Model Spec Multi MultiSpec."],
    checker="check_case2",
    harness_dirs=["C19", "C38"],
    n=dict(quick=160, thorough=1920),
    shard=25,
    rule="each case = a fresh in-memory datastore (C19 membackend) with an IPv4 pool (2-16 addresses, or none) and an IPv6 pool "
         "(2-8 addresses, or none), 1-3 containers (Kubernetes identifiers ns/pod + sandbox id, possibly sharing a pod, or plain CNI "
         "container ids), optional pre-existing allocations under a legacy (v2.x) handle, the primary handle or an unrelated handle, "
         "upgrade marker file present or not, then 3-8 invocations of the tree's cmdAdd/cmdDel (AutoAssign for v4 / v6 / both / none, or a "
         "requested address IP=..., in or outside the pool, free or taken) run against the REAL libcalico-go IPAM client behind a failure "
         "injector (per IPAM call, probability 0/10/25/45%: fail before the call, fail after its effect, AutoAssign returns the first family "
         "and an error, a family comes back empty without error, ReleaseByHandle releases part and fails, the k-th datastore access of the "
         "call fails; error values: plain, context deadline exceeded, datastore error); natural exhaustion and missing pools also occur. "
         "Recorded: every IPAM call (arguments, lock held, answer, effect = table difference), result, marker, allocation table after each "
         "invocation, plus the IPAMHandle objects (handle -> block -> count) and the block of every address: the invariant 'no handle "
         "object under-counts a block' is evaluated on every observed state, and every invocation without an injected fault is replayed by the "
         "datastore-level model of Multi.v (incrementHandle/block write/decrementHandle/ReleaseByHandle over the listed blocks) and must "
         "reproduce the observed table and handle objects (tags handle-spans-blocks, fault-while-handle-spans-blocks).  Non-trivial = a successful delete after an add that allocated something, with at least one injected fault, a "
         "roll-back release or a naturally short family.  Distinct by (initial table, operations, calls, answers).",
    trusted=["Coq 8.16.1 kernel + vm_compute",
             "hand-written model coq/theories/C38/Model.v (plugin programs over an abstract IPAM with an explicit contract `admissible`) tied "
             "to cni-plugin/pkg/ipamplugin by this correspondence run",
             "seam: harness/C38/gen/gen.go re-emits cmdAdd/cmdDel from the tree's current ipam_plugin.go as verifCmdAdd/verifCmdDel with the "
             "single call utils.CreateClient(conf) redirected to the injected client (the tree has no injection point; nothing else is copied)",
             "real ipam client (libcalico-go/lib/ipam) + in-memory CAS backend harness/C19/cmd/membackend + failure injector in harness/C38/cmd/main.go",
             "Go driver harness/C38 (overlay build, tag verif)"],
    assumptions=["IPAM contract (Model.admissible): a call only adds fresh addresses, AutoAssign/AssignIP only under the handle passed, AutoAssign "
                 "without error returns exactly what it allocated (nil assignment iff nothing requested, at most the requested count), "
                 "ReleaseIPs/ReleaseByHandle only remove what they were asked to and remove all of it when they report success, "
                 "ReleaseByHandle answers 'not found' only when the handle holds nothing; checked on every recorded call of the real IPAM client; "
                 "the ReleaseByHandle part is PROVED for the library's algorithm (multi-block handles, a fault at any datastore access) in Multi.v "
                 "for a sequential client (compare-and-swap conflicts between clients are C19's subject)",
                 "KubeVirt / VM address persistence paths (virt-launcher-* pods), namespaceSelector lookup (needs a Kubernetes API server), Windows "
                 "reserved attributes and named-pool resolution are outside the model and the generator",
                 "lost-reply datastore faults are not injected (a write that is applied but reported failed is outside the IPAM contract above)",
                 "container ids / pod names are CNI-valid (no carriage return: ipam sanitizeHandle is the identity)"],
)


def run(ctx):
    return _with_seam(lambda: vlib.standard_flow(ctx, CFG))


MANIFEST = dict(
    category="proof",
    text="Theorems over an executable model of the calico-ipam CNI plugin's ADD and DEL as programs over an abstract IPAM (handle -> "
         "addresses; every call's answer and effect chosen by the environment within an explicit contract, so any call may fail before or "
         "after its effect and AutoAssign may return fewer addresses): for all histories and all fault patterns a successful final delete "
         "leaves nothing under the container's handles, deletes are idempotent and harmless, a successful add holds an address of every "
         "requested family under the primary handle, the dual-stack half-success path releases the other family (and what remains after any "
         "failed add is under the primary handle).  Correspondence: the tree's cmdAdd/cmdDel run against the real IPAM client over an "
         "in-memory datastore with failure injection; calls, results and the allocation table after every invocation are compared with the "
         "model and judged by the spec oracle inside Coq.",
    note="Trusted: Coq kernel; hand model tied to the code by the correspondence run; the generated seam (CreateClient redirected); the IPAM "
         "contract (checked on every recorded call). KubeVirt persistence paths are not modelled.",
)
