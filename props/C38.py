import json, os, subprocess
import vlib

GEN_REL = "cni-plugin/pkg/ipamplugin/zz_verif_c38_gen.go"
SRC_REL = "cni-plugin/pkg/ipamplugin/ipam_plugin.go"


def generate_seam(ctx):
    """cmdAdd/cmdDel build their own client (utils.CreateClient) and the tree has no seam; harness/C38/gen/gen.go
    re-emits the two functions from the tree's CURRENT source with that one call redirected to the shim's
    verifCreateClient.  The output lives in the build directory and enters the package through the overlay only."""
    out = os.path.join(ctx.build, "zz_verif_c38_gen.go")
    r = subprocess.run(["timeout", "300", "go", "run", os.path.join(vlib.HARNESS, "C38", "gen", "gen.go"),
                        "-src", os.path.join(ctx.repo, SRC_REL), "-out", out],
                       cwd=ctx.repo, env=vlib.go_env(), stdout=subprocess.PIPE, stderr=subprocess.STDOUT, text=True)
    if r.returncode != 0:
        # keep the failure visible as a driver build failure (the tie to the code is gone)
        open(out, "w").write("//go:build verif\n\npackage ipamplugin\n\nfunc init() { c38SeamGenerationFailed(%s) }\n"
                             % json.dumps(r.stdout[-1500:]))
    return out


def _with_seam(fn):
    orig = vlib.make_overlay

    def mk(ctx, harness_dirs=None):
        p = orig(ctx, harness_dirs)
        ov = json.load(open(p))
        ov["Replace"][os.path.join(ctx.repo, GEN_REL)] = generate_seam(ctx)
        json.dump(ov, open(p, "w"), indent=1)
        return p
    vlib.make_overlay = mk
    try:
        return fn()
    finally:
        vlib.make_overlay = orig


CFG = dict(
    imports=["From Verif.C38 Require Import Model Spec."],
    checker="check_case",
    harness_dirs=["C19", "C38"],
    n=dict(quick=200, thorough=6000),
    shard=60,
    rule="TODO",
    trusted=["Coq 8.16.1 kernel + vm_compute"],
    assumptions=[],
)


def run(ctx):
    return _with_seam(lambda: vlib.standard_flow(ctx, CFG))


MANIFEST = dict(
    category="proof",
    text="TODO",
    note="TODO",
)
