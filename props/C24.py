import os, subprocess
import vlib

PKG = "./typha/pkg/syncserver/"


def _build_test_binary(ctx, harness_dirs=None, pkg=None, tags="verif", timeout=1800):
    """The driver needs testing/synctest (virtual clock + quiescence detection) and the unexported per-connection
    server code, so it is an in-package test (harness/C24/shims/typha/pkg/syncserver/zz_verif_c24_driver_test.go)
    compiled with `go test -c` through the same overlay mechanism as every other driver."""
    ov = vlib.make_overlay(ctx, harness_dirs)
    exe = os.path.join(ctx.build, "driver")
    r = subprocess.run(["timeout", str(timeout), "go", "test", "-c", "-tags", tags, "-overlay", ov, "-o", exe, PKG],
                       cwd=ctx.repo, env=vlib.go_env(), stdout=subprocess.PIPE, stderr=subprocess.STDOUT, text=True)
    return (exe if r.returncode == 0 and os.path.exists(exe) else None), r.stdout


CFG = dict(
    imports=["From Verif.C24 Require Import Model Spec Sender Spec2."],
    checker="check_case2",
    n=dict(quick=40, thorough=480),
    shard=8,
    driver_args=lambda ctx, n, seed: ["-test.run", "^TestVerifC24$", "-test.count=1", "-verif.n", n, "-verif.seed", seed],
    rule="each case: one real snapcache.Cache (MaxBatchSize 1..100) fed event lists (update lists incl. unchanged values, "
         "blind deletes, nil values with non-delete type, resync 'new' for held keys, TTLs, v3 resources; status changes) "
         "through its real batching/publishing code, and 1-3 real server connections (one after the other, or two open at the "
         "same time sharing the cache and the pre-built snapshot) over net.Pipe to the real syncclient "
         "(streamed snapshot or pre-built snappy snapshot of an older crumb, MaxMessageSize 1..100), each reading on a "
         "random schedule (held-back callbacks while more crumbs are published, virtual-time gaps that drive the "
         "coalescing of crumbs) until drained; boundary streams (statuses only, the same value repeated so that nearly every "
         "update is skipped, update lists of exactly 1x/2x MaxBatchSize and one more, MaxBatchSize/MaxMessageSize 0 = "
         "default); non-trivial = >=3 updates, >=3 crumbs and some client joined after the "
         "first crumb or received coalesced crumbs; distinct by (MaxBatchSize, pushes, client records)",
    trusted=["Coq 8.16.1 kernel + vm_compute",
             "hand-written model coq/theories/C24/Model.v tied to typha/pkg/{snapcache,syncserver,syncclient,syncproto} by this correspondence run",
             "Go driver harness/C24 (overlay build, tag verif, testing/synctest virtual clock): VerifPump runs the cache's "
             "own loop body synchronously; the connection struct is built as Server.serve builds it, on a net.Pipe, no TLS",
             "key ranks / value ids assigned by the driver (serialized key path order, serialized value bytes)"],
    assumptions=["keys and values are compared in serialized form (as the cache does); key order = string order of the serialized path",
                 "MaxBatchSize, MaxMessageSize >= 1 (Config.ApplyDefaults)",
                 "how many crumbs one round of the delta loop follows is an arbitrary parameter of the model (observed from the real run)",
                 "serialization failures (logged as bugs by the code) and unparseable keys are outside the model",
                 "disconnection of clients that fall behind (MaxFallBehind) is outside the property: it ends the connection"],
)


def run(ctx):
    saved = vlib.go_build
    vlib.go_build = _build_test_binary
    try:
        return vlib.standard_flow(ctx, CFG)
    finally:
        vlib.go_build = saved


MANIFEST = dict(
    category="proof",
    text="Theorems over an executable model of the Typha snapshot cache, the per-connection sender and the client decode "
         "loop, for every event stream, every batching of the input queue, every join crumb, every message size and every "
         "coalescing of crumbs (snapshot + deltas = later snapshot; client view = datastore view; per-key order; InSync "
         "not early), plus a correspondence run of model and spec oracle against the real cache, server connection code "
         "and client over an in-process pipe under a virtual clock.",
    note="Trusted: Coq kernel; hand-written model tied to the code only by the correspondence run; Go driver and shims.",
)
