import vlib

CFG = dict(
    imports=["From Verif.C21 Require Import Model Spec.", "Close Scope N_scope."],
    checker="check_case",
    harness_dirs=["C19", "C21"],
    n=dict(quick=140, thorough=1680),
    shard=18,
    rule="even cases (block stream): one block of 4/8 addresses and 8-25 operations of the REAL allocationBlock methods "
         "(autoAssign with reserved ordinals, assign, release with ReleaseOptions{Address,Handle,SequenceNumber} incl. stale "
         "numbers / wrong handles / duplicates / already released addresses, releaseByHandle with and without sequence number, "
         "garbageCollect, updateBlock+queryBlock round trip); odd cases (client stream): the REAL ipamClient on the C19 in-memory "
         "CAS backend, one host owning 2-4 blocks of 4-8 addresses, IP reservations, 8-21 calls of AutoAssign / AssignIP / "
         "ReleaseIPs (multi-block, options as above) / ReleaseByHandle / GarbageCollectColdIPs; 45% of the client cases are 'deletion' histories "
         "(StrictAffinity, no AutoAllocateBlocks, 2 blocks of 2-4 addresses, mostly cooldown > 0) that add ReleaseAffinity(block, mustBeEmpty) so that "
         "blocks lose their affinity, are deleted when emptied and are re-created by AssignIP; the clock is virtual "
         "(testing/synctest) and advances by 0, 1ns, fractions of a second, exactly the cooldown, cooldown+1ns, ... between "
         "operations; IPCooldownSeconds in {-1,0,1,2,5,30}, occasionally changed mid-history.  Non-trivial = at least one "
         "effective release and (an address handed out again after a release, or an address seen in cooldown).  "
         "Distinct by (layout, clock, operations).",
    trusted=["Coq 8.16.1 kernel + vm_compute",
             "hand-written model coq/theories/C21/Model.v tied to libcalico-go/lib/ipam (ipam_block.go, ipam.go) by this correspondence run: "
             "after every operation the complete block contents (allocations, Unallocated order, attributes with ReleasedAt, "
             "SequenceNumber, per-ordinal sequence numbers), the handle records and the returned lists are compared",
             "testing/synctest virtual clock (the code under test reads time.Now()/metav1.Now() directly)",
             "in-memory CAS backend harness/C19/cmd/membackend (values make a JSON round trip: ReleasedAt is stored with one-second precision)",
             "Go driver harness/C21 (overlay build, tag verif; GOMAXPROCS=1 so that ReleaseIPs' per-block goroutines run one after the other)"],
    assumptions=["a compare-and-swap block write is atomic, so the history of a stored block under any number of clients is a sequence of "
                 "transactions gc;op;write (C19: c19_step_is_one_cas_transformation); the history theorems quantify over all such sequences "
                 "with an arbitrary clock reading and cooldown setting per transaction",
                 "client stream domain: one IPv4 pool, one host that owns every block of the pool at the start (affinities claimed up front); "
                 "histories with ReleaseAffinity run with StrictAffinity and without AutoAllocateBlocks (so the only way a block comes back is "
                 "AssignIP claiming it); reservations are single addresses, handles always given, no MaxAlloc, no Windows reservations",
                 "release/releaseByHandle read the clock twice (stamp, then GC); the model uses one reading (exact under the virtual clock)",
                 "sequence numbers and times are unbounded naturals (uint64 / int64 nanoseconds do not wrap)"],
)


def run(ctx):
    return vlib.standard_flow(ctx, CFG)


def replay(ctx, path):
    """Re-run one recorded case against $VERIF_REPO (same case seed), evaluate model and oracle on it."""
    import json, os
    obj = json.load(open(path))
    case = obj.get("case") or obj.get("first_case") or obj
    args = (case.get("sample") or {}).get("replay_args")
    coq_term = case.get("coq")
    exe, log = vlib.go_build(ctx, CFG["harness_dirs"])
    if exe and args:
        lines = vlib.run_driver(ctx, exe, args.split())
        if lines:
            coq_term = lines[-1]["coq"]
            print("re-ran the implementation: %s" % args)
            for l in lines[-1]["sample"].get("ops", []):
                print("  " + l)
    src = os.path.join(ctx.build, "replay.v")
    open(src, "w").write("From Coq Require Import List NArith ZArith String.\nImport ListNotations.\n"
                         "From Verif.C21 Require Import Model Spec.\nClose Scope N_scope.\n"
                         "Definition c := " + coq_term + ".\n"
                         "(* (model agrees with the implementation, oracle accepts the implementation) *)\n"
                         "Eval vm_compute in check_case c.\n"
                         "(* index of the first operation after which model and implementation differ *)\n"
                         "Eval vm_compute in first_bad c.\n")
    ok, out = vlib.coqc(src, timeout=300)
    print(out[-6000:])
    return 0 if ok else 1


MANIFEST = dict(
    category="proof",
    text="Theorems over an executable model of the IPAM block (release with handle / sequence-number checks, cooldown stamps, "
         "garbage collection, FIFO Unallocated queue, sequence numbers) for all blocks, requests, Go map iteration orders, clock "
         "readings and histories of block transactions, plus a correspondence run of the model and a spec oracle against the real "
         "allocationBlock methods and the real ipamClient (in-memory CAS backend, virtual clock).",
    note="Trusted: Coq kernel; hand-written model tied to the code only by the correspondence run; synctest clock; in-memory backend.",
)
