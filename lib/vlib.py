"""Shared machinery for the /verif checks (see DESIGN.md section 1).

Every check is `./check <ID> [--tier quick|thorough] [--replay path]`.
Environment:
  VERIF_REPO   path of the calico tree to check (default /repo)
  VERIF_SEED   integer seed for every random choice
  VERIF_TIER   quick|thorough (overridden by --tier)
  VERIF_EVIDENCE_DIR  where evidence/<id>.json is written (default /verif/evidence)
"""
import fcntl, glob, hashlib, json, os, re, subprocess, sys, time, collections, shutil

ROOT = os.path.dirname(os.path.dirname(os.path.abspath(__file__)))
COQ = os.path.join(ROOT, "coq")
THEORIES = os.path.join(COQ, "theories")
HARNESS = os.path.join(ROOT, "harness")
KNOWN = os.path.join(ROOT, "known-findings.txt")


class Ctx:
    def __init__(self, prop, tier=None, seed=None):
        self.prop = prop
        self.tier = tier or os.environ.get("VERIF_TIER") or "quick"
        if self.tier not in ("quick", "thorough"):
            self.tier = "quick"
        try:
            self.seed = int(seed if seed is not None else os.environ.get("VERIF_SEED", "1"))
        except ValueError:
            self.seed = 1
        self.repo = os.path.abspath(os.environ.get("VERIF_REPO", "/repo"))
        rh = hashlib.sha1(self.repo.encode()).hexdigest()[:8]
        self.build = os.path.join(ROOT, ".build", rh, prop)
        os.makedirs(self.build, exist_ok=True)
        self.evidence_dir = os.environ.get("VERIF_EVIDENCE_DIR", os.path.join(ROOT, "evidence"))
        os.makedirs(self.evidence_dir, exist_ok=True)
        self.replays = os.path.join(ROOT, "replays")
        os.makedirs(self.replays, exist_ok=True)
        self.t0 = time.time()
        self.notes = []

    def log(self, *a):
        print("[%s %6.1fs]" % (self.prop, time.time() - self.t0), *a, flush=True)


# --------------------------------------------------------------------------- Coq

def _gen_coqproject():
    files = sorted(glob.glob(os.path.join(THEORIES, "*", "*.v")))
    lines = ["-Q theories Verif", "-arg -w -arg -notation-overridden,-deprecated-hint-without-locality,-deprecated-instance-without-locality,-deprecated-syntactic-definition"]
    lines += [os.path.relpath(f, COQ) for f in files]
    txt = "\n".join(lines) + "\n"
    p = os.path.join(COQ, "_CoqProject")
    old = open(p).read() if os.path.exists(p) else None
    if old != txt:
        open(p, "w").write(txt)
        subprocess.run(["coq_makefile", "-f", "_CoqProject", "-o", "Makefile"], cwd=COQ, check=True,
                       stdout=subprocess.DEVNULL, stderr=subprocess.DEVNULL)
    elif not os.path.exists(os.path.join(COQ, "Makefile")):
        subprocess.run(["coq_makefile", "-f", "_CoqProject", "-o", "Makefile"], cwd=COQ, check=True,
                       stdout=subprocess.DEVNULL, stderr=subprocess.DEVNULL)


def _limits():
    # a runaway tactic must not take the machine down: 12 GB address space per coqc
    import resource
    try:
        soft, hard = resource.getrlimit(resource.RLIMIT_AS)
        want = 12 << 30
        if hard != resource.RLIM_INFINITY and hard < want:
            want = hard
        resource.setrlimit(resource.RLIMIT_AS, (want, hard))
    except Exception:
        pass


WARN = "-notation-overridden,-deprecated-hint-without-locality,-deprecated-instance-without-locality,-deprecated-syntactic-definition"


def coq_make_all(timeout=7200, jobs=16):
    """Full clean-able build of the whole development through coq_makefile (setup, final check)."""
    os.makedirs(os.path.join(ROOT, ".build"), exist_ok=True)
    with open(os.path.join(ROOT, ".build", "coq.lock"), "w") as lk:
        fcntl.flock(lk, fcntl.LOCK_EX)
        _gen_coqproject()
        cmd = ["timeout", str(timeout), "make", "-k", "-j%d" % jobs]
        r = subprocess.run(cmd, cwd=COQ, stdout=subprocess.PIPE, stderr=subprocess.STDOUT, text=True, preexec_fn=_limits)
        return r.returncode == 0, r.stdout


def _coqdep():
    files = sorted(glob.glob(os.path.join(THEORIES, "*", "*.v")))
    r = subprocess.run(["coqdep", "-Q", "theories", "Verif"] + [os.path.relpath(f, COQ) for f in files],
                       cwd=COQ, stdout=subprocess.PIPE, stderr=subprocess.DEVNULL, text=True)
    deps = {}
    for line in r.stdout.split("\n"):
        if ":" not in line:
            continue
        lhs, rhs = line.split(":", 1)
        vo = [x for x in lhs.split() if x.endswith(".vo")]
        if not vo:
            continue
        deps[vo[0]] = [x for x in rhs.split() if x.endswith(".vo")]
    return deps


def coq_build(targets=None, timeout=1500, jobs=16, per_file=1200):
    """Full .vo build (never -vos) of the given targets (paths relative to coq/, default everything) and what they
    depend on, file by file with coqc in dependency order.  A lock per theory directory lets several builders
    work on different properties at once.  Returns (ok, log)."""
    deps = _coqdep()
    if targets is None:
        targets = sorted(deps)
    need, stack = [], list(targets)
    seen = set()

    def visit(t):
        if t in seen:
            return
        seen.add(t)
        for d in deps.get(t, []):
            visit(d)
        need.append(t)
    for t in targets:
        visit(t)
    log, ok_all = [], True
    failed = set()
    os.makedirs(os.path.join(ROOT, ".build"), exist_ok=True)
    t_end = time.time() + timeout
    for vo in need:
        src = os.path.join(COQ, vo[:-1])
        out = os.path.join(COQ, vo)
        if not os.path.exists(src):
            continue
        if any(d in failed for d in deps.get(vo, [])):
            failed.add(vo); ok_all = False
            log.append("SKIP %s (a dependency failed)" % vo)
            continue
        d = os.path.basename(os.path.dirname(src))
        with open(os.path.join(ROOT, ".build", "coq-%s.lock" % d), "w") as lk:
            fcntl.flock(lk, fcntl.LOCK_EX)
            stale = (not os.path.exists(out)) or os.path.getmtime(out) < os.path.getmtime(src) or any(
                os.path.exists(os.path.join(COQ, dd)) and os.path.getmtime(os.path.join(COQ, dd)) > os.path.getmtime(out)
                for dd in deps.get(vo, []))
            if not stale:
                continue
            left = min(per_file, max(10, int(t_end - time.time())))
            r = subprocess.run(["timeout", str(left), "coqc", "-q", "-w", WARN, "-Q", "theories", "Verif", vo[:-1]],
                               cwd=COQ, stdout=subprocess.PIPE, stderr=subprocess.STDOUT, text=True, preexec_fn=_limits)
            log.append("COQC %s -> %d" % (vo[:-1], r.returncode))
            if r.returncode != 0:
                ok_all = False
                failed.add(vo)
                log.append(r.stdout[-3000:] if r.stdout.strip() else "(no output: timeout after %ds or out of memory)" % left)
                if os.path.exists(out):
                    os.remove(out)
    return ok_all, "\n".join(log)


def prop_targets(prop):
    """.vo targets for one property directory (make pulls in dependencies)."""
    return [os.path.relpath(f, COQ) + "o" for f in sorted(glob.glob(os.path.join(THEORIES, prop, "*.v")))]


def coqc(path, extra_q=(), timeout=1800, cwd=None):
    cmd = ["timeout", str(timeout), "coqc", "-Q", THEORIES, "Verif", "-w",
           "-notation-overridden,-deprecated-hint-without-locality,-deprecated-instance-without-locality,-deprecated-syntactic-definition"]
    for d, n in extra_q:
        cmd += ["-Q", d, n]
    cmd.append(path)
    r = subprocess.run(cmd, cwd=cwd or os.path.dirname(path), stdout=subprocess.PIPE, stderr=subprocess.STDOUT, text=True, preexec_fn=_limits)
    return r.returncode == 0, r.stdout


FORBIDDEN = re.compile(r"\b(Admitted|admit|Axiom|Axioms|Parameter|Parameters|Conjecture|Conjectures|Admit Obligations|Unset Guard Checking|Unset Positivity Checking|Unset Universe Checking|bypass_check|type-in-type|impredicative-set)\b")


def scan_forbidden(prop_dirs):
    """grep the sources a property depends on for declarations the brief forbids.
    `Variable`/`Hypothesis`/`Context` are allowed only inside a Section (checked textually)."""
    bad = []
    for d in prop_dirs:
        for f in sorted(glob.glob(os.path.join(THEORIES, d, "*.v"))):
            depth = 0
            txt = re.sub(r"\(\*.*?\*\)", " ", open(f).read(), flags=re.S)
            for i, line in enumerate(txt.split("\n"), 1):
                s = line.strip()
                if re.match(r"Section\s+\w+", s):
                    depth += 1
                elif re.match(r"End\s+\w+", s) and depth > 0:
                    depth -= 1
                if FORBIDDEN.search(s):
                    bad.append("%s:%d: %s" % (os.path.relpath(f, ROOT), i, s))
                if depth == 0 and re.match(r"(Variables?|Hypothes[ie]s|Context)\b", s):
                    bad.append("%s:%d: %s (outside a Section)" % (os.path.relpath(f, ROOT), i, s))
    return bad


def coq_props(ctx, props_file=None, extra_q=()):
    """Re-check <prop>/Props.v on its own (cheap: it only holds `exact lemma` proofs) and
    collect, per theorem, what Print Assumptions reported.
    Returns dict(obligations, discharged, axioms, theorems, ok, log)."""
    src = props_file or os.path.join(THEORIES, ctx.prop, "Props.v")
    txt = re.sub(r"\(\*.*?\*\)", " ", open(src).read(), flags=re.S)
    theorems = re.findall(r"^\s*Theorem\s+(\w+)", txt, flags=re.M)
    printed = re.findall(r"Print Assumptions\s+(\w+)", txt)
    # compile a copy so that the output is produced on every run and the tree's .vo is untouched
    dst = os.path.join(ctx.build, "PropsRun.v")
    shutil.copyfile(src, dst)
    ok, out = coqc(dst, extra_q=extra_q)
    closed = len(re.findall(r"Closed under the global context", out))
    axioms = []
    for m in re.finditer(r"Axioms:\s*\n((?:.+\n?)+?)(?=\n\S|\Z)", out):
        for l in m.group(1).split("\n"):
            mm = re.match(r"^(\S+)\s*:", l)
            if mm:
                axioms.append(mm.group(1))
    nax_blocks = len(re.findall(r"^Axioms:", out, flags=re.M))
    discharged = (closed + nax_blocks) if ok else 0
    missing = [t for t in theorems if t not in printed]
    return dict(obligations=len(theorems), discharged=min(discharged, len(theorems)) if not missing else min(discharged, len(theorems) - len(missing)),
                axioms=sorted(set(axioms)), theorems=theorems, ok=ok and not missing, log=out,
                missing_print_assumptions=missing)


def coq_gen(ctx, gen_text, props_src, name="Gen"):
    """Translated properties: `gen_text` is the model regenerated from $REPO on this run.  It is written to
    <build>/gen/<name>.v (logical path VerifGen.<name>), compiled, and then `props_src` (a Props file kept under
    /verif/coq/gen/<ID>/, which does `From VerifGen Require Import Gen.`) is re-checked against it.
    Returns the same dict as coq_props (ok=False with the log when the generated model or a proof fails)."""
    gd = os.path.join(ctx.build, "gen")
    os.makedirs(gd, exist_ok=True)
    for f in glob.glob(os.path.join(gd, "*.vo")) + glob.glob(os.path.join(gd, "*.glob")):
        os.remove(f)
    gp = os.path.join(gd, name + ".v")
    open(gp, "w").write(gen_text)
    q = [(gd, "VerifGen")]
    ok, out = coqc(gp, extra_q=q)
    if not ok:
        return dict(obligations=0, discharged=0, axioms=[], theorems=[], ok=False, log="generated model does not compile:\n" + out,
                    missing_print_assumptions=[])
    return coq_props(ctx, props_file=props_src, extra_q=q)


def coqchk_props(ctx, timeout=1500):
    """Thorough tier: re-check the property's compiled Props.vo and everything it depends on with the independent
    checker coqchk, and return its context summary (axioms, type-in-type, unsafe fixpoints, assumed positivity)."""
    cmd = ["timeout", str(timeout), "coqchk", "-silent", "-o", "-Q", "theories", "Verif", "Verif.%s.Props" % ctx.prop]
    r = subprocess.run(cmd, cwd=COQ, stdout=subprocess.PIPE, stderr=subprocess.STDOUT, text=True, preexec_fn=_limits)
    out = r.stdout
    summary = out[out.find("CONTEXT SUMMARY"):] if "CONTEXT SUMMARY" in out else out[-1500:]
    clean = (r.returncode == 0 and re.search(r"Axioms:\s*<none>", summary) is not None
             and "type-in-type: <none>" in summary and "unsafe (co)fixpoints: <none>" in summary and "positivity is assumed: <none>" in summary)
    return dict(ran=True, rc=r.returncode, clean=clean, summary=" ".join(summary.split())[:1200])


def coq_eval_cases(ctx, imports, checker, cases, shard=400, extra_q=(), par=8, timeout=1800):
    """cases: list of Coq terms (strings).  Evaluates `checker` (A -> bool*bool) over all of them with
    vm_compute inside coqc; returns (failing, log) with failing = list of (index, agree, ok).  Raises on coqc failure."""
    shards = [cases[i:i + shard] for i in range(0, len(cases), shard)]
    procs = []
    results = []
    logs = []

    def launch(si, chunk):
        path = os.path.join(ctx.build, "cases_%d.v" % si)
        with open(path, "w") as f:
            f.write("From Coq Require Import List NArith ZArith String.\nImport ListNotations.\n")
            f.write("From Verif.Common Require Import CaseLib.\n")
            for imp in imports:
                f.write(imp + "\n")
            f.write("Definition cases := [\n")
            f.write(";\n".join("(%d%%nat, %s)" % (si * shard + j, c) for j, c in enumerate(chunk)))
            f.write("\n].\n")
            f.write("Definition bad := Eval vm_compute in run_cases %s cases.\n" % checker)
            f.write("Set Printing Width 100000.\nSet Printing Depth 1000000.\nPrint bad.\n")
        cmd = ["timeout", str(timeout), "coqc", "-Q", THEORIES, "Verif", "-w", "none"]
        for d, n in extra_q:
            cmd += ["-Q", d, n]
        cmd.append(path)
        return subprocess.Popen(cmd, cwd=ctx.build, stdout=subprocess.PIPE, stderr=subprocess.STDOUT, text=True, preexec_fn=_limits)

    pending = list(enumerate(shards))
    running = []
    while pending or running:
        while pending and len(running) < par:
            si, ch = pending.pop(0)
            running.append((si, launch(si, ch)))
        si, p = running.pop(0)
        out, _ = p.communicate()
        logs.append(out)
        if p.returncode != 0 or "bad =" not in out:
            raise RuntimeError("coqc failed on cases shard %d:\n%s" % (si, out[-3000:]))
        for m in re.finditer(r"\((\d+)(?:%nat)?,\s*\((true|false),\s*(true|false)\)\)", out):
            results.append((int(m.group(1)), m.group(2) == "true", m.group(3) == "true"))
    for f in glob.glob(os.path.join(ctx.build, "cases_*.*")) + glob.glob(os.path.join(ctx.build, ".cases_*.aux")):
        if not f.endswith(".v"):
            try:
                os.remove(f)
            except OSError:
                pass
    return sorted(results), "\n".join(logs)


# --------------------------------------------------------------------------- Go

def go_env():
    e = dict(os.environ)
    e.update(GOFLAGS="-mod=mod", GOPROXY="off")
    e.pop("GOSUMDB", None)          # GOSUMDB=off would refuse the cached toolchain switch
    e["GOTOOLCHAIN"] = "auto"       # /repo's go.mod needs the cached go1.26.5 toolchain
    e.setdefault("CGO_ENABLED", "0")
    return e


def make_overlay(ctx, harness_dirs=None):
    """Overlay that places /verif/harness/<P>/cmd/*.go at $REPO/zz_verif/<p>/ and
    /verif/harness/<P>/shims/<pkg path>/*.go (all `//go:build verif`) inside the named package.
    Nothing is written under $REPO."""
    rep = {}
    for hd in (harness_dirs or [ctx.prop]):
        base = os.path.join(HARNESS, hd)
        for f in glob.glob(os.path.join(base, "cmd", "*.go")):
            rep[os.path.join(ctx.repo, "zz_verif", hd.lower(), os.path.basename(f))] = f
        for sub in glob.glob(os.path.join(base, "cmd", "*", "")):
            for f in glob.glob(os.path.join(sub, "*.go")):
                rep[os.path.join(ctx.repo, "zz_verif", hd.lower(), os.path.basename(sub.rstrip("/")), os.path.basename(f))] = f
        sh = os.path.join(base, "shims")
        for dp, dn, fn in os.walk(sh):
            for f in fn:
                if f.endswith(".go"):
                    rel = os.path.relpath(dp, sh)
                    rep[os.path.join(ctx.repo, rel, f)] = os.path.join(dp, f)
    p = os.path.join(ctx.build, "overlay.json")
    json.dump({"Replace": rep}, open(p, "w"), indent=1)
    return p


def go_build(ctx, harness_dirs=None, pkg=None, tags="verif", timeout=1800):
    """Build the property's driver from $REPO's current working tree.  Returns (exe or None, log)."""
    ov = make_overlay(ctx, harness_dirs)
    exe = os.path.join(ctx.build, "driver")
    pkg = pkg or "./zz_verif/%s" % ctx.prop.lower()
    r = subprocess.run(["timeout", str(timeout), "go", "build", "-tags", tags, "-overlay", ov, "-o", exe, pkg],
                       cwd=ctx.repo, env=go_env(), stdout=subprocess.PIPE, stderr=subprocess.STDOUT, text=True)
    return (exe if r.returncode == 0 else None), r.stdout


def go_test(ctx, pkg, run, harness_dirs=None, tags="verif", env=None, timeout=3600, race=False):
    """Run an in-package verif test driver (for packages whose mocks live in _test.go files)."""
    ov = make_overlay(ctx, harness_dirs)
    e = go_env()
    if race:
        e["CGO_ENABLED"] = "1"
    e.update(env or {})
    cmd = ["timeout", str(timeout), "go", "test", "-tags", tags, "-overlay", ov, "-vet=off", "-count=1", "-run", run]
    if race:
        cmd.append("-race")
    cmd.append(pkg)
    r = subprocess.run(cmd, cwd=ctx.repo, env=e, stdout=subprocess.PIPE, stderr=subprocess.STDOUT, text=True)
    return r.returncode == 0, r.stdout


def run_driver(ctx, exe, args, timeout=3600, env=None):
    """Runs the driver; it writes JSON lines to stdout.  Returns list of dicts (and raises on failure)."""
    e = go_env()
    e.update(env or {})
    r = subprocess.run(["timeout", str(timeout), exe] + [str(a) for a in args], cwd=ctx.build, env=e,
                       stdout=subprocess.PIPE, stderr=subprocess.PIPE, text=True)
    if r.returncode != 0:
        raise RuntimeError("driver failed (%d): %s" % (r.returncode, r.stderr[-3000:]))
    out = []
    for line in r.stdout.split("\n"):
        line = line.strip()
        if line.startswith("{"):
            out.append(json.loads(line))
    return out


# --------------------------------------------------------------------------- findings / verdict

def known_findings(prop):
    res = []
    if os.path.exists(KNOWN):
        for l in open(KNOWN):
            l = l.strip()
            m = re.match(r"finding:\s+property=(\S+)\s+key=(\S+)\s+(.*)", l)
            if m and m.group(1) == prop:
                res.append((m.group(2), m.group(3)))
    return res


def write_replay(ctx, name, obj):
    p = os.path.join(ctx.replays, "%s-%s.json" % (ctx.prop, name))
    json.dump(obj, open(p, "w"), indent=1, sort_keys=True)
    return p


def write_evidence(ctx, level, coverage, assumptions, violations):
    ev = dict(property_id=ctx.prop, tier=ctx.tier, seed=ctx.seed, level=level, coverage=coverage,
              assumptions=assumptions, wall_s=round(time.time() - ctx.t0, 2), violations=violations)
    p = os.path.join(ctx.evidence_dir, "%s.json" % ctx.prop)
    json.dump(ev, open(p, "w"), indent=1, sort_keys=True)
    return p


def distribution(lines):
    tags = collections.Counter()
    for l in lines:
        for t in (l.get("tags") or []):
            tags[t] += 1
    return dict(sorted(tags.items()))


def finish(ctx, violations, known_hits, level, coverage, assumptions):
    """violations: list of (replay_path, suffix) ; known_hits: list of text."""
    for k in known_hits:
        print("KNOWN-FINDING: property=%s %s" % (ctx.prop, k), flush=True)
    write_evidence(ctx, level, coverage, assumptions, len(violations))
    for path, suffix in violations:
        print("VIOLATION property=%s replay=%s%s" % (ctx.prop, path, (" " + suffix) if suffix else ""), flush=True)
    ctx.log("done: %d violation(s), %d known finding(s)" % (len(violations), len(known_hits)))
    return 1 if violations else 0


# --------------------------------------------------------------------------- the standard flow

def standard_flow(ctx, cfg):
    """The flow most properties share (DESIGN 1.3):
       1. build the Coq development (model + proofs), re-check Props.v, collect Print Assumptions;
       2. build the Go driver from $REPO's working tree (overlay, tag verif) and run it;
       3. evaluate model + spec oracle on the implementation's observables inside Coq;
       4. verdict, with a deeper search when model and implementation disagree but no oracle fails.

    cfg keys:
      imports   : list of Coq `From ... Require Import ...` lines for cases.v
      checker   : Coq term : case -> bool * bool
      n         : {'quick': int, 'thorough': int}  number of cases asked of the driver
      driver_args(ctx, n, seed) -> list   (default ['-n', n, '-seed', seed])
      deps      : other theory dirs the property's proofs use (for the forbidden-word scan)
      rule      : text describing generation + what makes a case non-trivial
      trusted   : list of strings (trusted base)
      assumptions : list of strings
      classify(line) -> key or None : key of a known-finding class for a failing case
      harness_dirs : harness directories to overlay (default [prop])
      extra(ctx, lines) -> list of (replay_obj, text)  additional implementation-only checks
    """
    prop = ctx.prop
    violations, known_hits = [], []
    kf = dict(known_findings(prop))

    # 1. proofs
    ctx.log("building Coq development")
    ok, log = coq_build(["theories/Common/CaseLib.vo"] + prop_targets(prop) + sum([prop_targets(d) for d in cfg.get("deps", [])], []))
    forb = scan_forbidden([prop] + cfg.get("deps", []))
    pr = dict(obligations=0, discharged=0, axioms=[], theorems=[], ok=False, log="")
    proof_broken = None
    if not ok:
        proof_broken = "Coq build failed:\n" + log[-4000:]
        ctx.log(proof_broken)
    elif forb:
        proof_broken = "forbidden declarations: " + "; ".join(forb)
    else:
        pr = coq_props(ctx)
        if not pr["ok"]:
            proof_broken = "Props.v does not check: " + pr["log"][-3000:] + " missing Print Assumptions: %s" % pr.get("missing_print_assumptions")
    ctx.log("proof obligations: %d, discharged: %d, axioms: %s" % (pr["obligations"], pr["discharged"], pr["axioms"]))

    # 2. implementation run
    ctx.log("building driver from %s" % ctx.repo)
    exe, blog = go_build(ctx, cfg.get("harness_dirs"))
    if exe is None:
        # the tree does not build with our driver: the tie to the code is gone
        rp = write_replay(ctx, "driver-build", dict(kind="driver-build-failure", log=blog[-6000:],
                          unchecked="correspondence %s (driver does not build against the tree)" % prop))
        cov = dict(obligations=pr["obligations"], discharged=pr["discharged"], checker_cmd="make -C coq (full .vo) && coqc Props.v",
                   trusted_base=cfg.get("trusted", []), evaluations=0, distinct_nontrivial=0, rule=cfg.get("rule", ""), samples=[])
        return finish(ctx, [(rp, "no-failing-input-found")], [], "proof", cov, cfg.get("assumptions", []))

    def run_once(n, seed):
        args = cfg["driver_args"](ctx, n, seed) if "driver_args" in cfg else ["-n", n, "-seed", seed]
        lines = run_driver(ctx, exe, args, timeout=cfg.get("driver_timeout", 3600))
        cases = [l for l in lines if "coq" in l]
        failing, _ = coq_eval_cases(ctx, cfg["imports"], cfg["checker"], [c["coq"] for c in cases],
                                    shard=cfg.get("shard", 400))
        return lines, cases, failing

    n = cfg["n"][ctx.tier]
    ctx.log("running driver: %d cases, seed %d" % (n, ctx.seed))
    lines, cases, failing = run_once(n, ctx.seed)
    ctx.log("cases: %d, failing: %d" % (len(cases), len(failing)))

    keys = set()
    nontrivial = set()
    for c in cases:
        k = hashlib.sha1(c.get("key", c["coq"]).encode()).hexdigest()
        keys.add(k)
        if c.get("nt", True):
            nontrivial.add(k)

    def handle(failing, cases, origin):
        oracle_fail = [(i, a, o) for (i, a, o) in failing if not o]
        disagree = [(i, a, o) for (i, a, o) in failing if o and not a]
        seen = set()
        for (i, a, o) in oracle_fail:
            c = cases[i]
            key = cfg["classify"](c) if "classify" in cfg else None
            if key and key in kf:
                if key not in seen:
                    known_hits.append("key=%s %s" % (key, kf[key]))
                    seen.add(key)
                continue
            tag = key or "oracle"
            if tag in seen:
                continue
            seen.add(tag)
            h = hashlib.sha1(c["coq"].encode()).hexdigest()[:10]
            rp = write_replay(ctx, "%s-%s" % (tag, h), dict(kind="oracle-failure", origin=origin, case=c,
                              model_agrees=a, note="specification oracle rejects the implementation's observable output"))
            violations.append((rp, ""))
        return oracle_fail, disagree

    oracle_fail, disagree = handle(failing, cases, "main run")

    # implementation-only extra checks
    if "extra" in cfg:
        for obj, text in cfg["extra"](ctx, lines):
            key = obj.get("key")
            if key and key in kf:
                known_hits.append("key=%s %s" % (key, kf[key]))
                continue
            rp = write_replay(ctx, "extra-" + hashlib.sha1(json.dumps(obj, sort_keys=True).encode()).hexdigest()[:10], obj)
            violations.append((rp, ""))

    searched = 0
    if (disagree or proof_broken) and not violations:
        # model/implementation disagreement or broken proof, but no concrete spec failure yet: search harder
        ctx.log("searching for a failing input (larger budget, other seeds): %s" % ("proof broken" if proof_broken else "%d disagreements" % len(disagree)))
        for k in range(1, 1 + cfg.get("search_rounds", 2)):
            l2, c2, f2 = run_once(cfg.get("search_n", min(n * 3, 20000)), ctx.seed + 7919 * k)
            searched += len(c2)
            of2, _ = handle(f2, c2, "search %d" % k)
            if violations:
                break
        if not violations:
            if disagree:
                c = cases[disagree[0][0]]
                rp = write_replay(ctx, "correspondence", dict(kind="correspondence-broken",
                                  unchecked="correspondence stream %s: model %s/Model.v and the implementation disagree" % (prop, prop),
                                  n_disagreements=len(disagree), first_case=c, searched_cases=searched))
            else:
                rp = write_replay(ctx, "proof", dict(kind="proof-broken", unchecked=proof_broken, searched_cases=searched))
            violations.append((rp, "no-failing-input-found"))

    cov = dict(obligations=pr["obligations"], discharged=pr["discharged"],
               checker_cmd="make -C /verif/coq (coq_makefile full .vo build, Coq 8.16.1) ; coqc theories/%s/Props.v (Print Assumptions) ; coqc cases_*.v (vm_compute of model+oracle on implementation observables)" % prop,
               trusted_base=cfg.get("trusted", []) + ["Print Assumptions: " + (", ".join(pr["axioms"]) if pr["axioms"] else "Closed under the global context (no axioms) for every theorem in Props.v")],
               theorems=pr["theorems"],
               evaluations=len(cases) + searched, distinct_nontrivial=len(nontrivial),
               distinct=len(keys), rule=cfg.get("rule", ""),
               samples=[c.get("sample", c["coq"][:400]) for c in cases[:3]],
               traces_validated_against_impl=len(cases) + searched,
               disagreements_model_vs_impl=len(disagree), oracle_failures=len(oracle_fail),
               input_distribution=distribution(lines),
               repo=ctx.repo)
    for l in lines:
        if "stats" in l:
            cov["driver_stats"] = l["stats"]
    if ctx.tier == "thorough" and os.path.exists(os.path.join(THEORIES, prop, "Props.vo")) and not proof_broken:
        ctx.log("thorough tier: coqchk on %s/Props.vo and its dependencies" % prop)
        ck = coqchk_props(ctx)
        cov["coqchk"] = ck
        cov["trusted_base"].append("coqchk -silent -o (independent checker): " + ("no axioms, no type-in-type, no unsafe fixpoints, no assumed positivity" if ck["clean"] else "NOT CLEAN: " + ck["summary"][:300]))
        if ck["rc"] == 0 and not ck["clean"]:
            rp = write_replay(ctx, "coqchk", dict(kind="coqchk-not-clean", unchecked="coqchk reports axioms or unsafe features under %s/Props.vo" % prop, summary=ck["summary"]))
            violations.append((rp, "no-failing-input-found"))
    return finish(ctx, violations, known_hits, "proof", cov, cfg.get("assumptions", []))
