#!/usr/bin/env python3
"""Regenerates /verif/MANIFEST.json from props/<ID>.py (each declares a MANIFEST dict) and properties.jsonl.
A property without a props/<ID>.py declaring MANIFEST is listed under not_applicable with the reason given in
tools/not_applicable.json (or 'check not built yet')."""
import json, os, sys, importlib.util
ROOT = os.path.dirname(os.path.dirname(os.path.abspath(__file__)))
sys.path.insert(0, os.path.join(ROOT, "lib"))
ids = [json.loads(l)["id"] for l in open(os.path.join(ROOT, "properties.jsonl")) if l.strip()]
na_file = os.path.join(ROOT, "tools", "not_applicable.json")
na_reasons = json.load(open(na_file)) if os.path.exists(na_file) else {}
checks, na = [], []
for i in ids:
    p = os.path.join(ROOT, "props", i + ".py")
    m = None
    if os.path.exists(p):
        spec = importlib.util.spec_from_file_location("prop_" + i, p)
        mod = importlib.util.module_from_spec(spec); spec.loader.exec_module(mod)
        m = getattr(mod, "MANIFEST", None)
    if not m or i in na_reasons:
        na.append(dict(property_id=i, reason=na_reasons.get(i, "check not built yet; see DESIGN.md section 3 for the planned model and theorems")))
        continue
    checks.append(dict(
        property_id=i,
        quick_cmd="./check %s --tier quick" % i,
        thorough_cmd="./check %s --tier thorough" % i,
        evidence_file="evidence/%s.json" % i,
        replay_cmd_template="./check %s --replay {path}" % i,
        engine="coq-model+correspondence",
        level_claimed=dict(category=m.get("category", "proof"), text=m["text"], design_ref=m.get("design_ref", "DESIGN.md section 3, " + i)),
        level_note=m["note"],
        technique=m.get("technique", "machine-checked proof in Coq 8.16.1 over an executable model + correspondence run against the Go code"),
    ))
man = dict(
    version=1,
    setup_cmd="python3 tools/setup.py",
    hooks=dict(
        guard="verif",
        enable="go build -tags verif -overlay <generated overlay.json> (lib/vlib.py make_overlay): driver and shim files live under /verif/harness and are overlaid onto $VERIF_REPO (default /repo) at build time; nothing is written into /repo",
        baseline_off_cmd="for m in $(cat /w/out/gomods.txt); do MF=$(cd /repo/$m && . /w/out/goenv.sh && gomodflag); (cd /repo/$m && go test $MF -json -vet=off -count=1 -timeout 25m ./...); done",
        source_commits=[],
        add_only=True,
    ),
    engines=[dict(name="coq-model+correspondence", path="lib/vlib.py",
                  serves_properties=[c["property_id"] for c in checks],
                  kind_free_text="Coq 8.16.1 theories under coq/theories/<ID> (Model/Spec/Proofs/Props), Go drivers under harness/<ID> built from the working tree with an overlay, model and spec oracle evaluated by vm_compute on the implementation's observables")],
    checks=checks,
    not_applicable=na,
    notes="All checks honour VERIF_REPO (tree to check, default /repo), VERIF_SEED, VERIF_TIER. See DESIGN.md.",
)
json.dump(man, open(os.path.join(ROOT, "MANIFEST.json"), "w"), indent=1)
print("checks:", len(checks), "not_applicable:", len(na))
