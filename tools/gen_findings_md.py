#!/usr/bin/env python3
"""Regenerates DESIGN.md section 5 (defects) from known-findings.txt."""
import re, os
ROOT = os.path.dirname(os.path.dirname(os.path.abspath(__file__)))
fixed, openf = [], []
for l in open(os.path.join(ROOT, "known-findings.txt")):
    l = l.strip()
    m = re.match(r"fixed: property=(\S+) (\S+) (.*)", l)
    if m:
        fixed.append((m.group(1), m.group(2), m.group(3)))
    m = re.match(r"finding: property=(\S+) key=(\S+) (.*)", l)
    if m:
        openf.append((m.group(1), m.group(2), m.group(3)))
def cut(t, n=330):
    t = t.replace("|", "/")
    return t if len(t) <= n else t[:n].rsplit(" ", 1)[0] + " …"
out = ["## 5. Defects found in projectcalico/calico by the machinery (generated from known-findings.txt by tools/gen_findings_md.py)", "",
       "Every entry was reproduced against the real code by the property's correspondence run (the replay is the failing input); the Coq side carries a",
       "`…_refuted` witness for the code as found and the theorem for the repaired variant.  Repairs are separate unguarded `fix:` commits in `/repo`",
       "(existing tests unedited and passing); each check follows either variant of the code through a probe, so it is green on the repaired tree and",
       "reports the violation again if the defect returns.", "",
       "### 5.1 Repaired (`fix:` commits in /repo)", "", "| Property | Commit | What failed |", "|---|---|---|"]
for p, c, t in sorted(fixed):
    out.append("| %s | %s | %s |" % (p, c, cut(t)))
out += ["", "### 5.2 Recorded as known findings (not repaired)", "",
        "Not repaired because the repair is not small-and-safe by the rules of this task (it would have to edit existing tests or fixtures, cannot be",
        "validated offline, restructures code, or the behaviour is deliberate although it contradicts the property as worded).  Each check prints",
        "`KNOWN-FINDING:` for exactly this class (classified inside Coq or by a dedicated generator stream) and still reports any other violation.", "",
        "| Property | Key | What fails |", "|---|---|---|"]
for p, k, t in sorted(openf):
    out.append("| %s | %s | %s |" % (p, k, cut(t, 420)))
p = os.path.join(ROOT, "DESIGN.md")
s = open(p).read()
i = s.index("## 5. Defects")
j = s.index("## 6. Order of construction")
s = s[:i] + "\n".join(out) + "\n\n---------------------------------------------------------------------------------------------\n\n" + s[j:]
open(p, "w").write(s)
print(len(fixed), "fixed;", len(openf), "open")
