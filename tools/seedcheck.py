#!/usr/bin/env python3
"""tools/seedcheck.py <ID> [<seed dir name> ...]: run ./check <ID> against each seeded change in seeded/<ID>/<name>/patch.diff,
applied to a scratch worktree of /repo (VERIF_REPO), and record whether the check reported a VIOLATION."""
import sys, os, subprocess, json, glob, time
ROOT = os.path.dirname(os.path.dirname(os.path.abspath(__file__)))
pid = sys.argv[1]
names = sys.argv[2:] or sorted(os.path.basename(d.rstrip("/")) for d in glob.glob(os.path.join(ROOT, "seeded", pid, "*", "")))
for name in names:
    sd = os.path.join(ROOT, "seeded", pid, name)
    wt = "/tmp/sc-%s-%s" % (pid, name)
    subprocess.run(["git", "-C", "/repo", "worktree", "remove", "--force", wt], stderr=subprocess.DEVNULL)
    subprocess.run(["git", "-C", "/repo", "worktree", "add", "-q", "--detach", wt, "HEAD"], check=True)
    try:
        r = subprocess.run(["git", "-C", wt, "apply", os.path.join(sd, "patch.diff")], capture_output=True, text=True)
        if r.returncode != 0:
            print(pid, name, "PATCH DOES NOT APPLY", r.stderr[:300]); continue
        env = dict(os.environ, VERIF_REPO=wt, VERIF_EVIDENCE_DIR="/tmp/scev-%s-%s" % (pid, name))
        t0 = time.time()
        r = subprocess.run([os.path.join(ROOT, "check"), pid], cwd=ROOT, env=env, capture_output=True, text=True)
        viol = [l for l in r.stdout.split("\n") if l.startswith("VIOLATION")]
        res = dict(property=pid, seed=name, exit=r.returncode, violation_lines=viol, wall_s=round(time.time() - t0, 1),
                   caught=(r.returncode == 1 and bool(viol)), concrete=any("no-failing-input-found" not in v for v in viol))
        json.dump(res, open(os.path.join(sd, "result.json"), "w"), indent=1)
        print(pid, name, "CAUGHT" if res["caught"] else "MISSED", "(concrete input)" if res["concrete"] else "", viol[:2], "%.0fs" % res["wall_s"])
        if not res["caught"]:
            print(r.stdout[-1500:])
    finally:
        subprocess.run(["git", "-C", "/repo", "worktree", "remove", "--force", wt])
