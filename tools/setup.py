#!/usr/bin/env python3
"""setup_cmd: build the whole Coq development (full .vo) and warm the Go build cache for every driver."""
import os, sys, glob, subprocess, concurrent.futures
ROOT = os.path.dirname(os.path.dirname(os.path.abspath(__file__)))
sys.path.insert(0, os.path.join(ROOT, "lib"))
import vlib
ok, log = vlib.coq_make_all(timeout=7200)
print(log[-3000:])
if not ok:
    print("WARNING: Coq build incomplete"); 
def warm(p):
    ctx = vlib.Ctx(p)
    if glob.glob(os.path.join(vlib.HARNESS, p, "cmd", "*.go")):
        exe, l = vlib.go_build(ctx)
        return p, exe is not None, l[-500:]
    return p, True, ""
props = sorted(os.path.basename(d) for d in glob.glob(os.path.join(vlib.HARNESS, "C*")))
with concurrent.futures.ThreadPoolExecutor(4) as ex:
    for p, ok2, l in ex.map(warm, props):
        print(p, "driver ok" if ok2 else "driver FAILED " + l)
sys.exit(0 if ok else 1)
