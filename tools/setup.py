#!/usr/bin/env python3
"""setup_cmd: build the whole Coq development (full .vo, file by file with coqc, several property directories in
parallel, every file under a time limit) and warm the Go build cache for every driver."""
import os, sys, glob, subprocess, concurrent.futures, time
ROOT = os.path.dirname(os.path.dirname(os.path.abspath(__file__)))
sys.path.insert(0, os.path.join(ROOT, "lib"))
import vlib
t0 = time.time()
dirs = sorted(os.path.basename(d.rstrip("/")) for d in glob.glob(os.path.join(vlib.THEORIES, "*", "")))
def build(d):
    ok, log = vlib.coq_build(vlib.prop_targets(d), timeout=2400, per_file=900)
    return d, ok, log
bad = []
with concurrent.futures.ThreadPoolExecutor(12) as ex:
    for d, ok, log in ex.map(build, ["Common"] + [d for d in dirs if d != "Common"]):
        print("coq %-8s %s  (%.0fs)" % (d, "ok" if ok else "INCOMPLETE", time.time() - t0), flush=True)
        if not ok:
            bad.append(d); print(log[-1500:])
def warm(p):
    if not glob.glob(os.path.join(vlib.HARNESS, p, "cmd", "*.go")):
        return p, True, ""
    ctx = vlib.Ctx(p)
    dirs = [p]
    try:
        import importlib.util
        spec = importlib.util.spec_from_file_location("prop_" + p, os.path.join(ROOT, "props", p + ".py"))
        mod = importlib.util.module_from_spec(spec); spec.loader.exec_module(mod)
        dirs = getattr(mod, "CFG", {}).get("harness_dirs") or [p]
    except Exception:
        pass
    exe, l = vlib.go_build(ctx, dirs, timeout=1500)
    return p, exe is not None, l[-300:]
props = sorted(os.path.basename(d) for d in glob.glob(os.path.join(vlib.HARNESS, "C*")))
with concurrent.futures.ThreadPoolExecutor(4) as ex:
    for p, ok2, l in ex.map(warm, props):
        print("go  %-8s %s  (%.0fs)" % (p, "driver ok" if ok2 else "driver not built here (the check builds it itself): " + l, time.time() - t0), flush=True)
print("setup done in %.0fs; coq incomplete: %s" % (time.time() - t0, bad))
sys.exit(0)
