#!/usr/bin/env python3
"""tools/seedverify.py <ID> <name>: confirm a seeded change delivered in /tmp/seedout-<ID> with worktree /tmp/seed-<ID>:
 demo fails with the change, passes without it, existing tests of the touched packages pass with it.  On success store it
 as /verif/seeded/<ID>/<name>/ (patch.diff, demo/, meta.json with what was run)."""
import sys, os, json, subprocess, shutil
ROOT = os.path.dirname(os.path.dirname(os.path.abspath(__file__)))
pid, name = sys.argv[1], sys.argv[2]
sfx = os.environ.get("SEED_SUFFIX", "")
wt, out = "/tmp/seed%s-%s" % (sfx, pid), "/tmp/seedout%s-%s" % (sfx, pid)
meta = json.load(open(os.path.join(out, "meta.json")))
env = dict(os.environ, GOFLAGS="-mod=mod", GOPROXY="off", CGO_ENABLED=os.environ.get("CGO_ENABLED", "0"))
def sh(cmd):
    r = subprocess.run(cmd, shell=True, cwd=wt, env=env, capture_output=True, text=True)
    return r.returncode, (r.stdout + r.stderr)[-1500:]
def modroot(d):
    while d and not os.path.exists(os.path.join(wt, d, "go.mod")):
        d = os.path.dirname(d)
    return d
bymod = {}
for f in meta["files_changed"]:
    d = os.path.dirname(f); m = modroot(d)
    bymod.setdefault(m, set()).add("./" + os.path.relpath(d, m or ".") + "/")
ran = {}
rc, o = sh(meta["demo_cmd"]); ran["demo_with_change"] = dict(cmd=meta["demo_cmd"], rc=rc); print("demo with change rc", rc)
ok = rc != 0
cmd = " && ".join("(cd ./%s && go test -vet=off -count=1 -skip SeedDemo %s)" % (m or ".", " ".join(sorted(ps))) for m, ps in sorted(bymod.items()))
if len(sys.argv) > 3:
    cmd = sys.argv[3]
rc, o = sh(cmd); ran["existing_tests_with_change"] = dict(cmd=cmd, rc=rc); print("existing tests with change rc", rc, o[-300:] if rc else "")
ok = ok and rc == 0
pd = os.path.join(out, "patch.diff")
rc, o = sh("git apply -R " + pd); print("reverse patch rc", rc, o[-200:] if rc else "")

rc, o = sh(meta["demo_cmd"]); ran["demo_without_change"] = dict(cmd=meta["demo_cmd"], rc=rc); print("demo without change rc", rc, o[-300:] if rc else "")
ok = ok and rc == 0
sh("git apply " + pd)
print("CONFIRMED" if ok else "NOT CONFIRMED")
if ok:
    d = os.path.join(ROOT, "seeded", pid, name)
    os.makedirs(d, exist_ok=True)
    shutil.copy(os.path.join(out, "patch.diff"), d)
    if os.path.exists(os.path.join(d, "demo")): shutil.rmtree(os.path.join(d, "demo"))
    shutil.copytree(os.path.join(out, "demo"), os.path.join(d, "demo"))
    meta["confirmed_by_coordinator"] = ran
    meta["breaks"] = pid
    json.dump(meta, open(os.path.join(d, "meta.json"), "w"), indent=1)
sys.exit(0 if ok else 1)
