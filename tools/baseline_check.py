#!/usr/bin/env python3
"""tools/baseline_check.py [pkgprefix ...]: run the pinned baseline test command (/root/.vp/BASELINE.json) on /repo's working tree
(no verif tag, so this is the 'guard off' run) and report which of its stable_pass tests did not pass.
With arguments only the packages (import-path prefixes relative to the module, e.g. ./felix/calc/...) given are run.
Not a registered check: the coordinator's tool for validating `fix:` commits.  Writes its log under /tmp."""
import json, os, subprocess, sys, time
B = json.load(open("/root/.vp/BASELINE.json"))
stable = set(B["stable_pass"])
mods = [l.strip() for l in open("/w/out/gomods.txt") if l.strip()]
args = sys.argv[1:]
log = "/tmp/baseline-%d.json" % int(time.time())
env = dict(os.environ, GOPROXY="off", GOFLAGS=os.environ.get("GOFLAGS", ""))
with open(log, "w") as out:
    for m in (["."] if args else mods):
        d = os.path.join("/repo", m)
        gw = subprocess.run(["go", "env", "GOWORK"], cwd=d, capture_output=True, text=True, env=env).stdout.strip()
        mf = ["-mod=mod"] if gw in ("", "off") else []
        subprocess.run(["go", "test"] + mf + ["-json", "-vet=off", "-count=1", "-timeout", "25m"] + (args or ["./..."]), cwd=d, stdout=out, stderr=subprocess.DEVNULL, env=env)
passed, failed, pkgs = set(), set(), set()
for line in open(log, errors="replace"):
    if not line.startswith("{"): continue
    try: ev = json.loads(line)
    except Exception: continue
    a, pkg, t = ev.get("Action"), ev.get("Package", ""), ev.get("Test")
    pkgs.add(pkg)
    if t is None or a not in ("pass", "fail"): continue
    (passed if a == "pass" else failed).add(pkg + "::" + t)
passed -= failed
scope = {s for s in stable if s.split("::")[0] in pkgs} if args else stable
missing = sorted(scope - passed)
print("log:", log)
print("stable_pass tests in scope: %d, passed now: %d, not passed: %d" % (len(scope), len(scope & passed), len(missing)))
for m in missing[:80]:
    print("  NOT PASSED:", m, "(failed)" if m in failed else "(not run)")
sys.exit(1 if missing else 0)
