#!/bin/bash
# tools/runall.sh [ids...]: run ./check for each id sequentially on /repo, summarise exit code, time, last line.
cd "$(dirname "$0")/.."
ids="$@"; [ -z "$ids" ] && ids=$(python3 -c "
import json;print(' '.join(c['property_id'] for c in json.load(open('MANIFEST.json'))['checks']))")
for p in $ids; do
  t0=$(date +%s); out=$(./check $p --tier quick 2>&1); rc=$?; t1=$(date +%s)
  echo "$p rc=$rc $((t1-t0))s $(echo "$out" | grep -E 'VIOLATION|KNOWN-FINDING' | cut -c1-120 | tr '\n' '|') $(echo "$out" | grep -E 'done:' | tail -1)"
done
