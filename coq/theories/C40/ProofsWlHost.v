(* C40 — workload-to-host clause (PARTIAL): on the INPUT path a packet from a workload-prefixed interface gets the
   verdict of cali-from-wl-dispatch (i.e. of the workload's egress chain, or the unknown-interface drop) FIRST; only
   what that chain hands back meets the configured DefaultEndpointToHostAction.
   Missing for the full statement: that the dispatch tree sends a KNOWN interface to exactly its own from-endpoint
   chain.  That is C10's theorem (c10_known_iface_own_chain, on C10's own machine); here it is checked on every run
   for the real chains (Spec.shapes_ok: wl_target = the endpoint's chain) and by the oracle's traversal. *)
From Coq Require Import List NArith Bool String Arith Lia.
From Verif.Common Require Import Packet Ipt.
From Verif.C40 Require Import Model Spec Shape Proofs ProofsFailsafe ProofsFsHooks ProofsDrop.
Import ListNotations.
Open Scope N_scope.

Definition goto_wrap (r : result) : result := match r with RFall q => RReturn q | x => x end.

Section WlHost.
  Variables (c : cfg) (cs : chains) (e : env).
  Variable disp : list irule.
  Hypothesis Hdisp : lookup cs CH_FROM_WL = Some disp.
  Hypothesis Hw : lookup cs CH_WL_TO_HOST = Some (wl_to_host c).
  Hypothesis Hipvs : c_ipvs c = false.

  (* no tunnel / wireguard rule in front of the workload rules fires (Spec.infra_pkt says when they do) *)
  Definition front_miss (p : packet) : Prop :=
    forall r, In r (input_tunnel_rules c ++ input_wg_rules c) -> matches e p (ir_match r) = false.

  Lemma go_all_miss : forall call l p, (forall r, In r l -> matches e p (ir_match r) = false) -> go cs e call l p = RFall p.
  Proof.
    intros call l p. induction l as [|r l IH]; intro H; [reflexivity|].
    cbn [go]. rewrite (H r (or_introl eq_refl)). apply IH. intros x Hx. apply H. right. exact Hx.
  Qed.

  Lemma wl_to_host_eq : forall n p, pre_rules_miss c e p ->
    G cs e (S n) (wl_to_host c) p =
    match G cs e n disp p with
    | RFall p' | RReturn p' => G cs e (S n) [R [] (c_ep_to_host c)] p'
    | r => r
    end.
  Proof.
    intros n p Hmiss. unfold wl_to_host, G. rewrite go_app. rewrite (go_all_miss _ _ _ Hmiss).
    cbn [go R ir_match ir_action matches forallb]. rewrite Hdisp, run_S. unfold G.
    destruct (go cs e (run n cs e) disp p); reflexivity.
  Qed.

  Lemma input_to_wl_to_host : forall n p, wl_iface c (pk_in p) = true -> front_miss p ->
    G cs e (S (S n)) (filter_input c) p = goto_wrap (G cs e (S n) (wl_to_host c) p).
  Proof.
    intros n p Hwl Hfront. unfold filter_input, input_ipvs_rules. rewrite Hipvs. cbn [opt_rules app]. unfold G. rewrite go_app. rewrite (go_all_miss _ _ _ Hfront).
    unfold input_wl_rules. unfold wl_iface in Hwl. revert Hwl. generalize (c_prefixes c). intro l.
    induction l as [|x l IH]; intro H; [discriminate|].
    cbn [existsb] in H. cbn [map app go R ir_match ir_action matches forallb match_one iface_ok].
    rewrite xorb_false_l, andb_true_r. destruct (is_prefix x (pk_in p)).
    - rewrite Hw, run_S. unfold G, goto_wrap. destruct (go cs e (run (S n) cs e) (wl_to_host c) p); reflexivity.
    - cbn [orb] in H. apply IH, H.
  Qed.

  Theorem wl_to_host_policy_then_action_partial : forall n p,
    wl_iface c (pk_in p) = true -> front_miss p -> pre_rules_miss c e p ->
    G cs e (S (S n)) (filter_input c) p =
    match G cs e n disp p with
    | RFall p' | RReturn p' => goto_wrap (G cs e (S n) [R [] (c_ep_to_host c)] p')
    | r => r
    end.
  Proof.
    intros n p Hwl Hfront Hmiss. rewrite (input_to_wl_to_host n p Hwl Hfront), (wl_to_host_eq n p Hmiss).
    destruct (G cs e n disp p); reflexivity.
  Qed.
End WlHost.
