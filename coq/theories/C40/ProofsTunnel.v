(* C40 — tunnel clause, and the hook-level forms of the drop theorems. *)
From Coq Require Import List NArith Bool String Arith Lia.
From Verif.Common Require Import Packet Ipt.
From Verif.C40 Require Import Model Spec Shape Proofs ProofsFailsafe ProofsFsHooks ProofsDrop.
Import ListNotations.
Open Scope N_scope.

Lemma is_drop_verdict : forall r, is_drop r -> verdict_of r = VDrop.
Proof. intros [[| |] ?|?|?| |]; simpl; intro H; try reflexivity; contradiction. Qed.

Section Tunnel.
  Variables (c : cfg) (cs : chains) (e : env).
  Hypothesis Hc : cfg_ok c.

  Lemma G_app_drop : forall n a b p, is_drop (G cs e n a p) -> is_drop (G cs e n (a ++ b) p).
  Proof.
    intros n a b p H. unfold G in *. rewrite go_app.
    destruct (go cs e (run n cs e) a p) as [[| |] ?|?|?| |]; simpl in *; auto; contradiction.
  Qed.
  Lemma G_app_pass : forall n a b p, G cs e n a p = RFall p -> G cs e n (a ++ b) p = G cs e n b p.
  Proof. intros n a b p H. unfold G in *. rewrite go_app, H. reflexivity. Qed.

  Lemma deny_drop : forall p, is_drop (RDone match c_deny c with ADrop => FDrop | _ => FReject end p).
  Proof. intro p. destruct (c_deny c); exact Logic.I. Qed.

  Theorem tunnel_dropped_input : forall n p, tunnel_non_cluster c e p = true -> is_drop (G cs e n (filter_input c) p).
  Proof.
    intros n p H. unfold filter_input. apply G_app_drop. apply G_app_drop. unfold input_tunnel_rules.
    unfold tunnel_non_cluster in H. apply orb_true_iff in H. destruct H as [H|H].
    - (* IPIP from a source outside all-hosts-net *)
      apply andb_true_iff in H. destruct H as [Hi Hs]. apply negb_true_iff in Hs.
      unfold is_ipip in Hi. rewrite !andb_true_iff in Hi. destruct Hi as [[E1 E2] E3].
      rewrite E1, E2. cbn [andb opt_rules]. apply G_app_drop.
      unfold G. cbn [go R ir_match ir_action matches forallb match_one]. rewrite !xorb_false_l, E3.
      unfold in_set in Hs. unfold src_member. rewrite Hs. cbn [andb].
      destruct (ok_deny c Hc) as [-> | ->]; exact Logic.I.
    - (* VXLAN to the host from a source outside all-vxlan-net *)
      apply andb_true_iff in H. destruct H as [Hv Hs]. apply negb_true_iff in Hs.
      unfold is_vxlan_to_host in Hv. rewrite !andb_true_iff in Hv. destruct Hv as [[[E0 E1] E2] E3].
      unfold in_set in Hs. unfold oth in E3.
      assert (Hipip : G cs e n (opt_rules (is_v4 c && c_ipip c)
                [R [MProto false 4; MSrcIpSet false SET_ALL_HOSTS; MOth false O_DST_LOCAL] (c_filter_allow c); R [MProto false 4] (c_deny c)]) p = RFall p).
      { destruct (is_v4 c && c_ipip c); [|reflexivity]. unfold G. cbn [opt_rules go R ir_match ir_action matches forallb match_one].
        rewrite !xorb_false_l. apply N.eqb_eq in E1. rewrite E1. reflexivity. }
      rewrite (G_app_pass _ _ _ _ Hipip).
      assert (Hdenyrule : forall a rest, is_deny a ->
                is_drop (G cs e n ([R [MProto false 17; MDstPorts false (port1 (c_vxlan_port c)); MSrcIpSet false SET_VXLAN_NETS; MOth false O_DST_LOCAL] (c_filter_allow c);
                                    R [MProto false 17; MDstPorts false (port1 (c_vxlan_port c)); MOth false O_DST_LOCAL] a] ++ rest) p)).
      { intros a rest Ha. unfold G. change (MOth false O_DST_LOCAL) with (MOther (2 * O_DST_LOCAL)).
        cbn [app go R ir_match ir_action matches forallb match_one]. rewrite !xorb_false_l, in_ranges_port1, E1, E2, E3.
        unfold src_member. rewrite Hs. cbn [andb]. destruct Ha as [-> | ->]; exact Logic.I. }
      unfold vxlan_here in E0. apply orb_true_iff in E0. destruct E0 as [E0|E0].
      + rewrite E0. cbn [opt_rules]. apply Hdenyrule. left. reflexivity.
      + assert (E4 : is_v4 c && c_vxlan4 c = false).
        { apply andb_true_iff in E0. destruct E0 as [E0 _]. unfold is_v4, is_v6 in *. destruct (c_ver c); [discriminate|reflexivity]. }
        rewrite E4, E0. cbn [opt_rules app]. rewrite <- (app_nil_r [_; _]). apply Hdenyrule. exact (ok_deny c Hc).
  Qed.
End Tunnel.

(* ------------------------------------------------------------------ hook-level statements *)
Lemma hook_drop : forall cs e top body p k,
  lookup cs top = Some body -> (k <= 15)%nat -> (forall n, is_drop (G cs e (k + n) body p)) -> hook cs e top p = VDrop.
Proof.
  intros cs e top body p k Hl Hk H. unfold hook, run_chain. rewrite Hl.
  replace FUEL with (S (k + (15 - k)))%nat by (unfold FUEL; lia). rewrite run_S. apply is_drop_verdict, H.
Qed.

Theorem tunnel_from_non_cluster_dropped : forall c filter e p,
  cfg_ok c -> lookup filter CH_INPUT = Some (filter_input c) ->
  tunnel_ok c filter e p = true.
Proof.
  intros c filter e p Hc Hl. unfold tunnel_ok. destruct (tunnel_non_cluster c e p) eqn:E; [|reflexivity].
  rewrite (hook_drop filter e CH_INPUT (filter_input c) p 0 Hl); [reflexivity|lia|].
  intro n. apply tunnel_dropped_input; assumption.
Qed.

Theorem unknown_workload_iface_dropped : forall c filter e disp hepfwd towl p,
  cfg_ok c ->
  lookup filter CH_INPUT = Some (filter_input c) -> lookup filter CH_FORWARD = Some (filter_forward c) ->
  lookup filter CH_WL_TO_HOST = Some (wl_to_host c) ->
  lookup filter CH_FROM_WL = Some disp -> wl_root_ok filter disp = true ->
  lookup filter CH_FROM_HEP_FWD = Some hepfwd -> (forall n, callee_dp filter e (I_unk c filter disp) (S n) hepfwd) ->
  lookup filter CH_TO_WL = Some towl -> (forall n, callee_dp filter e (I_unk c filter disp) (S n) towl) ->
  wl_iface c (pk_in p) = true -> name_in (pk_in p) (wl_names filter disp) = false ->
  (c_ipvs c = false -> pre_rules_miss c e p -> infra_allowed c e p = false -> hook filter e CH_INPUT p = VDrop)
  /\ hook filter e CH_FORWARD p = VDrop.
Proof.
  intros c filter e disp hepfwd towl p Hc Hin Hfw Hw Hd Hroot Hh Hhep Ht Htowl Hwl Hun.
  assert (Hp : I_unk c filter disp p) by (split; assumption).
  split.
  - intros Hipvs Hmiss Hinfra. apply (hook_drop filter e CH_INPUT (filter_input c) p 3 Hin); [lia|].
    intro n. apply (unknown_dropped_input c filter e Hc disp Hd Hroot Hipvs n p Hw). repeat split; assumption.
  - apply (hook_drop filter e CH_FORWARD (filter_forward c) p 2 Hfw); [lia|].
    intro n. apply (unknown_dropped_forward c filter e disp Hd Hroot n hepfwd towl p Hh (Hhep n) Ht (Htowl n) Hp).
Qed.
