(* C40 — the specification oracle accepts every table built from the model's static chains and ANY callee chains
   that satisfy the shape / hand-back conditions (model meets spec). *)
From Coq Require Import List NArith Bool String Arith Lia.
From Verif.Common Require Import Packet Ipt.
From Verif.C40 Require Import Model Spec Shape Proofs ProofsFailsafe ProofsFsHooks ProofsRaw ProofsMain ProofsDrop
  ProofsTunnel ProofsWlHost ProofsLink ProofsWlHost2.
Import ListNotations.
Open Scope N_scope.

Lemma ipver_eqb_eq : forall a b, ipver_eqb a b = true -> a = b.
Proof. intros [|] [|]; simpl; congruence. Qed.

(* what is assumed of the from-workload side of the filter table, beyond the static chains *)
Record wl_side (c : cfg) (filter : chains) (e : env) (wl : list (list N * string)) (disp hepfwd towl : list irule) : Prop := {
  ws_disp : lookup filter CH_FROM_WL = Some disp;
  ws_root : wl_root_ok filter disp = true;
  (* every interface of the dispatch tree is a known workload ... *)
  ws_names : forall n, name_in n (wl_names filter disp) = true -> exists ch, lookup_wl wl n = Some ch;
  (* ... that the tree sends to its own chain, whose evaluation needs at most 11 nested jumps *)
  ws_target : forall n ch, lookup_wl wl n = Some ch ->
      wl_target filter disp n = Some ch /\ exists body, lookup filter ch = Some body /\ forall q, G filter e 11 body q <> RFuel;
  (* the two chains cali-FORWARD visits before the from-workload dispatch drop or hand back *)
  ws_hepfwd : lookup filter CH_FROM_HEP_FWD = Some hepfwd /\ forall n, callee_dp filter e (I_unk c filter disp) (S n) hepfwd;
  ws_towl : lookup filter CH_TO_WL = Some towl /\ forall n, callee_dp filter e (I_unk c filter disp) (S n) towl
}.

Theorem model_meets_spec : forall c raw mangle filter wl e disp hepfwd towl p,
  cfg_ok c -> ep_action_ok (c_ep_to_host c) -> c_ipvs c = false -> N.land (c_wg_mark c) (c_scr0 c) = 0 ->
  (forall q m, e_other e (2 * O_DST_LOCAL) (set_mark q m) = e_other e (2 * O_DST_LOCAL) q) ->
  installed c raw mangle filter -> hep_shapes raw mangle filter ->
  disp_ok raw (raw_hep_ok CH_FS_IN) CH_FROM_HEP = true -> disp_ok raw (raw_hep_ok CH_FS_OUT) CH_TO_HEP = true ->
  wl_side c filter e wl disp hepfwd towl ->
  pkt_ok false true c raw mangle filter wl e p = true.
Proof.
  intros c raw mangle filter wl e disp hepfwd towl p Hc Hep Hipvs Hwg Hlocal Hinst Hsh R1 R2 [Wd Wr Wn Wt [Wh Whd] [Wt2 Wtd]].
  unfold pkt_ok. destruct (ipver_eqb (pk_ver p) (c_ver c)) eqn:Ev; [|reflexivity].
  apply ipver_eqb_eq in Ev.
  assert (Hsh2 : ipvs_shape c filter) by (intro E; congruence).
  destruct (failsafe_accept_all_paths c raw mangle filter e p Hc Hwg Hlocal Hinst Hsh Hsh2 Ev) as [F1 F2].
  destruct Hinst as [Hr Hm Hf].
  assert (Lin : lookup filter CH_INPUT = Some (filter_input c)) by (apply (Hf (CH_INPUT, _)); unfold static_filter; apply in_or_app; left; cbn; tauto).
  assert (Lfw : lookup filter CH_FORWARD = Some (filter_forward c)) by (apply (Hf (CH_FORWARD, _)); unfold static_filter; apply in_or_app; left; cbn; tauto).
  assert (Lwh : lookup filter CH_WL_TO_HOST = Some (wl_to_host c)) by (apply (Hf (CH_WL_TO_HOST, _)); unfold static_filter; apply in_or_app; left; cbn; tauto).
  rewrite F1, F2. rewrite (failsafe_responses_untracked c raw e p Hc Hwg Hr R1 R2 Ev).
  rewrite (tunnel_from_non_cluster_dropped c filter e p Hc Lin). cbn [andb]. rewrite andb_true_r.
  apply andb_true_iff. split.
  - (* unknown workload interface *)
    unfold unknown_ok. destruct (wl_iface c (pk_in p)) eqn:Ew; [|reflexivity].
    destruct (lookup_wl wl (pk_in p)) as [ch|] eqn:El; [reflexivity|]. cbn [negb andb].
    assert (Hun : name_in (pk_in p) (wl_names filter disp) = false).
    { destruct (name_in (pk_in p) (wl_names filter disp)) eqn:E; [|reflexivity].
      destruct (Wn _ E) as [ch Hch]. congruence. }
    destruct (unknown_workload_iface_dropped c filter e disp hepfwd towl p Hc Lin Lfw Lwh Wd Wr Wh Whd Wt2 Wtd Ew Hun) as [_ Hfwd].
    rewrite Hfwd. cbn [verdict_eqb]. rewrite orb_true_r, andb_true_r.
    destruct (infra_allowed c e p) eqn:Ei; [reflexivity|].
    destruct (pre_policy_exempt c p) eqn:Ex; [reflexivity|]. cbn [orb].
    rewrite (unknown_dropped_input_spec c filter e disp p Hc Hipvs Lin Lwh Wd Wr Ev Ew Hun Ei Ex). reflexivity.
  - (* known workload to the host *)
    destruct (lookup_wl wl (pk_in p)) as [ch|] eqn:El.
    + destruct (Wt _ _ El) as [Htg [body [Hb Hnf]]].
      apply (wl_to_host_policy_then_action c filter e wl disp ch body p Hep Hipvs Lin Lwh Wd El Htg Hb (Hnf p) Ev).
    + unfold wl_host_ok. rewrite El. reflexivity.
Qed.
