(* C40 — theorems (statements only; proofs are in Proofs*.v). *)
From Coq Require Import List NArith Bool String.
From Verif.Common Require Import Packet Ipt.
From Verif.C40 Require Import Model Spec Proofs.
Import ListNotations.
Open Scope N_scope.

Theorem c40_failsafe_rule_jump_free : forall v d s f, jump_free (fs_rule v d s f).
Proof. exact fs_rule_jump_free. Qed.
Print Assumptions c40_failsafe_rule_jump_free.
