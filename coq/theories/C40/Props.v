(* C40 — theorems (statements only; proofs are in Proofs*.v).

   Reading guide.  `installed c raw mangle filter`: the three tables contain the static chains of configuration c
   (Model.v).  EVERY OTHER chain of the tables (dispatch, per-endpoint, policy, profile, ...) is universally
   quantified; `hep_shapes` (Shape.v, decidable, checked on the real renderer's output by every run) only says that
   the host-endpoint dispatch chains dispatch on interfaces and that a host endpoint chain consists of conntrack
   rules, the jump to the failsafe chain and then ANYTHING.  Verdicts are per hook (Spec.hook) for an arbitrary
   entry mark and conntrack state; the kernel's raw -> mangle -> filter ordering is the stated assumption. *)
From Coq Require Import List NArith Bool String.
From Verif.Common Require Import Packet Ipt.
From Verif.C40 Require Import Model Spec Shape Proofs ProofsFailsafe ProofsFsHooks ProofsRaw ProofsMain.
Import ListNotations.
Open Scope N_scope.

(* Failsafes: whatever the policy chains contain, a packet to a configured inbound failsafe port (not from a workload
   interface, conntrack state not INVALID, not governed by the tunnel clause) is not dropped by Felix at the raw
   PREROUTING, mangle PREROUTING and filter INPUT hooks; a packet to a configured outbound failsafe port is not
   dropped at raw OUTPUT and filter OUTPUT.  (fs_in_ok / fs_out_ok are the oracle clauses of Spec.v.)
   c_wg_raw = false: the Wireguard incoming-mark jump of raw PREROUTING is outside the proved domain. *)
Theorem c40_failsafe_accept_all_paths : forall c raw mangle filter e p,
  cfg_ok c -> c_wg_raw c = false ->
  (forall q m, e_other e (2 * O_DST_LOCAL) (set_mark q m) = e_other e (2 * O_DST_LOCAL) q) ->
  installed c raw mangle filter -> hep_shapes raw mangle filter ->
  pk_ver p = c_ver c ->
  fs_in_ok c raw mangle filter e p = true /\ fs_out_ok c raw filter e p = true.
Proof. exact failsafe_accept_all_paths. Qed.
Print Assumptions c40_failsafe_accept_all_paths.
