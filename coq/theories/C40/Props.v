(* C40 — theorems (statements only; proofs are in Proofs*.v).

   Reading guide.  `installed c raw mangle filter` / `lookup filter CH_X = Some (x c)`: the tables contain the static
   chains of configuration c (Model.v).  EVERY OTHER chain of the tables (dispatch, per-endpoint, policy, profile ...)
   is universally quantified; the shape conditions (Shape.v: decidable, evaluated on the real renderer's output by
   every run, Spec.shapes_ok) only say that dispatch chains dispatch on interfaces, that a host endpoint chain is
   conntrack rules + the jump to the failsafe chain + ANYTHING, and that the from-workload dispatch is a tree of
   exact interface matches ending in a deny.  Verdicts are per hook (Spec.hook) for an arbitrary entry mark and
   conntrack state; the kernel's raw -> mangle -> filter ordering is the stated assumption.
   PARTIAL by design: NAT table, Wireguard crypto routing (only its mark chain and allow rules are modelled), BPF-mode raw
   chains are outside the model.  kube-ipvs mode (KubeIPVSSupportEnabled) is modelled; the failsafe and tunnel theorems
   cover it, the unknown-interface (INPUT) and workload-to-host theorems are stated for c_ipvs = false (missing: a
   'forward-check hands the packet back unchanged or drops it' lemma for packets from workload interfaces). *)
From Coq Require Import List NArith Bool String.
From Verif.Common Require Import Packet Ipt.
From Verif.C40 Require Import Model Spec Shape Proofs ProofsFailsafe ProofsFsHooks ProofsRaw ProofsMain ProofsDrop
  ProofsTunnel ProofsWlHost ProofsLink ProofsWlHost2 ProofsMeets ProofsRefuted.
Import ListNotations.
Open Scope N_scope.

(* 1. Failsafes: whatever the policy chains contain, a packet to a configured inbound failsafe port (not from a
   workload interface, conntrack state not INVALID, not governed by the tunnel clause) is not dropped by Felix at the
   raw PREROUTING (untracked), mangle PREROUTING (pre-DNAT) and filter INPUT (normal) hooks; a packet to a configured
   outbound failsafe port is not dropped at raw OUTPUT, filter OUTPUT and mangle POSTROUTING (DNAT'd egress).  fs_in_ok / fs_out_ok are Spec.v's clauses. *)
Theorem c40_failsafe_accept_all_paths : forall c raw mangle filter e p,
  cfg_ok c -> N.land (c_wg_mark c) (c_scr0 c) = 0 ->
  (forall q m, e_other e (2 * O_DST_LOCAL) (set_mark q m) = e_other e (2 * O_DST_LOCAL) q) ->
  installed c raw mangle filter -> hep_shapes raw mangle filter -> ipvs_shape c filter ->
  pk_ver p = c_ver c ->
  fs_in_ok c raw mangle filter e p = true /\ fs_out_ok c raw mangle filter e p = true.
Proof. exact failsafe_accept_all_paths. Qed.
Print Assumptions c40_failsafe_accept_all_paths.

(* 1'. responses of failsafe connections on the untracked path (raw table, before conntrack: any conntrack state):
   a packet FROM an outbound failsafe port arriving on a non-workload interface is not dropped at raw PREROUTING, a
   packet from an inbound failsafe port leaving on a non-workload interface is not dropped at raw OUTPUT.
   (fs_resp_ok is Spec.v's clause; raw_hep_ok: untracked endpoint chains start with the failsafe jump.) *)
Theorem c40_failsafe_responses_untracked : forall c raw e p,
  cfg_ok c -> N.land (c_wg_mark c) (c_scr0 c) = 0 ->
  (forall nb, In nb (static_raw c) -> lookup raw (fst nb) = Some (snd nb)) ->
  disp_ok raw (raw_hep_ok CH_FS_IN) CH_FROM_HEP = true -> disp_ok raw (raw_hep_ok CH_FS_OUT) CH_TO_HEP = true ->
  pk_ver p = c_ver c ->
  fs_resp_ok c raw e p = true.
Proof. exact failsafe_responses_untracked. Qed.
Print Assumptions c40_failsafe_responses_untracked.

(* 0. hook wiring: the kernel chains start with the jump to Felix's top-level chain (Model.hook_wiring, compared by
   every run with the calls the REAL setUpIptablesNormal makes on recording tables); such a kernel chain takes Felix's
   terminal verdict, and only a packet Felix's chain returns reaches the rest of the kernel chain. *)
Theorem c40_kernel_chain_first_rule : forall cs e top body rest f p,
  lookup cs top = Some body ->
  run (S f) cs e (R [] (AJump top) :: rest) p =
  match run f cs e body p with
  | RFall p' | RReturn p' => run (S f) cs e rest p'
  | r => r
  end.
Proof. exact kernel_chain_first_rule. Qed.
Print Assumptions c40_kernel_chain_first_rule.

(* the hypothesis "conntrack state not INVALID" is necessary *)
Theorem c40_failsafe_invalid_ct_refuted :
  exists c filter e p, cfg_ok c
    /\ (forall nb, In nb (static_filter c) -> lookup filter (fst nb) = Some (snd nb))
    /\ hep_disp_ok filter CH_FROM_HEP CH_FS_IN = true
    /\ pk_ver p = c_ver c /\ fs_in_pkt c p = true /\ wl_iface c (pk_in p) = false /\ fs_excluded c e p = false
    /\ ct_invalid p = true
    /\ hook filter e CH_INPUT p = VDrop
    /\ hook filter e CH_INPUT (pkt V4 6 22 0 (pk_in p) CtNew) = VAccept.
Proof. exact failsafe_invalid_ct_refuted. Qed.
Print Assumptions c40_failsafe_invalid_ct_refuted.

(* 2. Unknown workload interface: a packet whose input interface matches a workload prefix but is none of the
   interfaces of the from-workload dispatch tree is dropped at filter INPUT (unless it is allow-listed infrastructure
   traffic or one of the pre-policy special cases fires) and at filter FORWARD (provided the two chains cali-FORWARD
   visits earlier - host-endpoint forward dispatch, to-workload dispatch - drop it or hand it back: callee_dp). *)
Theorem c40_unknown_workload_iface_dropped : forall c filter e disp hepfwd towl p,
  cfg_ok c ->
  lookup filter CH_INPUT = Some (filter_input c) -> lookup filter CH_FORWARD = Some (filter_forward c) ->
  lookup filter CH_WL_TO_HOST = Some (wl_to_host c) ->
  lookup filter CH_FROM_WL = Some disp -> wl_root_ok filter disp = true ->
  lookup filter CH_FROM_HEP_FWD = Some hepfwd -> (forall n, callee_dp filter e (I_unk c filter disp) (S n) hepfwd) ->
  lookup filter CH_TO_WL = Some towl -> (forall n, callee_dp filter e (I_unk c filter disp) (S n) towl) ->
  wl_iface c (pk_in p) = true -> name_in (pk_in p) (wl_names filter disp) = false ->
  (c_ipvs c = false -> pre_rules_miss c e p -> infra_allowed c e p = false -> hook filter e CH_INPUT p = VDrop)
  /\ hook filter e CH_FORWARD p = VDrop.
Proof. exact unknown_workload_iface_dropped. Qed.
Print Assumptions c40_unknown_workload_iface_dropped.

(* both side conditions are necessary (known findings wl-to-host-pre-policy-accepts,
   unknown-wl-established-accepted-early) *)
Theorem c40_unknown_iface_nd_refuted :
  exists c filter e p disp, cfg_ok c
    /\ (forall nb, In nb (static_filter c) -> lookup filter (fst nb) = Some (snd nb))
    /\ lookup filter CH_FROM_WL = Some disp /\ wl_root_ok filter disp = true
    /\ pk_ver p = c_ver c /\ wl_iface c (pk_in p) = true /\ name_in (pk_in p) (wl_names filter disp) = false
    /\ infra_allowed c e p = false /\ pre_policy_exempt c p = true
    /\ hook filter e CH_INPUT p = VAccept.
Proof. exact unknown_iface_nd_refuted. Qed.
Print Assumptions c40_unknown_iface_nd_refuted.

Theorem c40_unknown_iface_forward_established_refuted :
  exists c filter e p disp, cfg_ok c
    /\ (forall nb, In nb (static_filter c) -> lookup filter (fst nb) = Some (snd nb))
    /\ lookup filter CH_FROM_WL = Some disp /\ wl_root_ok filter disp = true
    /\ pk_ver p = c_ver c /\ wl_iface c (pk_in p) = true /\ name_in (pk_in p) (wl_names filter disp) = false
    /\ ct_est p = true
    /\ hook filter e CH_FORWARD p = VAccept
    /\ hook filter e CH_FORWARD (pkt V4 6 80 0 (pk_in p) CtNew) = VDrop.
Proof. exact unknown_iface_forward_established_refuted. Qed.
Print Assumptions c40_unknown_iface_forward_established_refuted.

(* 2'. the INPUT half in Spec.v's vocabulary: not allow-listed infrastructure traffic, not a pre-policy special case *)
Theorem c40_unknown_workload_iface_dropped_input : forall c filter e disp p,
  cfg_ok c -> c_ipvs c = false ->
  lookup filter CH_INPUT = Some (filter_input c) -> lookup filter CH_WL_TO_HOST = Some (wl_to_host c) ->
  lookup filter CH_FROM_WL = Some disp -> wl_root_ok filter disp = true ->
  pk_ver p = c_ver c -> wl_iface c (pk_in p) = true -> name_in (pk_in p) (wl_names filter disp) = false ->
  infra_allowed c e p = false -> pre_policy_exempt c p = false ->
  hook filter e CH_INPUT p = VDrop.
Proof. exact unknown_dropped_input_spec. Qed.
Print Assumptions c40_unknown_workload_iface_dropped_input.

(* 3. Workload to host: for a packet from a KNOWN workload interface (the dispatch tree sends it to chain `ch`:
   wl_target, decidable, checked on the real chains by every run) that is neither infrastructure traffic nor a
   pre-policy special case, the filter INPUT verdict is: whatever terminal verdict the workload's egress chain `ch`
   reaches; and if that chain returns / falls through, the configured DefaultEndpointToHostAction.
   (wl_host_ok false = Spec.v's clause with the pre-policy special cases excused; `body` is ARBITRARY; the only
   assumption on it is that its evaluation needs at most 11 nested jumps.) *)
Theorem c40_wl_to_host_policy_then_action : forall c filter e wl disp ch body p,
  ep_action_ok (c_ep_to_host c) -> c_ipvs c = false ->
  lookup filter CH_INPUT = Some (filter_input c) -> lookup filter CH_WL_TO_HOST = Some (wl_to_host c) ->
  lookup filter CH_FROM_WL = Some disp ->
  lookup_wl wl (pk_in p) = Some ch -> wl_target filter disp (pk_in p) = Some ch -> lookup filter ch = Some body ->
  G filter e 11 body p <> RFuel ->
  pk_ver p = c_ver c ->
  wl_host_ok false c filter wl e p = true.
Proof. exact wl_to_host_policy_then_action. Qed.
Print Assumptions c40_wl_to_host_policy_then_action.

(* the chain-level form, for every jump budget and without the dispatch-tree condition *)
Theorem c40_wl_to_host_chain : forall c cs e disp n p,
  lookup cs CH_FROM_WL = Some disp -> lookup cs CH_WL_TO_HOST = Some (wl_to_host c) -> c_ipvs c = false ->
  wl_iface c (pk_in p) = true -> front_miss c e p -> pre_rules_miss c e p ->
  G cs e (S (S n)) (filter_input c) p =
  match G cs e n disp p with
  | RFall p' | RReturn p' => goto_wrap (G cs e (S n) [R [] (c_ep_to_host c)] p')
  | r => r
  end.
Proof. intros c cs e disp n p Hd Hw Hi. exact (wl_to_host_policy_then_action_partial c cs e disp Hd Hw Hi n p). Qed.
Print Assumptions c40_wl_to_host_chain.

(* 4. Tunnels: with IPIP enabled an IPIP packet whose source is not in all-hosts-net, and with VXLAN enabled a UDP
   packet to the VXLAN port of this host whose source is not in all-vxlan-net, is dropped at filter INPUT - before
   any endpoint chain, for every entry mark (tunnel_ok is Spec.v's clause). *)
Theorem c40_tunnel_from_non_cluster_dropped : forall c filter e p,
  cfg_ok c -> lookup filter CH_INPUT = Some (filter_input c) ->
  tunnel_ok c filter e p = true.
Proof. exact tunnel_from_non_cluster_dropped. Qed.
Print Assumptions c40_tunnel_from_non_cluster_dropped.

(* 5. Model meets spec: Spec.v's per-packet oracle (all six clauses: failsafe in / out / responses, unknown workload
   interface, workload to host, tunnel; the pre-policy special cases excused, the FORWARD clause strict) accepts EVERY
   packet on EVERY table that contains the model's static chains, for ANY callee chains satisfying the shape conditions
   and the hand-back conditions collected in `wl_side` (ProofsMeets.v).  This is the statement the correspondence run
   instantiates: per case it checks model = real static chains and the shapes, then evaluates the same oracle. *)
Theorem c40_model_meets_spec : forall c raw mangle filter wl e disp hepfwd towl p,
  cfg_ok c -> ep_action_ok (c_ep_to_host c) -> c_ipvs c = false -> N.land (c_wg_mark c) (c_scr0 c) = 0 ->
  (forall q m, e_other e (2 * O_DST_LOCAL) (set_mark q m) = e_other e (2 * O_DST_LOCAL) q) ->
  installed c raw mangle filter -> hep_shapes raw mangle filter ->
  disp_ok raw (raw_hep_ok CH_FS_IN) CH_FROM_HEP = true -> disp_ok raw (raw_hep_ok CH_FS_OUT) CH_TO_HEP = true ->
  wl_side c filter e wl disp hepfwd towl ->
  pkt_ok false true c raw mangle filter wl e p = true.
Proof. exact model_meets_spec. Qed.
Print Assumptions c40_model_meets_spec.
