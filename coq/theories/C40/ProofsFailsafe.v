(* C40 — failsafe clause: a packet on a configured failsafe port is never dropped by Felix's chains, at any hook,
   whatever the policy chains contain. *)
From Coq Require Import List NArith Bool String Arith Lia.
From Verif.Common Require Import Packet Ipt.
From Verif.C08 Require Import ProofsMark.
From Verif.C40 Require Import Model Spec Shape Proofs.
Import ListNotations.
Open Scope N_scope.

(* ------------------------------------------------------------------ small facts *)
Lemma existsb_flat_map : forall {A B} (P : B -> bool) (g : A -> list B) l,
  existsb P (flat_map g l) = existsb (fun x => existsb P (g x)) l.
Proof.
  intros A B P g l. induction l as [|x l IH]; [reflexivity|].
  cbn [flat_map existsb]. rewrite existsb_app, IH. reflexivity.
Qed.

Lemma existsb_false_in : forall {A} (P : A -> bool) l x, existsb P l = false -> In x l -> P x = false.
Proof.
  intros A P l x H Hin. destruct (P x) eqn:E; [|reflexivity].
  assert (existsb P l = true) by (apply existsb_exists; exists x; auto). congruence.
Qed.

Lemma wl_iface_false : forall c n pfx, wl_iface c n = false -> In pfx (c_prefixes c) -> is_prefix pfx n = false.
Proof. intros c n pfx H Hin. exact (existsb_false_in _ _ _ H Hin). Qed.

Lemma in_range_self : forall x, in_ranges (port1 x) x = true.
Proof. intro x. unfold in_ranges, port1, in_range. cbn. rewrite N.leb_refl. reflexivity. Qed.

(* configuration sanity that the renderer itself guarantees (NewRenderer / Config.validate) *)
Definition is_allow_t (a : target) : Prop := a = AAccept \/ a = AReturn.
Definition is_deny_t (a : target) : Prop := a = ADrop \/ a = AReject.
Record cfg_ok (c : cfg) : Prop := {
  ok_fallow : is_allow_t (c_filter_allow c);
  ok_mallow : is_allow_t (c_mangle_allow c);
  ok_deny : is_deny_t (c_deny c);
  ok_scr0_nz : c_scr0 c <> 0
}.

(* ------------------------------------------------------------------ the failsafe chains accept *)
Section FsChains.
  Variables (cs : chains) (e : env).

  Lemma fs_rule_all_accept : forall v d s f, all_accept (fs_rule v d s f).
  Proof.
    intros v d s f r Hr. unfold fs_rule in Hr. destruct (fs_net f).
    - destruct Hr as [<-|[]]. reflexivity.
    - destruct Hr.
    - destruct (ipver_eqb (cidr_ver c) v); [|destruct Hr]. destruct Hr as [<-|[]]. reflexivity.
  Qed.
  Lemma all_accept_flat_map : forall {A} (g : A -> list irule) l, (forall x, all_accept (g x)) -> all_accept (flat_map g l).
  Proof.
    intros A g l H r Hr. apply in_flat_map in Hr. destruct Hr as [x [_ Hx]]. exact (H x r Hx).
  Qed.
  Lemma all_accept_app : forall a b, all_accept a -> all_accept b -> all_accept (a ++ b).
  Proof. intros a b Ha Hb r Hr. apply in_app_or in Hr. destruct Hr; auto. Qed.
  Lemma all_accept_opt : forall b rs, all_accept rs -> all_accept (opt_rules b rs).
  Proof. intros [|] rs H; [exact H|]. intros r []. Qed.
  Lemma failsafe_in_all_accept : forall t c, all_accept (failsafe_in t c).
  Proof.
    intros. unfold failsafe_in. apply all_accept_app; [|apply all_accept_opt];
      apply all_accept_flat_map; intro; apply fs_rule_all_accept.
  Qed.
  Lemma failsafe_out_all_accept : forall t c, all_accept (failsafe_out t c).
  Proof.
    intros. unfold failsafe_out. apply all_accept_app; [|apply all_accept_opt];
      apply all_accept_flat_map; intro; apply fs_rule_all_accept.
  Qed.

  (* one entry that covers the packet yields a rule that matches it *)
  Lemma fs_rule_hit : forall v (dport srcnet : bool) f p,
    pk_ver p = v ->
    fs_hit v (pk_proto p) (if dport then pk_dport p else pk_sport p) (if srcnet then pk_src p else pk_dst p) f = true ->
    existsb (fun r => matches e p (ir_match r)) (fs_rule v dport srcnet f) = true.
  Proof.
    intros v dport srcnet f p Hv H. unfold fs_hit in H.
    apply andb_true_iff in H. destruct H as [H Hnet]. apply andb_true_iff in H. destruct H as [Hpr Hpo].
    apply N.eqb_eq in Hpo.
    assert (Hport : match_one e p (if dport then MDstPorts false (port1 (fs_port f)) else MSrcPorts false (port1 (fs_port f))) = true).
    { destruct dport; cbn [match_one]; rewrite <- Hpo, in_range_self; reflexivity. }
    unfold fs_rule. destruct (fs_net f) as [| |n] eqn:En; cbn [net_has] in Hnet.
    - cbn [existsb R ir_match matches forallb]. rewrite Hport. cbn [match_one]. rewrite xorb_false_l, Hpr. reflexivity.
    - discriminate.
    - assert (Hvn : ipver_eqb (cidr_ver n) v = true).
      { unfold in_cidr in Hnet. apply andb_true_iff in Hnet. tauto. }
      rewrite Hvn. cbn [existsb R ir_match matches forallb]. rewrite Hport.
      destruct srcnet; cbn [match_one]; rewrite !xorb_false_l, Hpr, Hv, Hnet; reflexivity.
  Qed.

  Lemma fs_list_hit : forall v (dport srcnet : bool) l p,
    pk_ver p = v ->
    existsb (fs_hit v (pk_proto p) (if dport then pk_dport p else pk_sport p) (if srcnet then pk_src p else pk_dst p)) l = true ->
    existsb (fun r => matches e p (ir_match r)) (flat_map (fs_rule v dport srcnet) l) = true.
  Proof.
    intros v dport srcnet l p Hv H. rewrite existsb_flat_map. apply existsb_exists in H. destruct H as [f [Hin Hf]].
    apply existsb_exists. exists f. split; [exact Hin|]. apply fs_rule_hit; assumption.
  Qed.

  Lemma failsafe_in_accepts : forall n t c p, pk_ver p = c_ver c -> fs_in_pkt c p = true ->
    G cs e n (failsafe_in t c) p = RDone FAccept p.
  Proof.
    intros n t c p Hv H. rewrite go_all_accept by apply failsafe_in_all_accept.
    unfold failsafe_in. rewrite existsb_app. rewrite (fs_list_hit (c_ver c) true true _ p Hv H). reflexivity.
  Qed.
  Lemma failsafe_out_accepts : forall n t c p, pk_ver p = c_ver c -> fs_out_pkt c p = true ->
    G cs e n (failsafe_out t c) p = RDone FAccept p.
  Proof.
    intros n t c p Hv H. rewrite go_all_accept by apply failsafe_out_all_accept.
    unfold failsafe_out. rewrite existsb_app. rewrite (fs_list_hit (c_ver c) true false _ p Hv H). reflexivity.
  Qed.
  (* responses, raw table only *)
  Lemma failsafe_in_accepts_resp : forall n c p, pk_ver p = c_ver c -> fs_out_resp_pkt c p = true ->
    G cs e n (failsafe_in TRaw c) p = RDone FAccept p.
  Proof.
    intros n c p Hv H. rewrite go_all_accept by apply failsafe_in_all_accept.
    unfold failsafe_in. rewrite existsb_app. cbn [is_raw opt_rules].
    rewrite (fs_list_hit (c_ver c) false true _ p Hv H). rewrite orb_true_r. reflexivity.
  Qed.
  Lemma failsafe_out_accepts_resp : forall n c p, pk_ver p = c_ver c -> fs_in_resp_pkt c p = true ->
    G cs e n (failsafe_out TRaw c) p = RDone FAccept p.
  Proof.
    intros n c p Hv H. rewrite go_all_accept by apply failsafe_out_all_accept.
    unfold failsafe_out. rewrite existsb_app. cbn [is_raw opt_rules].
    rewrite (fs_list_hit (c_ver c) false false _ p Hv H). rewrite orb_true_r. reflexivity.
  Qed.
End FsChains.

(* ------------------------------------------------------------------ endpoint chains and dispatch chains *)
Section Callees.
  Variables (cs : chains) (e : env).
  Variable I : packet -> Prop.
  Hypothesis I_mark : forall p m, I p -> I (set_mark p m).

  (* a host endpoint chain decides every I-packet before its policy part, if the failsafe chain accepts I-packets *)
  Lemma hep_chain_term : forall fs fsb n body,
    lookup cs fs = Some fsb ->
    (forall p, I p -> G cs e n fsb p = RDone FAccept p) ->
    (forall p, I p -> ct_invalid p = false) ->
    hep_pre_ok fs body = true -> seg_term cs e I (S n) body.
  Proof.
    intros fs fsb n body Hl Hfs Hct. induction body as [|r rest IH]; intro H; [discriminate|].
    cbn [hep_pre_ok] in H. apply orb_true_iff in H. destruct H as [Hj|H].
    - (* the failsafe jump *)
      intros p Hp. destruct r as [ms a]. unfold is_jump_to in Hj. cbn [ir_match ir_action] in Hj.
      destruct ms; [|discriminate]. destruct a; try discriminate. apply String.eqb_eq in Hj. subst c.
      unfold G. cbn [go ir_match ir_action matches forallb]. rewrite Hl. rewrite run_S.
      change (go cs e (run n cs e) fsb p) with (G cs e n fsb p). rewrite (Hfs p Hp). exact Logic.I.
    - apply andb_true_iff in H. destruct H as [Hc Hrest]. specialize (IH Hrest).
      apply seg_cons_term; [|exact IH].
      destruct r as [ms a]. unfold ct_rule in Hc. cbn [ir_match ir_action] in Hc.
      destruct ms as [|m ms]; [discriminate|]. destruct m; try discriminate. destruct neg; [discriminate|].
      destruct ms; [|discriminate].
      destruct a; try discriminate.
      + apply (seg_rule_allow cs e I); right; reflexivity.
      + apply (seg_rule_allow cs e I); left; reflexivity.
      + apply (seg_rule_nomatch cs e I). intros p Hp. cbn [matches forallb match_one]. cbn [xorb].
        destruct (existsb (ctstate_eqb (pk_ct p)) states) eqn:Ex; [|reflexivity].
        apply existsb_exists in Ex. destruct Ex as [s [Hin Hs]].
        rewrite forallb_forall in Hc. specialize (Hc s Hin). specialize (Hct p Hp). unfold ct_invalid in Hct.
        destruct (pk_ct p), s; simpl in *; congruence.
      + apply (seg_rule_nomatch cs e I). intros p Hp. cbn [matches forallb match_one]. cbn [xorb].
        destruct (existsb (ctstate_eqb (pk_ct p)) states) eqn:Ex; [|reflexivity].
        apply existsb_exists in Ex. destruct Ex as [s [Hin Hs]].
        rewrite forallb_forall in Hc. specialize (Hc s Hin). specialize (Hct p Hp). unfold ct_invalid in Hct.
        destruct (pk_ct p), s; simpl in *; congruence.
      + apply (seg_rule_mark cs e I I_mark).
  Qed.

  (* dispatch: every rule returns or goes to an endpoint chain that decides *)
  Lemma disp_leaf_ok : forall okb n r,
    (forall b, okb b = true -> seg_term cs e I (S n) b) ->
    disp_leaf cs okb r = true -> seg_ok cs e I (S (S n)) [r].
  Proof.
    intros okb n [ms a] Hok H. unfold disp_leaf in H. cbn [ir_match ir_action] in H.
    apply andb_true_iff in H. destruct H as [_ H]. destruct a; try discriminate.
    - destruct (lookup cs c) as [b|] eqn:El; [|discriminate].
      apply (seg_rule_goto cs e I (S n) ms c b El). apply seg_term_ok. apply Hok, H.
    - apply (seg_rule_allow cs e I). right. reflexivity.
  Qed.
  Lemma disp_leaves_ok : forall okb n body,
    (forall b, okb b = true -> seg_term cs e I (S n) b) ->
    forallb (disp_leaf cs okb) body = true -> seg_ok cs e I (S (S n)) body.
  Proof.
    intros okb n body Hok. induction body as [|r rest IH]; intro H; [apply seg_nil|].
    cbn [forallb] in H. apply andb_true_iff in H. destruct H as [Hr Hrest].
    apply seg_cons; [apply (disp_leaf_ok okb n r Hok Hr)|apply IH, Hrest].
  Qed.
  Lemma disp_root_ok : forall okb n body,
    (forall b, okb b = true -> seg_term cs e I (S n) b) ->
    forallb (disp_root_rule cs okb) body = true -> seg_ok cs e I (S (S (S n))) body.
  Proof.
    intros okb n body Hok. induction body as [|r rest IH]; intro H; [apply seg_nil|].
    cbn [forallb] in H. apply andb_true_iff in H. destruct H as [Hr Hrest].
    apply seg_cons; [|apply IH, Hrest].
    unfold disp_root_rule in Hr. apply orb_true_iff in Hr. destruct Hr as [Hr|Hr].
    - apply (seg_ok_mono cs e I (S (S n))); [lia|]. apply (disp_leaf_ok okb n r Hok Hr).
    - destruct r as [ms a]. cbn [ir_match ir_action] in Hr. apply andb_true_iff in Hr. destruct Hr as [_ Hr].
      destruct a; try discriminate. destruct (lookup cs c) as [b|] eqn:El; [|discriminate].
      apply (seg_rule_goto cs e I (S (S n)) ms c b El). apply (disp_leaves_ok okb n b Hok Hr).
  Qed.

  Lemma hep_dispatch_ok : forall root fs fsb n body,
    lookup cs fs = Some fsb ->
    (forall p, I p -> G cs e n fsb p = RDone FAccept p) ->
    (forall p, I p -> ct_invalid p = false) ->
    hep_disp_ok cs root fs = true -> lookup cs root = Some body ->
    seg_ok cs e I (S (S (S n))) body.
  Proof.
    intros root fs fsb n body Hl Hfs Hct H Hb. unfold hep_disp_ok, disp_ok in H. rewrite Hb in H.
    apply (disp_root_ok (hep_pre_ok fs) n body); [|exact H].
    intros b Hbk. apply (hep_chain_term fs fsb n b Hl Hfs Hct Hbk).
  Qed.
End Callees.
