(* C40 — the side conditions of the drop / workload-to-host theorems in the vocabulary of Spec.v:
   "not an infrastructure packet" => no tunnel/wireguard rule of cali-INPUT fires;
   "not a pre-policy special case" => no special-case rule of cali-wl-to-host fires. *)
From Coq Require Import List NArith Bool String Arith Lia.
From Verif.Common Require Import Packet Ipt.
From Verif.C40 Require Import Model Spec Shape Proofs ProofsFailsafe ProofsFsHooks ProofsDrop ProofsWlHost.
Import ListNotations.
Open Scope N_scope.

Section Link.
  Variables (c : cfg) (e : env).

  Lemma infra_front_miss : forall p, infra_pkt c e p = false -> front_miss c e p.
  Proof.
    intros p H. unfold infra_pkt in H. apply orb_false_iff in H. destruct H as [H Hwg].
    apply orb_false_iff in H. destruct H as [Hip Hvx].
    unfold front_miss. intros r Hr. apply in_app_or in Hr. destruct Hr as [Hr|Hr].
    - unfold input_tunnel_rules in Hr. apply in_app_or in Hr. destruct Hr as [Hr|Hr]; [|apply in_app_or in Hr; destruct Hr as [Hr|Hr]].
      + destruct (is_v4 c && c_ipip c) eqn:Eg; [|destruct Hr]. unfold is_ipip in Hip. rewrite Eg in Hip. cbn [andb] in Hip.
        cbn [opt_rules] in Hr. destruct Hr as [<-|[<-|[]]]; cbn [R ir_match matches forallb match_one]; rewrite !xorb_false_l, Hip; reflexivity.
      + destruct (is_v4 c && c_vxlan4 c) eqn:Eg; [|destruct Hr].
        unfold is_vxlan_to_host, vxlan_here, oth in Hvx. rewrite Eg in Hvx. cbn [orb andb] in Hvx.
        cbn [opt_rules] in Hr. destruct Hr as [<-|[<-|[]]]; change (MOth false O_DST_LOCAL) with (MOther (2 * O_DST_LOCAL));
          cbn [R ir_match matches forallb match_one]; rewrite !xorb_false_l, in_ranges_port1;
          destruct (pk_proto p =? 17), (pk_dport p =? c_vxlan_port c), (e_other e (2 * O_DST_LOCAL) p);
          try reflexivity; try discriminate; rewrite ?andb_false_r; reflexivity.
      + destruct (is_v6 c && c_vxlan6 c) eqn:Eg; [|destruct Hr].
        unfold is_vxlan_to_host, vxlan_here, oth in Hvx. rewrite Eg in Hvx. rewrite orb_true_r in Hvx. cbn [andb] in Hvx.
        cbn [opt_rules] in Hr. destruct Hr as [<-|[<-|[]]]; change (MOth false O_DST_LOCAL) with (MOther (2 * O_DST_LOCAL));
          cbn [R ir_match matches forallb match_one]; rewrite !xorb_false_l, in_ranges_port1;
          destruct (pk_proto p =? 17), (pk_dport p =? c_vxlan_port c), (e_other e (2 * O_DST_LOCAL) p);
          try reflexivity; try discriminate; rewrite ?andb_false_r; reflexivity.
    - unfold input_wg_rules in Hr. unfold is_wg_to_host, oth in Hwg. apply in_app_or in Hr. destruct Hr as [Hr|Hr].
      + destruct (is_v4 c && c_wg4 c) eqn:Eg; [|destruct Hr]. try rewrite Eg in Hwg. cbn [andb] in Hwg.
        cbn [opt_rules] in Hr. destruct Hr as [<-|[]]. change (MOth false O_DST_LOCAL) with (MOther (2 * O_DST_LOCAL)).
        cbn [R ir_match matches forallb match_one]. rewrite !xorb_false_l, in_ranges_port1.
        destruct (pk_proto p =? 17), (pk_dport p =? c_wg_port4 c), (e_other e (2 * O_DST_LOCAL) p); try reflexivity;
          cbn [andb orb] in Hwg; discriminate.
      + destruct (is_v6 c && c_wg6 c) eqn:Eg; [|destruct Hr]. try rewrite Eg in Hwg. cbn [andb] in Hwg.
        cbn [opt_rules] in Hr. destruct Hr as [<-|[]]. change (MOth false O_DST_LOCAL) with (MOther (2 * O_DST_LOCAL)).
        cbn [R ir_match matches forallb match_one]. rewrite !xorb_false_l, in_ranges_port1.
        destruct (pk_proto p =? 17), (pk_dport p =? c_wg_port6 c), (e_other e (2 * O_DST_LOCAL) p); try reflexivity;
          cbn [andb orb] in Hwg; rewrite ?orb_true_r in Hwg; discriminate.
  Qed.

  Lemma host_cidr_v4 : forall ip a, in_cidr (host_cidr V4 ip) V4 a = N.eqb a ip.
  Proof. intros. unfold in_cidr, host_cidr. cbn [cidr_ver cidr_len cidr_addr ipver_eqb addr_width andb]. rewrite N.sub_diag, !N.shiftr_0_r. reflexivity. Qed.

  Lemma pre_exempt_miss : forall p, pk_ver p = c_ver c -> pre_policy_exempt c p = false -> pre_rules_miss c e p.
  Proof.
    intros p Hv H. unfold pre_policy_exempt in H. apply orb_false_iff in H. destruct H as [Hnd Hos].
    unfold pre_rules_miss, wl_to_host_pre. intros r Hr. apply in_app_or in Hr. destruct Hr as [Hr|Hr].
    - destruct (is_v6 c) eqn:E6; [|destruct Hr]. cbn [opt_rules] in Hr. apply in_map_iff in Hr. destruct Hr as [t [<- Ht]].
      unfold nd_pkt in Hnd. rewrite E6 in Hnd. cbn [andb] in Hnd.
      cbn [R ir_match matches forallb match_one]. rewrite !xorb_false_l.
      destruct (pk_proto p =? 58); [|reflexivity]. cbn [andb] in Hnd |- *.
      rewrite (existsb_false_in _ _ t Hnd Ht). reflexivity.
    - destruct (c_openstack c) eqn:Eo; [|destruct Hr]. cbn [opt_rules] in Hr.
      unfold openstack_pkt in Hos. rewrite Eo in Hos. cbn [andb] in Hos.
      apply orb_false_iff in Hos. destruct Hos as [Hos Hmeta]. apply orb_false_iff in Hos. destruct Hos as [Hdns Hdhcp].
      apply in_app_or in Hr. destruct Hr as [Hr|Hr].
      + destruct (c_os_meta c) as [[ip port]|]; [|destruct Hr].
        destruct (is_v4 c) eqn:E4; [|destruct Hr]. cbn [opt_rules] in Hr. destruct Hr as [<-|[]].
        assert (Hpv : pk_ver p = V4). { rewrite Hv. unfold is_v4 in E4. destruct (c_ver c); [reflexivity|discriminate]. }
        cbn [R ir_match matches forallb match_one]. rewrite !xorb_false_l, in_ranges_port1, Hpv, host_cidr_v4.
        cbn [andb] in Hmeta.
        destruct (pk_proto p =? 6), (pk_dst p =? ip), (pk_dport p =? port); try reflexivity; discriminate.
      + destruct Hr as [<-|[<-|[]]]; cbn [R ir_match matches forallb match_one]; rewrite !xorb_false_l, !in_ranges_port1.
        * destruct (pk_proto p =? 17), (pk_sport p =? (if is_v6 c then 546 else 68)), (pk_dport p =? (if is_v6 c then 547 else 67));
            try reflexivity; discriminate.
        * destruct (pk_proto p =? 17), (pk_dport p =? 53); try reflexivity; discriminate.
  Qed.
End Link.
