(* C40 — what the property says, as predicates on PACKETS and hook VERDICTS, independent of how the static
   chains are written.  Everything here is evaluated on the chains the REAL renderer produced (parsed into
   Common/Ipt.v syntax): the static chains plus real dispatch / endpoint / policy chains for generated endpoints.

   Property (properties.jsonl, C40):
     "Whatever policy is configured, traffic to or from the host on the configured failsafe ports is accepted on
      every path that host endpoint policy could block (untracked, pre-DNAT, normal), packets arriving from an
      interface matching a workload prefix that Felix does not know are dropped on both the input and forward
      paths, workload traffic to the host passes the workload's egress policy before the configured
      endpoint-to-host action, and tunnelled packets from non-cluster sources are dropped."

   Kernel assumption (stated, not proved): a packet visits the tables in the order raw -> mangle -> filter; a
   table's hook is Felix's top-level chain (cali-PREROUTING, cali-INPUT, ...) inserted at the head of the kernel
   chain; ACCEPT ends the current table only, DROP/REJECT ends the packet; between tables only the skb mark and
   the conntrack state may differ.  So "on every path" is stated hook by hook, for an arbitrary entry mark and
   conntrack state. *)
From Coq Require Import List NArith Bool String.
From Verif.Common Require Import Packet Ipt.
From Verif.C40 Require Import Model Shape.
Import ListNotations.
Open Scope N_scope.

(* ------------------------------------------------------------------ hook verdicts *)
Inductive verdict :=
| VAccept      (* this table accepted the packet *)
| VDrop        (* dropped or rejected: the packet is gone *)
| VCont        (* Felix's chain returned: the rest of the kernel chain (not Felix's) decides *)
| VErr.        (* missing chain / jump depth exceeded: never for well-formed tables *)
Definition verdict_eqb (a b : verdict) : bool :=
  match a, b with VAccept, VAccept | VDrop, VDrop | VCont, VCont | VErr, VErr => true | _, _ => false end.

Definition verdict_of (r : result) : verdict :=
  match r with
  | RDone FAccept _ => VAccept
  | RDone _ _ => VDrop
  | RFall _ | RReturn _ => VCont
  | RFuel | RBadChain => VErr
  end.

Definition FUEL : nat := 16.
Definition hook (cs : chains) (e : env) (top : string) (p : packet) : verdict :=
  verdict_of (run_chain FUEL cs e top p).
Definition not_dropped (v : verdict) : bool := match v with VAccept | VCont => true | _ => false end.

(* ------------------------------------------------------------------ vocabulary of the property *)
Definition wl_iface (c : cfg) (name : list N) : bool := existsb (fun pfx => is_prefix pfx name) (c_prefixes c).

(* a failsafe entry covers an address if its net (when given) parses, is of this IP version and contains it *)
Definition net_has (v : ipver) (n : fsnet) (a : N) : bool :=
  match n with FsNoNet => true | FsBadNet => false | FsNet cd => in_cidr cd v a end.
Definition fs_hit (v : ipver) (proto port addr : N) (f : fsport) : bool :=
  N.eqb proto (fs_proto f) && N.eqb port (fs_port f) && net_has v (fs_net f) addr.
(* inbound: to a failsafe port of the host, from the entry's net; outbound: to a failsafe port, to the entry's net *)
Definition fs_in_pkt (c : cfg) (p : packet) : bool :=
  existsb (fs_hit (c_ver c) (pk_proto p) (pk_dport p) (pk_src p)) (c_fs_in c).
Definition fs_out_pkt (c : cfg) (p : packet) : bool :=
  existsb (fs_hit (c_ver c) (pk_proto p) (pk_dport p) (pk_dst p)) (c_fs_out c).
(* responses, seen before conntrack (raw table only): from the failsafe port *)
Definition fs_out_resp_pkt (c : cfg) (p : packet) : bool :=    (* arriving: response to an outbound failsafe connection *)
  existsb (fs_hit (c_ver c) (pk_proto p) (pk_sport p) (pk_src p)) (c_fs_out c).
Definition fs_in_resp_pkt (c : cfg) (p : packet) : bool :=     (* leaving: response to an inbound failsafe connection *)
  existsb (fs_hit (c_ver c) (pk_proto p) (pk_sport p) (pk_dst p)) (c_fs_in c).

Definition oth (e : env) (id : N) (p : packet) : bool := e_other e (2 * id) p.
Definition in_set (e : env) (id : N) (a : N) : bool := e_sets e id (MemIP a).
Definition ct_invalid (p : packet) : bool := ctstate_eqb (pk_ct p) CtInvalid.
Definition ct_est (p : packet) : bool := ctstate_eqb (pk_ct p) CtEstablished || ctstate_eqb (pk_ct p) CtRelated.

(* Calico's own encapsulation / encryption traffic addressed to this host, as the tunnel clause sees it *)
Definition is_ipip (c : cfg) (p : packet) : bool := is_v4 c && c_ipip c && N.eqb (pk_proto p) 4.
Definition is_vxlan_to_host (c : cfg) (e : env) (p : packet) : bool :=
  vxlan_here c && N.eqb (pk_proto p) 17 && N.eqb (pk_dport p) (c_vxlan_port c) && oth e O_DST_LOCAL p.
Definition is_wg_to_host (c : cfg) (e : env) (p : packet) : bool :=
  N.eqb (pk_proto p) 17 && oth e O_DST_LOCAL p &&
  ((is_v4 c && c_wg4 c && N.eqb (pk_dport p) (c_wg_port4 c)) || (is_v6 c && c_wg6 c && N.eqb (pk_dport p) (c_wg_port6 c))).
(* ... from a cluster source (allow-listed) *)
Definition ipip_from_cluster (c : cfg) (e : env) (p : packet) : bool :=
  is_ipip c p && in_set e SET_ALL_HOSTS (pk_src p) && oth e O_DST_LOCAL p.
Definition vxlan_from_cluster (c : cfg) (e : env) (p : packet) : bool :=
  is_vxlan_to_host c e p && in_set e SET_VXLAN_NETS (pk_src p).
(* packets the tunnel clause (not the endpoint clauses) speaks about on the INPUT path *)
Definition infra_pkt (c : cfg) (e : env) (p : packet) : bool :=
  is_ipip c p || is_vxlan_to_host c e p || is_wg_to_host c e p.
Definition infra_allowed (c : cfg) (e : env) (p : packet) : bool :=
  ipip_from_cluster c e p || vxlan_from_cluster c e p || is_wg_to_host c e p.
Definition tunnel_non_cluster (c : cfg) (e : env) (p : packet) : bool :=
  (is_ipip c p && negb (in_set e SET_ALL_HOSTS (pk_src p)))
  || (is_vxlan_to_host c e p && negb (in_set e SET_VXLAN_NETS (pk_src p))).
(* where the tunnel clause outranks the failsafe clause: IPIP itself, and a failsafe port equal to the VXLAN port *)
Definition fs_excluded (c : cfg) (e : env) (p : packet) : bool := is_ipip c p || tunnel_non_cluster c e p.

(* Pre-policy exemptions written into cali-wl-to-host (static.go: "we're bypassing the egress rules for this
   traffic"): IPv6 neighbour/router discovery, and the OpenStack DHCP / DNS / metadata special cases.
   The property text has no such exemption; see `strictness` below. *)
Definition nd_pkt (c : cfg) (p : packet) : bool :=
  is_v6 c && N.eqb (pk_proto p) 58 && existsb (N.eqb (pk_icmp_type p)) icmpv6_nd_types.
Definition openstack_pkt (c : cfg) (p : packet) : bool :=
  c_openstack c &&
  ((N.eqb (pk_proto p) 17 && N.eqb (pk_dport p) 53)
   || (N.eqb (pk_proto p) 17 && N.eqb (pk_sport p) (if is_v6 c then 546 else 68) && N.eqb (pk_dport p) (if is_v6 c then 547 else 67))
   || (match c_os_meta c with
       | Some (ip, port) => is_v4 c && N.eqb (pk_proto p) 6 && N.eqb (pk_dst p) ip && N.eqb (pk_dport p) port
       | None => false
       end)).
Definition pre_policy_exempt (c : cfg) (p : packet) : bool := nd_pkt c p || openstack_pkt c p.

(* kube-proxy IPVS mode: traffic that IPVS forwards (to a service address, or to a node port of this host) also
   traverses INPUT; cali-INPUT marks it and hands it back, its policy is applied from OUTPUT.  The workload-to-host
   clause is about traffic to the host itself. *)
Definition ipvs_forwarded (c : cfg) (e : env) (p : packet) : bool :=
  c_ipvs c && negb (ct_est p) &&
  (negb (in_set e SET_THIS_HOST (pk_dst p))
   || ((N.eqb (pk_proto p) 6 || N.eqb (pk_proto p) 17) && in_ranges (c_nodeports c) (pk_dport p))).
(* host-originated packets carry no endpoint mark (it is only set on INPUT for IPVS-forwarded packets) *)
Definition no_ep_mark (c : cfg) (p : packet) : bool := negb (c_ipvs c) || N.eqb (N.land (pk_mark p) (c_endpoint c)) 0.

(* ------------------------------------------------------------------ one correspondence case *)
Record probe := { pr_pkt : packet; pr_other : list N }.     (* ids of the oracle matches that hold for this packet *)
Record case := {
  k_cfg : cfg;
  k_raw : chains; k_mangle : chains; k_filter : chains;      (* ALL chains the real renderer produced, per table *)
  k_hooks : list hookcall;                                   (* recorded InsertOrAppendRules / AppendRules calls of the REAL setUpIptablesNormal *)
  k_wl : list (list N * string);                             (* known workload interface -> its from-endpoint chain *)
  k_sets : list (N * list member);
  k_probes : list probe
}.

Definition probe_env (k : case) (pr : probe) : env :=
  {| e_sets := ipsets_of_list (k_sets k);
     e_other := other_of (fun id _ => existsb (N.eqb id) (pr_other pr)) |}.

Fixpoint lookup_wl (l : list (list N * string)) (name : list N) : option string :=
  match l with
  | [] => None
  | (n, ch) :: l' => if bytes_eqb n name then Some ch else lookup_wl l' name
  end.

(* ------------------------------------------------------------------ the four clauses as oracles *)
(* `strict_nd` / `strict_est`: whether the two known deviations are held against the implementation
   (true = the property as written).  The check runs strict; the relaxed forms only CLASSIFY a failure. *)
Section Clauses.
  Variables (strict_pre strict_est : bool).
  Variables (c : cfg) (raw mangle filter : chains) (wl : list (list N * string)) (e : env).

  (* 1. failsafes: never dropped by Felix's chains at any hook, whatever the policy chains contain *)
  Definition fs_in_ok (p : packet) : bool :=
    if fs_in_pkt c p && negb (wl_iface c (pk_in p)) && negb (ct_invalid p) && negb (fs_excluded c e p)
    then not_dropped (hook raw e CH_PREROUTING p) && not_dropped (hook mangle e CH_PREROUTING p)
         && not_dropped (hook filter e CH_INPUT p)
    else true.
  Definition fs_out_ok (p : packet) : bool :=
    if fs_out_pkt c p && negb (wl_iface c (pk_out p)) && negb (ct_invalid p) && no_ep_mark c p
    then not_dropped (hook raw e CH_OUTPUT p) && not_dropped (hook filter e CH_OUTPUT p)
         && not_dropped (hook mangle e CH_POSTROUTING p)
    else true.
  (* responses on the untracked path (raw table sees them before conntrack) *)
  Definition fs_resp_ok (p : packet) : bool :=
    (if fs_out_resp_pkt c p && negb (wl_iface c (pk_in p)) then not_dropped (hook raw e CH_PREROUTING p) else true)
    && (if fs_in_resp_pkt c p && negb (wl_iface c (pk_out p)) then not_dropped (hook raw e CH_OUTPUT p) else true).

  (* 2. unknown workload interface: dropped on INPUT and on FORWARD *)
  (* known deviation: an ESTABLISHED/RELATED packet is ACCEPTed by the conntrack rule at the head of an endpoint
     chain that cali-FORWARD visits BEFORE the from-workload dispatch: the forward chain of a wildcard host
     endpoint, or the to-workload chain when the output interface matches an EARLIER workload prefix *)
  Definition accepts_in (ch : string) (p : packet) : bool :=
    match run_chain FUEL filter e ch p with RDone FAccept _ => true | _ => false end.
  Definition est_accepted_early (p : packet) : bool :=
    ct_est p && (accepts_in CH_FROM_HEP_FWD p || accepts_in CH_TO_WL p).
  Definition unknown_ok (p : packet) : bool :=
    if wl_iface c (pk_in p) && negb (match lookup_wl wl (pk_in p) with Some _ => true | None => false end)
    then (infra_allowed c e p || (negb strict_pre && pre_policy_exempt c p)
          || verdict_eqb (hook filter e CH_INPUT p) VDrop)
         && ((negb strict_est && est_accepted_early p)
             || verdict_eqb (hook filter e CH_FORWARD p) VDrop)
    else true.

  (* 3. workload to host: the workload's egress (from-endpoint) chain decides first; only what it lets
        through meets the configured endpoint-to-host action *)
  Definition action_verdict (a : target) : verdict :=
    match a with AAccept => VAccept | ADrop | AReject => VDrop | AReturn => VCont | _ => VErr end.
  Definition wl_host_expected (ch : string) (p : packet) : verdict :=
    match run_chain FUEL filter e ch p with
    | RDone FAccept _ => VAccept
    | RDone _ _ => VDrop
    | RFall _ | RReturn _ => action_verdict (c_ep_to_host c)
    | _ => VErr
    end.
  Definition wl_host_ok (p : packet) : bool :=
    match lookup_wl wl (pk_in p) with
    | Some ch =>
        if wl_iface c (pk_in p) && negb (infra_pkt c e p) && negb (negb strict_pre && pre_policy_exempt c p)
           && negb (ipvs_forwarded c e p)
        then verdict_eqb (hook filter e CH_INPUT p) (wl_host_expected ch p)
        else true
    | None => true
    end.

  (* 4. tunnelled packets from non-cluster sources are dropped (INPUT path: they are addressed to the host) *)
  Definition tunnel_ok (p : packet) : bool :=
    if tunnel_non_cluster c e p then verdict_eqb (hook filter e CH_INPUT p) VDrop else true.

  Definition pkt_ok (p : packet) : bool :=
    if ipver_eqb (pk_ver p) (c_ver c)
    then fs_in_ok p && fs_out_ok p && fs_resp_ok p && unknown_ok p && wl_host_ok p && tunnel_ok p
    else true.
End Clauses.

(* 0. "on every path": the kernel's own chains, as the REAL setUpIptablesNormal wires them (k_hooks: inserted rules at
      the head, appended rules at the end), give Felix's top-level chain the first word: whenever that chain reaches a
      terminal verdict, it is the kernel chain's verdict; when it returns, nothing of Felix's drops the packet later *)
Definition kernel_rules (hs : list hookcall) (t : N) (kc : string) : list irule :=
  flat_map (fun h => match h with (t', kc', ap, rs) => if N.eqb t t' && String.eqb kc kc' && negb ap then rs else [] end) hs
  ++ flat_map (fun h => match h with (t', kc', ap, rs) => if N.eqb t t' && String.eqb kc kc' && ap then rs else [] end) hs.
Definition wired_ok (hs : list hookcall) (t : N) (cs : chains) (e : env) (kc top : string) (p : packet) : bool :=
  let kv := verdict_of (run FUEL cs e (kernel_rules hs t kc) p) in
  match hook cs e top p with
  | VAccept => verdict_eqb kv VAccept
  | VDrop => verdict_eqb kv VDrop
  | VCont => not_dropped kv
  | VErr => true
  end.
Definition wiring_ok (k : case) (e : env) (p : packet) : bool :=
  wired_ok (k_hooks k) T_RAW (k_raw k) e "PREROUTING" CH_PREROUTING p
  && wired_ok (k_hooks k) T_RAW (k_raw k) e "OUTPUT" CH_OUTPUT p
  && wired_ok (k_hooks k) T_MANGLE (k_mangle k) e "PREROUTING" CH_PREROUTING p
  && wired_ok (k_hooks k) T_MANGLE (k_mangle k) e "POSTROUTING" CH_POSTROUTING p
  && wired_ok (k_hooks k) T_FILTER (k_filter k) e "INPUT" CH_INPUT p
  && wired_ok (k_hooks k) T_FILTER (k_filter k) e "FORWARD" CH_FORWARD p
  && wired_ok (k_hooks k) T_FILTER (k_filter k) e "OUTPUT" CH_OUTPUT p.

Definition probe_ok (sp se : bool) (k : case) (pr : probe) : bool :=
  pkt_ok sp se (k_cfg k) (k_raw k) (k_mangle k) (k_filter k) (k_wl k) (probe_env k pr) (pr_pkt pr)
  && (negb (ipver_eqb (pk_ver (pr_pkt pr)) (c_ver (k_cfg k))) || wiring_ok k (probe_env k pr) (pr_pkt pr)).

(* the specification oracle, on the implementation's chains *)
Definition ok_case (k : case) : bool := forallb (probe_ok true true k) (k_probes k).

(* ------------------------------------------------------------------ model == implementation (structural) *)
Definition hookcall_eqb (a b : hookcall) : bool :=
  match a, b with
  | (t, ch, ap, rs), (t', ch', ap', rs') => N.eqb t t' && String.eqb ch ch' && Bool.eqb ap ap' && rules_eqb rs rs'
  end.
Definition chain_agrees (impl : chains) (nb : string * list irule) : bool :=
  match lookup impl (fst nb) with Some b => rules_eqb b (snd nb) | None => false end.
(* the shape conditions the theorems assume of the chains the static chains call hold of the real ones *)
Definition shapes_ok (k : case) : bool :=
  hep_disp_ok (k_raw k) CH_FROM_HEP CH_FS_IN && hep_disp_ok (k_raw k) CH_TO_HEP CH_FS_OUT
  && disp_ok (k_raw k) (raw_hep_ok CH_FS_IN) CH_FROM_HEP && disp_ok (k_raw k) (raw_hep_ok CH_FS_OUT) CH_TO_HEP
  && hep_disp_ok (k_mangle k) CH_FROM_HEP CH_FS_IN && hep_disp_ok (k_mangle k) CH_TO_HEP CH_FS_OUT
  && match lookup (k_mangle k) CH_EGRESS_DSCP with Some b => noop_chain b | None => false end
  && (negb (c_ipvs (k_cfg k)) || setmark_ok (k_filter k) (c_prefixes (k_cfg k)))
  && hep_disp_ok (k_filter k) CH_FROM_HEP CH_FS_IN && hep_disp_ok (k_filter k) CH_TO_HEP CH_FS_OUT
  && match lookup (k_filter k) CH_FROM_WL with
     | Some b => wl_root_ok (k_filter k) b
                 && forallb (fun nc => opt_eqb String.eqb (wl_target (k_filter k) b (fst nc)) (Some (snd nc))) (k_wl k)
                 && forallb (fun n => match lookup_wl (k_wl k) n with Some _ => true | None => false end) (wl_names (k_filter k) b)
     | None => false
     end.

Definition agrees (k : case) : bool :=
  shapes_ok k &&
  forallb (chain_agrees (k_raw k)) (static_raw (k_cfg k))
  && forallb (chain_agrees (k_mangle k)) (static_mangle (k_cfg k))
  && forallb (chain_agrees (k_filter k)) (static_filter (k_cfg k))
  && list_eqb hookcall_eqb (k_hooks k) (hook_wiring (k_cfg k)).

Definition check_case (k : case) : bool * bool := (agrees k, ok_case k).

(* classification of an oracle failure: does it vanish when ONLY the named deviation is excused? *)
Definition classify_pre_policy (k : case) : bool * bool := (forallb (probe_ok false true k) (k_probes k), false).
Definition classify_est_early (k : case) : bool * bool := (forallb (probe_ok true false k) (k_probes k), false).
