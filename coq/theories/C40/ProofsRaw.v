(* C40 — failsafe clause at the raw PREROUTING hook (mark-sensitive part: the packet is not from a workload
   interface, so the "from workload" scratch bit stays clear and neither cali-rpf-skip nor the RPF drop applies). *)
From Coq Require Import List NArith Bool String Arith Lia.
From Verif.Common Require Import Packet Ipt.
From Verif.C08 Require Import ProofsMark.
From Verif.C40 Require Import Model Spec Shape Proofs ProofsFailsafe ProofsFsHooks.
Import ListNotations.
Open Scope N_scope.

Section Raw.
  Variables (c : cfg) (cs : chains) (e : env).
  Hypothesis Hc : cfg_ok c.
  Hypothesis Hlocal : forall p m, e_other e (2 * O_DST_LOCAL) (set_mark p m) = e_other e (2 * O_DST_LOCAL) p.

  Lemma scr0_in_all : N.land (c_scr0 c) (all_bits c) = c_scr0 c.
  Proof.
    unfold all_bits. apply N.bits_inj. intro i. rewrite !N.land_spec, !N.lor_spec.
    destruct (N.testbit (c_scr0 c) i), (N.testbit (c_accept c) i), (N.testbit (c_pass c) i), (N.testbit (c_scr1 c) i); reflexivity.
  Qed.

  Lemma cleared_no_scr0 : forall m, N.land (apply_mark (lnot32 (all_bits c)) 0 m) (c_scr0 c) = 0.
  Proof.
    intro m. apply N.bits_inj. intro i. rewrite N.land_spec, apply_mark_bit, lnot32_bit, !N.bits_0.
    pose proof (land_eq_bit _ _ _ i scr0_in_all) as H.
    destruct (N.testbit (c_scr0 c) i), (N.testbit (all_bits c) i), (N.testbit m i), (i <? 32); try reflexivity; discriminate.
  Qed.

  (* rules that cannot stop the packet: no match, or a no-op target *)
  Lemma go_passes : forall n rs p,
    (forall r, In r rs -> matches e p (ir_match r) = false \/ is_noop (ir_action r)) -> G cs e n rs p = RFall p.
  Proof.
    intros n rs p. induction rs as [|r rs IH]; intro H; [reflexivity|].
    unfold G in *. cbn [go]. destruct (H r (or_introl eq_refl)) as [Hm|Hn].
    - rewrite Hm. apply IH. intros x Hx. apply H. right. exact Hx.
    - destruct (matches e p (ir_match r)); [|apply IH; intros x Hx; apply H; right; exact Hx].
      destruct Hn as [ E | [ E | [ E | E ] ] ]; rewrite E; apply IH; intros x Hx; apply H; right; exact Hx.
  Qed.

  Lemma G_app_fall : forall n a b p p', G cs e n a p = RFall p' -> G cs e n (a ++ b) p = G cs e n b p'.
  Proof. intros n a b p p' H. unfold G in *. rewrite go_app, H. reflexivity. Qed.

  Definition scr0_clear (p : packet) : Prop := N.land (pk_mark p) (c_scr0 c) = 0.

  Lemma scr0_set_nomatch : forall p, scr0_clear p -> N.eqb (N.land (pk_mark p) (c_scr0 c)) (c_scr0 c) = false.
  Proof.
    intros p H. unfold scr0_clear in H. rewrite H. apply N.eqb_neq. intro E. apply (ok_scr0_nz c Hc). symmetry. exact E.
  Qed.

  (* everything after the Wireguard jump, from a packet that keeps the invariant and has the scratch bit clear *)
  Lemma raw_rest_ok : forall n disp q,
    lookup cs CH_FS_IN = Some (failsafe_in TRaw c) ->
    lookup cs CH_FROM_HEP = Some disp -> hep_disp_ok cs CH_FROM_HEP CH_FS_IN = true ->
    I_in c e q -> scr0_clear q ->
    okres (I_in c e) (G cs e (S (S (S (S n))))
      (vxlan_notrack c ++ raw_mark_wl_rules c ++ [R [MMark false (c_scr0 c) (c_scr0 c)] (AJump CH_RPF_SKIP)] ++ rpf_rules c ++
       [R [m_clear (c_scr0 c)] (AJump CH_FROM_HEP); R [m_bit_set (c_accept c)] AAccept]) q).
  Proof.
    intros n disp p1 Hfs Hd Hshape Hp1 Hs.
    set (N4 := S (S (S (S n)))).
    rewrite (G_app_fall _ _ _ _ p1).
    2:{ apply go_passes. intros r Hr. unfold vxlan_notrack in Hr. destruct (vxlan_here c); [|destruct Hr].
        destruct Hr as [<-|[]]. right. right; right; right; reflexivity. }
    rewrite (G_app_fall _ _ _ _ p1).
    2:{ apply go_passes. intros r Hr. unfold raw_mark_wl_rules in Hr. apply in_map_iff in Hr. destruct Hr as [pfx [<- Hin]].
        left. apply (I_in_not_wl c e p1 pfx Hp1 Hin). }
    rewrite (G_app_fall _ _ _ _ p1).
    2:{ apply go_passes. intros r Hr. destruct Hr as [<-|[]]. left. cbn [R ir_match matches forallb match_one].
        rewrite xorb_false_l. rewrite (scr0_set_nomatch p1 Hs). reflexivity. }
    (* RPF rules: the OpenStack DHCP rule may accept; the drop needs the scratch bit *)
    unfold G. rewrite go_app. fold (G cs e N4).
    assert (Hrpf : G cs e N4 (rpf_rules c) p1 = RFall p1 \/ G cs e N4 (rpf_rules c) p1 = RDone FAccept p1).
    { unfold rpf_rules, G. rewrite go_app.
      assert (Hd2 : go cs e (run N4 cs e) [R [MMark false (c_scr0 c) (c_scr0 c); MOth false O_RPF_FAIL] (c_deny c)] p1 = RFall p1).
      { cbn [go R ir_match ir_action matches forallb match_one]. rewrite xorb_false_l.
        rewrite (scr0_set_nomatch p1 Hs). reflexivity. }
      destruct (c_openstack c && is_v4 c); cbn [opt_rules].
      - cbn [go R ir_match ir_action].
        destruct (matches e p1 _); [right; reflexivity|]. left. exact Hd2.
      - cbn [go]. left. exact Hd2. }
    destruct Hrpf as [-> | ->]; [|exact Logic.I].
    (* the untracked host endpoint dispatch, then the accept-bit rule: mark-insensitive from here *)
    assert (Htail : seg_ok cs e (I_in c e) N4 [R [m_clear (c_scr0 c)] (AJump CH_FROM_HEP); R [m_bit_set (c_accept c)] AAccept]).
    { apply seg_cons; [|apply seg_cons; [apply seg_rule_allow; left; reflexivity|apply seg_nil]].
      apply (seg_rule_jump cs e (I_in c e) _ _ CH_FROM_HEP disp Hd).
      apply (hep_dispatch_ok cs e (I_in c e) (I_in_mark c e Hlocal) CH_FROM_HEP CH_FS_IN _ n disp Hfs); try assumption.
      - intros q (H1 & H2 & _). apply failsafe_in_accepts; assumption.
      - apply I_in_ct. }
    exact (Htail p1 Hp1).
  Qed.

  (* the Wireguard incoming-mark chain only RETURNs or sets the Wireguard mark bit *)
  Lemma wg_chain_result : forall n rets m p,
    (forall r, In r rets -> ir_action r = AReturn) ->
    G cs e n (rets ++ [R [] (ASetMark m)]) p = RReturn p
    \/ G cs e n (rets ++ [R [] (ASetMark m)]) p = RFall (set_mark p (apply_mark (lnot32 m) m (pk_mark p))).
  Proof.
    intros n rets m p. induction rets as [|r rets IH]; intro H.
    - right. reflexivity.
    - unfold G in *. cbn [app go]. destruct (matches e p (ir_match r)).
      + rewrite (H r (or_introl eq_refl)). left. reflexivity.
      + apply IH. intros x Hx. apply H. right. exact Hx.
  Qed.

  Lemma set_disjoint_keeps_clear : forall m old, N.land m (c_scr0 c) = 0 -> N.land old (c_scr0 c) = 0 ->
    N.land (apply_mark (lnot32 m) m old) (c_scr0 c) = 0.
  Proof.
    intros m old Hm Ho. apply N.bits_inj. intro i. rewrite N.land_spec, apply_mark_bit, lnot32_bit, !N.bits_0.
    pose proof (land_eq_bit _ _ _ i Hm) as H1. pose proof (land_eq_bit _ _ _ i Ho) as H2. rewrite N.bits_0 in H1, H2.
    destruct (N.testbit (c_scr0 c) i), (N.testbit m i), (N.testbit old i), (i <? 32); try reflexivity; discriminate.
  Qed.

  (* with the Wireguard jump the Wireguard mark must not overlap the scratch bit (Config.validate) *)
  Theorem fs_in_raw_prerouting : forall n disp,
    (c_wg_raw c = true -> lookup cs CH_WG_MARK = Some (wg_mark_chain c) /\ N.land (c_wg_mark c) (c_scr0 c) = 0) ->
    lookup cs CH_FS_IN = Some (failsafe_in TRaw c) ->
    lookup cs CH_FROM_HEP = Some disp -> hep_disp_ok cs CH_FROM_HEP CH_FS_IN = true ->
    seg_ok cs e (I_in c e) (S (S (S (S n)))) (raw_prerouting c).
  Proof.
    intros n disp Hwg Hfs Hd Hshape p Hp.
    set (p1 := set_mark p (apply_mark (lnot32 (all_bits c)) 0 (pk_mark p))).
    assert (Hp1 : I_in c e p1) by (apply (I_in_mark c e Hlocal), Hp).
    assert (Hs : scr0_clear p1) by (unfold scr0_clear, p1; cbn [pk_mark set_mark]; apply cleared_no_scr0).
    unfold raw_prerouting.
    rewrite (G_app_fall _ _ _ _ p1) by reflexivity.
    destruct (c_wg_raw c) eqn:Ew; cbn [opt_rules].
    - destruct (Hwg eq_refl) as [Hl Hdisj].
      set (rets := [R [MInIface false [108; 111] false] AReturn; R [MInIface false (c_wg_if4 c) false] AReturn;
                    R [MInIface false (c_wg_if6 c) false] AReturn]
                   ++ map (fun pfx => R [MInIface false pfx true] AReturn) (c_prefixes c)).
      assert (Hch : wg_mark_chain c = rets ++ [R [] (ASetMark (c_wg_mark c))]).
      { unfold wg_mark_chain, rets. rewrite app_assoc. reflexivity. }
      assert (Hrets : forall r, In r rets -> ir_action r = AReturn).
      { intros r Hr. unfold rets in Hr. apply in_app_or in Hr. destruct Hr as [Hr|Hr].
        - destruct Hr as [<-|[<-|[<-|[]]]]; reflexivity.
        - apply in_map_iff in Hr. destruct Hr as [pfx [<- _]]. reflexivity. }
      unfold G. rewrite go_app. cbn [go R ir_match ir_action matches forallb]. rewrite Hl, run_S, Hch.
      destruct (wg_chain_result (S (S (S n))) rets (c_wg_mark c) p1 Hrets) as [E|E]; rewrite E.
      + apply (raw_rest_ok n disp p1 Hfs Hd Hshape Hp1 Hs).
      + apply (raw_rest_ok n disp _ Hfs Hd Hshape).
        * apply (I_in_mark c e Hlocal), Hp1.
        * unfold scr0_clear. cbn [pk_mark set_mark]. apply set_disjoint_keeps_clear; assumption.
    - rewrite (G_app_fall _ _ _ _ p1) by reflexivity.
      apply (raw_rest_ok n disp p1 Hfs Hd Hshape Hp1 Hs).
  Qed.
End Raw.
