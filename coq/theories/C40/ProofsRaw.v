(* C40 — failsafe clause at the raw PREROUTING hook (mark-sensitive part: the packet is not from a workload
   interface, so the "from workload" scratch bit stays clear and neither cali-rpf-skip nor the RPF drop applies). *)
From Coq Require Import List NArith Bool String Arith Lia.
From Verif.Common Require Import Packet Ipt.
From Verif.C08 Require Import ProofsMark.
From Verif.C40 Require Import Model Spec Shape Proofs ProofsFailsafe ProofsFsHooks.
Import ListNotations.
Open Scope N_scope.

Section Raw.
  Variables (c : cfg) (cs : chains) (e : env).
  Hypothesis Hc : cfg_ok c.
  Hypothesis Hlocal : forall p m, e_other e (2 * O_DST_LOCAL) (set_mark p m) = e_other e (2 * O_DST_LOCAL) p.

  Lemma scr0_in_all : N.land (c_scr0 c) (all_bits c) = c_scr0 c.
  Proof.
    unfold all_bits. apply N.bits_inj. intro i. rewrite !N.land_spec, !N.lor_spec.
    destruct (N.testbit (c_scr0 c) i), (N.testbit (c_accept c) i), (N.testbit (c_pass c) i), (N.testbit (c_scr1 c) i); reflexivity.
  Qed.

  Lemma cleared_no_scr0 : forall m, N.land (apply_mark (lnot32 (all_bits c)) 0 m) (c_scr0 c) = 0.
  Proof.
    intro m. apply N.bits_inj. intro i. rewrite N.land_spec, apply_mark_bit, lnot32_bit, !N.bits_0.
    pose proof (land_eq_bit _ _ _ i scr0_in_all) as H.
    destruct (N.testbit (c_scr0 c) i), (N.testbit (all_bits c) i), (N.testbit m i), (i <? 32); try reflexivity; discriminate.
  Qed.

  (* rules that cannot stop the packet: no match, or a no-op target *)
  Lemma go_passes : forall n rs p,
    (forall r, In r rs -> matches e p (ir_match r) = false \/ is_noop (ir_action r)) -> G cs e n rs p = RFall p.
  Proof.
    intros n rs p. induction rs as [|r rs IH]; intro H; [reflexivity|].
    unfold G in *. cbn [go]. destruct (H r (or_introl eq_refl)) as [Hm|Hn].
    - rewrite Hm. apply IH. intros x Hx. apply H. right. exact Hx.
    - destruct (matches e p (ir_match r)); [|apply IH; intros x Hx; apply H; right; exact Hx].
      destruct Hn as [ E | [ E | [ E | E ] ] ]; rewrite E; apply IH; intros x Hx; apply H; right; exact Hx.
  Qed.

  Lemma G_app_fall : forall n a b p p', G cs e n a p = RFall p' -> G cs e n (a ++ b) p = G cs e n b p'.
  Proof. intros n a b p p' H. unfold G in *. rewrite go_app, H. reflexivity. Qed.

  Definition scr0_clear (p : packet) : Prop := N.land (pk_mark p) (c_scr0 c) = 0.

  Lemma scr0_set_nomatch : forall p, scr0_clear p -> N.eqb (N.land (pk_mark p) (c_scr0 c)) (c_scr0 c) = false.
  Proof.
    intros p H. unfold scr0_clear in H. rewrite H. apply N.eqb_neq. intro E. apply (ok_scr0_nz c Hc). symmetry. exact E.
  Qed.

  (* the Wireguard incoming-mark chain only RETURNs or sets the Wireguard mark bit *)
  Lemma wg_chain_result : forall n rets m p,
    (forall r, In r rets -> ir_action r = AReturn) ->
    G cs e n (rets ++ [R [] (ASetMark m)]) p = RReturn p
    \/ G cs e n (rets ++ [R [] (ASetMark m)]) p = RFall (set_mark p (apply_mark (lnot32 m) m (pk_mark p))).
  Proof.
    intros n rets m p. induction rets as [|r rets IH]; intro H.
    - right. reflexivity.
    - unfold G in *. cbn [app go]. destruct (matches e p (ir_match r)).
      + rewrite (H r (or_introl eq_refl)). left. reflexivity.
      + apply IH. intros x Hx. apply H. right. exact Hx.
  Qed.

  Lemma set_disjoint_keeps_clear : forall m old, N.land m (c_scr0 c) = 0 -> N.land old (c_scr0 c) = 0 ->
    N.land (apply_mark (lnot32 m) m old) (c_scr0 c) = 0.
  Proof.
    intros m old Hm Ho. apply N.bits_inj. intro i. rewrite N.land_spec, apply_mark_bit, lnot32_bit, !N.bits_0.
    pose proof (land_eq_bit _ _ _ i Hm) as H1. pose proof (land_eq_bit _ _ _ i Ho) as H2. rewrite N.bits_0 in H1, H2.
    destruct (N.testbit (c_scr0 c) i), (N.testbit m i), (N.testbit old i), (i <? 32); try reflexivity; discriminate.
  Qed.

  (* ---------------------------------------------------------------- generic in the invariant *)
  Section Gen.
    Variable I : packet -> Prop.
    Hypothesis I_mark : forall p m, I p -> I (set_mark p m).
    Hypothesis I_nowl : forall p pfx, I p -> In pfx (c_prefixes c) -> matches e p [MInIface false pfx true] = false.
    Definition raw_tail : list irule := [R [m_clear (c_scr0 c)] (AJump CH_FROM_HEP); R [m_bit_set (c_accept c)] AAccept].
    Variable n : nat.
    Hypothesis Htail : seg_ok cs e I (S (S (S (S n)))) raw_tail.

    (* everything after the Wireguard jump, from a packet that keeps the invariant and has the scratch bit clear *)
    Lemma raw_rest_ok : forall q, I q -> scr0_clear q ->
      okres I (G cs e (S (S (S (S n))))
        (vxlan_notrack c ++ raw_mark_wl_rules c ++ [R [MMark false (c_scr0 c) (c_scr0 c)] (AJump CH_RPF_SKIP)] ++ rpf_rules c ++ raw_tail) q).
    Proof.
      intros p1 Hp1 Hs.
      set (N4 := S (S (S (S n)))).
      rewrite (G_app_fall _ _ _ _ p1).
      2:{ apply go_passes. intros r Hr. unfold vxlan_notrack in Hr. destruct (vxlan_here c); [|destruct Hr].
          destruct Hr as [<-|[]]. right. right; right; right; reflexivity. }
      rewrite (G_app_fall _ _ _ _ p1).
      2:{ apply go_passes. intros r Hr. unfold raw_mark_wl_rules in Hr. apply in_map_iff in Hr. destruct Hr as [pfx [<- Hin]].
          left. apply (I_nowl p1 pfx Hp1 Hin). }
      rewrite (G_app_fall _ _ _ _ p1).
      2:{ apply go_passes. intros r Hr. destruct Hr as [<-|[]]. left. cbn [R ir_match matches forallb match_one].
          rewrite xorb_false_l. rewrite (scr0_set_nomatch p1 Hs). reflexivity. }
      unfold G. rewrite go_app. fold (G cs e N4).
      assert (Hrpf : G cs e N4 (rpf_rules c) p1 = RFall p1 \/ G cs e N4 (rpf_rules c) p1 = RDone FAccept p1).
      { unfold rpf_rules, G. rewrite go_app.
        assert (Hd2 : go cs e (run N4 cs e) [R [MMark false (c_scr0 c) (c_scr0 c); MOth false O_RPF_FAIL] (c_deny c)] p1 = RFall p1).
        { cbn [go R ir_match ir_action matches forallb match_one]. rewrite xorb_false_l.
          rewrite (scr0_set_nomatch p1 Hs). reflexivity. }
        destruct (c_openstack c && is_v4 c); cbn [opt_rules].
        - cbn [go R ir_match ir_action].
          destruct (matches e p1 _); [right; reflexivity|]. left. exact Hd2.
        - cbn [go]. left. exact Hd2. }
      destruct Hrpf as [-> | ->]; [|exact Logic.I].
      exact (Htail p1 Hp1).
    Qed.

    (* with the Wireguard jump the Wireguard mark must not overlap the scratch bit (Config.validate) *)
    Theorem raw_prerouting_ok :
      (c_wg_raw c = true -> lookup cs CH_WG_MARK = Some (wg_mark_chain c) /\ N.land (c_wg_mark c) (c_scr0 c) = 0) ->
      seg_ok cs e I (S (S (S (S n)))) (raw_prerouting c).
    Proof.
      intros Hwg p Hp.
      set (p1 := set_mark p (apply_mark (lnot32 (all_bits c)) 0 (pk_mark p))).
      assert (Hp1 : I p1) by (apply I_mark, Hp).
      assert (Hs : scr0_clear p1) by (unfold scr0_clear, p1; cbn [pk_mark set_mark]; apply cleared_no_scr0).
      unfold raw_prerouting.
      rewrite (G_app_fall _ _ _ _ p1) by reflexivity.
      destruct (c_wg_raw c) eqn:Ew; cbn [opt_rules].
      - destruct (Hwg eq_refl) as [Hl Hdisj].
        set (rets := [R [MInIface false [108; 111] false] AReturn; R [MInIface false (c_wg_if4 c) false] AReturn;
                      R [MInIface false (c_wg_if6 c) false] AReturn]
                     ++ map (fun pfx => R [MInIface false pfx true] AReturn) (c_prefixes c)).
        assert (Hch : wg_mark_chain c = rets ++ [R [] (ASetMark (c_wg_mark c))]).
        { unfold wg_mark_chain, rets. rewrite app_assoc. reflexivity. }
        assert (Hrets : forall r, In r rets -> ir_action r = AReturn).
        { intros r Hr. unfold rets in Hr. apply in_app_or in Hr. destruct Hr as [Hr|Hr].
          - destruct Hr as [<-|[<-|[<-|[]]]]; reflexivity.
          - apply in_map_iff in Hr. destruct Hr as [pfx [<- _]]. reflexivity. }
        unfold G. rewrite go_app. cbn [go R ir_match ir_action matches forallb]. rewrite Hl, run_S, Hch.
        destruct (wg_chain_result (S (S (S n))) rets (c_wg_mark c) p1 Hrets) as [E|E]; rewrite E.
        + apply (raw_rest_ok p1 Hp1 Hs).
        + apply raw_rest_ok.
          * apply I_mark, Hp1.
          * unfold scr0_clear. cbn [pk_mark set_mark]. apply set_disjoint_keeps_clear; assumption.
      - rewrite (G_app_fall _ _ _ _ p1) by reflexivity.
        apply (raw_rest_ok p1 Hp1 Hs).
    Qed.
  End Gen.

  (* inbound failsafe ports *)
  Theorem fs_in_raw_prerouting : forall n disp,
    (c_wg_raw c = true -> lookup cs CH_WG_MARK = Some (wg_mark_chain c) /\ N.land (c_wg_mark c) (c_scr0 c) = 0) ->
    lookup cs CH_FS_IN = Some (failsafe_in TRaw c) ->
    lookup cs CH_FROM_HEP = Some disp -> hep_disp_ok cs CH_FROM_HEP CH_FS_IN = true ->
    seg_ok cs e (I_in c e) (S (S (S (S n)))) (raw_prerouting c).
  Proof.
    intros n disp Hwg Hfs Hd Hshape.
    apply (raw_prerouting_ok (I_in c e) (I_in_mark c e Hlocal) (I_in_not_wl c e) n); [|exact Hwg].
    unfold raw_tail.
    apply seg_cons; [|apply seg_cons; [apply seg_rule_allow; left; reflexivity|apply seg_nil]].
    apply (seg_rule_jump cs e (I_in c e) _ _ CH_FROM_HEP disp Hd).
    apply (hep_dispatch_ok cs e (I_in c e) (I_in_mark c e Hlocal) CH_FROM_HEP CH_FS_IN _ n disp Hfs); try assumption.
    - intros q (H1 & H2 & _). apply failsafe_in_accepts; assumption.
    - apply I_in_ct.
  Qed.

  (* responses to outbound failsafe connections, seen in the raw table before conntrack: any conntrack state;
     the untracked endpoint chains have no conntrack rules (raw_hep_ok: the failsafe jump comes first) *)
  Definition I_resp_in (p : packet) : Prop :=
    pk_ver p = c_ver c /\ fs_out_resp_pkt c p = true /\ wl_iface c (pk_in p) = false.
  Lemma raw_hep_term : forall fs fsb n body (I : packet -> Prop),
    lookup cs fs = Some fsb -> (forall p, I p -> G cs e n fsb p = RDone FAccept p) ->
    raw_hep_ok fs body = true -> seg_term cs e I (S n) body.
  Proof.
    intros fs fsb n body I Hl Hfs H p Hp. destruct body as [|r rest]; [discriminate|]. cbn [raw_hep_ok] in H.
    destruct r as [ms a]. unfold is_jump_to in H. cbn [ir_match ir_action] in H.
    destruct ms; [|discriminate]. destruct a; try discriminate. apply String.eqb_eq in H. subst c0.
    unfold G. cbn [go ir_match ir_action matches forallb]. rewrite Hl, run_S.
    change (go cs e (run n cs e) fsb p) with (G cs e n fsb p). rewrite (Hfs p Hp). exact Logic.I.
  Qed.

  Theorem fs_resp_raw_prerouting : forall n disp,
    (c_wg_raw c = true -> lookup cs CH_WG_MARK = Some (wg_mark_chain c) /\ N.land (c_wg_mark c) (c_scr0 c) = 0) ->
    lookup cs CH_FS_IN = Some (failsafe_in TRaw c) ->
    lookup cs CH_FROM_HEP = Some disp -> disp_ok cs (raw_hep_ok CH_FS_IN) CH_FROM_HEP = true ->
    seg_ok cs e I_resp_in (S (S (S (S n)))) (raw_prerouting c).
  Proof.
    intros n disp Hwg Hfs Hd Hshape.
    assert (Hm : forall p m, I_resp_in p -> I_resp_in (set_mark p m)) by (intros p m H; exact H).
    apply (raw_prerouting_ok I_resp_in Hm); [| |exact Hwg].
    - intros p pfx (_ & _ & H3) Hin. cbn [matches forallb match_one iface_ok]. rewrite xorb_false_l.
      rewrite (wl_iface_false c _ pfx H3 Hin). reflexivity.
    - unfold raw_tail.
      apply seg_cons; [|apply seg_cons; [apply seg_rule_allow; left; reflexivity|apply seg_nil]].
      apply (seg_rule_jump cs e I_resp_in _ _ CH_FROM_HEP disp Hd).
      unfold disp_ok in Hshape. rewrite Hd in Hshape.
      apply (disp_root_ok cs e I_resp_in (raw_hep_ok CH_FS_IN) n disp); [|exact Hshape].
      intros b Hb. apply (raw_hep_term CH_FS_IN (failsafe_in TRaw c) n b I_resp_in Hfs); [|exact Hb].
      intros q (H1 & H2 & _). apply failsafe_in_accepts_resp; assumption.
  Qed.

  (* responses to inbound failsafe connections leaving through raw OUTPUT *)
  Definition I_resp_out (p : packet) : Prop :=
    pk_ver p = c_ver c /\ fs_in_resp_pkt c p = true /\ wl_iface c (pk_out p) = false.
  Theorem fs_resp_raw_output : forall n disp,
    lookup cs CH_FS_OUT = Some (failsafe_out TRaw c) ->
    lookup cs CH_TO_HEP = Some disp -> disp_ok cs (raw_hep_ok CH_FS_OUT) CH_TO_HEP = true ->
    seg_ok cs e I_resp_out (S (S (S (S n)))) (raw_output c).
  Proof.
    intros n disp Hfs Hd Hshape. unfold raw_output.
    assert (Hm : forall p m, I_resp_out p -> I_resp_out (set_mark p m)) by (intros p m H; exact H).
    apply seg_app.
    { apply seg_cons; [apply (seg_rule_mark cs e I_resp_out Hm)|]. apply seg_cons; [|apply seg_nil].
      apply (seg_rule_jump cs e I_resp_out _ [] CH_TO_HEP disp Hd).
      unfold disp_ok in Hshape. rewrite Hd in Hshape.
      apply (disp_root_ok cs e I_resp_out (raw_hep_ok CH_FS_OUT) n disp); [|exact Hshape].
      intros b Hb. apply (raw_hep_term CH_FS_OUT (failsafe_out TRaw c) n b I_resp_out Hfs); [|exact Hb].
      intros q (H1 & H2 & _). apply failsafe_out_accepts_resp; assumption. }
    apply seg_app; [apply seg_vxlan_notrack|].
    apply seg_cons; [apply seg_rule_allow; left; reflexivity|apply seg_nil].
  Qed.
End Raw.
