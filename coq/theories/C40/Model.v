(* C40 — executable model of Felix's static chains (felix/rules/static.go), definitions only.

   render_* cfg gives, in the abstract syntax of Common/Ipt.v, the rule lists that
   StaticFilterTableChains / StaticRawTableChains / StaticMangleTableChains (+ StaticFilterForwardAppendRules)
   produce for the raw PREROUTING/OUTPUT, mangle PREROUTING and filter INPUT/FORWARD/OUTPUT paths:

     (mangle also: cali-POSTROUTING)
     raw    : cali-PREROUTING  cali-OUTPUT  cali-failsafe-in  cali-failsafe-out  cali-wireguard-incoming-mark
     mangle : cali-PREROUTING  cali-failsafe-in  cali-failsafe-out
     filter : cali-INPUT  cali-FORWARD  cali-OUTPUT  cali-wl-to-host  cali-failsafe-in  cali-failsafe-out

   The chains these jump to (dispatch chains, per-endpoint chains, policy/profile chains, cali-rpf-skip,
   cali-cidr-block) are NOT modelled: in the theorems they are arbitrary (universally quantified) chains,
   constrained only by decidable shape conditions stated in Spec.v.

   Outside the model (the property is PARTIAL by design): NAT table,
   BPF-mode raw chains, nftables flow offload.

   Matches that are not a function of the packet record are `MOther k` with k = 2*id + (1 if negated):
     id 0 limit   1 addrtype --dst-type LOCAL   2 addrtype --src-type LOCAL   3 conntrack --ctstate DNAT
     id 4 rpfilter --invert --validmark (RPF check FAILED)   5 ipvs   6 addrtype --src-type LOCAL --limit-iface-out *)
From Coq Require Import List NArith Bool String.
From Verif.Common Require Import Packet Ipt.
From Verif.C08 Require Model.
Import ListNotations.
Open Scope N_scope.

(* ------------------------------------------------------------------ oracle matches *)
Definition O_LIMIT : N := 0.
Definition O_DST_LOCAL : N := 1.
Definition O_SRC_LOCAL : N := 2.
Definition O_CT_DNAT : N := 3.
Definition O_RPF_FAIL : N := 4.
Definition O_IPVS : N := 5.
Definition O_SRC_LOCAL_OUT : N := 6.
Definition MOth (neg : bool) (id : N) : pmatch := MOther (2 * id + (if neg then 1 else 0)).
(* the oracle for `MOther k` built from a base oracle on ids: negation is exact *)
Definition other_of (base : N -> packet -> bool) (k : N) (p : packet) : bool :=
  xorb (N.odd k) (base (N.div2 k) p).

(* IP set ids (the driver interns the real names) *)
Definition SET_ALL_HOSTS : N := 1.      (* all-hosts-net *)
Definition SET_VXLAN_NETS : N := 2.     (* all-vxlan-net *)
Definition SET_THIS_HOST : N := 3.      (* this-host *)
Definition SET_POOLS : N := 5.          (* network-ip-pools *)
Definition SET_DSCP : N := 6.           (* dscp-src-net *)
Definition SET_ISTIO : N := 7.          (* all-istio-weps *)

(* ------------------------------------------------------------------ configuration *)
Inductive fsnet := FsNoNet | FsBadNet | FsNet (c : cidr).
Record fsport := { fs_proto : N; fs_port : N; fs_net : fsnet }.

Record cfg := {
  c_ver : ipver;
  c_accept : N; c_pass : N; c_scr0 : N; c_scr1 : N;     (* MarkAccept MarkPass MarkScratch0 MarkScratch1 *)
  c_prefixes : list (list N);                           (* WorkloadIfacePrefixes *)
  c_fs_in : list fsport; c_fs_out : list fsport;        (* FailsafeInboundHostPorts / FailsafeOutboundHostPorts *)
  c_ipip : bool; c_vxlan4 : bool; c_vxlan6 : bool; c_vxlan_port : N;
  c_wg4 : bool; c_wg6 : bool; c_wg_port4 : N; c_wg_port6 : N;
  c_wg_raw : bool;                                      (* raw PREROUTING jumps to the wireguard incoming-mark chain *)
  c_wg_if4 : list N; c_wg_if6 : list N; c_wg_mark : N;
  c_openstack : bool; c_os_meta : option (N * N);       (* OpenStackSpecialCasesEnabled, metadata (IPv4 addr, port) *)
  c_ep_to_host : target;                                (* DefaultEndpointToHostAction as an action *)
  c_filter_allow : target; c_mangle_allow : target;     (* ACCEPT or RETURN *)
  c_deny : target;                                      (* DROP or REJECT *)
  c_istio : bool;                                       (* IstioAmbientModeEnabled (mangle POSTROUTING DSCP rules) *)
  c_ipvs : bool;                                        (* KubeIPVSSupportEnabled *)
  c_endpoint : N; c_noncali : N;                        (* MarkEndpoint (mask), MarkNonCaliEndpoint *)
  c_nodeports : list port_range                         (* KubeNodePortRanges *)
}.

Definition all_bits (c : cfg) : N := N.lor (N.lor (N.lor (c_accept c) (c_pass c)) (c_scr0 c)) (c_scr1 c).

(* ------------------------------------------------------------------ helpers *)
Definition R (ms : list pmatch) (a : target) : irule := {| ir_match := ms; ir_action := a |}.
Definition m_bit_set (b : N) : pmatch := MMark false b b.     (* MarkSingleBitSet / MarkMatchesWithMask b b *)
Definition m_clear (b : N) : pmatch := MMark false 0 b.       (* MarkClear *)
Definition port1 (p : N) : list port_range := [(p, p)].
Definition is_v4 (c : cfg) : bool := ipver_eqb (c_ver c) V4.
Definition is_v6 (c : cfg) : bool := ipver_eqb (c_ver c) V6.
Definition vxlan_here (c : cfg) : bool := (is_v4 c && c_vxlan4 c) || (is_v6 c && c_vxlan6 c).
Definition opt_rules (b : bool) (rs : list irule) : list irule := if b then rs else [].
Definition host_cidr (v : ipver) (a : N) : cidr := {| cidr_ver := v; cidr_addr := a; cidr_len := addr_width v |}.

Definition CH_INPUT := "cali-INPUT"%string.
Definition CH_FORWARD := "cali-FORWARD"%string.
Definition CH_OUTPUT := "cali-OUTPUT"%string.
Definition CH_PREROUTING := "cali-PREROUTING"%string.
Definition CH_WL_TO_HOST := "cali-wl-to-host"%string.
Definition CH_FS_IN := "cali-failsafe-in"%string.
Definition CH_FS_OUT := "cali-failsafe-out"%string.
Definition CH_FROM_WL := "cali-from-wl-dispatch"%string.
Definition CH_TO_WL := "cali-to-wl-dispatch"%string.
Definition CH_FROM_HEP := "cali-from-host-endpoint"%string.
Definition CH_TO_HEP := "cali-to-host-endpoint"%string.
Definition CH_FROM_HEP_FWD := "cali-from-hep-forward"%string.
Definition CH_TO_HEP_FWD := "cali-to-hep-forward"%string.
Definition CH_CIDR_BLOCK := "cali-cidr-block"%string.
Definition CH_RPF_SKIP := "cali-rpf-skip"%string.
Definition CH_WG_MARK := "cali-wireguard-incoming-mark"%string.
Definition CH_FWD_CHECK := "cali-forward-check"%string.
Definition CH_FWD_EP_MARK := "cali-forward-endpoint-mark"%string.
Definition CH_SET_EP_MARK := "cali-set-endpoint-mark"%string.
Definition CH_FROM_EP_MARK := "cali-from-endpoint-mark"%string.

(* ------------------------------------------------------------------ failsafe chains *)
Inductive table := TRaw | TMangle | TFilter.
Definition is_raw (t : table) : bool := match t with TRaw => true | _ => false end.

(* one failsafe rule: protocol, port (destination or source), optional net (source or destination);
   entries whose net does not parse or is of the other IP version produce no rule *)
Definition fs_rule (v : ipver) (dport : bool) (srcnet : bool) (f : fsport) : list irule :=
  let pm := if dport then MDstPorts false (port1 (fs_port f)) else MSrcPorts false (port1 (fs_port f)) in
  match fs_net f with
  | FsNoNet => [R [MProto false (fs_proto f); pm] AAccept]
  | FsBadNet => []
  | FsNet n =>
      if ipver_eqb (cidr_ver n) v
      then [R [MProto false (fs_proto f); pm; (if srcnet then MSrcNet false n else MDstNet false n)] AAccept]
      else []
  end.

(* failsafeInChain: inbound ports by destination port (+ source net); in raw also the responses to
   outbound failsafe connections, by source port (+ source net) *)
Definition failsafe_in (t : table) (c : cfg) : list irule :=
  flat_map (fs_rule (c_ver c) true true) (c_fs_in c)
  ++ opt_rules (is_raw t) (flat_map (fs_rule (c_ver c) false true) (c_fs_out c)).

(* failsafeOutChain: outbound ports by destination port (+ destination net); in raw also the responses
   to inbound failsafe connections, by source port (+ destination net) *)
Definition failsafe_out (t : table) (c : cfg) : list irule :=
  flat_map (fs_rule (c_ver c) true false) (c_fs_out c)
  ++ opt_rules (is_raw t) (flat_map (fs_rule (c_ver c) false false) (c_fs_in c)).

(* ------------------------------------------------------------------ filter INPUT *)
Definition input_tunnel_rules (c : cfg) : list irule :=
  opt_rules (is_v4 c && c_ipip c)
    [ R [MProto false 4; MSrcIpSet false SET_ALL_HOSTS; MOth false O_DST_LOCAL] (c_filter_allow c);
      R [MProto false 4] (c_deny c) ]
  ++ opt_rules (is_v4 c && c_vxlan4 c)
    [ R [MProto false 17; MDstPorts false (port1 (c_vxlan_port c)); MSrcIpSet false SET_VXLAN_NETS; MOth false O_DST_LOCAL] (c_filter_allow c);
      R [MProto false 17; MDstPorts false (port1 (c_vxlan_port c)); MOth false O_DST_LOCAL] ADrop ]
  ++ opt_rules (is_v6 c && c_vxlan6 c)
    [ R [MProto false 17; MDstPorts false (port1 (c_vxlan_port c)); MSrcIpSet false SET_VXLAN_NETS; MOth false O_DST_LOCAL] (c_filter_allow c);
      R [MProto false 17; MDstPorts false (port1 (c_vxlan_port c)); MOth false O_DST_LOCAL] (c_deny c) ].

Definition input_wg_rules (c : cfg) : list irule :=
  opt_rules (is_v4 c && c_wg4 c)
    [ R [MProto false 17; MDstPorts false (port1 (c_wg_port4 c)); MOth false O_DST_LOCAL] (c_filter_allow c) ]
  ++ opt_rules (is_v6 c && c_wg6 c)
    [ R [MProto false 17; MDstPorts false (port1 (c_wg_port6 c)); MOth false O_DST_LOCAL] (c_filter_allow c) ].

Definition input_wl_rules (c : cfg) : list irule :=
  map (fun pfx => R [MInIface false pfx true] (AGoto CH_WL_TO_HOST)) (c_prefixes c).

Definition input_hep_rules (c : cfg) : list irule :=
  [ R [m_bit_set (c_accept c)] (c_filter_allow c);
    R [] (AClearMark (all_bits c));
    R [] (AJump CH_FROM_HEP);
    R [m_bit_set (c_accept c)] (c_filter_allow c) ].

(* kube-proxy IPVS mode: forwarded (service) traffic also traverses INPUT; it is marked with a per-endpoint mark and
   RETURNed (its policy is applied from OUTPUT, cali-forward-endpoint-mark) *)
Definition input_ipvs_rules (c : cfg) : list irule :=
  opt_rules (c_ipvs c)
    [ R [] (AClearMark (c_endpoint c)); R [] (AJump CH_FWD_CHECK); R [MMark true 0 (c_endpoint c)] AReturn ].

Definition filter_input (c : cfg) : list irule :=
  (input_tunnel_rules c ++ input_wg_rules c) ++ input_ipvs_rules c ++ input_wl_rules c ++ input_hep_rules c.

(* StaticFilterInputForwardCheckChain *)
Definition forward_check (c : cfg) : list irule :=
  [ R [MCtState false [CtRelated; CtEstablished]] AReturn ]
  ++ flat_map (fun sp => [ R [MProto false 6; MDstPorts false sp; MDstIpSet false SET_THIS_HOST] (AGoto CH_SET_EP_MARK);
                           R [MProto false 17; MDstPorts false sp; MDstIpSet false SET_THIS_HOST] (AGoto CH_SET_EP_MARK) ])
       (C08.Model.split_ports (c_nodeports c))
  ++ [ R [MDstIpSet true SET_THIS_HOST] (AJump CH_SET_EP_MARK) ].

(* StaticFilterOutputForwardEndpointMarkChain *)
Definition forward_endpoint_mark (c : cfg) : list irule :=
  [ R [MMark true (c_noncali c) (c_endpoint c)] (AJump CH_FROM_EP_MARK) ]
  ++ map (fun pfx => R [MOutIface false pfx true] (AJump CH_TO_WL)) (c_prefixes c)
  ++ [ R [] (AJump CH_TO_HEP_FWD); R [] (AClearMark (c_endpoint c)); R [m_bit_set (c_accept c)] (c_filter_allow c) ].

(* ------------------------------------------------------------------ filter cali-wl-to-host *)
Definition icmpv6_nd_types : list N := [130; 131; 132; 133; 135; 136].
Definition wl_to_host_pre (c : cfg) : list irule :=
  opt_rules (is_v6 c) (map (fun t => R [MProto false 58; MIcmp false t None] (c_filter_allow c)) icmpv6_nd_types)
  ++ opt_rules (c_openstack c)
       ((match c_os_meta c with
         | Some (ip, port) =>
             opt_rules (is_v4 c) [R [MProto false 6; MDstNet false (host_cidr V4 ip); MDstPorts false (port1 port)] (c_filter_allow c)]
         | None => []
         end)
        ++ [ R [MProto false 17; MSrcPorts false (port1 (if is_v6 c then 546 else 68)); MDstPorts false (port1 (if is_v6 c then 547 else 67))] (c_filter_allow c);
             R [MProto false 17; MDstPorts false (port1 53)] (c_filter_allow c) ]).

Definition wl_to_host (c : cfg) : list irule :=
  wl_to_host_pre c ++ [ R [] (AJump CH_FROM_WL); R [] (c_ep_to_host c) ].

(* ------------------------------------------------------------------ filter FORWARD *)
Definition forward_wl_rules (c : cfg) : list irule :=
  flat_map (fun pfx => [ R [MInIface false pfx true] (AJump CH_FROM_WL);
                         R [MOutIface false pfx true] (AJump CH_TO_WL) ]) (c_prefixes c).

Definition filter_forward (c : cfg) : list irule :=
  [ R [] (AClearMark (N.land (all_bits c) (lnot32 (c_accept c))));
    R [m_clear (c_accept c)] (AJump CH_FROM_HEP_FWD) ]
  ++ forward_wl_rules c
  ++ [ R [] (AJump CH_TO_HEP_FWD); R [] (AJump CH_CIDR_BLOCK) ].

(* StaticFilterForwardAppendRules: appended to the kernel's FORWARD chain *)
Definition forward_append (c : cfg) : list irule :=
  [ R [m_bit_set (c_accept c)] (c_filter_allow c); R [] (ASetMark (c_accept c)) ].

(* ------------------------------------------------------------------ filter OUTPUT *)
Definition output_tunnel_rules (c : cfg) : list irule :=
  opt_rules (is_v4 c && c_ipip c)
    [ R [MProto false 4; MDstIpSet false SET_ALL_HOSTS; MOth false O_SRC_LOCAL] (c_filter_allow c) ]
  ++ opt_rules (vxlan_here c)
    [ R [MProto false 17; MDstPorts false (port1 (c_vxlan_port c)); MOth false O_SRC_LOCAL; MDstIpSet false SET_VXLAN_NETS] (c_filter_allow c) ]
  ++ opt_rules (is_v4 c && c_wg4 c)
    [ R [MProto false 17; MDstPorts false (port1 (c_wg_port4 c)); MOth false O_SRC_LOCAL] (c_filter_allow c) ]
  ++ opt_rules (is_v6 c && c_wg6 c)
    [ R [MProto false 17; MDstPorts false (port1 (c_wg_port6 c)); MOth false O_SRC_LOCAL] (c_filter_allow c) ].

Definition filter_output (c : cfg) : list irule :=
  [ R [m_bit_set (c_accept c)] (c_filter_allow c) ]
  ++ opt_rules (c_ipvs c) [ R [MMark true 0 (c_endpoint c)] (AGoto CH_FWD_EP_MARK) ]
  ++ map (fun pfx => R [MOutIface false pfx true] AReturn) (c_prefixes c)
  ++ output_tunnel_rules c
  ++ [ R [] (AClearMark (all_bits c));
       R [MOth true O_CT_DNAT] (AJump CH_TO_HEP);
       R [m_bit_set (c_accept c)] (c_filter_allow c) ].

(* ------------------------------------------------------------------ raw *)
Definition vxlan_notrack (c : cfg) : list irule :=
  opt_rules (vxlan_here c) [ R [MProto false 17; MDstPorts false (port1 (c_vxlan_port c))] ANoTrack ].

Definition raw_mark_wl_rules (c : cfg) : list irule :=
  map (fun pfx => R [MInIface false pfx true] (ASetMark (c_scr0 c))) (c_prefixes c).

Definition rpf_rules (c : cfg) : list irule :=
  opt_rules (c_openstack c && is_v4 c)
    [ R [MProto false 17; MSrcNet false (host_cidr V4 0); MSrcPorts false (port1 68); MDstPorts false (port1 67)] AAccept ]
  ++ [ R [MMark false (c_scr0 c) (c_scr0 c); MOth false O_RPF_FAIL] (c_deny c) ].

Definition raw_prerouting (c : cfg) : list irule :=
  [ R [] (AClearMark (all_bits c)) ]
  ++ opt_rules (c_wg_raw c) [ R [] (AJump CH_WG_MARK) ]
  ++ vxlan_notrack c
  ++ raw_mark_wl_rules c
  ++ [ R [MMark false (c_scr0 c) (c_scr0 c)] (AJump CH_RPF_SKIP) ]
  ++ rpf_rules c
  ++ [ R [m_clear (c_scr0 c)] (AJump CH_FROM_HEP);
       R [m_bit_set (c_accept c)] AAccept ].

Definition raw_output (c : cfg) : list irule :=
  [ R [] (AClearMark (all_bits c)); R [] (AJump CH_TO_HEP) ]
  ++ vxlan_notrack c
  ++ [ R [m_bit_set (c_accept c)] AAccept ].

Definition wg_mark_chain (c : cfg) : list irule :=
  [ R [MInIface false [108; 111] false] AReturn;            (* lo *)
    R [MInIface false (c_wg_if4 c) false] AReturn;
    R [MInIface false (c_wg_if6 c) false] AReturn ]
  ++ map (fun pfx => R [MInIface false pfx true] AReturn) (c_prefixes c)
  ++ [ R [] (ASetMark (c_wg_mark c)) ].

(* ------------------------------------------------------------------ mangle PREROUTING *)
Definition mangle_prerouting (c : cfg) : list irule :=
  [ R [MCtState false [CtRelated; CtEstablished]] (c_mangle_allow c);
    R [m_bit_set (c_accept c)] (c_mangle_allow c);
    R [] (AJump CH_FROM_HEP);
    R [m_bit_set (c_accept c)] (c_mangle_allow c) ].

(* ------------------------------------------------------------------ mangle POSTROUTING *)
(* StaticManglePostroutingChain (BPF off, kube-ipvs off): Istio ambient DSCP marking, egress DSCP chain, then normal
   host endpoint egress policy for host-originated traffic that was DNAT'd (its output interface is only final
   here).  The DSCP target changes a header field outside the packet record: ANone. *)
Definition CH_EGRESS_DSCP := "cali-egress-dscp"%string.
Definition mangle_postrouting (c : cfg) : list irule :=
  opt_rules (c_istio c)
    (map (fun pfx => R [MProto false 6; MCtState false [CtNew]; MOutIface false pfx true;
                        MDstIpSet false SET_ISTIO; MSrcIpSet false SET_ISTIO] ANone) (c_prefixes c))
  ++ [ R [MSrcIpSet false SET_DSCP; MDstIpSet true SET_POOLS; MDstIpSet true SET_THIS_HOST] (AJump CH_EGRESS_DSCP);
       R [m_bit_set (c_accept c)] AReturn ]
  ++ opt_rules (c_ipvs c) [ R [MMark true 0 (c_endpoint c)] AReturn ]
  ++ [ R [] (AClearMark (all_bits c));
       R [MOth false O_CT_DNAT] (AJump CH_TO_HEP);
       R [m_bit_set (c_accept c)] AReturn ].

(* ------------------------------------------------------------------ per-table chain maps *)
Definition static_raw (c : cfg) : chains :=
  [ (CH_FS_IN, failsafe_in TRaw c); (CH_FS_OUT, failsafe_out TRaw c);
    (CH_PREROUTING, raw_prerouting c); (CH_WG_MARK, wg_mark_chain c); (CH_OUTPUT, raw_output c) ].
Definition static_mangle (c : cfg) : chains :=
  [ (CH_FS_IN, failsafe_in TMangle c); (CH_FS_OUT, failsafe_out TMangle c); (CH_PREROUTING, mangle_prerouting c);
    ("cali-POSTROUTING"%string, mangle_postrouting c) ].
Definition static_filter (c : cfg) : chains :=
  [ (CH_FORWARD, filter_forward c); (CH_INPUT, filter_input c); (CH_WL_TO_HOST, wl_to_host c);
    (CH_FS_IN, failsafe_in TFilter c); (CH_OUTPUT, filter_output c); (CH_FS_OUT, failsafe_out TFilter c) ]
  ++ (if c_ipvs c then [ (CH_FWD_CHECK, forward_check c); (CH_FWD_EP_MARK, forward_endpoint_mark c) ] else []).

(* ------------------------------------------------------------------ hook wiring (int_dataplane.go setUpIptablesNormal) *)
(* (table, kernel chain, appended?, rules): what Felix puts into the kernel's own chains, in call order.
   insert-or-append = at the head of the kernel chain; append = at its end.  table: 0 raw, 1 mangle, 2 filter. *)
Definition T_RAW : N := 0.
Definition T_MANGLE : N := 1.
Definition T_FILTER : N := 2.
Definition CH_POSTROUTING := "cali-POSTROUTING"%string.
Definition hookcall := (N * string * bool * list irule)%type.
Definition hook_wiring (c : cfg) : list hookcall :=
  [ (T_RAW, "PREROUTING"%string, false, [R [] (AJump CH_PREROUTING)]);
    (T_RAW, "OUTPUT"%string, false, [R [] (AJump CH_OUTPUT)]);
    (T_FILTER, "FORWARD"%string, false, [R [] (AJump CH_FORWARD)]);
    (T_FILTER, "INPUT"%string, false, [R [] (AJump CH_INPUT)]);
    (T_FILTER, "OUTPUT"%string, false, [R [] (AJump CH_OUTPUT)]);
    (T_FILTER, "FORWARD"%string, true, forward_append c);
    (T_MANGLE, "PREROUTING"%string, false, [R [] (AJump CH_PREROUTING)]);
    (T_MANGLE, "POSTROUTING"%string, false, [R [] (AJump CH_POSTROUTING)]) ].
