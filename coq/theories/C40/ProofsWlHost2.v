(* C40 — workload-to-host clause at full strength: the from-workload dispatch tree sends a known interface to
   its own chain (wl_target, decidable on the real chains), so on INPUT the workload's egress chain decides first and
   only what it hands back meets DefaultEndpointToHostAction. *)
From Coq Require Import List NArith Bool String Arith Lia.
From Verif.Common Require Import Packet Ipt.
From Verif.C40 Require Import Model Spec Shape Proofs ProofsFailsafe ProofsFsHooks ProofsDrop ProofsTunnel ProofsWlHost.
From Verif.C40 Require Import ProofsLink.
Import ListNotations.
Open Scope N_scope.

Lemma goto_wrap_idem : forall r, goto_wrap (goto_wrap r) = goto_wrap r.
Proof. destruct r; reflexivity. Qed.

Section Target.
  Variables (cs : chains) (e : env).

  Lemma wl_leaf_inv : forall r nm ch, wl_leaf r = Some (nm, ch) -> r = R [MInIface false nm false] (AGoto ch).
  Proof.
    intros [ms a] nm ch H. unfold wl_leaf in H. cbn [ir_match ir_action] in H.
    destruct ms as [|m ms]; [discriminate|]. destruct m; try discriminate. destruct neg; [discriminate|].
    destruct wild; [discriminate|]. destruct ms; [|discriminate]. destruct a; try discriminate.
    injection H as <- <-. reflexivity.
  Qed.

  Lemma leaf_target_run : forall n child ch body p,
    leaf_target child (pk_in p) = Some ch -> lookup cs ch = Some body ->
    G cs e (S n) child p = goto_wrap (G cs e n body p).
  Proof.
    intros n child ch body p. induction child as [|r rest IH]; intros H Hb; [discriminate|].
    cbn [leaf_target] in H. destruct (wl_leaf r) as [[nm ch']|] eqn:El; [|discriminate].
    rewrite (wl_leaf_inv r nm ch' El). unfold G. cbn [go R ir_match ir_action matches forallb match_one iface_ok].
    rewrite xorb_false_l, andb_true_r. destruct (bytes_eqb nm (pk_in p)).
    - injection H as ->. rewrite Hb, run_S. unfold G, goto_wrap. destruct (go cs e (run n cs e) body p); reflexivity.
    - apply IH; assumption.
  Qed.

  Lemma wl_target_run : forall n disp ch body p,
    wl_target cs disp (pk_in p) = Some ch -> lookup cs ch = Some body -> G cs e n body p <> RFuel ->
    G cs e (S (S n)) disp p = goto_wrap (G cs e n body p).
  Proof.
    intros n disp ch body p. induction disp as [|r rest IH]; intros H Hb Hnf; [discriminate|].
    cbn [wl_target] in H. destruct (wl_leaf r) as [[nm ch']|] eqn:El.
    - rewrite (wl_leaf_inv r nm ch' El). unfold G. cbn [go R ir_match ir_action matches forallb match_one iface_ok].
      rewrite xorb_false_l, andb_true_r. destruct (bytes_eqb nm (pk_in p)).
      + injection H as ->. rewrite Hb, run_S. rewrite (G_mono cs e n (S n) body p) by (auto; lia).
        unfold G, goto_wrap. destruct (go cs e (run n cs e) body p); reflexivity.
      + apply IH; assumption.
    - destruct r as [ms a]. cbn [ir_match] in H.
      destruct ms as [|m ms]; [discriminate|]. destruct m; try discriminate. destruct neg; [discriminate|].
      destruct wild; [|discriminate]. destruct ms; [|discriminate].
      destruct (wl_prefix_rule cs {| ir_match := [MInIface false name true]; ir_action := a |}) as [b|] eqn:Ep; [|discriminate].
      unfold wl_prefix_rule in Ep. cbn [ir_match ir_action] in Ep. destruct a; try discriminate.
      unfold G. cbn [go ir_match ir_action matches forallb match_one iface_ok]. rewrite xorb_false_l, andb_true_r.
      destruct (is_prefix name (pk_in p)).
      + rewrite Ep, run_S. rewrite (leaf_target_run n b ch body p H Hb).
        unfold G. destruct (go cs e (run n cs e) body p); reflexivity.
      + apply IH; assumption.
  Qed.
End Target.

Definition ep_action_ok (a : target) : Prop := a = AAccept \/ a = ADrop \/ a = AReject \/ a = AReturn.

Theorem wl_to_host_policy_then_action : forall c filter e wl disp ch body p,
  ep_action_ok (c_ep_to_host c) -> c_ipvs c = false ->
  lookup filter CH_INPUT = Some (filter_input c) -> lookup filter CH_WL_TO_HOST = Some (wl_to_host c) ->
  lookup filter CH_FROM_WL = Some disp ->
  lookup_wl wl (pk_in p) = Some ch -> wl_target filter disp (pk_in p) = Some ch -> lookup filter ch = Some body ->
  G filter e 11 body p <> RFuel ->
  pk_ver p = c_ver c ->
  wl_host_ok false c filter wl e p = true.
Proof.
  intros c filter e wl disp ch body p Ha Hipvs Hin Hw Hd Hwl Ht Hb Hnf Hv.
  unfold wl_host_ok. rewrite Hwl. destruct (_ && _) eqn:Econd; [|reflexivity].
  rewrite !andb_true_iff, !negb_true_iff in Econd. destruct Econd as [[[E1 E2] E3] _]. cbn [negb andb] in E3.
  pose proof (infra_front_miss c e p E2) as Hfront.
  pose proof (pre_exempt_miss c e p Hv E3) as Hmiss.
  unfold hook, wl_host_expected, run_chain. rewrite Hin, Hb.
  change FUEL with (S (S (S 13))). rewrite !run_S.
  rewrite (wl_to_host_policy_then_action_partial c filter e disp Hd Hw Hipvs 13 p E1 Hfront Hmiss).
  rewrite (wl_target_run filter e 11 disp ch body p Ht Hb Hnf).
  rewrite (G_mono filter e 11 15 body p) by (auto; lia).
  destruct (G filter e 11 body p) as [[| |] q|q|q| |]; try reflexivity; try contradiction;
    cbn [goto_wrap]; unfold G; cbn [go R ir_match ir_action matches forallb];
    destruct Ha as [-> | [-> | [-> | ->]]]; reflexivity.
Qed.

(* the INPUT half of the unknown-interface theorem in Spec.v's vocabulary *)
Theorem unknown_dropped_input_spec : forall c filter e disp p,
  cfg_ok c -> c_ipvs c = false ->
  lookup filter CH_INPUT = Some (filter_input c) -> lookup filter CH_WL_TO_HOST = Some (wl_to_host c) ->
  lookup filter CH_FROM_WL = Some disp -> wl_root_ok filter disp = true ->
  pk_ver p = c_ver c -> wl_iface c (pk_in p) = true -> name_in (pk_in p) (wl_names filter disp) = false ->
  infra_allowed c e p = false -> pre_policy_exempt c p = false ->
  hook filter e CH_INPUT p = VDrop.
Proof.
  intros c filter e disp p Hc Hipvs Hin Hw Hd Hroot Hv Hwl Hun Hinfra Hex.
  unfold hook, run_chain. rewrite Hin. change FUEL with (S (S (S (S 12)))). rewrite run_S.
  apply ProofsTunnel.is_drop_verdict.
  apply (unknown_dropped_input c filter e Hc disp Hd Hroot Hipvs 12 p Hw).
  split; [split; assumption|]. split; [apply pre_exempt_miss; assumption|exact Hinfra].
Qed.
