(* C40 — decidable SHAPE conditions on the chains the static chains call (dispatch and per-endpoint chains).
   They are the only thing the theorems assume about those chains; everything after the failsafe jump of a host
   endpoint chain, and every policy / profile chain, is arbitrary.  The correspondence run evaluates these
   conditions on the real renderer's chains (Spec.shapes_ok). *)
From Coq Require Import List NArith Bool String.
From Verif.Common Require Import Packet Ipt.
From Verif.C40 Require Import Model.
Import ListNotations.
Open Scope N_scope.

(* a conntrack rule as appendConntrackRules renders them: only a ctstate match; DROP/REJECT only for INVALID *)
Definition ct_rule (r : irule) : bool :=
  match ir_match r with
  | [MCtState false sts] =>
      match ir_action r with
      | AAccept | AReturn | AMark _ _ => true
      | ADrop | AReject => forallb (ctstate_eqb CtInvalid) sts
      | _ => false
      end
  | _ => false
  end.
Definition is_jump_to (fs : string) (r : irule) : bool :=
  match ir_match r, ir_action r with
  | [], AJump ch => String.eqb ch fs
  | _, _ => false
  end.
(* host endpoint chain: conntrack rules, then the unconditional jump to the failsafe chain, then ANYTHING *)
Fixpoint hep_pre_ok (fs : string) (body : list irule) : bool :=
  match body with
  | [] => false
  | r :: rest => is_jump_to fs r || (ct_rule r && hep_pre_ok fs rest)
  end.

(* untracked (raw table) host endpoint chain: no conntrack rules, the failsafe jump comes first *)
Definition raw_hep_ok (fs : string) (body : list irule) : bool :=
  match body with
  | r :: _ => is_jump_to fs r
  | [] => false
  end.

(* a chain that can only pass packets on (cali-egress-dscp: DSCP rewriting only) *)
Definition noop_target (a : target) : bool := match a with ANone | ALog | ANflog | ANoTrack => true | _ => false end.
Definition noop_chain (body : list irule) : bool := forallb (fun r => noop_target (ir_action r)) body.

(* dispatch chains: rules match on an interface only and RETURN or GOTO an endpoint chain / one level of child chains *)
Definition iface_only (ms : list pmatch) : bool :=
  match ms with
  | [] => true
  | [MInIface false _ _] | [MOutIface false _ _] => true
  | _ => false
  end.
Definition disp_leaf (cs : chains) (okb : list irule -> bool) (r : irule) : bool :=
  iface_only (ir_match r) &&
  match ir_action r with
  | AReturn => true
  | AGoto ch => match lookup cs ch with Some b => okb b | None => false end
  | _ => false
  end.
Definition disp_root_rule (cs : chains) (okb : list irule -> bool) (r : irule) : bool :=
  disp_leaf cs okb r ||
  (iface_only (ir_match r) &&
   match ir_action r with
   | AGoto ch => match lookup cs ch with Some b => forallb (disp_leaf cs okb) b | None => false end
   | _ => false
   end).
Definition disp_ok (cs : chains) (okb : list irule -> bool) (root : string) : bool :=
  match lookup cs root with Some b => forallb (disp_root_rule cs okb) b | None => false end.

(* host-endpoint dispatch whose endpoint chains start with the failsafe jump *)
Definition hep_disp_ok (cs : chains) (root fs : string) : bool := disp_ok cs (hep_pre_ok fs) root.

(* ---------------------------------------------------------------- cali-set-endpoint-mark (kube-ipvs mode) *)
(* rules: interface match -> goto a chain that only sets marks (directly or through one level of child chains);
   "Unknown endpoint" deny rules, only for workload-prefix wildcards; the final non-Calico mark *)
Definition mark_only (body : list irule) : bool :=
  forallb (fun r => match ir_action r with AMark _ _ => true | _ => false end) body.
Definition sem_leaf (cs : chains) (r : irule) : bool :=
  iface_only (ir_match r) &&
  match ir_action r with
  | AGoto ch => match lookup cs ch with Some b => mark_only b | None => false end
  | _ => false
  end.
Definition sem_rule (cs : chains) (prefixes : list (list N)) (r : irule) : bool :=
  sem_leaf cs r
  || (iface_only (ir_match r) &&
      match ir_action r with
      | AGoto ch => match lookup cs ch with Some b => forallb (sem_leaf cs) b | None => false end
      | _ => false
      end)
  || (match ir_match r, ir_action r with
      | [MInIface false pfx true], ADrop | [MInIface false pfx true], AReject => existsb (bytes_eqb pfx) prefixes
      | _, _ => false
      end)
  || (match ir_action r with AMark _ _ => true | _ => false end).
Definition setmark_ok (cs : chains) (prefixes : list (list N)) : bool :=
  match lookup cs CH_SET_EP_MARK with Some b => forallb (sem_rule cs prefixes) b | None => false end.

(* ---------------------------------------------------------------- workload dispatch (from-workload) *)
(* leaves: exact in-interface match -> goto that endpoint's chain; the list ends with an unconditional deny *)
Definition wl_leaf (r : irule) : option (list N * string) :=
  match ir_match r, ir_action r with
  | [MInIface false n false], AGoto ch => Some (n, ch)
  | _, _ => None
  end.
Definition is_deny_rule (r : irule) : bool :=
  match ir_match r, ir_action r with
  | [], ADrop | [], AReject => true
  | _, _ => false
  end.
Fixpoint wl_child_ok (body : list irule) : bool :=
  match body with
  | [] => false
  | [r] => is_deny_rule r
  | r :: rest => (match wl_leaf r with Some _ => true | None => false end) && wl_child_ok rest
  end.
Definition wl_prefix_rule (cs : chains) (r : irule) : option (list irule) :=
  match ir_match r, ir_action r with
  | [MInIface false _ true], AGoto ch => lookup cs ch
  | _, _ => None
  end.
Fixpoint wl_root_ok (cs : chains) (body : list irule) : bool :=
  match body with
  | [] => false
  | [r] => is_deny_rule r
  | r :: rest =>
      (match wl_leaf r with
       | Some _ => true
       | None => match wl_prefix_rule cs r with Some b => wl_child_ok b | None => false end
       end) && wl_root_ok cs rest
  end.
(* the interface names the tree knows (leaves of the root and of its children) *)
Definition leaf_names (body : list irule) : list (list N) :=
  flat_map (fun r => match wl_leaf r with Some (n, _) => [n] | None => [] end) body.
Definition wl_names (cs : chains) (body : list irule) : list (list N) :=
  flat_map (fun r => match wl_leaf r with
                     | Some (n, _) => [n]
                     | None => match wl_prefix_rule cs r with Some b => leaf_names b | None => [] end
                     end) body.
Definition name_in (n : list N) (l : list (list N)) : bool := existsb (bytes_eqb n) l.

(* which endpoint chain the tree sends interface `name` to (None: the deny at the end) *)
Fixpoint leaf_target (body : list irule) (name : list N) : option string :=
  match body with
  | [] => None
  | r :: rest =>
      match wl_leaf r with
      | Some (n, ch) => if bytes_eqb n name then Some ch else leaf_target rest name
      | None => None
      end
  end.
Fixpoint wl_target (cs : chains) (body : list irule) (name : list N) : option string :=
  match body with
  | [] => None
  | r :: rest =>
      match wl_leaf r with
      | Some (n, ch) => if bytes_eqb n name then Some ch else wl_target cs rest name
      | None =>
          match ir_match r, wl_prefix_rule cs r with
          | [MInIface false pfx true], Some b => if is_prefix pfx name then leaf_target b name else wl_target cs rest name
          | _, _ => None
          end
      end
  end.
