(* C40 — witnesses: the side conditions of the theorems are necessary (each is a concrete, evaluated table). *)
From Coq Require Import List NArith Bool String.
From Verif.Common Require Import Packet Ipt.
From Verif.C40 Require Import Model Spec Shape Proofs ProofsFailsafe.
Import ListNotations.
Open Scope N_scope.

Definition cali : list N := [99; 97; 108; 105].
Definition eth0 : list N := [101; 116; 104; 48].
Definition wcfg (v : ipver) (fsin : list fsport) : cfg :=
  Build_cfg v 0x10000 0x20000 0x80000 0x100000 [cali] fsin [] false false false 4789 false false 51820 51821 false
            [119; 103; 48] [119; 103; 49] 1 false None ADrop AAccept AAccept ADrop false false 0xff000000 0x01000000 [].
Definition env0 : env := {| e_sets := fun _ _ => false; e_other := other_of (fun _ _ => false) |}.
Definition pkt (v : ipver) (proto dport icmpt : N) (inif : list N) (ct : ctstate) : packet :=
  Build_packet v proto 1 2 1000 dport icmpt 0 inif [] ct 0.

Lemma wcfg_ok : forall v fs, cfg_ok (wcfg v fs).
Proof. intros. split; cbn; auto; try (left; reflexivity); discriminate. Qed.

Ltac installed_tac := intros nb H; cbn in H; repeat (destruct H as [<-|H]; [reflexivity|]); contradiction.

(* 1. IPv6 neighbour discovery from an UNKNOWN workload interface is accepted on INPUT although
      DefaultEndpointToHostAction is DROP and cali-from-wl-dispatch knows no endpoint *)
Definition t_nd : chains := static_filter (wcfg V6 []) ++ [(CH_FROM_WL, [R [] ADrop]); (CH_FROM_HEP, [])].
Definition p_nd : packet := pkt V6 58 0 135 (cali ++ [57]) CtNew.
Lemma unknown_iface_nd_refuted :
  exists c filter e p disp, cfg_ok c
    /\ (forall nb, In nb (static_filter c) -> lookup filter (fst nb) = Some (snd nb))
    /\ lookup filter CH_FROM_WL = Some disp /\ wl_root_ok filter disp = true
    /\ pk_ver p = c_ver c /\ wl_iface c (pk_in p) = true /\ name_in (pk_in p) (wl_names filter disp) = false
    /\ infra_allowed c e p = false /\ pre_policy_exempt c p = true
    /\ hook filter e CH_INPUT p = VAccept.
Proof.
  exists (wcfg V6 []), t_nd, env0, p_nd, [R [] ADrop]. split; [apply wcfg_ok|]. split; [installed_tac|].
  repeat split; vm_compute; reflexivity.
Qed.

(* 2. an ESTABLISHED packet from an unknown workload interface is accepted on FORWARD by the forward chain of a
      wildcard host endpoint (its conntrack rule), before cali-from-wl-dispatch is consulted *)
Definition t_est : chains :=
  static_filter (wcfg V4 []) ++
  [ (CH_FROM_WL, [R [] ADrop]); (CH_TO_WL, [R [] ADrop]);
    (CH_FROM_HEP_FWD, [R [] (AGoto "cali-fhfw-any-interface-at-all"%string)]);
    ("cali-fhfw-any-interface-at-all"%string,
       [R [MCtState false [CtRelated; CtEstablished]] AAccept; R [MCtState false [CtInvalid]] ADrop;
        R [] (AClearMark 0x30000); R [] (ASetMark 0x10000); R [] AReturn]);
    (CH_TO_HEP_FWD, []); (CH_CIDR_BLOCK, []) ].
Definition p_est : packet := pkt V4 6 80 0 (cali ++ [57]) CtEstablished.
Definition p_new : packet := pkt V4 6 80 0 (cali ++ [57]) CtNew.
Lemma unknown_iface_forward_established_refuted :
  exists c filter e p disp, cfg_ok c
    /\ (forall nb, In nb (static_filter c) -> lookup filter (fst nb) = Some (snd nb))
    /\ lookup filter CH_FROM_WL = Some disp /\ wl_root_ok filter disp = true
    /\ pk_ver p = c_ver c /\ wl_iface c (pk_in p) = true /\ name_in (pk_in p) (wl_names filter disp) = false
    /\ ct_est p = true
    /\ hook filter e CH_FORWARD p = VAccept
    /\ hook filter e CH_FORWARD (pkt V4 6 80 0 (pk_in p) CtNew) = VDrop.
Proof.
  exists (wcfg V4 []), t_est, env0, p_est, [R [] ADrop]. split; [apply wcfg_ok|]. split; [installed_tac|].
  repeat split; vm_compute; reflexivity.
Qed.

(* 3. the failsafe clause needs "conntrack state not INVALID": the endpoint chains drop INVALID packets before the
      failsafe jump (unless DisableConntrackInvalidCheck) *)
Definition fs22 : list fsport := [Build_fsport 6 22 FsNoNet].
Definition t_inv : chains :=
  static_filter (wcfg V4 fs22) ++
  [ (CH_FROM_HEP, [R [MInIface false eth0 false] (AGoto "cali-fh-eth0"%string)]);
    ("cali-fh-eth0"%string,
       [R [MCtState false [CtRelated; CtEstablished]] AAccept; R [MCtState false [CtInvalid]] ADrop;
        R [] (AJump CH_FS_IN); R [] (AClearMark 0x30000); R [] ADrop]) ].
Lemma failsafe_invalid_ct_refuted :
  exists c filter e p, cfg_ok c
    /\ (forall nb, In nb (static_filter c) -> lookup filter (fst nb) = Some (snd nb))
    /\ hep_disp_ok filter CH_FROM_HEP CH_FS_IN = true
    /\ pk_ver p = c_ver c /\ fs_in_pkt c p = true /\ wl_iface c (pk_in p) = false /\ fs_excluded c e p = false
    /\ ct_invalid p = true
    /\ hook filter e CH_INPUT p = VDrop
    /\ hook filter e CH_INPUT (pkt V4 6 22 0 (pk_in p) CtNew) = VAccept.
Proof.
  exists (wcfg V4 fs22), t_inv, env0, (pkt V4 6 22 0 eth0 CtInvalid). split; [apply wcfg_ok|]. split; [installed_tac|].
  repeat split; vm_compute; reflexivity.
Qed.

(* 4. the hypotheses of the failsafe theorem are satisfiable by a non-trivial table: a host endpoint on eth0 whose
      policy part drops everything, failsafe tcp/22 *)
Definition t_raw : chains :=
  static_raw (wcfg V4 fs22) ++
  [ (CH_FROM_HEP, [R [MInIface false eth0 false] (AGoto "cali-fh-eth0"%string)]); (CH_TO_HEP, []); (CH_RPF_SKIP, []);
    ("cali-fh-eth0"%string, [R [] (AJump CH_FS_IN); R [] (AClearMark 0x30000); R [] ADrop]) ].
Definition t_mangle : chains :=
  static_mangle (wcfg V4 fs22) ++
  [ (CH_FROM_HEP, [R [MInIface false eth0 false] (AGoto "cali-fh-eth0"%string)]);
    ("cali-fh-eth0"%string,
       [R [MCtState false [CtRelated; CtEstablished]] AAccept; R [MCtState false [CtInvalid]] ADrop;
        R [] (AJump CH_FS_IN); R [] (AClearMark 0x30000); R [] ADrop]) ].
Definition t_filter : chains := t_inv ++ [(CH_TO_HEP, [])].

Example failsafe_hypotheses_satisfiable :
  exists c raw mangle filter e p,
    cfg_ok c /\ N.land (c_wg_mark c) (c_scr0 c) = 0
    /\ (forall nb, In nb (static_raw c) -> lookup raw (fst nb) = Some (snd nb))
    /\ (forall nb, In nb (static_mangle c) -> lookup mangle (fst nb) = Some (snd nb))
    /\ (forall nb, In nb (static_filter c) -> lookup filter (fst nb) = Some (snd nb))
    /\ hep_disp_ok raw CH_FROM_HEP CH_FS_IN = true /\ hep_disp_ok raw CH_TO_HEP CH_FS_OUT = true
    /\ hep_disp_ok mangle CH_FROM_HEP CH_FS_IN = true
    /\ hep_disp_ok filter CH_FROM_HEP CH_FS_IN = true /\ hep_disp_ok filter CH_TO_HEP CH_FS_OUT = true
    /\ pk_ver p = c_ver c /\ fs_in_pkt c p = true /\ wl_iface c (pk_in p) = false /\ ct_invalid p = false
    /\ fs_excluded c e p = false
    /\ hook raw e CH_PREROUTING p = VAccept /\ hook mangle e CH_PREROUTING p = VAccept /\ hook filter e CH_INPUT p = VAccept
    (* ... while a packet to another port on the same interface is dropped by the endpoint's policy part *)
    /\ hook filter e CH_INPUT (pkt V4 6 23 0 (pk_in p) CtNew) = VDrop.
Proof.
  exists (wcfg V4 fs22), t_raw, t_mangle, t_filter, env0, (pkt V4 6 22 0 eth0 CtNew).
  split; [apply wcfg_ok|]. split; [reflexivity|].
  split; [installed_tac|]. split; [installed_tac|]. split; [installed_tac|].
  repeat split; vm_compute; reflexivity.
Qed.
