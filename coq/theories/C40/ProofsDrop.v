(* C40 — unknown workload interfaces are dropped on INPUT and FORWARD; tunnel packets from non-cluster sources
   are dropped. *)
From Coq Require Import List NArith Bool String Arith Lia.
From Verif.Common Require Import Packet Ipt.
From Verif.C40 Require Import Model Spec Shape Proofs ProofsFailsafe ProofsFsHooks.
Import ListNotations.
Open Scope N_scope.

Lemma bytes_eqb_sym : forall a b, bytes_eqb a b = bytes_eqb b a.
Proof.
  induction a as [|x a IH]; destruct b as [|y b]; try reflexivity.
  cbn [bytes_eqb]. rewrite IH, N.eqb_sym. reflexivity.
Qed.

Section WlDispatch.
  Variables (cs : chains) (e : env).

  Definition unknown_to (names : list (list N)) (p : packet) : Prop := name_in (pk_in p) names = false.

  Lemma leaf_nomatch : forall r nm ch p names,
    wl_leaf r = Some (nm, ch) -> In nm names -> unknown_to names p -> matches e p (ir_match r) = false.
  Proof.
    intros [ms a] nm ch p names Hl Hin Hu. unfold wl_leaf in Hl. cbn [ir_match ir_action] in *.
    destruct ms as [|m ms]; [discriminate|]. destruct m; try discriminate. destruct neg; [discriminate|].
    destruct wild; [discriminate|]. destruct ms; [|discriminate]. destruct a; try discriminate.
    injection Hl as <- <-. cbn [matches forallb match_one iface_ok]. rewrite xorb_false_l.
    unfold unknown_to, name_in in Hu. pose proof (existsb_false_in _ _ _ Hu Hin) as H.
    rewrite bytes_eqb_sym, H. reflexivity.
  Qed.

  Lemma deny_rule_drops : forall n r rs p, is_deny_rule r = true -> is_drop (G cs e n (r :: rs) p).
  Proof.
    intros n [ms a] rs p H. unfold is_deny_rule in H. cbn [ir_match ir_action] in H.
    destruct ms; [|discriminate]. unfold G. cbn [go ir_match ir_action matches forallb].
    destruct a; try discriminate; exact Logic.I.
  Qed.

  Lemma wl_child_drops : forall n body p,
    wl_child_ok body = true -> unknown_to (leaf_names body) p -> is_drop (G cs e n body p).
  Proof.
    intros n body p. induction body as [|r rest IH]; intros H Hu; [discriminate|].
    destruct rest as [|r2 rest'].
    - apply deny_rule_drops. exact H.
    - change (wl_child_ok (r :: r2 :: rest')) with
        ((match wl_leaf r with Some _ => true | None => false end) && wl_child_ok (r2 :: rest')) in H.
      apply andb_true_iff in H. destruct H as [Hl Hrest].
      destruct (wl_leaf r) as [[nm ch]|] eqn:El; [|discriminate].
      assert (Hnm : matches e p (ir_match r) = false).
      { apply (leaf_nomatch r nm ch p (leaf_names (r :: r2 :: rest')) El); [|exact Hu]. unfold leaf_names. cbn [flat_map]. rewrite El. left. reflexivity. }
      unfold G. cbn [go]. rewrite Hnm. apply IH; [exact Hrest|].
      unfold unknown_to, name_in, leaf_names in *. cbn [flat_map] in Hu. rewrite El in Hu.
      cbn [app existsb] in Hu. apply orb_false_iff in Hu. tauto.
  Qed.

  Lemma wl_root_drops : forall n body p,
    wl_root_ok cs body = true -> unknown_to (wl_names cs body) p -> is_drop (G cs e (S n) body p).
  Proof.
    intros n body p. induction body as [|r rest IH]; intros H Hu; [discriminate|].
    destruct rest as [|r2 rest'].
    - apply deny_rule_drops. exact H.
    - change (wl_root_ok cs (r :: r2 :: rest')) with
        ((match wl_leaf r with
          | Some _ => true
          | None => match wl_prefix_rule cs r with Some b => wl_child_ok b | None => false end
          end) && wl_root_ok cs (r2 :: rest')) in H.
      apply andb_true_iff in H. destruct H as [Hl Hrest].
      assert (Hu' : unknown_to (wl_names cs (r2 :: rest')) p).
      { unfold unknown_to, name_in, wl_names in *. cbn [flat_map] in Hu. rewrite existsb_app in Hu.
        apply orb_false_iff in Hu. tauto. }
      destruct (wl_leaf r) as [[nm ch]|] eqn:El.
      + assert (Hnm : matches e p (ir_match r) = false).
        { apply (leaf_nomatch r nm ch p (wl_names cs (r :: r2 :: rest')) El); [|exact Hu]. unfold wl_names. cbn [flat_map]. rewrite El. left. reflexivity. }
        unfold G. cbn [go]. rewrite Hnm. apply IH; assumption.
      + destruct (wl_prefix_rule cs r) as [b|] eqn:Ep; [|discriminate].
        assert (Hub : unknown_to (leaf_names b) p).
        { unfold unknown_to, name_in, wl_names in *. cbn [flat_map] in Hu. rewrite El, Ep in Hu. rewrite existsb_app in Hu.
          apply orb_false_iff in Hu. tauto. }
        destruct r as [ms a]. unfold wl_prefix_rule in Ep. cbn [ir_match ir_action] in Ep.
        destruct ms as [|m ms]; [discriminate|]. destruct m; try discriminate. destruct neg; [discriminate|].
        destruct wild; [|discriminate]. destruct ms; [|discriminate]. destruct a; try discriminate.
        unfold G. cbn [go ir_match ir_action].
        destruct (matches e p [MInIface false name true]).
        * rewrite Ep. rewrite run_S. pose proof (wl_child_drops n b p Hl Hub) as Hd.
          destruct (G cs e n b p) as [[| |] ?|?|?| |]; simpl in *; auto; contradiction.
        * apply IH; assumption.
  Qed.
End WlDispatch.

Section Unknown.
  Variables (c : cfg) (cs : chains) (e : env).
  Hypothesis Hc : cfg_ok c.
  Hypothesis Hlocal : forall p m, e_other e (2 * O_DST_LOCAL) (set_mark p m) = e_other e (2 * O_DST_LOCAL) p.
  Variable disp : list irule.
  Hypothesis Hdisp : lookup cs CH_FROM_WL = Some disp.
  Hypothesis Hroot : wl_root_ok cs disp = true.
  (* kube-ipvs mode puts the forward-check detour in front of the workload rules of cali-INPUT: not covered here *)
  Hypothesis Hipvs : c_ipvs c = false.

  (* none of the pre-policy special-case rules of cali-wl-to-host fires (Spec.pre_policy_exempt says when they do) *)
  Definition pre_rules_miss (p : packet) : Prop :=
    forall r, In r (wl_to_host_pre c) -> matches e p (ir_match r) = false.

  Definition I_unk (p : packet) : Prop :=
    wl_iface c (pk_in p) = true /\ unknown_to (wl_names cs disp) p.
  Lemma I_unk_mark : forall p m, I_unk p -> I_unk (set_mark p m).
  Proof. intros p m H. exact H. Qed.

  Lemma dispatch_drops : forall n, seg_drop cs e I_unk (S n) disp.
  Proof. intros n p (_ & Hu). apply wl_root_drops; assumption. Qed.

  (* cali-wl-to-host drops them unless a pre-policy rule fires *)
  Lemma wl_to_host_drops : forall n p, I_unk p -> pre_rules_miss p -> is_drop (G cs e (S (S n)) (wl_to_host c) p).
  Proof.
    intros n p Hp Hmiss. unfold wl_to_host, G. rewrite go_app.
    assert (Hpre : go cs e (run (S (S n)) cs e) (wl_to_host_pre c) p = RFall p).
    { unfold pre_rules_miss in Hmiss. revert Hmiss. generalize (wl_to_host_pre c). intros l. induction l as [|r l IH]; intro H; [reflexivity|].
      cbn [go]. rewrite (H r (or_introl eq_refl)). apply IH. intros x Hx. apply H. right. exact Hx. }
    rewrite Hpre. cbn [go R ir_match ir_action matches forallb]. rewrite Hdisp. rewrite run_S.
    pose proof (dispatch_drops n p Hp) as Hd.
    destruct (G cs e (S n) disp p) as [[| |] ?|?|?| |]; simpl in *; auto; contradiction.
  Qed.

  (* some workload-prefix rule of a list fires; its target drops *)
  Lemma input_wl_rules_drop : forall n rest l p,
    lookup cs CH_WL_TO_HOST = Some (wl_to_host c) -> I_unk p -> pre_rules_miss p ->
    existsb (fun pfx => is_prefix pfx (pk_in p)) l = true ->
    is_drop (G cs e (S (S (S n))) (map (fun pfx => R [MInIface false pfx true] (AGoto CH_WL_TO_HOST)) l ++ rest) p).
  Proof.
    intros n rest l p Hw Hp Hmiss. induction l as [|x l IH]; intro H; [discriminate|].
    cbn [existsb] in H. unfold G. cbn [map app go R ir_match ir_action matches forallb match_one iface_ok].
    rewrite xorb_false_l, andb_true_r. destruct (is_prefix x (pk_in p)) eqn:Ex.
    - rewrite Hw, run_S. pose proof (wl_to_host_drops n p Hp Hmiss) as Hd.
      destruct (G cs e (S (S n)) (wl_to_host c) p) as [[| |] ?|?|?| |]; simpl in *; auto; contradiction.
    - cbn [orb] in H. apply IH, H.
  Qed.

  (* INPUT: the tunnel / wireguard rules in front either drop the packet or (not an allow-listed infrastructure
     packet) let it pass to the workload-prefix rules *)
  Definition I_unk_in (p : packet) : Prop :=
    I_unk p /\ pre_rules_miss p /\ infra_allowed c e p = false.

  Lemma front_dp : forall n, seg_dp cs e I_unk_in n (input_tunnel_rules c ++ input_wg_rules c).
  Proof.
    intro n. apply dp_app.
    - unfold input_tunnel_rules. apply dp_app; [|apply dp_app].
      + destruct (is_v4 c && c_ipip c) eqn:Eg; [|apply dp_nil]. cbn [opt_rules].
        apply dp_cons; [|apply dp_cons; [apply dp_rule_deny, (ok_deny c Hc)|apply dp_nil]].
        apply dp_rule_nomatch. intros p (_ & _ & Hi). unfold infra_allowed in Hi.
        apply orb_false_iff in Hi. destruct Hi as [Hi _]. apply orb_false_iff in Hi. destruct Hi as [Hi _].
        unfold ipip_from_cluster, is_ipip, in_set, oth in Hi. rewrite Eg in Hi. cbn [andb] in Hi.
        change (MOth false O_DST_LOCAL) with (MOther (2 * O_DST_LOCAL)). cbn [matches forallb match_one]. rewrite !xorb_false_l, andb_true_r. unfold src_member.
        rewrite <- andb_assoc in Hi. exact Hi.
      + destruct (is_v4 c && c_vxlan4 c) eqn:Eg; [|apply dp_nil]. cbn [opt_rules].
        apply dp_cons; [|apply dp_cons; [apply dp_rule_deny; left; reflexivity|apply dp_nil]].
        apply dp_rule_nomatch. intros p (_ & _ & Hi). unfold infra_allowed in Hi.
        apply orb_false_iff in Hi. destruct Hi as [Hi _]. apply orb_false_iff in Hi. destruct Hi as [_ Hi].
        unfold vxlan_from_cluster, is_vxlan_to_host, vxlan_here, in_set, oth in Hi. rewrite Eg in Hi. cbn [orb andb] in Hi.
        change (MOth false O_DST_LOCAL) with (MOther (2 * O_DST_LOCAL)). cbn [matches forallb match_one]. rewrite !xorb_false_l, andb_true_r, in_ranges_port1. unfold src_member.
        destruct (pk_proto p =? 17), (pk_dport p =? c_vxlan_port c), (e_other e (2 * O_DST_LOCAL) p),
          (e_sets e SET_VXLAN_NETS (MemIP (pk_src p))); try reflexivity; discriminate.
      + destruct (is_v6 c && c_vxlan6 c) eqn:Eg; [|apply dp_nil]. cbn [opt_rules].
        apply dp_cons; [|apply dp_cons; [apply dp_rule_deny, (ok_deny c Hc)|apply dp_nil]].
        apply dp_rule_nomatch. intros p (_ & _ & Hi). unfold infra_allowed in Hi.
        apply orb_false_iff in Hi. destruct Hi as [Hi _]. apply orb_false_iff in Hi. destruct Hi as [_ Hi].
        unfold vxlan_from_cluster, is_vxlan_to_host, vxlan_here, in_set, oth in Hi. rewrite Eg in Hi. rewrite orb_true_r in Hi. cbn [andb] in Hi.
        change (MOth false O_DST_LOCAL) with (MOther (2 * O_DST_LOCAL)). cbn [matches forallb match_one]. rewrite !xorb_false_l, andb_true_r, in_ranges_port1. unfold src_member.
        destruct (pk_proto p =? 17), (pk_dport p =? c_vxlan_port c), (e_other e (2 * O_DST_LOCAL) p),
          (e_sets e SET_VXLAN_NETS (MemIP (pk_src p))); try reflexivity; discriminate.
    - unfold input_wg_rules. apply dp_app.
      + destruct (is_v4 c && c_wg4 c) eqn:Eg; [|apply dp_nil]. cbn [opt_rules]. apply dp_cons; [|apply dp_nil].
        apply dp_rule_nomatch. intros p (_ & _ & Hi). unfold infra_allowed in Hi. apply orb_false_iff in Hi. destruct Hi as [_ Hi].
        unfold is_wg_to_host, oth in Hi. rewrite Eg in Hi. cbn [andb] in Hi.
        change (MOth false O_DST_LOCAL) with (MOther (2 * O_DST_LOCAL)). cbn [matches forallb match_one]. rewrite !xorb_false_l, andb_true_r, in_ranges_port1.
        destruct (pk_proto p =? 17), (pk_dport p =? c_wg_port4 c), (e_other e (2 * O_DST_LOCAL) p); try reflexivity;
          cbn [andb orb] in Hi; discriminate.
      + destruct (is_v6 c && c_wg6 c) eqn:Eg; [|apply dp_nil]. cbn [opt_rules]. apply dp_cons; [|apply dp_nil].
        apply dp_rule_nomatch. intros p (_ & _ & Hi). unfold infra_allowed in Hi. apply orb_false_iff in Hi. destruct Hi as [_ Hi].
        unfold is_wg_to_host, oth in Hi. rewrite Eg in Hi. cbn [andb] in Hi.
        change (MOth false O_DST_LOCAL) with (MOther (2 * O_DST_LOCAL)). cbn [matches forallb match_one]. rewrite !xorb_false_l, andb_true_r, in_ranges_port1.
        destruct (pk_proto p =? 17), (pk_dport p =? c_wg_port6 c), (e_other e (2 * O_DST_LOCAL) p); try reflexivity;
          cbn [andb orb] in Hi; rewrite ?orb_true_r in Hi; discriminate.
  Qed.

  Theorem unknown_dropped_input : forall n p,
    lookup cs CH_WL_TO_HOST = Some (wl_to_host c) ->
    I_unk_in p -> is_drop (G cs e (S (S (S n))) (filter_input c) p).
  Proof.
    intros n p Hw Hp. unfold filter_input, input_ipvs_rules. rewrite Hipvs. cbn [opt_rules app]. unfold G. rewrite go_app.
    pose proof (front_dp (S (S (S n))) p Hp) as Hf. unfold G in Hf.
    destruct (go cs e (run (S (S (S n))) cs e) (input_tunnel_rules c ++ input_wg_rules c) p) as [[| |] ?|?|p'| |];
      simpl in Hf; try contradiction; try exact Logic.I.
    destruct Hf as ((Hw1 & Hu) & Hmiss & _).
    apply (input_wl_rules_drop n (input_hep_rules c) (c_prefixes c) p' Hw); [split; assumption|exact Hmiss|exact Hw1].
  Qed.

  (* FORWARD: the two chains visited before the from-workload dispatch must not ACCEPT the packet (hypotheses
     Hhep / Htowl: they drop it or hand it back); see c40_unknown_iface_forward_established_refuted *)
  Theorem unknown_dropped_forward : forall n hepfwd towl p,
    lookup cs CH_FROM_HEP_FWD = Some hepfwd -> callee_dp cs e I_unk (S n) hepfwd ->
    lookup cs CH_TO_WL = Some towl -> callee_dp cs e I_unk (S n) towl ->
    I_unk p -> is_drop (G cs e (S (S n)) (filter_forward c) p).
  Proof.
    intros n hepfwd towl p Hh Hhep Ht Htowl Hp. unfold filter_forward, G. rewrite go_app.
    assert (Hfront : seg_dp cs e I_unk (S (S n)) [R [] (AClearMark (N.land (all_bits c) (lnot32 (c_accept c))));
                                                   R [m_clear (c_accept c)] (AJump CH_FROM_HEP_FWD)]).
    { apply dp_cons; [apply (dp_rule_mark cs e I_unk I_unk_mark)|].
      apply dp_cons; [apply (dp_rule_jump cs e I_unk (S n) _ CH_FROM_HEP_FWD hepfwd Hh Hhep)|apply dp_nil]. }
    specialize (Hfront p Hp). unfold G in Hfront.
    destruct (go cs e (run (S (S n)) cs e) _ p) as [[| |] ?|?|p'| |]; simpl in Hfront; try contradiction; try exact Logic.I.
    rewrite go_app. clear Hp p. revert p' Hfront.
    assert (Hloop : forall l p, I_unk p -> existsb (fun pfx => is_prefix pfx (pk_in p)) l = true ->
      forall rest, is_drop (go cs e (run (S (S n)) cs e)
        (flat_map (fun pfx => [R [MInIface false pfx true] (AJump CH_FROM_WL); R [MOutIface false pfx true] (AJump CH_TO_WL)]) l ++ rest) p)).
    { induction l as [|x l IH]; intros p Hp H rest; [discriminate|].
      cbn [existsb] in H. cbn [flat_map app go R ir_match ir_action matches forallb match_one iface_ok].
      rewrite !xorb_false_l, !andb_true_r. destruct (is_prefix x (pk_in p)) eqn:Ex.
      - rewrite Hdisp, run_S. pose proof (dispatch_drops n p Hp) as Hd.
        destruct (G cs e (S n) disp p) as [[| |] ?|?|?| |]; simpl in *; auto; contradiction.
      - cbn [orb] in H. destruct (is_prefix x (pk_out p)).
        + rewrite Ht, run_S. pose proof (Htowl p Hp) as Hd.
          pose proof (run_unmark (S (S n)) cs e towl p) as Hun. rewrite run_S in Hun.
          destruct (G cs e (S n) towl p) as [[| |] ?|p2|p2| |]; simpl in Hd; try contradiction; try exact Logic.I;
            simpl in Hun; apply (f_equal pk_in) in Hun; cbn [pk_in unmark set_mark] in Hun;
            (apply IH; [exact Hd|rewrite Hun; exact H]).
        + apply IH; assumption. }
    intros p' Hp'. rewrite <- go_app.
    change (go cs e (run (S (S n)) cs e) (forward_wl_rules c ++ [R [] (AJump CH_TO_HEP_FWD); R [] (AJump CH_CIDR_BLOCK)]) p')
      with (go cs e (run (S (S n)) cs e)
              (flat_map (fun pfx => [R [MInIface false pfx true] (AJump CH_FROM_WL); R [MOutIface false pfx true] (AJump CH_TO_WL)]) (c_prefixes c)
               ++ [R [] (AJump CH_TO_HEP_FWD); R [] (AJump CH_CIDR_BLOCK)]) p').
    apply Hloop; [exact Hp'|]. destruct Hp' as [H _]. exact H.
  Qed.
End Unknown.
