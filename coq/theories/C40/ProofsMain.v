(* C40 — from segment judgements to hook verdicts; the failsafe clause on all paths. *)
From Coq Require Import List NArith Bool String Arith Lia.
From Verif.Common Require Import Packet Ipt.
From Verif.C40 Require Import Model Spec Shape Proofs ProofsFailsafe ProofsFsHooks ProofsRaw.
Import ListNotations.
Open Scope N_scope.

Lemma okres_not_dropped : forall I r, okres I r -> not_dropped (verdict_of r) = true.
Proof. intros I [[| |] ?|?|?| |]; simpl; intro H; try reflexivity; contradiction. Qed.

Lemma hook_not_dropped : forall cs e I body top p,
  lookup cs top = Some body -> (forall n, seg_ok cs e I (4 + n) body) -> I p ->
  not_dropped (hook cs e top p) = true.
Proof.
  intros cs e I body top p Hl Hseg Hp. unfold hook, run_chain. rewrite Hl.
  change FUEL with (S (4 + 11))%nat. rewrite run_S. apply (okres_not_dropped I). apply Hseg, Hp.
Qed.

Lemma hook_not_dropped_pt : forall cs e I body top p,
  lookup cs top = Some body -> (forall n, okres I (G cs e (4 + n) body p)) ->
  not_dropped (hook cs e top p) = true.
Proof.
  intros cs e I body top p Hl H. unfold hook, run_chain. rewrite Hl.
  change FUEL with (S (4 + 11))%nat. rewrite run_S. apply (okres_not_dropped I). apply H.
Qed.

Lemma disp_ok_lookup : forall cs root fs, hep_disp_ok cs root fs = true -> exists b, lookup cs root = Some b.
Proof. intros cs root fs H. unfold hep_disp_ok, disp_ok in H. destruct (lookup cs root) as [b|]; [exists b; reflexivity|discriminate]. Qed.

(* the static chains of a configuration are installed in the three tables *)
Record installed (c : cfg) (raw mangle filter : chains) : Prop := {
  in_raw : forall nb, In nb (static_raw c) -> lookup raw (fst nb) = Some (snd nb);
  in_mangle : forall nb, In nb (static_mangle c) -> lookup mangle (fst nb) = Some (snd nb);
  in_filter : forall nb, In nb (static_filter c) -> lookup filter (fst nb) = Some (snd nb)
}.

(* the host-endpoint dispatch chains of the three tables have the dispatch shape, and every endpoint chain they
   lead to starts (after its conntrack rules) with the jump to the table's failsafe chain *)
Record hep_shapes (raw mangle filter : chains) : Prop := {
  sh_raw_in : hep_disp_ok raw CH_FROM_HEP CH_FS_IN = true;
  sh_raw_out : hep_disp_ok raw CH_TO_HEP CH_FS_OUT = true;
  sh_mangle_in : hep_disp_ok mangle CH_FROM_HEP CH_FS_IN = true;
  sh_mangle_out : hep_disp_ok mangle CH_TO_HEP CH_FS_OUT = true;
  sh_mangle_dscp : exists d, lookup mangle CH_EGRESS_DSCP = Some d /\ noop_chain d = true;
  sh_filter_in : hep_disp_ok filter CH_FROM_HEP CH_FS_IN = true;
  sh_filter_out : hep_disp_ok filter CH_TO_HEP CH_FS_OUT = true
}.
(* kube-ipvs mode only: cali-set-endpoint-mark has its shape (Shape.setmark_ok) *)
Definition ipvs_shape (c : cfg) (filter : chains) : Prop := c_ipvs c = true -> setmark_ok filter (c_prefixes c) = true.

Theorem failsafe_accept_all_paths : forall c raw mangle filter e p,
  cfg_ok c -> N.land (c_wg_mark c) (c_scr0 c) = 0 ->
  (forall q m, e_other e (2 * O_DST_LOCAL) (set_mark q m) = e_other e (2 * O_DST_LOCAL) q) ->
  installed c raw mangle filter -> hep_shapes raw mangle filter -> ipvs_shape c filter ->
  pk_ver p = c_ver c ->
  fs_in_ok c raw mangle filter e p = true /\ fs_out_ok c raw mangle filter e p = true.
Proof.
  intros c raw mangle filter e p Hc Hwg Hlocal [Hr Hm Hf] [S1 S2 S3 S3o [dscp [Hdl Hdn]] S4 S5] Hipvs Hv. split.
  - unfold fs_in_ok. destruct (_ && _) eqn:Econd; [|reflexivity].
    rewrite !andb_true_iff, !negb_true_iff in Econd. destruct Econd as [[[E1 E2] E3] E4].
    assert (Hp : I_in c e p) by (unfold I_in; repeat split; assumption).
    rewrite !andb_true_iff. repeat split.
    + destruct (disp_ok_lookup _ _ _ S1) as [d Hd].
      apply (hook_not_dropped raw e (I_in c e) (raw_prerouting c)); [apply (Hr (CH_PREROUTING, _)); cbn; tauto| |exact Hp].
      intro n. apply (fs_in_raw_prerouting c raw e Hc Hlocal n d); [intros _; split; [apply (Hr (CH_WG_MARK, _)); cbn; tauto|exact Hwg]|apply (Hr (CH_FS_IN, _)); cbn; tauto|exact Hd|exact S1].
    + destruct (disp_ok_lookup _ _ _ S3) as [d Hd].
      apply (hook_not_dropped mangle e (I_in c e) (mangle_prerouting c)); [apply (Hm (CH_PREROUTING, _)); cbn; tauto| |exact Hp].
      intro n. apply (fs_in_mangle_prerouting c mangle e Hc Hlocal n d); [apply (Hm (CH_FS_IN, _)); cbn; tauto|exact Hd|exact S3].
    + destruct (disp_ok_lookup _ _ _ S4) as [d Hd].
      apply (hook_not_dropped filter e (I_in c e) (filter_input c)); [apply (Hf (CH_INPUT, _)); unfold static_filter; apply in_or_app; left; cbn; tauto| |exact Hp].
      intro n. apply (fs_in_filter_input c filter e Hc Hlocal n d); [|apply (Hf (CH_FS_IN, _)); unfold static_filter; apply in_or_app; left; cbn; tauto|exact Hd|exact S4].
      intro Ei. split; [|apply Hipvs, Ei]. apply (Hf (CH_FWD_CHECK, _)). unfold static_filter. rewrite Ei. apply in_or_app. right. left. reflexivity.
  - unfold fs_out_ok. destruct (_ && _) eqn:Econd; [|reflexivity].
    rewrite !andb_true_iff, !negb_true_iff in Econd. destruct Econd as [[[E1 E2] E3] E4].
    assert (Hp : I_out c p) by (unfold I_out; repeat split; assumption).
    rewrite !andb_true_iff. split; [split|].
    + destruct (disp_ok_lookup _ _ _ S2) as [d Hd].
      apply (hook_not_dropped raw e (I_out c) (raw_output c)); [apply (Hr (CH_OUTPUT, _)); cbn; tauto| |exact Hp].
      intro n. apply (fs_out_raw_output c raw e n d); [apply (Hr (CH_FS_OUT, _)); cbn; tauto|exact Hd|exact S2].
    + destruct (disp_ok_lookup _ _ _ S5) as [d Hd].
      apply (hook_not_dropped_pt filter e (I_out c) (filter_output c)); [apply (Hf (CH_OUTPUT, _)); unfold static_filter; apply in_or_app; left; cbn; tauto|].
      intro n. apply (fs_out_filter_output c filter e Hc n d p); [apply (Hf (CH_FS_OUT, _)); unfold static_filter; apply in_or_app; left; cbn; tauto|exact Hd|exact S5|exact Hp|exact E4].
    + destruct (disp_ok_lookup _ _ _ S3o) as [d Hd].
      apply (hook_not_dropped mangle e (I_out c) (mangle_postrouting c)); [apply (Hm (CH_POSTROUTING, _)); cbn; tauto| |exact Hp].
      intro n. apply (fs_out_mangle_postrouting c mangle e n d dscp); [apply (Hm (CH_FS_OUT, _)); cbn; tauto|exact Hd|exact S3o|exact Hdl|exact Hdn].
Qed.

(* responses on the untracked path: the raw table sees them before conntrack, whatever their conntrack state *)
Theorem failsafe_responses_untracked : forall c raw e p,
  cfg_ok c -> N.land (c_wg_mark c) (c_scr0 c) = 0 ->
  (forall nb, In nb (static_raw c) -> lookup raw (fst nb) = Some (snd nb)) ->
  disp_ok raw (raw_hep_ok CH_FS_IN) CH_FROM_HEP = true -> disp_ok raw (raw_hep_ok CH_FS_OUT) CH_TO_HEP = true ->
  pk_ver p = c_ver c ->
  fs_resp_ok c raw e p = true.
Proof.
  intros c raw e p Hc Hwg Hr S1 S2 Hv. unfold fs_resp_ok. apply andb_true_iff. split.
  - destruct (_ && _) eqn:Econd; [|reflexivity].
    rewrite andb_true_iff, negb_true_iff in Econd. destruct Econd as [E1 E2].
    unfold disp_ok in S1. destruct (lookup raw CH_FROM_HEP) as [d|] eqn:Hd; [|discriminate].
    apply (hook_not_dropped raw e (I_resp_in c) (raw_prerouting c)); [apply (Hr (CH_PREROUTING, _)); cbn; tauto| |repeat split; assumption].
    intro n. apply (fs_resp_raw_prerouting c raw e Hc n d);
      [intros _; split; [apply (Hr (CH_WG_MARK, _)); cbn; tauto|exact Hwg]|apply (Hr (CH_FS_IN, _)); cbn; tauto|exact Hd|].
    unfold disp_ok. rewrite Hd. exact S1.
  - destruct (_ && _) eqn:Econd; [|reflexivity].
    rewrite andb_true_iff, negb_true_iff in Econd. destruct Econd as [E1 E2].
    unfold disp_ok in S2. destruct (lookup raw CH_TO_HEP) as [d|] eqn:Hd; [|discriminate].
    apply (hook_not_dropped raw e (I_resp_out c) (raw_output c)); [apply (Hr (CH_OUTPUT, _)); cbn; tauto| |repeat split; assumption].
    intro n. apply (fs_resp_raw_output c raw e n d); [apply (Hr (CH_FS_OUT, _)); cbn; tauto|exact Hd|].
    unfold disp_ok. rewrite Hd. exact S2.
Qed.

(* hook wiring: a kernel chain whose first rule is the unconditional jump to Felix's top-level chain (what the real
   setUpIptablesNormal inserts: Model.hook_wiring, compared with the recorded calls by every run) takes Felix's
   terminal verdict; only when Felix's chain returns do the kernel chain's remaining rules (other software's, and for
   FORWARD the appended accept rules) see the packet. *)
Theorem kernel_chain_first_rule : forall cs e top body rest f p,
  lookup cs top = Some body ->
  run (S f) cs e (R [] (AJump top) :: rest) p =
  match run f cs e body p with
  | RFall p' | RReturn p' => run (S f) cs e rest p'
  | r => r
  end.
Proof.
  intros cs e top body rest f p Hl. cbn [run go R ir_match ir_action matches forallb]. rewrite Hl.
  destruct (run f cs e body p); reflexivity.
Qed.
