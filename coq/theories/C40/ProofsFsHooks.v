(* C40 — failsafe clause, hook by hook (filter INPUT/OUTPUT, mangle PREROUTING, raw PREROUTING/OUTPUT). *)
From Coq Require Import List NArith Bool String Arith Lia.
From Verif.Common Require Import Packet Ipt.
From Verif.C08 Require Import ProofsMark.
From Verif.C40 Require Import Model Spec Shape Proofs ProofsFailsafe.
Import ListNotations.
Open Scope N_scope.

Lemma in_ranges_port1 : forall v x, in_ranges (port1 v) x = N.eqb x v.
Proof.
  intros v x. unfold in_ranges, port1, in_range. cbn [existsb fst snd]. rewrite orb_false_r.
  destruct (N.eqb_spec x v) as [->|Hne].
  - rewrite N.leb_refl. reflexivity.
  - destruct (N.leb_spec v x), (N.leb_spec x v); try reflexivity. exfalso. apply Hne. apply N.le_antisymm; assumption.
Qed.

Section Pair.
  Variables (cs : chains) (e : env) (I : packet -> Prop).
  (* an allow rule followed by a rule that only matches what the first one matches *)
  Lemma seg_pair_guard : forall n ms1 a1 ms2 a2, is_allow a1 ->
    (forall p, I p -> matches e p ms2 = true -> matches e p ms1 = true) ->
    seg_ok cs e I n [R ms1 a1; R ms2 a2].
  Proof.
    intros n ms1 a1 ms2 a2 Ha H p Hp. unfold G. cbn [go R ir_match ir_action].
    destruct (matches e p ms1) eqn:E1.
    - destruct Ha; subst a1; simpl; auto.
    - destruct (matches e p ms2) eqn:E2; [|exact Hp]. rewrite (H p Hp E2) in E1. discriminate.
  Qed.
End Pair.

Section Hooks.
  Variables (c : cfg) (cs : chains) (e : env).
  Hypothesis Hc : cfg_ok c.
  (* the address-type oracle does not look at the skb mark *)
  Hypothesis Hlocal : forall p m, e_other e (2 * O_DST_LOCAL) (set_mark p m) = e_other e (2 * O_DST_LOCAL) p.

  Lemma fallow : is_allow (c_filter_allow c).  Proof. exact (ok_fallow c Hc). Qed.
  Lemma mallow : is_allow (c_mangle_allow c).  Proof. exact (ok_mallow c Hc). Qed.

  Lemma fs_excluded_mark : forall p m, fs_excluded c e (set_mark p m) = fs_excluded c e p.
  Proof.
    intros p m. unfold fs_excluded, tunnel_non_cluster, is_vxlan_to_host, is_ipip, oth, in_set.
    rewrite Hlocal. reflexivity.
  Qed.

  (* ---------------------------------------------------------------- inbound *)
  Definition I_in (p : packet) : Prop :=
    pk_ver p = c_ver c /\ fs_in_pkt c p = true /\ wl_iface c (pk_in p) = false /\ ct_invalid p = false
    /\ fs_excluded c e p = false.
  Lemma I_in_mark : forall p m, I_in p -> I_in (set_mark p m).
  Proof.
    intros p m (H1 & H2 & H3 & H4 & H5). unfold I_in. rewrite fs_excluded_mark. repeat split; assumption.
  Qed.

  Lemma I_in_not_wl : forall p pfx, I_in p -> In pfx (c_prefixes c) -> matches e p [MInIface false pfx true] = false.
  Proof.
    intros p pfx (_ & _ & H3 & _) Hin. cbn [matches forallb match_one iface_ok]. rewrite xorb_false_l.
    rewrite (wl_iface_false c _ pfx H3 Hin). reflexivity.
  Qed.

  Lemma seg_input_tunnel : forall n, seg_ok cs e I_in n (input_tunnel_rules c).
  Proof.
    intro n. unfold input_tunnel_rules. apply seg_app; [|apply seg_app].
    - destruct (is_v4 c && c_ipip c) eqn:Eg; [|apply seg_nil]. cbn [opt_rules].
      apply seg_cons; [apply seg_rule_allow, fallow|]. apply seg_cons; [|apply seg_nil].
      apply seg_rule_nomatch. intros p (_ & _ & _ & _ & H5). cbn [matches forallb match_one]. rewrite xorb_false_l.
      unfold fs_excluded in H5. apply orb_false_iff in H5. destruct H5 as [H5 _].
      unfold is_ipip in H5. rewrite andb_true_iff in Eg. destruct Eg as [E1 E2]. rewrite E1, E2 in H5.
      cbn [andb] in H5. rewrite H5. reflexivity.
    - destruct (is_v4 c && c_vxlan4 c) eqn:Eg; [|apply seg_nil]. cbn [opt_rules].
      apply seg_pair_guard; [apply fallow|]. intros p (_ & _ & _ & _ & H5) Hm.
      cbn [matches forallb match_one] in *. rewrite !xorb_false_l in *. rewrite in_ranges_port1 in *.
      rewrite !andb_true_iff in Hm. destruct Hm as (Hp1 & Hp2 & Hp3 & _).
      rewrite Hp1, Hp2. cbn [andb]. rewrite andb_true_r.
      unfold fs_excluded in H5. apply orb_false_iff in H5. destruct H5 as [_ H5].
      unfold tunnel_non_cluster in H5. apply orb_false_iff in H5. destruct H5 as [_ H5].
      assert (Hv : is_vxlan_to_host c e p = true).
      { unfold is_vxlan_to_host, vxlan_here. rewrite Eg, Hp1, Hp2. cbn [orb andb]. exact Hp3. }
      rewrite Hv in H5. cbn [andb] in H5. apply negb_false_iff in H5. unfold in_set in H5.
      unfold src_member. rewrite H5. cbn [andb]. exact Hp3.
    - destruct (is_v6 c && c_vxlan6 c) eqn:Eg; [|apply seg_nil]. cbn [opt_rules].
      apply seg_pair_guard; [apply fallow|]. intros p (_ & _ & _ & _ & H5) Hm.
      cbn [matches forallb match_one] in *. rewrite !xorb_false_l in *. rewrite in_ranges_port1 in *.
      rewrite !andb_true_iff in Hm. destruct Hm as (Hp1 & Hp2 & Hp3 & _).
      rewrite Hp1, Hp2. cbn [andb]. rewrite andb_true_r.
      unfold fs_excluded in H5. apply orb_false_iff in H5. destruct H5 as [_ H5].
      unfold tunnel_non_cluster in H5. apply orb_false_iff in H5. destruct H5 as [_ H5].
      assert (Hv : is_vxlan_to_host c e p = true).
      { unfold is_vxlan_to_host, vxlan_here. rewrite Eg, Hp1, Hp2. rewrite orb_true_r. cbn [andb]. exact Hp3. }
      rewrite Hv in H5. cbn [andb] in H5. apply negb_false_iff in H5. unfold in_set in H5.
      unfold src_member. rewrite H5. cbn [andb]. exact Hp3.
  Qed.

  Lemma seg_input_wg : forall n, seg_ok cs e I_in n (input_wg_rules c).
  Proof.
    intro n. unfold input_wg_rules. apply seg_app; apply seg_opt; (apply seg_cons; [apply seg_rule_allow, fallow|apply seg_nil]).
  Qed.

  Lemma seg_input_wl : forall n, seg_ok cs e I_in n (input_wl_rules c).
  Proof.
    intro n. unfold input_wl_rules. apply seg_map. intros pfx Hin. apply seg_rule_nomatch.
    intros p Hp. apply (I_in_not_wl p pfx Hp Hin).
  Qed.

  Lemma I_in_ct : forall p, I_in p -> ct_invalid p = false.
  Proof. intros p (_ & _ & _ & H & _). exact H. Qed.

  (* ---- kube-ipvs: cali-set-endpoint-mark never stops a packet that is not from a workload interface *)
  Lemma mark_only_ok : forall n body, mark_only body = true -> seg_ok cs e I_in n body.
  Proof.
    intros n body. induction body as [|r rest IH]; intro H; [apply seg_nil|].
    cbn [mark_only forallb] in H. apply andb_true_iff in H. destruct H as [Hr Hrest].
    apply seg_cons; [|apply IH, Hrest]. destruct r as [ms a]. cbn [ir_action] in Hr.
    destruct a; try discriminate. apply (seg_rule_mark cs e I_in I_in_mark).
  Qed.
  Lemma sem_leaf_ok : forall n r, sem_leaf cs r = true -> seg_ok cs e I_in (S n) [r].
  Proof.
    intros n [ms a] H. unfold sem_leaf in H. cbn [ir_match ir_action] in H. apply andb_true_iff in H. destruct H as [_ H].
    destruct a; try discriminate. destruct (lookup cs c0) as [b|] eqn:El; [|discriminate].
    apply (seg_rule_goto cs e I_in n ms c0 b El). apply mark_only_ok, H.
  Qed.
  Lemma sem_leaves_ok : forall n body, forallb (sem_leaf cs) body = true -> seg_ok cs e I_in (S n) body.
  Proof.
    intros n body. induction body as [|r rest IH]; intro H; [apply seg_nil|].
    cbn [forallb] in H. apply andb_true_iff in H. destruct H as [Hr Hrest].
    apply seg_cons; [apply sem_leaf_ok, Hr|apply IH, Hrest].
  Qed.
  Lemma sem_rule_ok : forall n r, sem_rule cs (c_prefixes c) r = true -> seg_ok cs e I_in (S (S n)) [r].
  Proof.
    intros n r H. unfold sem_rule in H. rewrite !orb_true_iff in H. destruct H as [[[H|H]|H]|H].
    - apply (seg_ok_mono cs e I_in (S n)); [lia|]. apply sem_leaf_ok, H.
    - destruct r as [ms a]. cbn [ir_match ir_action] in H. apply andb_true_iff in H. destruct H as [_ H].
      destruct a; try discriminate. destruct (lookup cs c0) as [b|] eqn:El; [|discriminate].
      apply (seg_rule_goto cs e I_in (S n) ms c0 b El). apply sem_leaves_ok, H.
    - destruct r as [ms a]. cbn [ir_match ir_action] in H.
      destruct ms as [|m ms]; [discriminate|]. destruct m; try discriminate. destruct neg; [discriminate|].
      destruct wild; [|discriminate]. destruct ms; [|discriminate].
      assert (Hin : exists pfx, In pfx (c_prefixes c) /\ bytes_eqb name pfx = true).
      { destruct a; try discriminate; apply existsb_exists in H; exact H. }
      destruct Hin as [pfx [Hin Heq]].
      apply (seg_rule_nomatch cs e I_in). intros p (_ & _ & H3 & _).
      cbn [matches forallb match_one iface_ok]. rewrite xorb_false_l, andb_true_r.
      assert (name = pfx).
      { clear -Heq. revert pfx Heq. induction name as [|x l IH]; destruct pfx as [|y l']; cbn; try discriminate; auto.
        intro H. apply andb_true_iff in H. destruct H as [H1 H2]. apply N.eqb_eq in H1. f_equal; auto. }
      subst name. apply (wl_iface_false c _ pfx H3 Hin).
    - destruct r as [ms a]. cbn [ir_action] in H. destruct a; try discriminate. apply (seg_rule_mark cs e I_in I_in_mark).
  Qed.
  Lemma setmark_seg_ok : forall n body, lookup cs CH_SET_EP_MARK = Some body -> setmark_ok cs (c_prefixes c) = true ->
    seg_ok cs e I_in (S (S n)) body.
  Proof.
    intros n body Hl H. unfold setmark_ok in H. rewrite Hl in H. clear Hl.
    induction body as [|r rest IH]; [apply seg_nil|].
    cbn [forallb] in H. apply andb_true_iff in H. destruct H as [Hr Hrest].
    apply seg_cons; [apply sem_rule_ok, Hr|apply IH, Hrest].
  Qed.

  Lemma seg_forward_check : forall n, setmark_ok cs (c_prefixes c) = true ->
    seg_ok cs e I_in (S (S (S n))) (forward_check c).
  Proof.
    intros n Hs. assert (Hl : exists b, lookup cs CH_SET_EP_MARK = Some b).
    { unfold setmark_ok in Hs. destruct (lookup cs CH_SET_EP_MARK) as [b|]; [exists b; reflexivity|discriminate]. }
    destruct Hl as [b Hl]. pose proof (setmark_seg_ok n b Hl Hs) as Hb.
    unfold forward_check. apply seg_app; [|apply seg_app].
    - apply seg_cons; [apply seg_rule_allow; right; reflexivity|apply seg_nil].
    - apply seg_flat_map. intros sp _.
      apply seg_cons; [apply (seg_rule_goto cs e I_in _ _ CH_SET_EP_MARK b Hl Hb)|].
      apply seg_cons; [apply (seg_rule_goto cs e I_in _ _ CH_SET_EP_MARK b Hl Hb)|apply seg_nil].
    - apply seg_cons; [apply (seg_rule_jump cs e I_in _ _ CH_SET_EP_MARK b Hl Hb)|apply seg_nil].
  Qed.

  Lemma seg_input_ipvs : forall n,
    (c_ipvs c = true -> lookup cs CH_FWD_CHECK = Some (forward_check c) /\ setmark_ok cs (c_prefixes c) = true) ->
    seg_ok cs e I_in (S (S (S (S n)))) (input_ipvs_rules c).
  Proof.
    intros n H. unfold input_ipvs_rules. destruct (c_ipvs c); [|apply seg_nil]. destruct (H eq_refl) as [Hl Hs]. cbn [opt_rules].
    apply seg_cons; [apply (seg_rule_mark cs e I_in I_in_mark)|].
    apply seg_cons; [apply (seg_rule_jump cs e I_in _ _ CH_FWD_CHECK _ Hl), seg_forward_check, Hs|].
    apply seg_cons; [apply seg_rule_allow; right; reflexivity|apply seg_nil].
  Qed.

  Theorem fs_in_filter_input : forall n disp,
    (c_ipvs c = true -> lookup cs CH_FWD_CHECK = Some (forward_check c) /\ setmark_ok cs (c_prefixes c) = true) ->
    lookup cs CH_FS_IN = Some (failsafe_in TFilter c) ->
    lookup cs CH_FROM_HEP = Some disp -> hep_disp_ok cs CH_FROM_HEP CH_FS_IN = true ->
    seg_ok cs e I_in (S (S (S (S n)))) (filter_input c).
  Proof.
    intros n disp Hipvs Hfs Hd Hshape. unfold filter_input.
    apply seg_app; [apply seg_app; [apply seg_input_tunnel|apply seg_input_wg]|].
    apply seg_app; [apply seg_input_ipvs, Hipvs|].
    apply seg_app; [apply seg_input_wl|]. unfold input_hep_rules.
    apply seg_cons; [apply seg_rule_allow, fallow|].
    apply seg_cons; [apply (seg_rule_mark cs e I_in I_in_mark)|].
    apply seg_cons; [|apply seg_cons; [apply seg_rule_allow, fallow|apply seg_nil]].
    apply (seg_rule_jump cs e I_in _ [] CH_FROM_HEP disp Hd).
    apply (hep_dispatch_ok cs e I_in I_in_mark CH_FROM_HEP CH_FS_IN _ n disp Hfs); try assumption.
    - intros p (H1 & H2 & _). apply failsafe_in_accepts; assumption.
    - exact I_in_ct.
  Qed.

  Theorem fs_in_mangle_prerouting : forall n disp,
    lookup cs CH_FS_IN = Some (failsafe_in TMangle c) ->
    lookup cs CH_FROM_HEP = Some disp -> hep_disp_ok cs CH_FROM_HEP CH_FS_IN = true ->
    seg_ok cs e I_in (S (S (S (S n)))) (mangle_prerouting c).
  Proof.
    intros n disp Hfs Hd Hshape. unfold mangle_prerouting.
    apply seg_cons; [apply seg_rule_allow, mallow|].
    apply seg_cons; [apply seg_rule_allow, mallow|].
    apply seg_cons; [|apply seg_cons; [apply seg_rule_allow, mallow|apply seg_nil]].
    apply (seg_rule_jump cs e I_in _ [] CH_FROM_HEP disp Hd).
    apply (hep_dispatch_ok cs e I_in I_in_mark CH_FROM_HEP CH_FS_IN _ n disp Hfs); try assumption.
    - intros p (H1 & H2 & _). apply failsafe_in_accepts; assumption.
    - exact I_in_ct.
  Qed.

  (* ---------------------------------------------------------------- outbound *)
  Definition I_out (p : packet) : Prop :=
    pk_ver p = c_ver c /\ fs_out_pkt c p = true /\ wl_iface c (pk_out p) = false /\ ct_invalid p = false.
  Lemma I_out_mark : forall p m, I_out p -> I_out (set_mark p m).
  Proof. intros p m H. exact H. Qed.
  Lemma I_out_ct : forall p, I_out p -> ct_invalid p = false.
  Proof. intros p (_ & _ & _ & H). exact H. Qed.

  Lemma seg_vxlan_notrack : forall I n, seg_ok cs e I n (vxlan_notrack c).
  Proof.
    intros I n. unfold vxlan_notrack. apply seg_opt. apply seg_cons; [|apply seg_nil].
    apply seg_rule_noop. right; right; right; reflexivity.
  Qed.

  (* filter OUTPUT.  In kube-ipvs mode its second rule diverts packets carrying an endpoint mark (IPVS-forwarded
     traffic, marked on INPUT) to cali-forward-endpoint-mark; a host-originated packet carries none (no_ep_mark). *)
  Theorem fs_out_filter_output : forall n disp p,
    lookup cs CH_FS_OUT = Some (failsafe_out TFilter c) ->
    lookup cs CH_TO_HEP = Some disp -> hep_disp_ok cs CH_TO_HEP CH_FS_OUT = true ->
    I_out p -> no_ep_mark c p = true ->
    okres I_out (G cs e (S (S (S (S n)))) (filter_output c) p).
  Proof.
    intros n disp p Hfs Hd Hshape Hp Hnm.
    assert (Hrest : seg_ok cs e I_out (S (S (S (S n))))
              (map (fun pfx => R [MOutIface false pfx true] AReturn) (c_prefixes c) ++ output_tunnel_rules c ++
               [R [] (AClearMark (all_bits c)); R [MOth true O_CT_DNAT] (AJump CH_TO_HEP); R [m_bit_set (c_accept c)] (c_filter_allow c)])).
    { apply seg_app; [apply seg_map; intros pfx _; apply seg_rule_allow; right; reflexivity|].
      apply seg_app.
      { unfold output_tunnel_rules. repeat apply seg_app; apply seg_opt;
          (apply seg_cons; [apply seg_rule_allow, fallow|apply seg_nil]). }
      apply seg_cons; [apply (seg_rule_mark cs e I_out I_out_mark)|].
      apply seg_cons; [|apply seg_cons; [apply seg_rule_allow, fallow|apply seg_nil]].
      apply (seg_rule_jump cs e I_out _ _ CH_TO_HEP disp Hd).
      apply (hep_dispatch_ok cs e I_out I_out_mark CH_TO_HEP CH_FS_OUT _ n disp Hfs); try assumption.
      - intros q (H1 & H2 & _). apply failsafe_out_accepts; assumption.
      - exact I_out_ct. }
    unfold filter_output, G. cbn [app go R ir_match ir_action].
    destruct (matches e p [m_bit_set (c_accept c)]).
    { destruct fallow as [-> | ->]; simpl; auto. }
    unfold no_ep_mark in Hnm. destruct (c_ipvs c); cbn [opt_rules app negb orb] in *.
    - cbn [go R ir_match ir_action matches forallb match_one]. rewrite Hnm. cbn [xorb andb]. apply (Hrest p Hp).
    - apply (Hrest p Hp).
  Qed.

  Theorem fs_out_raw_output : forall n disp,
    lookup cs CH_FS_OUT = Some (failsafe_out TRaw c) ->
    lookup cs CH_TO_HEP = Some disp -> hep_disp_ok cs CH_TO_HEP CH_FS_OUT = true ->
    seg_ok cs e I_out (S (S (S (S n)))) (raw_output c).
  Proof.
    intros n disp Hfs Hd Hshape. unfold raw_output.
    apply seg_app.
    { apply seg_cons; [apply (seg_rule_mark cs e I_out I_out_mark)|]. apply seg_cons; [|apply seg_nil].
      apply (seg_rule_jump cs e I_out _ [] CH_TO_HEP disp Hd).
      apply (hep_dispatch_ok cs e I_out I_out_mark CH_TO_HEP CH_FS_OUT _ n disp Hfs); try assumption.
      - intros p (H1 & H2 & _). apply failsafe_out_accepts; assumption.
      - exact I_out_ct. }
    apply seg_app; [apply seg_vxlan_notrack|].
    apply seg_cons; [apply seg_rule_allow; left; reflexivity|apply seg_nil].
  Qed.
  Lemma noop_chain_ok : forall I n body, noop_chain body = true -> seg_ok cs e I n body.
  Proof.
    intros I n body. induction body as [|r rest IH]; intro H; [apply seg_nil|].
    cbn [noop_chain forallb] in H. apply andb_true_iff in H. destruct H as [Hr Hrest].
    apply seg_cons; [|apply IH, Hrest]. destruct r as [ms a]. cbn [ir_action] in Hr.
    apply (seg_rule_noop cs e I n ms a). destruct a; try discriminate; unfold is_noop; tauto.
  Qed.

  (* mangle POSTROUTING: host-originated traffic that was DNAT'd meets the host endpoint's egress chain here *)
  Theorem fs_out_mangle_postrouting : forall n disp dscp,
    lookup cs CH_FS_OUT = Some (failsafe_out TMangle c) ->
    lookup cs CH_TO_HEP = Some disp -> hep_disp_ok cs CH_TO_HEP CH_FS_OUT = true ->
    lookup cs CH_EGRESS_DSCP = Some dscp -> noop_chain dscp = true ->
    seg_ok cs e I_out (S (S (S (S n)))) (mangle_postrouting c).
  Proof.
    intros n disp dscp Hfs Hd Hshape Hdl Hdn. unfold mangle_postrouting.
    apply seg_app.
    { apply seg_opt. apply seg_map. intros pfx _. apply seg_rule_noop. left. reflexivity. }
    apply seg_cons; [apply (seg_rule_jump cs e I_out _ _ CH_EGRESS_DSCP dscp Hdl), noop_chain_ok, Hdn|].
    apply seg_cons; [apply seg_rule_allow; right; reflexivity|].
    apply seg_app; [apply seg_opt; apply seg_cons; [apply seg_rule_allow; right; reflexivity|apply seg_nil]|].
    apply seg_cons; [apply (seg_rule_mark cs e I_out I_out_mark)|].
    apply seg_cons; [|apply seg_cons; [apply seg_rule_allow; right; reflexivity|apply seg_nil]].
    apply (seg_rule_jump cs e I_out _ _ CH_TO_HEP disp Hd).
    apply (hep_dispatch_ok cs e I_out I_out_mark CH_TO_HEP CH_FS_OUT _ n disp Hfs); try assumption.
    - intros p (H1 & H2 & _). apply failsafe_out_accepts; assumption.
    - exact I_out_ct.
  Qed.
End Hooks.
