(* C40 — lemmas (first batch): the failsafe chains. *)
From Coq Require Import List NArith Bool String Arith Lia.
From Verif.Common Require Import Packet Ipt.
From Verif.C40 Require Import Model Spec.
Import ListNotations.
Open Scope N_scope.

(* the static chains never jump anywhere from the failsafe chains *)
Lemma fs_rule_jump_free : forall v d s f, jump_free (fs_rule v d s f).
Proof.
  intros v d s f. unfold fs_rule. destruct (fs_net f); try reflexivity.
  destruct (ipver_eqb (cidr_ver c) v); reflexivity.
Qed.
