(* C40 — proof framework: compositional reasoning about rule lists on the Ipt machine.

   Everything is relative to an INVARIANT `I` on packets that is insensitive to the skb mark (the static chains
   only ever change the mark).  Two families of judgements:

     seg_ok  n rs : from an I-packet, `rs` (run with jump budget n) ends in ACCEPT, in RETURN (I kept) or falls
                    off its end (I kept) - never DROP/REJECT, never a missing chain, never out of fuel.
     seg_term n rs: the same but never falls off the end (the list decides).
     seg_dp / seg_drop : dual family for "dropped or passed on" / "dropped".

   The chains the static chains jump to are handled by the rules *_jump / *_goto from a judgement about the callee's
   body: this is how "whatever policy is configured" stays a universal quantifier. *)
From Coq Require Import List NArith Bool String Arith Lia.
From Verif.Common Require Import Packet Ipt.
From Verif.C40 Require Import Model Spec.
Import ListNotations.
Open Scope N_scope.

Lemma cons_app1 : forall {A} (x : A) l, x :: l = [x] ++ l.
Proof. reflexivity. Qed.

Section Seg.
  Variables (cs : chains) (e : env).
  Variable I : packet -> Prop.
  Hypothesis I_mark : forall p m, I p -> I (set_mark p m).

  Definition G (n : nat) := go cs e (run n cs e).

  Lemma run_S : forall n rs p, run (S n) cs e rs p = G n rs p.
  Proof. reflexivity. Qed.

  (* ---------------------------------------------------------------- "never dropped" family *)
  Definition okres (r : result) : Prop :=
    match r with RFall p' | RReturn p' => I p' | RDone FAccept _ => True | _ => False end.
  Definition termres (r : result) : Prop :=
    match r with RReturn p' => I p' | RDone FAccept _ => True | _ => False end.
  Definition seg_ok (n : nat) (rs : list irule) : Prop := forall p, I p -> okres (G n rs p).
  Definition seg_term (n : nat) (rs : list irule) : Prop := forall p, I p -> termres (G n rs p).

  Lemma termres_okres : forall r, termres r -> okres r.
  Proof. destruct r as [[| |] ?|?|?| |]; simpl; tauto. Qed.
  Lemma seg_term_ok : forall n rs, seg_term n rs -> seg_ok n rs.
  Proof. intros n rs H p Hp. apply termres_okres, H, Hp. Qed.

  Lemma okres_not_fuel : forall r, okres r -> r <> RFuel.
  Proof. intros r H E. subst r. exact H. Qed.

  Lemma G_mono : forall n m rs p, (n <= m)%nat -> G n rs p <> RFuel -> G m rs p = G n rs p.
  Proof.
    intros n m rs p Hle Hne. change (run (S m) cs e rs p = run (S n) cs e rs p).
    eapply run_mono; [|reflexivity|exact Hne]. lia.
  Qed.
  Lemma seg_ok_mono : forall n m rs, (n <= m)%nat -> seg_ok n rs -> seg_ok m rs.
  Proof.
    intros n m rs Hle H p Hp. specialize (H p Hp).
    rewrite (G_mono n m rs p Hle (okres_not_fuel _ H)). exact H.
  Qed.
  Lemma seg_term_mono : forall n m rs, (n <= m)%nat -> seg_term n rs -> seg_term m rs.
  Proof.
    intros n m rs Hle H p Hp. specialize (H p Hp).
    rewrite (G_mono n m rs p Hle (okres_not_fuel _ (termres_okres _ H))). exact H.
  Qed.

  Lemma seg_nil : forall n, seg_ok n [].
  Proof. intros n p Hp. exact Hp. Qed.

  Lemma seg_app : forall n a b, seg_ok n a -> seg_ok n b -> seg_ok n (a ++ b).
  Proof.
    intros n a b Ha Hb p Hp. unfold G. rewrite go_app. specialize (Ha p Hp). unfold G in Ha.
    destruct (go cs e (run n cs e) a p) as [[| |] ?|?|p'| |]; simpl in *; auto.
    apply Hb, Ha.
  Qed.
  Lemma seg_app_term : forall n a b, seg_ok n a -> seg_term n b -> seg_term n (a ++ b).
  Proof.
    intros n a b Ha Hb p Hp. unfold G. rewrite go_app. specialize (Ha p Hp). unfold G in Ha.
    destruct (go cs e (run n cs e) a p) as [[| |] ?|?|p'| |]; simpl in *; auto.
    apply Hb, Ha.
  Qed.
  Lemma seg_cons : forall n r rs, seg_ok n [r] -> seg_ok n rs -> seg_ok n (r :: rs).
  Proof. intros. rewrite cons_app1. apply seg_app; assumption. Qed.
  Lemma seg_cons_term : forall n r rs, seg_ok n [r] -> seg_term n rs -> seg_term n (r :: rs).
  Proof. intros. rewrite cons_app1. apply seg_app_term; assumption. Qed.

  Definition is_allow (a : target) : Prop := a = AAccept \/ a = AReturn.
  Definition is_noop (a : target) : Prop := a = ANone \/ a = ALog \/ a = ANflog \/ a = ANoTrack.

  Lemma seg_rule_allow : forall n ms a, is_allow a -> seg_ok n [R ms a].
  Proof.
    intros n ms a Ha p Hp. unfold G. cbn [go R ir_match ir_action].
    destruct (matches e p ms); [|exact Hp]. destruct Ha; subst a; simpl; auto.
  Qed.
  Lemma seg_rule_mark : forall n ms a x, seg_ok n [R ms (AMark a x)].
  Proof.
    intros n ms a x p Hp. unfold G. cbn [go R ir_match ir_action].
    destruct (matches e p ms); [|exact Hp]. simpl. apply I_mark, Hp.
  Qed.
  Lemma seg_rule_noop : forall n ms a, is_noop a -> seg_ok n [R ms a].
  Proof.
    intros n ms a Ha p Hp. unfold G. cbn [go R ir_match ir_action].
    destruct (matches e p ms); [|exact Hp]. destruct Ha as [?|[?|[?|?]]]; subst a; exact Hp.
  Qed.
  Lemma seg_rule_nomatch : forall n ms a, (forall p, I p -> matches e p ms = false) -> seg_ok n [R ms a].
  Proof.
    intros n ms a H p Hp. unfold G. cbn [go R ir_match ir_action]. rewrite (H p Hp). exact Hp.
  Qed.
  (* a rule record that is not syntactically `R ..` *)
  Lemma seg_rule_nomatch' : forall n r, (forall p, I p -> matches e p (ir_match r) = false) -> seg_ok n [r].
  Proof. intros n [ms a] H. apply (seg_rule_nomatch n ms a H). Qed.

  Lemma seg_rule_jump : forall n ms ch body,
    lookup cs ch = Some body -> seg_ok n body -> seg_ok (S n) [R ms (AJump ch)].
  Proof.
    intros n ms ch body Hl Hb p Hp. unfold G. cbn [go R ir_match ir_action].
    destruct (matches e p ms); [|exact Hp]. rewrite Hl. rewrite run_S.
    specialize (Hb p Hp). destruct (G n body p) as [[| |] ?|?|?| |]; simpl in *; auto.
  Qed.
  Lemma seg_rule_goto : forall n ms ch body,
    lookup cs ch = Some body -> seg_ok n body -> seg_ok (S n) [R ms (AGoto ch)].
  Proof.
    intros n ms ch body Hl Hb p Hp. unfold G. cbn [go R ir_match ir_action].
    destruct (matches e p ms); [|exact Hp]. rewrite Hl. rewrite run_S.
    specialize (Hb p Hp). destruct (G n body p) as [[| |] ?|?|?| |]; simpl in *; auto.
  Qed.

  Lemma seg_map : forall {A} n (g : A -> irule) l, (forall x, In x l -> seg_ok n [g x]) -> seg_ok n (map g l).
  Proof.
    intros A n g l. induction l as [|x l IH]; intro H; [apply seg_nil|].
    cbn [map]. apply seg_cons; [apply H; left; reflexivity|]. apply IH. intros y Hy. apply H. right. exact Hy.
  Qed.
  Lemma seg_flat_map : forall {A} n (g : A -> list irule) l, (forall x, In x l -> seg_ok n (g x)) -> seg_ok n (flat_map g l).
  Proof.
    intros A n g l. induction l as [|x l IH]; intro H; [apply seg_nil|].
    cbn [flat_map]. apply seg_app; [apply H; left; reflexivity|]. apply IH. intros y Hy. apply H. right. exact Hy.
  Qed.
  Lemma seg_opt : forall n b rs, seg_ok n rs -> seg_ok n (opt_rules b rs).
  Proof. intros n [|] rs H; [exact H|apply seg_nil]. Qed.

  (* a list of ACCEPT-only rules, one of which matches every I-packet: decides by ACCEPT *)
  Definition all_accept (rs : list irule) : Prop := forall r, In r rs -> ir_action r = AAccept.
  Lemma go_all_accept : forall n rs p, all_accept rs ->
    G n rs p = if existsb (fun r => matches e p (ir_match r)) rs then RDone FAccept p else RFall p.
  Proof.
    intros n rs p. induction rs as [|r rs IH]; intro H; [reflexivity|].
    unfold G in *. cbn [go existsb]. destruct (matches e p (ir_match r)) eqn:Em.
    - rewrite (H r (or_introl eq_refl)). reflexivity.
    - simpl. apply IH. intros x Hx. apply H. right. exact Hx.
  Qed.

  (* ---------------------------------------------------------------- "dropped" family *)
  Definition is_drop (r : result) : Prop := match r with RDone FDrop _ | RDone FReject _ => True | _ => False end.
  Definition dpres (r : result) : Prop :=           (* a segment: dropped, or passed on *)
    match r with RFall p' => I p' | RDone FDrop _ | RDone FReject _ => True | _ => False end.
  Definition cdpres (r : result) : Prop :=          (* a jumped-to chain: dropped, or back in the caller *)
    match r with RFall p' | RReturn p' => I p' | RDone FDrop _ | RDone FReject _ => True | _ => False end.
  Definition seg_dp (n : nat) (rs : list irule) : Prop := forall p, I p -> dpres (G n rs p).
  Definition callee_dp (n : nat) (rs : list irule) : Prop := forall p, I p -> cdpres (G n rs p).
  Definition seg_drop (n : nat) (rs : list irule) : Prop := forall p, I p -> is_drop (G n rs p).
  Definition is_deny (a : target) : Prop := a = ADrop \/ a = AReject.

  Lemma is_drop_dpres : forall r, is_drop r -> dpres r.
  Proof. destruct r as [[| |] ?|?|?| |]; simpl; tauto. Qed.
  Lemma dpres_cdpres : forall r, dpres r -> cdpres r.
  Proof. destruct r as [[| |] ?|?|?| |]; simpl; tauto. Qed.
  Lemma is_drop_not_fuel : forall r, is_drop r -> r <> RFuel.
  Proof. intros r H E. subst r. exact H. Qed.
  Lemma seg_drop_dp : forall n rs, seg_drop n rs -> seg_dp n rs.
  Proof. intros n rs H p Hp. apply is_drop_dpres, H, Hp. Qed.
  Lemma seg_dp_callee : forall n rs, seg_dp n rs -> callee_dp n rs.
  Proof. intros n rs H p Hp. apply dpres_cdpres, H, Hp. Qed.

  Lemma seg_drop_mono : forall n m rs, (n <= m)%nat -> seg_drop n rs -> seg_drop m rs.
  Proof.
    intros n m rs Hle H p Hp. specialize (H p Hp).
    rewrite (G_mono n m rs p Hle (is_drop_not_fuel _ H)). exact H.
  Qed.
  Lemma callee_dp_mono : forall n m rs, (n <= m)%nat -> callee_dp n rs -> callee_dp m rs.
  Proof.
    intros n m rs Hle H p Hp. specialize (H p Hp).
    rewrite (G_mono n m rs p Hle). exact H. intro E. rewrite E in H. exact H.
  Qed.
  Lemma seg_dp_mono : forall n m rs, (n <= m)%nat -> seg_dp n rs -> seg_dp m rs.
  Proof.
    intros n m rs Hle H p Hp. specialize (H p Hp).
    rewrite (G_mono n m rs p Hle). exact H. intro E. rewrite E in H. exact H.
  Qed.

  Lemma dp_nil : forall n, seg_dp n [].
  Proof. intros n p Hp. exact Hp. Qed.
  Lemma dp_app : forall n a b, seg_dp n a -> seg_dp n b -> seg_dp n (a ++ b).
  Proof.
    intros n a b Ha Hb p Hp. unfold G. rewrite go_app. specialize (Ha p Hp). unfold G in Ha.
    destruct (go cs e (run n cs e) a p) as [[| |] ?|?|p'| |]; simpl in *; auto.
    apply Hb, Ha.
  Qed.
  Lemma dp_app_drop : forall n a b, seg_dp n a -> seg_drop n b -> seg_drop n (a ++ b).
  Proof.
    intros n a b Ha Hb p Hp. unfold G. rewrite go_app. specialize (Ha p Hp). unfold G in Ha.
    destruct (go cs e (run n cs e) a p) as [[| |] ?|?|p'| |]; simpl in *; auto.
    apply Hb, Ha.
  Qed.
  Lemma dp_cons : forall n r rs, seg_dp n [r] -> seg_dp n rs -> seg_dp n (r :: rs).
  Proof. intros. rewrite cons_app1. apply dp_app; assumption. Qed.
  Lemma dp_cons_drop : forall n r rs, seg_dp n [r] -> seg_drop n rs -> seg_drop n (r :: rs).
  Proof. intros. rewrite cons_app1. apply dp_app_drop; assumption. Qed.
  Lemma dp_opt : forall n b rs, seg_dp n rs -> seg_dp n (opt_rules b rs).
  Proof. intros n [|] rs H; [exact H|apply dp_nil]. Qed.

  Lemma dp_rule_deny : forall n ms a, is_deny a -> seg_dp n [R ms a].
  Proof.
    intros n ms a Ha p Hp. unfold G. cbn [go R ir_match ir_action].
    destruct (matches e p ms); [|exact Hp]. destruct Ha; subst a; exact Logic.I.
  Qed.
  Lemma dp_rule_mark : forall n ms a x, seg_dp n [R ms (AMark a x)].
  Proof.
    intros n ms a x p Hp. unfold G. cbn [go R ir_match ir_action].
    destruct (matches e p ms); [|exact Hp]. simpl. apply I_mark, Hp.
  Qed.
  Lemma dp_rule_noop : forall n ms a, is_noop a -> seg_dp n [R ms a].
  Proof.
    intros n ms a Ha p Hp. unfold G. cbn [go R ir_match ir_action].
    destruct (matches e p ms); [|exact Hp]. destruct Ha as [?|[?|[?|?]]]; subst a; exact Hp.
  Qed.
  Lemma dp_rule_nomatch : forall n ms a, (forall p, I p -> matches e p ms = false) -> seg_dp n [R ms a].
  Proof.
    intros n ms a H p Hp. unfold G. cbn [go R ir_match ir_action]. rewrite (H p Hp). exact Hp.
  Qed.
  Lemma dp_rule_nomatch' : forall n r, (forall p, I p -> matches e p (ir_match r) = false) -> seg_dp n [r].
  Proof. intros n [ms a] H. apply (dp_rule_nomatch n ms a H). Qed.
  Lemma dp_rule_jump : forall n ms ch body,
    lookup cs ch = Some body -> callee_dp n body -> seg_dp (S n) [R ms (AJump ch)].
  Proof.
    intros n ms ch body Hl Hb p Hp. unfold G. cbn [go R ir_match ir_action].
    destruct (matches e p ms); [|exact Hp]. rewrite Hl. rewrite run_S.
    specialize (Hb p Hp). destruct (G n body p) as [[| |] ?|?|?| |]; simpl in *; auto.
  Qed.
  Lemma dp_map : forall {A} n (g : A -> irule) l, (forall x, In x l -> seg_dp n [g x]) -> seg_dp n (map g l).
  Proof.
    intros A n g l. induction l as [|x l IH]; intro H; [apply dp_nil|].
    cbn [map]. apply dp_cons; [apply H; left; reflexivity|]. apply IH. intros y Hy. apply H. right. exact Hy.
  Qed.

  (* a rule that certainly matches and whose target certainly drops *)
  Lemma drop_rule_deny : forall n ms a rs, is_deny a -> (forall p, I p -> matches e p ms = true) -> seg_drop n (R ms a :: rs).
  Proof.
    intros n ms a rs Ha Hm p Hp. unfold G. cbn [go R ir_match ir_action]. rewrite (Hm p Hp).
    destruct Ha; subst a; exact Logic.I.
  Qed.
  (* one rule: if it matches, its callee drops; otherwise on to the rest *)
  Lemma drop_rule_jump_or : forall n ms ch body rs, lookup cs ch = Some body -> seg_drop n body ->
    seg_drop (S n) rs -> seg_drop (S n) (R ms (AJump ch) :: rs).
  Proof.
    intros n ms ch body rs Hl Hb Hrs p Hp. unfold G. cbn [go R ir_match ir_action].
    destruct (matches e p ms); [|apply Hrs, Hp]. rewrite Hl, run_S.
    specialize (Hb p Hp). destruct (G n body p) as [[| |] ?|?|?| |]; simpl in *; auto; contradiction.
  Qed.
  Lemma drop_rule_goto_or : forall n ms ch body rs, lookup cs ch = Some body -> seg_drop n body ->
    seg_drop (S n) rs -> seg_drop (S n) (R ms (AGoto ch) :: rs).
  Proof.
    intros n ms ch body rs Hl Hb Hrs p Hp. unfold G. cbn [go R ir_match ir_action].
    destruct (matches e p ms); [|apply Hrs, Hp]. rewrite Hl, run_S.
    specialize (Hb p Hp). destruct (G n body p) as [[| |] ?|?|?| |]; simpl in *; auto; contradiction.
  Qed.
End Seg.
