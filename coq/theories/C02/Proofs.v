From stdpp Require Import gmap.
From Verif.C02 Require Import Model Spec.
Lemma sel_nil t : sel t [] = [].
Proof. done. Qed.
