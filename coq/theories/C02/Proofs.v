(* C02 — proofs, part 6: whole histories. *)
From stdpp Require Import gmap.
From Verif.C02 Require Import Model Spec ProofsKV ProofsSched ProofsIP ProofsMain ProofsCb.
Local Open Scope N_scope.

Lemma sel_nil t : sel t [] = [].
Proof. done. Qed.

Lemma Sync0 : Sync seq0 world0 world0.
Proof.
  unfold Sync. split_and!.
  - unfold ipInv, seq0, ipst0, world0. simpl. split_and!.
    + intros id. rewrite lookup_empty. split; [set_solver|intros [? ?]; done].
    + intros id Hin. set_solver.
    + intros id. rewrite !lookup_empty. by destruct (decide _).
    + intros id [? H]. by rewrite lookup_empty in H.
    + intros id M _ H. by rewrite lookup_empty in H.
    + intros id _ _. by rewrite !lookup_empty.
  - unfold kvSync, seq0, kvst0, world0. simpl. split_and!.
    + intros c. rewrite lookup_empty. split; [set_solver|intros [? ?]; done].
    + intros c Hin. set_solver.
    + intros c Hin. set_solver.
    + intros c. rewrite !lookup_empty. by destruct (decide _).
  - unfold typed, world0. simpl. intros c v H. by rewrite lookup_empty in H.
  - unfold typed, world0. simpl. intros c v H. by rewrite lookup_empty in H.
  - unfold closed, world0. simpl. apply map_Forall_empty.
Qed.

Lemma cb_step q up dp e :
  Sync q up dp → cb_ok up e → ∃ q', on_cb e q = Some q' ∧ Sync q' (apply_cb up e) dp.
Proof.
  intros (HI & HKV & Htu & Htd & Hcd) Hok. destruct q as [i k]. simpl in *.
  destruct e as [id ty|id|id m|id m|c v|c]; simpl in *.
  - destruct (ip_cb_added id ty _ _ _ HI Hok) as (i' & -> & HI'). eexists. split; [done|]. by split_and!.
  - destruct (ip_cb_removed id _ _ _ HI Hok) as (i' & -> & HI'). eexists. split; [done|]. by split_and!.
  - destruct (w_sets up !! id) as [U|] eqn:EU; [|done].
    destruct (ip_cb_member_added id m _ _ _ U HI EU Hok) as (i' & -> & HI'). eexists. split; [done|]. by split_and!.
  - destruct (w_sets up !! id) as [U|] eqn:EU; [|done].
    destruct (ip_cb_member_removed id m _ _ _ U HI EU Hok) as (i' & -> & HI'). eexists. split; [done|]. by split_and!.
  - destruct Hok as [Hc Hv]. eexists. split; [done|]. split_and!; try done.
    + by apply kv_cb_update.
    + by apply typed_insert.
  - eexists. split; [done|]. split_and!; try done.
    + by apply kv_cb_remove.
    + by apply typed_delete.
Qed.

(* the main induction: a history inside the contract runs without panic, every message is
   well-formed and leaves the dataplane closed, and the invariant holds at the end *)
Lemma hist_ok late : ∀ h q up dp,
  Sync q up dp → contract_gen late dp up h →
  ∃ q' ms, seq_run late q h = Some (q', ms) ∧ stream_ok dp ms ∧
           ∃ dp', Sync q' (upstream up h) dp' ∧
                  (∀ h0 o, h = h0 ++ [SFlush o] → apply_msgs dp ms = upstream up h).
Proof.
  induction h as [|e h IH]; intros q up dp HS Hc; simpl in *.
  - exists q, []. split_and!; try done. exists dp. split; [done|]. intros h0 o E. by destruct h0.
  - destruct e as [e|o]; simpl.
    + destruct Hc as [Hok Hc]. destruct (cb_step _ _ _ _ HS Hok) as (q1 & -> & HS1). simpl.
      destruct (IH _ _ _ HS1 Hc) as (q' & ms & -> & Hok' & dp' & HS' & Hend). simpl.
      exists q', ms. split_and!; try done. exists dp'. split; [done|].
      intros h0 o E. destruct h0 as [|x h0]; [done|]. simpl in E; injection E as _ E. eauto.
    + destruct Hc as (Hcl & Hnr & Hc).
      destruct (flush_gen late o q) as [q1 m1] eqn:Ef.
      destruct (flush_ok late o q q1 m1 up dp HS Hcl Hnr Ef) as (Hok1 & Hd1 & HS1).
      destruct (IH _ _ _ HS1 Hc) as (q' & ms & Hrun & Hok' & dp' & HS' & Hend). rewrite Hrun. simpl.
      exists q', (m1 ++ ms). split_and!; try done.
      * apply stream_ok_app; [done|]. by rewrite Hd1.
      * exists dp'. split; [done|]. intros h0 o' E. rewrite apply_msgs_app, Hd1.
        destruct h0 as [|x h0].
        -- simpl in E; injection E as _ E. subst h. simpl in Hrun. injection Hrun as _ <-. done.
        -- simpl in E; injection E as _ E. eauto.
Qed.

Lemma contract_gen_true dp up h : contract up h → contract_gen true dp up h.
Proof.
  revert dp up. induction h as [|[e|o] h IH]; intros dp up; simpl; [done| |].
  - intros [? ?]. auto.
  - intros [? ?]. split_and!; auto. done.
Qed.

(* every prefix of an accepted stream *)
Lemma stream_ok_prefix w a m b :
  stream_ok w (a ++ m :: b) → msg_ok (apply_msgs w a) m ∧ closed (apply_msgs w (a ++ [m])).
Proof.
  revert w. induction a as [|x a IH]; intros w; simpl.
  - intros (? & ? & _). done.
  - intros (_ & _ & H). apply (IH _ H).
Qed.

Global Instance contract_dec w h : Decision (contract w h).
Proof. revert w. induction h as [|[e|o] h IH]; intros w; simpl; apply _. Defined.

Lemma upstream_app_flush w h o : upstream w (h ++ [SFlush o]) = upstream w h.
Proof. revert w. induction h as [|[e|o'] h IH]; intros w; simpl; auto. Qed.

Lemma run_ok late h q' ms :
  contract_gen late world0 world0 h → seq_run late seq0 h = Some (q', ms) → stream_ok world0 ms.
Proof.
  intros Hc Hr. destruct (hist_ok late h seq0 world0 world0 Sync0 Hc) as (q2 & ms2 & Hr2 & Hok & _).
  rewrite Hr in Hr2. by injection Hr2 as <- <-.
Qed.

Lemma no_panic late h : contract_gen late world0 world0 h → is_Some (seq_run late seq0 h).
Proof.
  intros Hc. destruct (hist_ok late h seq0 world0 world0 Sync0 Hc) as (q2 & ms2 & Hr2 & _). rewrite Hr2. eauto.
Qed.

Lemma net_effect late h o q' ms :
  contract_gen late world0 world0 (h ++ [SFlush o]) →
  seq_run late seq0 (h ++ [SFlush o]) = Some (q', ms) →
  apply_msgs world0 ms = upstream world0 h.
Proof.
  intros Hc Hr. destruct (hist_ok late _ seq0 world0 world0 Sync0 Hc) as (q2 & ms2 & Hr2 & _ & dp' & _ & Hend).
  rewrite Hr in Hr2. injection Hr2 as <- <-. rewrite (Hend h o eq_refl). apply upstream_app_flush.
Qed.

Lemma refs_present late h q' ms a m b :
  contract_gen late world0 world0 h → seq_run late seq0 h = Some (q', ms) → ms = a ++ m :: b →
  closed (apply_msgs world0 (a ++ [m])).
Proof. intros Hc Hr ->. by destruct (stream_ok_prefix _ _ _ _ (run_ok _ _ _ _ Hc Hr)). Qed.

Lemma msgs_wellformed late h q' ms a m b :
  contract_gen late world0 world0 h → seq_run late seq0 h = Some (q', ms) → ms = a ++ m :: b →
  msg_ok (apply_msgs world0 a) m.
Proof. intros Hc Hr ->. by destruct (stream_ok_prefix _ _ _ _ (run_ok _ _ _ _ Hc Hr)). Qed.

(* the witness against the phase order of the code as it stands *)
Definition retarget_history : list sev :=
  [SCb (CUpdate (KVtep, 0) (V [] 1)); SCb (CUpdate (KRoute, 3) (V [(KVtep, 0)] 2)); SFlush [];
   SCb (CUpdate (KVtep, 2) (V [] 3)); SCb (CUpdate (KRoute, 3) (V [(KVtep, 2)] 4)); SCb (CRemove (KVtep, 0));
   SFlush []].

Definition refuted_check : bool :=
  match seq_run false seq0 retarget_history with Some (_, ms) => negb (ok_msgs world0 ms) | None => false end.
Lemma refuted_check_true : refuted_check = true.
Proof. vm_compute. reflexivity. Qed.

(* [refuted_check] says: the history runs (no panic) under the order of the code as it stands and the
   stream it emits is NOT accepted ([ok_msgs] is [stream_ok], lemma ok_msgs_spec) *)
Lemma retarget_refuted : contract world0 retarget_history ∧ refuted_check = true.
Proof.
  split.
  - refine (bool_decide_unpack _ _). vm_compute. exact I.
  - exact refuted_check_true.
Qed.
