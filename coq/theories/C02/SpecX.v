(* C02 — oracle and correspondence cases for the completed sequencer (ModelX.v).  New file; wraps Spec.case. *)
From stdpp Require Import gmap.
From Verif.C02 Require Import Model Spec ModelX.
Local Open Scope N_scope.

Inductive xistep := XICb (e : xcb) | XIFlush (ms : list xmsg).
Definition W (k4 k6 ver : N) : wgv := {| wg_k4 := k4; wg_k6 := k6; wg_ver := ver |}.

Definition xproj_step (s : xistep) : option istep :=
  match s with XICb (XCb c) => Some (ICb c) | XIFlush ms => Some (IFlush (xbase ms)) | _ => None end.

(* wireguard part of the oracle: a remove names an endpoint the dataplane has *)
Definition wg_apply (w : gset N * gset N) (m : xmsg) : gset N * gset N :=
  match m with
  | XWg4Upd n _ _ => ({[n]} ∪ w.1, w.2) | XWg4Rem n => (w.1 ∖ {[n]}, w.2)
  | XWg6Upd n _ _ => (w.1, {[n]} ∪ w.2) | XWg6Rem n => (w.1, w.2 ∖ {[n]})
  | _ => w
  end.
Fixpoint wg_okb (w : gset N * gset N) (ms : list xmsg) : bool :=
  match ms with
  | [] => true
  | m :: r => match m with XWg4Rem n => bool_decide (n ∈ w.1) | XWg6Rem n => bool_decide (n ∈ w.2) | _ => true end
              && wg_okb (wg_apply w m) r
  end.
Definition xmsgs_of (steps : list xistep) : list xmsg :=
  concat (map (λ s, match s with XIFlush ms => ms | _ => [] end) steps).

Definition ok_xtrace (steps : list xistep) : bool :=
  ok_trace world0 world0 (omap xproj_step steps) && wg_okb (∅, ∅) (xmsgs_of steps).

Definition wg_ids (ms : list xmsg) : list N :=
  omap (λ m, match m with XWg4Upd n _ _ | XWg4Rem n | XWg6Upd n _ _ | XWg6Rem n => Some n | _ => None end) ms.
Definition canon_xmsg (m : xmsg) : xmsg := match m with XBase b => XBase (canon_msg b) | _ => m end.
Definition xmsgs_eqb (a b : list xmsg) : bool := bool_decide (map canon_xmsg a = map canon_xmsg b).

Fixpoint agree_xtrace (late : bool) (x : xst) (steps : list xistep) : bool :=
  match steps with
  | [] => true
  | XICb e :: r => match on_xcb e x with Some x' => agree_xtrace late x' r | None => false end
  | XIFlush ms :: r =>
      let '(x', mm) := xflush late (map tag_of (xbase ms)) (wg_ids ms) x in
      xmsgs_eqb mm ms && agree_xtrace late x' r
  end.

Inductive xcase := XOld (c : case) | XSeq (steps : list xistep).
Definition check_xcase (c : xcase) : bool * bool :=
  match c with
  | XOld c => check_case c
  | XSeq steps =>
      (in_contract world0 (omap xproj_step steps) && (agree_xtrace false xst0 steps || agree_xtrace true xst0 steps),
       ok_xtrace steps)
  end.
