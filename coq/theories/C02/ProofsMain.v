(* C02 — proofs, part 4: the invariant tying sequencer state, upstream world and dataplane
   world; one whole Flush. *)
From stdpp Require Import gmap.
From Verif.C02 Require Import Model Spec ProofsKV ProofsSched ProofsIP.
Local Open Scope N_scope.

Definition ipInv (s : ipst) (up dp : world) : Prop :=
  (∀ id, id ∈ i_sent s ↔ is_Some (w_sets dp !! id)) ∧
  (∀ id, id ∈ i_removed s → id ∈ i_sent s ∧ i_added s !! id = None) ∧
  (∀ id, w_sets up !! id =
         match i_added s !! id with
         | Some _ => Some (md_get (i_addm s) id)
         | None => if decide (id ∈ i_removed s) then None else
                   match w_sets dp !! id with
                   | Some M => Some ((M ∪ md_get (i_addm s) id) ∖ md_get (i_remm s) id)
                   | None => None
                   end
         end) ∧
  (∀ id, is_Some (i_added s !! id) → i_remm s !! id = None) ∧
  (∀ id M, i_added s !! id = None → w_sets dp !! id = Some M →
           md_get (i_addm s) id ## M ∧ md_get (i_remm s) id ⊆ M) ∧
  (∀ id, i_added s !! id = None → (id ∈ i_removed s ∨ w_sets dp !! id = None) →
         i_addm s !! id = None ∧ i_remm s !! id = None).

Definition kvSync (s : kvst) (up dp : world) : Prop :=
  (∀ c, c ∈ k_sent s ↔ is_Some (w_kv dp !! c)) ∧
  (∀ c, c ∈ k_pd s → k_pu s !! c = None) ∧
  (∀ c, c ∈ k_pd s → is_Some (w_kv dp !! c)) ∧
  (∀ c, w_kv up !! c =
        match k_pu s !! c with
        | Some v => Some v
        | None => if decide (c ∈ k_pd s) then None else w_kv dp !! c
        end).

Definition Sync (q : seqst) (up dp : world) : Prop :=
  ipInv (q_ip q) up dp ∧ kvSync (q_kv q) up dp ∧ typed up ∧ typed dp ∧ closed dp.

Definition kv1 : list phase := [PUpd KPol; PUpd KProf; PUpd KEp; PDel KEp; PDel KProf; PDel KPol].
Definition kv2 (late : bool) : list phase :=
  [PDel KSA; PUpd KSA; PDel KNS; PUpd KNS] ++ vxlan_phases late ++
  [PDel KHost; PUpd KHost; PDel KPool; PUpd KPool; PDel KSvc; PUpd KSvc].
Lemma phases_split late : phases late = [PAddedIPSets] ++ [PDeltas] ++ kv1 ++ [PRemovedIPSets] ++ kv2 late.
Proof. by destruct late. Qed.

Lemma run_phases_app_inv o a b s s' ms :
  run_phases o (a ++ b) s = (s', ms) →
  ∃ s1 m1 m2, run_phases o a s = (s1, m1) ∧ run_phases o b s1 = (s', m2) ∧ ms = m1 ++ m2.
Proof.
  rewrite run_phases_app. destruct (run_phases o a s) as [s1 m1]. destruct (run_phases o b s1) as [s2 m2] eqn:E2.
  intros [= <- <-]. by exists s1, m1, m2.
Qed.
Lemma run_phases_single_inv o p s s' ms : run_phases o [p] s = (s', ms) → run_phase o p s = (s', ms).
Proof. simpl. destruct (run_phase o p s) as [s1 m1]. rewrite app_nil_r. done. Qed.

Lemma all_flushed late (K : kind) : K ≠ KIPSet →
  inpre (PUpd K) (rev (kv2 late) ++ rev kv1) = true ∧ inpre (PDel K) (rev (kv2 late) ++ rev kv1) = true.
Proof. intros HK. destruct late, K; try done; by vm_compute. Qed.

Lemma world_eq (a b : world) : w_sets a = w_sets b → w_kv a = w_kv b → a = b.
Proof. destruct a, b; simpl; congruence. Qed.

Lemma flush_ok late o q q' ms up dp :
  Sync q up dp → closed up → (late = false → no_retarget dp up) →
  flush_gen late o q = (q', ms) →
  stream_ok dp ms ∧ apply_msgs dp ms = up ∧ Sync q' up up.
Proof.
  intros (HI & HKV & Htyu & Htyd & Hcld) Hclu Hnr Hf.
  destruct HI as (I1 & I2 & I3 & I4 & I5 & I6). destruct HKV as (K1 & K2a & K2b & K3).
  destruct q as [i0 k0]. simpl in *.
  unfold flush_gen in Hf. rewrite phases_split in Hf.
  apply run_phases_app_inv in Hf as (qa & x1 & xr1 & Ha & Hf & ->).
  apply run_phases_app_inv in Hf as (qb & x2 & xr2 & Hb & Hf & ->).
  apply run_phases_app_inv in Hf as (qc & x3 & xr3 & Hc & Hf & ->).
  apply run_phases_app_inv in Hf as (qd & x4 & x5 & Hd & Hf & ->).
  (* phase 1: added IP sets *)
  apply run_phases_single_inv in Ha. cbn [run_phase q_ip q_kv] in Ha.
  destruct (flush_added_ipsets _ i0) as [i1 m1] eqn:E1. injection Ha as <- <-.
  destruct (flush_added_spec _ _ _ _ _ E1 Hcld) as (Hok1 & Hcl1 & Hkv1 & Hs1 & Hrm1 & Hremm1 & Had1 & Haddm1 & Hsent1).
  set (d1 := apply_msgs dp m1) in *.
  (* phase 2: deltas *)
  apply run_phases_single_inv in Hb. cbn [run_phase q_ip q_kv] in Hb.
  destruct (flush_deltas _ i1) as [i2 m2] eqn:E2. injection Hb as <- <-.
  assert (Hdok : deltas_ok i1 d1).
  { intros id Hp. rewrite Haddm1, Hremm1 in Hp.
    destruct (i_added i0 !! id) as [ty|] eqn:Ea.
    - rewrite (I4 id) in Hp by eauto. destruct Hp as [[? ?]|[? ?]]; done.
    - destruct (w_sets dp !! id) as [M|] eqn:EM.
      + destruct (decide (id ∈ i_removed i0)) as [Hr|Hr].
        * destruct (I6 id Ea (or_introl Hr)) as [Hx Hy]. rewrite Hx, Hy in Hp. destruct Hp as [[? ?]|[? ?]]; done.
        * exists M. rewrite Hs1, Ea. split; [done|]. destruct (I5 id M Ea EM) as [? ?].
          unfold md_get. rewrite Haddm1, Ea, Hremm1. done.
      + destruct (I6 id Ea (or_intror EM)) as [Hx Hy]. rewrite Hx, Hy in Hp. destruct Hp as [[? ?]|[? ?]]; done. }
  destruct (flush_deltas_spec _ _ _ _ _ E2 Hcl1 Hdok) as (Hok2 & Hcl2 & Hkv2 & Had2 & Hrm2 & Hse2 & Haddm2 & Hremm2 & Hs2).
  set (d2 := apply_msgs d1 m2) in *.
  (* what the IP sets look like now: the upstream sets, plus those still to be removed *)
  assert (Hsets2 : ∀ id, w_sets d2 !! id = if decide (id ∈ i_removed i0) then w_sets dp !! id else w_sets up !! id).
  { intros id. rewrite Hs2, Hs1, I3. destruct (i_added i0 !! id) as [ty|] eqn:Ea.
    - rewrite decide_False by (intros Hr; destruct (I2 id Hr); congruence).
      f_equal. unfold md_get. rewrite Haddm1, Ea, Hremm1, (I4 id) by eauto. set_solver.
    - destruct (decide (id ∈ i_removed i0)) as [Hr|Hr].
      + destruct (I6 id Ea (or_introl Hr)) as [Hx Hy].
        destruct (w_sets dp !! id); [|done]. f_equal. unfold md_get. rewrite Haddm1, Ea, Hremm1, Hx, Hy. set_solver.
      + destruct (w_sets dp !! id); [|done]. f_equal. unfold md_get. by rewrite Haddm1, Ea, Hremm1. }
  assert (Hupnone : ∀ id, id ∈ i_removed i0 → w_sets up !! id = None).
  { intros id Hr. rewrite I3. destruct (I2 id Hr) as [_ ->]. by rewrite decide_True. }
  assert (Hipsnew : ∀ id, is_Some (w_sets up !! id) → is_Some (w_sets d2 !! id)).
  { intros id Hs. rewrite Hsets2. destruct (decide _) as [Hr|]; [|done]. rewrite (Hupnone id Hr) in Hs. by destruct Hs. }
  (* phases 3-8: policies, profiles, endpoints *)
  rewrite (run_phases_kv o kv1) in Hc by done.
  destruct (run_kv_phases o kv1 k0) as [k1 m3] eqn:E3. injection Hc as <- <-.
  assert (HnrH : negb late = true → ∀ c v0, c.1 = KRoute → w_kv dp !! c = Some v0 → is_Some (w_kv up !! c) →
                 Forall (present up) (v_refs v0)).
  { intros Hl. apply Hnr. by destruct late. }
  assert (HI0 : kvInv k0 dp up (w_sets d2) [] k0 d2).
  { split_and!; try done.
    - intros c. split; [intros ?; split; [done|]|by intros [? _]].
      apply bool_decide_eq_false, not_elem_of_nil.
    - intros c. rewrite Hkv2, Hkv1. apply K1.
    - intros c. rewrite Hkv2, Hkv1. destruct (k_pu k0 !! c); [done|]. by destruct (decide _). }
  destruct (kv_phases_ok k0 dp up (negb late) (w_sets d2) K2a K2b K3 Hclu Htyd Htyu HnrH o kv1 [] k0 d2 k1 m3 HI0
              ltac:(by destruct late; vm_compute) E3) as [Hok3 HI3].
  set (d3 := apply_msgs d2 m3) in *. rewrite app_nil_r in HI3.
  (* phase 9: removed IP sets *)
  apply run_phases_single_inv in Hd. cbn [run_phase q_ip q_kv] in Hd.
  destruct (flush_removed_ipsets _ i2) as [i3 m4] eqn:E4. injection Hd as <- <-.
  pose proof HI3 as (Hcl3 & HS3 & _ & Hpu3 & Hpd3 & Hsent3 & HD3).
  destruct (flush_removed_spec _ _ _ _ _ E4 Hcl3) as (Hok4 & Hcl4 & Hkv4 & Had4 & Hrm4 & Hs4 & Haddm4 & Hremm4 & Hsent4).
  { intros id Hr. rewrite Hrm2, Hrm1 in Hr. rewrite HS3, Hsets2, decide_True by done.
    apply I1. by destruct (I2 id Hr). }
  { intros id c' v' Hr Hl Href. rewrite Hrm2, Hrm1 in Hr.
    destruct (kvInv_typed _ _ _ _ K3 Htyd Htyu _ _ _ _ _ HI3 Hl) as [_ Hdeps].
    rewrite Forall_forall in Hdeps. specialize (Hdeps _ Href). simpl in Hdeps.
    assert (Hup : w_kv d3 !! c' = w_kv up !! c').
    { apply (kvInv_done _ _ _ _ K3 _ _ _ _ HI3); destruct c' as [[] ?]; try done; by vm_compute. }
    rewrite Hup in Hl. pose proof (closed_lookup _ _ _ _ Hclu Hl Href) as Hp. unfold present in Hp; simpl in Hp.
    rewrite (Hupnone id Hr) in Hp. by destruct Hp. }
  set (d4 := apply_msgs d3 m4) in *.
  assert (Hsets4 : ∀ id, w_sets d4 !! id = w_sets up !! id).
  { intros id. rewrite Hs4, Hrm2, Hrm1, HS3, Hsets2. destruct (decide _) as [Hr|]; [|done]. by rewrite Hupnone. }
  (* remaining phases *)
  rewrite (run_phases_kv o (kv2 late)) in Hf by (by destruct late).
  destruct (run_kv_phases o (kv2 late) k1) as [k2 m5] eqn:E5.
  injection Hf as <- <-.
  assert (HI4 : kvInv k0 dp up (w_sets d4) (rev kv1) k1 d4).
  { split_and!; try done.
    - intros id Hs. rewrite Hsets4. done.
    - intros c. rewrite Hkv4. apply Hsent3.
    - intros c. rewrite Hkv4. apply HD3. }
  destruct (kv_phases_ok k0 dp up (negb late) (w_sets d4) K2a K2b K3 Hclu Htyd Htyu HnrH o (kv2 late) (rev kv1) k1 d4 k2 m5 HI4
              ltac:(by destruct late; vm_compute) E5) as [Hok5 HI5].
  set (d5 := apply_msgs d4 m5) in *.
  pose proof HI5 as (Hcl5 & HS5 & _ & Hpu5 & Hpd5 & Hsent5 & HD5).
  assert (Hfinal : apply_msgs dp (m1 ++ m2 ++ m3 ++ m4 ++ m5) = d5).
  { by rewrite !apply_msgs_app. }
  assert (Hkvnone : ∀ id, k_pu k0 !! (KIPSet, id) = None ∧ (KIPSet, id) ∉ k_pd k0).
  { intros id. split.
    - destruct (k_pu k0 !! (KIPSet, id)) as [v|] eqn:E; [|done].
      assert (Hx : w_kv up !! (KIPSet, id) = Some v) by (by rewrite K3, E). by destruct (Htyu _ _ Hx).
    - intros Hin. destruct (K2b _ Hin) as [x Hx]. by destruct (Htyd _ _ Hx). }
  assert (Hkvfinal : ∀ c, w_kv d5 !! c = w_kv up !! c).
  { intros c. destruct (decide (c.1 = KIPSet)) as [Hk|Hk].
    - destruct c as [k id]. simpl in Hk. subst k. destruct (Hkvnone id) as [Hx Hy].
      rewrite HD5, K3, Hx. by rewrite !decide_False by done.
    - destruct (all_flushed late c.1 Hk) as [HU HP].
      apply (kvInv_done _ _ _ _ K3 _ _ _ _ HI5 HU HP). }
  assert (Hd5 : d5 = up).
  { apply world_eq; apply map_eq; intros x; [rewrite HS5; apply Hsets4|apply Hkvfinal]. }
  rewrite Hfinal, Hd5. unfold Sync. split_and!; try done.
  - apply stream_ok_app; [done|]. apply stream_ok_app; [done|].
    apply stream_ok_app; [done|]. apply stream_ok_app; done.
  - (* ipInv *)
    unfold ipInv. simpl. split_and!.
    + intros id. rewrite Hsent4, Hse2, Hsent1, Hrm2, Hrm1, I3, I1.
      destruct (i_added i0 !! id) as [ty|] eqn:Ea.
      * split; [eauto|]. intros _. split; [eauto|]. intros Hr. destruct (I2 id Hr). congruence.
      * destruct (decide (id ∈ i_removed i0)) as [Hr|Hr].
        -- split; [intros [_ ?]; done|intros [? ?]; done].
        -- destruct (w_sets dp !! id); split; intros; try tauto; eauto.
           destruct H as [[[? ?]|[? ?]] _]; done.
    + intros id Hr. by destruct (Hrm4 id).
    + intros id. rewrite Had4, Had2, Had1. rewrite decide_False by apply Hrm4.
      destruct (w_sets up !! id) as [M|] eqn:EM; [|done]. f_equal.
      unfold md_get. rewrite Haddm4, Hremm4, Haddm2, Hremm2. repeat case_decide; set_solver.
    + intros id Hs. rewrite Had4, Had2, Had1 in Hs. by destruct Hs.
    + intros id M _ _. unfold md_get. rewrite Haddm4, Hremm4, Haddm2, Hremm2. repeat case_decide; set_solver.
    + intros id _ _. rewrite Haddm4, Hremm4, Haddm2, Hremm2. by repeat case_decide.
  - (* kvSync *)
    assert (Hpunone : ∀ c, k_pu k2 !! c = None).
    { intros c. rewrite Hpu5. destruct (decide (c.1 = KIPSet)) as [Hk|Hk].
      - destruct c as [k id]. simpl in Hk. subst k. destruct (Hkvnone id) as [Hx _]. by destruct (inpre _ _).
      - destruct (all_flushed late c.1 Hk) as [-> _]. done. }
    assert (Hpdnone : ∀ c, c ∉ k_pd k2).
    { intros c Hin. apply Hpd5 in Hin as [Hin Hpre]. destruct (decide (c.1 = KIPSet)) as [Hk|Hk].
      - destruct c as [k id]. simpl in Hk. subst k. by destruct (Hkvnone id).
      - destruct (all_flushed late c.1 Hk) as [_ HP]. congruence. }
    unfold kvSync. simpl. split_and!.
    + intros c. rewrite Hsent5, Hd5. done.
    + intros c Hin. by destruct (Hpdnone c).
    + intros c Hin. by destruct (Hpdnone c).
    + intros c. rewrite Hpunone. by rewrite decide_False by apply Hpdnone.
Qed.
