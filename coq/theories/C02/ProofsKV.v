(* C02 — proofs, part 1: worlds, closure under single writes, the update/delete phases. *)
From stdpp Require Import gmap.
From Verif.C02 Require Import Model Spec.
Local Open Scope N_scope.

(* every object only references kinds it may reference (Spec.dep_ok) and no IP set lives in the kv map *)
Definition typed (w : world) : Prop :=
  ∀ c v, w_kv w !! c = Some v → c.1 ≠ KIPSet ∧ Forall (λ r : cell, dep_ok c.1 r.1 = true) (v_refs v).

Lemma closed_lookup w c v r :
  closed w → w_kv w !! c = Some v → r ∈ v_refs v → present w r.
Proof. intros Hc Hl Hr. specialize (Hc c v Hl). simpl in Hc. rewrite Forall_forall in Hc. auto. Qed.

Definition kv_set (w : world) (m : gmap cell value) : world := {| w_sets := w_sets w; w_kv := m |}.
Definition sets_set (w : world) (m : gmap N (gset N)) : world := {| w_sets := m; w_kv := w_kv w |}.

Lemma present_kv_insert w c v r :
  c.1 ≠ KIPSet → present w r → present (kv_set w (<[c := v]> (w_kv w))) r.
Proof.
  unfold present; simpl. destruct r as [rk rid]; simpl. intros Hc.
  destruct rk; try done; intros Hs; apply lookup_insert_is_Some'; auto.
Qed.

Lemma closed_kv_insert w c v :
  c.1 ≠ KIPSet → closed w → Forall (present w) (v_refs v) →
  closed (kv_set w (<[c := v]> (w_kv w))).
Proof.
  intros Hc Hcl Hv c' v' Hl. simpl in *. rewrite Forall_forall. intros r Hr.
  apply present_kv_insert; [done|].
  destruct (decide (c = c')) as [->|Hne].
  - rewrite lookup_insert in Hl. injection Hl as <-. rewrite Forall_forall in Hv. auto.
  - rewrite lookup_insert_ne in Hl by done. eapply closed_lookup; eauto.
Qed.

Lemma present_kv_delete w c r :
  r ≠ c → present w r → present (kv_set w (delete c (w_kv w))) r.
Proof.
  unfold present; simpl. destruct r as [rk rid]; simpl. intros Hne.
  destruct rk; try done; rewrite lookup_delete_ne by done; done.
Qed.

Lemma closed_kv_delete w c :
  closed w → (∀ c' v', w_kv w !! c' = Some v' → c' ≠ c → c ∉ v_refs v') →
  closed (kv_set w (delete c (w_kv w))).
Proof.
  intros Hcl Hno c' v' Hl. simpl in *. rewrite Forall_forall. intros r Hr.
  apply lookup_delete_Some in Hl as [Hne Hl].
  apply present_kv_delete.
  - intros ->. eapply Hno; eauto.
  - eapply closed_lookup; eauto.
Qed.

Lemma present_sets_insert w id M r :
  present w r → present (sets_set w (<[id := M]> (w_sets w))) r.
Proof.
  unfold present; simpl. destruct r as [rk rid]; simpl.
  destruct rk; try done. intros [x Hx].
  destruct (decide (id = rid)) as [->|]; [rewrite lookup_insert|rewrite lookup_insert_ne by done]; eauto.
Qed.

Lemma closed_sets_insert w id M :
  closed w → closed (sets_set w (<[id := M]> (w_sets w))).
Proof.
  intros Hcl c' v' Hl. simpl in *. rewrite Forall_forall. intros r Hr.
  apply present_sets_insert. eapply closed_lookup; eauto.
Qed.

Lemma closed_sets_delete w id :
  closed w → (∀ c' v', w_kv w !! c' = Some v' → (KIPSet, id) ∉ v_refs v') →
  closed (sets_set w (delete id (w_sets w))).
Proof.
  intros Hcl Hno c' v' Hl. simpl in *. rewrite Forall_forall. intros r Hr.
  pose proof (closed_lookup _ _ _ _ Hcl Hl Hr) as Hp.
  unfold present in *; simpl in *. destruct r as [rk rid]; simpl in *.
  destruct rk; try done.
  rewrite lookup_delete_ne; [done|]. intros ->. eapply Hno; eauto.
Qed.

Lemma stream_ok_app w a b :
  stream_ok w a → stream_ok (apply_msgs w a) b → stream_ok w (a ++ b).
Proof.
  revert w. induction a as [|m a IH]; simpl; intros w; [done|].
  intros (? & ? & ?) ?. repeat split; try done. by apply IH.
Qed.

Lemma apply_msgs_app w a b : apply_msgs w (a ++ b) = apply_msgs (apply_msgs w a) b.
Proof. apply foldl_app. Qed.

Lemma ok_msgs_spec w ms : ok_msgs w ms = true ↔ stream_ok w ms.
Proof.
  revert w. induction ms as [|m r IH]; intros w; simpl; [done|].
  rewrite !andb_true_iff, !bool_decide_eq_true, IH. tauto.
Qed.

(* ------------------------------------------------------------------ flushXUpdates *)
(* What one update phase does, given that the references of every pending value of that kind are
   already present in the dataplane. *)
Lemma upd_loop_spec K cands : ∀ s s' ms d,
  flush_upd_loop K cands s = (s', ms) →
  K ≠ KIPSet →
  closed d →
  (∀ id v, k_pu s !! (K, id) = Some v → Forall (present d) (v_refs v)) →
  stream_ok d ms ∧ closed (apply_msgs d ms) ∧ w_sets (apply_msgs d ms) = w_sets d ∧
  (∀ r, present d r → present (apply_msgs d ms) r) ∧
  (∀ c, w_kv (apply_msgs d ms) !! c =
        match k_pu s !! c, k_pu s' !! c with Some v, None => Some v | _, _ => w_kv d !! c end) ∧
  k_pd s' = k_pd s ∧
  (∀ c, k_pu s' !! c = None ∨ k_pu s' !! c = k_pu s !! c) ∧
  (∀ c, c.1 ≠ K → k_pu s' !! c = k_pu s !! c) ∧
  (∀ id, id ∈ cands → k_pu s' !! (K, id) = None) ∧
  (∀ c, c ∈ k_sent s' ↔ c ∈ k_sent s ∨ (is_Some (k_pu s !! c) ∧ k_pu s' !! c = None)).
Proof.
  induction cands as [|id rest IH]; intros s s' ms d Hf HK Hcl Hpre; simpl in Hf.
  - injection Hf as <- <-. simpl. split_and!; try done.
    + intros c. by destruct (k_pu s !! c).
    + auto.
    + intros ? Hin. by apply elem_of_nil in Hin.
    + intros c. split; [auto|]. intros [?|[[x Hx] Hn]]; [done|congruence].
  - destruct (k_pu s !! (K, id)) as [v|] eqn:Hl.
    + destruct (flush_upd_loop K rest _) as [s2 ms2] eqn:Hrec. injection Hf as <- <-.
      set (s1 := {| k_pu := delete (K, id) (k_pu s); k_pd := k_pd s; k_sent := {[(K, id)]} ∪ k_sent s |}) in *.
      set (d1 := kv_set d (<[(K, id) := v]> (w_kv d))).
      assert (Hcl1 : closed d1) by (apply closed_kv_insert; eauto).
      assert (Hmono : ∀ r, present d r → present d1 r) by (intros; by apply present_kv_insert).
      destruct (IH s1 s2 ms2 d1 Hrec HK Hcl1) as (Hok & Hcl' & Hsets & Hpres & Hkv & Hpd & Hpu1 & Hpu2 & Hpu3 & Hsent).
      { intros id' v' Hl'. simpl in Hl'. apply lookup_delete_Some in Hl' as [_ Hl'].
        eapply Forall_impl; [eapply Hpre; eauto|]. auto. }
      simpl. change (apply_msg d (MUpdate (K, id) v)) with d1. fold (apply_msgs d1 ms2).
      assert (Hnone : k_pu s2 !! (K, id) = None).
      { destruct (Hpu1 (K, id)) as [?|E]; [done|]. rewrite E. simpl. apply lookup_delete. }
      split_and!; try done.
      * auto.
      * intros c. rewrite Hkv. simpl. destruct (decide (c = (K, id))) as [->|Hne].
        -- by rewrite lookup_delete, lookup_insert, Hl, Hnone.
        -- by rewrite lookup_delete_ne, lookup_insert_ne.
      * intros c. destruct (decide (c = (K, id))) as [->|Hne]; [auto|].
        destruct (Hpu1 c) as [?|E]; [auto|]. right. rewrite E. simpl. by rewrite lookup_delete_ne.
      * intros c Hc. rewrite Hpu2 by done. simpl. apply lookup_delete_ne. intros <-. done.
      * intros id' Hin. apply elem_of_cons in Hin as [->|Hin]; auto.
      * intros c. rewrite Hsent. simpl. destruct (decide (c = (K, id))) as [->|Hne].
        -- rewrite lookup_delete, Hl, Hnone, elem_of_union, elem_of_singleton.
           split; [intros [[?|?]|[[? ?] _]]; eauto; done|intros [?|_]; auto].
        -- rewrite lookup_delete_ne by done. rewrite elem_of_union, elem_of_singleton. tauto.
    + destruct (IH s s' ms d Hf HK Hcl Hpre) as (Hok & Hcl' & Hsets & Hpres & Hkv & Hpd & Hpu1 & Hpu2 & Hpu3 & Hsent).
      split_and!; try done.
      intros id' Hin. apply elem_of_cons in Hin as [->|Hin]; auto.
      destruct (Hpu1 (K, id)) as [?|E]; [done|]. by rewrite E.
Qed.

Lemma kind_ids_spec (K : kind) (X : gset cell) (id : N) : id ∈ kind_ids K X ↔ (K, id) ∈ X.
Proof.
  unfold kind_ids. rewrite elem_of_list_fmap. split.
  - intros ([k i] & -> & Hin). apply elem_of_list_filter in Hin as [Hk Hin]. simpl in *. subst.
    by apply elem_of_elements in Hin.
  - intros Hin. exists (K, id). split; [done|]. apply elem_of_list_filter. split; [done|].
    by apply elem_of_elements.
Qed.

(* the whole phase: every pending update of kind K is written *)
Lemma flush_updates_spec K o s s' ms d :
  flush_updates K o s = (s', ms) →
  K ≠ KIPSet →
  closed d →
  (∀ id v, k_pu s !! (K, id) = Some v → Forall (present d) (v_refs v)) →
  stream_ok d ms ∧ closed (apply_msgs d ms) ∧ w_sets (apply_msgs d ms) = w_sets d ∧
  (∀ c, w_kv (apply_msgs d ms) !! c =
        if decide (c.1 = K) then (match k_pu s !! c with Some v => Some v | None => w_kv d !! c end)
        else w_kv d !! c) ∧
  k_pd s' = k_pd s ∧
  (∀ c, k_pu s' !! c = if decide (c.1 = K) then None else k_pu s !! c) ∧
  (∀ c, c ∈ k_sent s' ↔ c ∈ k_sent s ∨ (c.1 = K ∧ is_Some (k_pu s !! c))).
Proof.
  unfold flush_updates. intros Hf HK Hcl Hpre.
  destruct (upd_loop_spec _ _ _ _ _ _ Hf HK Hcl Hpre) as (Hok & Hcl' & Hsets & Hpres & Hkv & Hpd & Hpu1 & Hpu2 & Hpu3 & Hsent).
  assert (Hall : ∀ c, c.1 = K → k_pu s' !! c = None).
  { intros [k id] Hk. simpl in Hk. subst k. destruct (k_pu s !! (K, id)) eqn:E.
    - apply Hpu3. apply elem_of_app. right. apply kind_ids_spec. apply elem_of_dom. eauto.
    - destruct (Hpu1 (K, id)) as [?|E']; [done|]. by rewrite E'. }
  split_and!; try done.
  - intros c. rewrite Hkv. destruct (decide (c.1 = K)) as [Hk|Hk].
    + rewrite (Hall c Hk). by destruct (k_pu s !! c).
    + rewrite (Hpu2 c Hk). by destruct (k_pu s !! c).
  - intros c. destruct (decide (c.1 = K)); auto.
  - intros c. rewrite Hsent. split; intros [?|[H1 H2]]; auto.
    + right. split; [|done]. destruct (decide (c.1 = K)); [done|]. rewrite Hpu2 in H2 by done.
      destruct H1; congruence.
Qed.

(* ------------------------------------------------------------------ flushXDeletes *)
Lemma del_loop_spec K cands : ∀ s s' ms d,
  flush_del_loop K cands s = (s', ms) →
  closed d →
  (∀ id, (K, id) ∈ k_pd s → is_Some (w_kv d !! (K, id))) →
  (∀ id c' v', (K, id) ∈ k_pd s → w_kv d !! c' = Some v' → (K, id) ∉ v_refs v') →
  stream_ok d ms ∧ closed (apply_msgs d ms) ∧ w_sets (apply_msgs d ms) = w_sets d ∧
  (∀ c, c ∈ k_pd s → c ∉ k_pd s' → w_kv (apply_msgs d ms) !! c = None) ∧
  (∀ c, ¬ (c ∈ k_pd s ∧ c ∉ k_pd s') → w_kv (apply_msgs d ms) !! c = w_kv d !! c) ∧
  k_pu s' = k_pu s ∧
  (∀ c, c ∈ k_pd s' → c ∈ k_pd s) ∧
  (∀ c, c.1 ≠ K → c ∈ k_pd s → c ∈ k_pd s') ∧
  (∀ id, id ∈ cands → (K, id) ∉ k_pd s') ∧
  (∀ c, c ∈ k_sent s' ↔ c ∈ k_sent s ∧ ¬ (c ∈ k_pd s ∧ c ∉ k_pd s')).
Proof.
  induction cands as [|id rest IH]; intros s s' ms d Hf Hcl Hex Hno; simpl in Hf.
  - injection Hf as <- <-. simpl. split_and!; try done.
    + intros ? Hin. by apply elem_of_nil in Hin.
    + intros c. tauto.
  - destruct (bool_decide ((K, id) ∈ k_pd s)) eqn:Hb.
    + apply bool_decide_eq_true in Hb.
      destruct (flush_del_loop K rest _) as [s2 ms2] eqn:Hrec. injection Hf as <- <-.
      set (s1 := {| k_pu := k_pu s; k_pd := k_pd s ∖ {[(K, id)]}; k_sent := k_sent s ∖ {[(K, id)]} |}) in *.
      set (d1 := kv_set d (delete (K, id) (w_kv d))).
      assert (Hcl1 : closed d1).
      { apply closed_kv_delete; [done|]. intros c' v' Hl _. eapply Hno; eauto. }
      destruct (IH s1 s2 ms2 d1 Hrec Hcl1) as (Hok & Hcl' & Hsets & Hkv1 & Hkv2 & Hpu & Hpd1 & Hpd2 & Hpd3 & Hsent).
      { intros id' Hin. simpl in Hin. apply elem_of_difference in Hin as [Hin Hne].
        simpl. rewrite lookup_delete_ne; [auto|]. intros E. apply Hne. rewrite E. by apply elem_of_singleton. }
      { intros id' c' v' Hin Hl. simpl in Hin, Hl. apply elem_of_difference in Hin as [Hin _].
        apply lookup_delete_Some in Hl as [_ Hl]. eauto. }
      assert (Hnin : (K, id) ∉ k_pd s2).
      { intros Hin. apply Hpd1 in Hin. simpl in Hin. apply elem_of_difference in Hin as [_ Hne].
        apply Hne. by apply elem_of_singleton. }
      simpl. change (apply_msg d (MRemove (K, id))) with d1. fold (apply_msgs d1 ms2).
      split_and!; try done.
      * auto.
      * intros c Hin Hnin'. destruct (decide (c = (K, id))) as [->|Hne].
        -- rewrite Hkv2; [simpl; apply lookup_delete|]. intros [Hin' _]. simpl in Hin'.
           apply elem_of_difference in Hin' as [_ Hne]. apply Hne. by apply elem_of_singleton.
        -- apply Hkv1; [|done]. simpl. apply elem_of_difference. split; [done|]. by rewrite elem_of_singleton.
      * intros c Hn. destruct (decide (c = (K, id))) as [->|Hne]; [by destruct Hn|].
        rewrite Hkv2.
        -- simpl. by rewrite lookup_delete_ne.
        -- intros [Hin Hnin']. apply Hn. split; [|done]. simpl in Hin. by apply elem_of_difference in Hin as [? _].
      * intros c Hin. apply Hpd1 in Hin. simpl in Hin. by apply elem_of_difference in Hin as [? _].
      * intros c Hc Hin. apply Hpd2; [done|]. simpl. apply elem_of_difference. split; [done|].
        rewrite elem_of_singleton. intros ->. done.
      * intros id' Hin. apply elem_of_cons in Hin as [->|Hin]; auto.
      * intros c. rewrite Hsent. simpl. rewrite !elem_of_difference, !elem_of_singleton.
        destruct (decide (c = (K, id))) as [->|Hne]; [tauto|]. tauto.
    + apply bool_decide_eq_false in Hb.
      destruct (IH s s' ms d Hf Hcl Hex Hno) as (Hok & Hcl' & Hsets & Hkv1 & Hkv2 & Hpu & Hpd1 & Hpd2 & Hpd3 & Hsent).
      split_and!; try done.
      intros id' Hin. apply elem_of_cons in Hin as [->|Hin]; auto.
Qed.

Lemma flush_deletes_spec K o s s' ms d :
  flush_deletes K o s = (s', ms) →
  closed d →
  (∀ id, (K, id) ∈ k_pd s → is_Some (w_kv d !! (K, id))) →
  (∀ id c' v', (K, id) ∈ k_pd s → w_kv d !! c' = Some v' → (K, id) ∉ v_refs v') →
  stream_ok d ms ∧ closed (apply_msgs d ms) ∧ w_sets (apply_msgs d ms) = w_sets d ∧
  (∀ c, w_kv (apply_msgs d ms) !! c =
        if decide (c.1 = K ∧ c ∈ k_pd s) then None else w_kv d !! c) ∧
  k_pu s' = k_pu s ∧
  (∀ c, c ∈ k_pd s' ↔ c ∈ k_pd s ∧ c.1 ≠ K) ∧
  (∀ c, c ∈ k_sent s' ↔ c ∈ k_sent s ∧ ¬ (c.1 = K ∧ c ∈ k_pd s)).
Proof.
  unfold flush_deletes. intros Hf Hcl Hex Hno.
  destruct (del_loop_spec _ _ _ _ _ _ Hf Hcl Hex Hno) as (Hok & Hcl' & Hsets & Hkv1 & Hkv2 & Hpu & Hpd1 & Hpd2 & Hpd3 & Hsent).
  assert (Hall : ∀ c, c.1 = K → c ∉ k_pd s').
  { intros [k id] Hk Hin. simpl in Hk. subst k. eapply Hpd3; [|exact Hin].
    apply elem_of_app. right. apply kind_ids_spec. auto. }
  assert (Hiff : ∀ c, (c ∈ k_pd s ∧ c ∉ k_pd s') ↔ (c.1 = K ∧ c ∈ k_pd s)).
  { intros c. split.
    - intros [Hin Hnin]. split; [|done]. destruct (decide (c.1 = K)); [done|]. destruct Hnin. auto.
    - intros [Hk Hin]. auto. }
  split_and!; try done.
  - intros c. destruct (decide (c.1 = K ∧ c ∈ k_pd s)) as [Hd|Hd].
    + apply Hiff in Hd as [? ?]. auto.
    + apply Hkv2. by rewrite Hiff.
  - intros c. split.
    + intros Hin. split; [auto|]. intros Hk. by apply (Hall c Hk).
    + intros [? ?]. auto.
  - intros c. rewrite Hsent, Hiff. done.
Qed.
