(* C02 — proofs about the completed sequencer (ModelX.v): its restriction to the message kinds of Model.v IS the
   model of Model.v (so every theorem about [seq_run] speaks about the complete Flush), and the wireguard
   endpoint messages are well-formed (a remove names an endpoint the dataplane has). *)
From stdpp Require Import gmap.
From Verif.C02 Require Import Model Spec ProofsKV ProofsSched ProofsMain Proofs ModelX.
Local Open Scope N_scope.

Local Arguments run_phases : simpl never.
Local Opaque phasesA phasesB phasesC.

Lemma phases_ABC late : phases late = phasesA late ++ phasesB ++ phasesC.
Proof. Local Transparent phasesA phasesB phasesC. by destruct late. Qed.
Local Opaque phasesA phasesB phasesC.

Lemma xbase_app a b : xbase (a ++ b) = xbase a ++ xbase b.
Proof. apply omap_app. Qed.
Lemma xbase_map ms : xbase (map XBase ms) = ms.
Proof. induction ms as [|m ms IH]; simpl; [done|]. unfold xbase in *. simpl. by rewrite IH. Qed.

Lemma wg_del_loop_q cands : ∀ x, x_q (wg_del_loop cands x).1 = x_q x ∧ xbase (wg_del_loop cands x).2 = [].
Proof.
  induction cands as [|n r IH]; intros x; simpl; [done|].
  destruct (bool_decide (n ∈ x_wgd x)); [|apply IH].
  match goal with |- context [wg_del_loop r ?x1] => destruct (IH x1) as [H1 H2]; destruct (wg_del_loop r x1) end.
  simpl in *. split; [done|]. rewrite !xbase_app, H2. by repeat case_bool_decide.
Qed.
Lemma wg_upd_loop_q cands : ∀ x, x_q (wg_upd_loop cands x).1 = x_q x ∧ xbase (wg_upd_loop cands x).2 = [].
Proof.
  induction cands as [|n r IH]; intros x; simpl; [done|].
  destruct (x_wgu x !! n) as [w|]; [|apply IH].
  destruct (if bool_decide (wg_k4 w ≠ 0) then _ else _) as [m4 w4] eqn:E4.
  destruct (if bool_decide (wg_k6 w ≠ 0) then _ else _) as [m6 w6] eqn:E6.
  match goal with |- context [wg_upd_loop r ?x1] => destruct (IH x1) as [H1 H2]; destruct (wg_upd_loop r x1) end.
  simpl in *. split; [done|]. rewrite !xbase_app, H2.
  assert (xbase m4 = []) as -> by (repeat case_bool_decide; by simplify_eq).
  assert (xbase m6 = []) as -> by (repeat case_bool_decide; by simplify_eq). done.
Qed.

(* one complete Flush, restricted to the message kinds of Model.v, is Model.flush_gen *)
Lemma xflush_proj late o ow x :
  x_q (xflush late o ow x).1 = (flush_gen late o (x_q x)).1 ∧
  xbase (xflush late o ow x).2 = (flush_gen late o (x_q x)).2.
Proof.
  unfold xflush, flush_gen. rewrite phases_ABC, !run_phases_app.
  destruct (x_pcfg x) as [[[g s] h]|]; [destruct (x_cfg x) as [[g0 s0] h0]|]; cbv beta iota zeta;
  (destruct (run_phases o (phasesA late) (x_q x)) as [qa ma]; cbv beta iota zeta;
   match goal with |- context [wg_del_loop ?c ?xa] =>
     destruct (wg_del_loop_q c xa) as [Hd1 Hd2]; destruct (wg_del_loop c xa) as [xd md] end;
   match goal with |- context [wg_upd_loop ?c ?xd] =>
     destruct (wg_upd_loop_q c xd) as [Hu1 Hu2]; destruct (wg_upd_loop c xd) as [xu mu] end;
   simpl in *; rewrite Hu1, Hd1; simpl; rewrite run_phases_app;
   destruct (run_phases o phasesB qa) as [qb mb]; destruct (run_phases o phasesC qb) as [qc mc]; simpl;
   split; [done|]; rewrite !xbase_app, !xbase_map, Hd2, Hu2;
   destruct (x_notready x), (x_encap xu), (x_bgp xu); simpl; repeat case_bool_decide; simpl; by rewrite ?app_nil_r).
Qed.

Lemma on_xcb_proj e x x' :
  on_xcb e x = Some x' →
  match e with XCb c => on_cb c (x_q x) = Some (x_q x') | _ => x_q x' = x_q x end.
Proof.
  destruct e; simpl; try (intros [= <-]; done).
  destruct (on_cb e (x_q x)); simpl; [|done]. by intros [= <-].
Qed.

Lemma xproj_cb c h : xproj (XSCb (XCb c) :: h) = SCb c :: xproj h.
Proof. done. Qed.
Lemma xproj_flush o ow h : xproj (XSFlush o ow :: h) = SFlush o :: xproj h.
Proof. done. Qed.
Lemma xproj_other e h : (∀ c, e ≠ XCb c) → xproj (XSCb e :: h) = xproj h.
Proof. intros H. destruct e; try done. by destruct (H e). Qed.
Local Arguments xproj : simpl never.

Lemma xseq_run_proj late : ∀ h x x' ms,
  xseq_run late x h = Some (x', ms) → seq_run late (x_q x) (xproj h) = Some (x_q x', xbase ms).
Proof.
  induction h as [|[e|o ow] h IH]; intros x x' ms Hr; simpl in Hr.
  - by injection Hr as <- <-.
  - destruct (on_xcb e x) as [x1|] eqn:E; [|done]. simpl in Hr. pose proof (on_xcb_proj _ _ _ E) as Hp.
    specialize (IH _ _ _ Hr).
    destruct e as [c| | | | | |]; try (rewrite xproj_other by done; rewrite <-Hp; exact IH).
    rewrite xproj_cb. simpl. rewrite Hp. simpl. rewrite IH. done.
  - pose proof (xflush_proj late o ow x) as [H1 H2]. destruct (xflush late o ow x) as [x1 m1].
    destruct (xseq_run late x1 h) as [[x2 m2]|] eqn:E; [|done]. simpl in Hr. injection Hr as <- <-.
    specialize (IH _ _ _ E). rewrite xproj_flush. simpl in *.
    destruct (flush_gen late o (x_q x)) as [q1 mm]. simpl in *. subst. rewrite IH. simpl. by rewrite xbase_app.
Qed.

(* everything proved about Model.seq_run holds for the Model.v-part of the complete sequencer's stream *)
Lemma x_stream_ok late h x ms :
  contract_gen late world0 world0 (xproj h) → xseq_run late xst0 h = Some (x, ms) → stream_ok world0 (xbase ms).
Proof. intros Hc Hr. apply xseq_run_proj in Hr. eapply run_ok; eauto. Qed.

Lemma x_no_panic late : ∀ h x,
  is_Some (seq_run late (x_q x) (xproj h)) → is_Some (xseq_run late x h).
Proof.
  induction h as [|[e|o ow] h IH]; intros x Hs; simpl; [eauto| |].
  - destruct e as [c| | | | | |]; try (rewrite xproj_other in Hs by done; simpl; apply IH; exact Hs).
    rewrite xproj_cb in Hs. simpl in *.
    destruct (on_cb c (x_q x)) as [q|]; simpl in *; [|by destruct Hs]. apply IH. simpl.
    destruct (seq_run late q (xproj h)) as [[? ?]|]; [eauto|by destruct Hs].
  - rewrite xproj_flush in Hs.
    pose proof (xflush_proj late o ow x) as [H1 H2]. destruct (xflush late o ow x) as [x1 m1]. simpl in *. destruct (flush_gen late o (x_q x)) as [q1 mm]. simpl in *. subst.
    destruct (IH x1) as [[x2 m2] ->]; [|simpl; eauto].
    destruct (seq_run late (x_q x1) (xproj h)) as [[? ?]|]; [eauto|by destruct Hs].
Qed.

(* ------------------------------------------------------------------ wireguard endpoints *)
(* the dataplane's view: which nodes have a v4 / v6 wireguard endpoint *)
Definition wgw : Type := gset N * gset N.
Definition apply_wg (w : wgw) (m : xmsg) : wgw :=
  match m with
  | XWg4Upd n _ _ => ({[n]} ∪ w.1, w.2) | XWg4Rem n => (w.1 ∖ {[n]}, w.2)
  | XWg6Upd n _ _ => (w.1, {[n]} ∪ w.2) | XWg6Rem n => (w.1, w.2 ∖ {[n]})
  | _ => w
  end.
Definition wg_ok (w : wgw) (m : xmsg) : Prop :=
  match m with XWg4Rem n => n ∈ w.1 | XWg6Rem n => n ∈ w.2 | _ => True end.
Fixpoint wg_stream_ok (w : wgw) (ms : list xmsg) : Prop :=
  match ms with [] => True | m :: r => wg_ok w m ∧ wg_stream_ok (apply_wg w m) r end.
Definition apply_wgs : wgw → list xmsg → wgw := foldl apply_wg.

Lemma wg_stream_ok_app w a b : wg_stream_ok w a → wg_stream_ok (apply_wgs w a) b → wg_stream_ok w (a ++ b).
Proof. revert w. induction a as [|m a IH]; simpl; intros w; [done|]. intros [? ?] ?. split; [done|]. by apply IH. Qed.
Lemma apply_wgs_app w a b : apply_wgs w (a ++ b) = apply_wgs (apply_wgs w a) b.
Proof. apply foldl_app. Qed.
Lemma wg_base_ok w ms : wg_stream_ok w (map XBase ms) ∧ apply_wgs w (map XBase ms) = w.
Proof. revert w. induction ms as [|m ms IH]; intros w; simpl; [done|]. destruct (IH w). done. Qed.

Definition wgof (x : xst) : wgw := (x_wg4 x, x_wg6 x).

Lemma wg_del_loop_ok cands : ∀ x,
  wg_stream_ok (wgof x) (wg_del_loop cands x).2 ∧ apply_wgs (wgof x) (wg_del_loop cands x).2 = wgof (wg_del_loop cands x).1.
Proof.
  induction cands as [|n r IH]; intros x; simpl; [done|].
  destruct (bool_decide (n ∈ x_wgd x)); [|apply IH].
  match goal with |- context [wg_del_loop r ?x1] => destruct (IH x1) as [H1 H2]; destruct (wg_del_loop r x1) as [x2 ms] end.
  simpl in *. unfold wgof in *. simpl in *.
  destruct (bool_decide (n ∈ x_wg4 x)) eqn:E4, (bool_decide (n ∈ x_wg6 x)) eqn:E6; simpl;
    rewrite ?bool_decide_eq_true, ?bool_decide_eq_false in *.
  - split_and!; done.
  - assert (x_wg6 x ∖ {[n]} = x_wg6 x) as E by set_solver. rewrite E in *. split_and!; try done.
  - assert (x_wg4 x ∖ {[n]} = x_wg4 x) as E by set_solver. rewrite E in *. split_and!; try done.
  - assert (x_wg4 x ∖ {[n]} = x_wg4 x) as E by set_solver.
    assert (x_wg6 x ∖ {[n]} = x_wg6 x) as E' by set_solver. rewrite E, E' in *. done.
Qed.

Lemma wg_upd_loop_ok cands : ∀ x,
  wg_stream_ok (wgof x) (wg_upd_loop cands x).2 ∧ apply_wgs (wgof x) (wg_upd_loop cands x).2 = wgof (wg_upd_loop cands x).1.
Proof.
  induction cands as [|n r IH]; intros x; simpl; [done|].
  destruct (x_wgu x !! n) as [w|]; [|apply IH].
  destruct (if bool_decide (wg_k4 w ≠ 0) then _ else _) as [m4 w4] eqn:E4.
  destruct (if bool_decide (wg_k6 w ≠ 0) then _ else _) as [m6 w6] eqn:E6.
  match goal with |- context [wg_upd_loop r ?x1] => destruct (IH x1) as [H1 H2]; destruct (wg_upd_loop r x1) as [x2 ms] end.
  simpl in *. unfold wgof in *. simpl in *.
  assert (H4 : wg_stream_ok (x_wg4 x, x_wg6 x) m4 ∧ apply_wgs (x_wg4 x, x_wg6 x) m4 = (w4, x_wg6 x)).
  { repeat case_bool_decide; simplify_eq; simpl; done. }
  assert (H6 : wg_stream_ok (w4, x_wg6 x) m6 ∧ apply_wgs (w4, x_wg6 x) m6 = (w4, w6)).
  { repeat case_bool_decide; simplify_eq; simpl; done. }
  destruct H4 as [H4a H4b], H6 as [H6a H6b]. split.
  - apply wg_stream_ok_app; [done|]. rewrite H4b. apply wg_stream_ok_app; [done|]. by rewrite H6b.
  - by rewrite !apply_wgs_app, H4b, H6b.
Qed.

Lemma xflush_wg_ok late o ow x :
  wg_stream_ok (wgof x) (xflush late o ow x).2 ∧ apply_wgs (wgof x) (xflush late o ow x).2 = wgof (xflush late o ow x).1.
Proof.
  unfold xflush.
  set (m_cfg := match x_pcfg x with None => _ | Some _ => _ end). destruct m_cfg as [mcfg cfg'] eqn:Ecfg.
  destruct (run_phases o (phasesA late) (x_q x)) as [qa ma]. cbv beta iota zeta.
  match goal with |- context [wg_del_loop ?c ?xa] =>
    destruct (wg_del_loop_ok c xa) as [Hd1 Hd2]; destruct (wg_del_loop c xa) as [xd md] end.
  match goal with |- context [wg_upd_loop ?c ?xd] =>
    destruct (wg_upd_loop_ok c xd) as [Hu1 Hu2]; destruct (wg_upd_loop c xd) as [xu mu] end.
  destruct (run_phases o phasesB (x_q xu)) as [qb mb]. destruct (run_phases o phasesC qb) as [qc mc].
  simpl in *. unfold wgof in *. simpl in *.
  assert (Hpre : ∀ w, wg_stream_ok w ((if x_notready x then [XNotReady] else []) ++ mcfg) ∧
                      apply_wgs w ((if x_notready x then [XNotReady] else []) ++ mcfg) = w).
  { intros w. unfold m_cfg in Ecfg. destruct (x_pcfg x) as [[[g s] h]|]; [destruct (x_cfg x) as [[g0 s0] h0]|];
      injection Ecfg as <- <-; destruct (x_notready x); simpl; repeat case_bool_decide; simpl; done. }
  assert (Hpost : ∀ w, wg_stream_ok w (match x_encap xu with Some v => [XEncap v] | None => [] end ++
                                        match x_bgp xu with Some v => [XBGP v] | None => [] end ++ map XBase mc) ∧
                       apply_wgs w (match x_encap xu with Some v => [XEncap v] | None => [] end ++
                                        match x_bgp xu with Some v => [XBGP v] | None => [] end ++ map XBase mc) = w).
  { intros w. destruct (wg_base_ok w mc). destruct (x_encap xu), (x_bgp xu); simpl; done. }
  rewrite (app_assoc _ mcfg). 
  destruct (Hpre (x_wg4 x, x_wg6 x)) as [P1 P2]. destruct (wg_base_ok (x_wg4 x, x_wg6 x) ma) as [A1 A2].
  destruct (wg_base_ok (x_wg4 xu, x_wg6 xu) mb) as [B1 B2]. destruct (Hpost (x_wg4 xu, x_wg6 xu)) as [Q1 Q2].
  split.
  - apply wg_stream_ok_app; [done|]. rewrite P2. apply wg_stream_ok_app; [done|]. rewrite A2.
    apply wg_stream_ok_app; [done|]. rewrite Hd2. apply wg_stream_ok_app; [done|]. rewrite Hu2.
    apply wg_stream_ok_app; [done|]. rewrite B2. done.
  - rewrite apply_wgs_app, P2, apply_wgs_app, A2, apply_wgs_app, Hd2, apply_wgs_app, Hu2, apply_wgs_app, B2. exact Q2.
Qed.

Lemma on_xcb_wg e x x' : on_xcb e x = Some x' → wgof x' = wgof x.
Proof. destruct e; simpl; try (intros [= <-]; done). destruct (on_cb e (x_q x)); simpl; [|done]. by intros [= <-]. Qed.

(* every wireguard endpoint remove, v4 and v6, names an endpoint the dataplane has: for all histories, no contract *)
Lemma x_wg_ok late : ∀ h x x' ms, xseq_run late x h = Some (x', ms) →
  wg_stream_ok (wgof x) ms ∧ apply_wgs (wgof x) ms = wgof x'.
Proof.
  induction h as [|[e|o ow] h IH]; intros x x' ms Hr; simpl in Hr.
  - by injection Hr as <- <-.
  - destruct (on_xcb e x) as [x1|] eqn:E; [|done]. simpl in Hr. rewrite <-(on_xcb_wg _ _ _ E). by apply IH.
  - pose proof (xflush_wg_ok late o ow x) as [H1 H2]. destruct (xflush late o ow x) as [x1 m1].
    destruct (xseq_run late x1 h) as [[x2 m2]|] eqn:E; [|done]. simpl in *. injection Hr as <- <-.
    destruct (IH _ _ _ E) as [H3 H4]. split.
    + apply wg_stream_ok_app; [done|]. by rewrite H2.
    + by rewrite apply_wgs_app, H2.
Qed.
