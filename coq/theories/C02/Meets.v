(* C02 — the specification oracle accepts every run of the model (inside the contract), and the
   refutation witness in existential form.  New file: nothing that other directories import is changed. *)
From stdpp Require Import gmap.
From Verif.C02 Require Import Model Spec ProofsKV ProofsMain ProofsCb Proofs ProofsLoop.
Local Open Scope N_scope.

(* the observed trace a run of the MODEL would produce: callbacks, and at each flush the model's messages *)
Fixpoint trace_of (late : bool) (q : seqst) (h : list sev) : option (list istep) :=
  match h with
  | [] => Some []
  | SCb e :: r => q' ← on_cb e q; t ← trace_of late q' r; Some (ICb e :: t)
  | SFlush o :: r => let '(q', ms) := flush_gen late o q in t ← trace_of late q' r; Some (IFlush ms :: t)
  end.

Lemma no_insync_forallb ms : no_insync ms → forallb (λ m, negb (bool_decide (m = MInSync))) ms = true.
Proof.
  induction 1 as [|m ms Hm _ IH]; simpl; [done|]. rewrite IH, andb_true_r.
  apply negb_true_iff, bool_decide_eq_false. done.
Qed.

Lemma trace_meets late : ∀ h q up dp,
  Sync q up dp → contract_gen late dp up h →
  ∃ t, trace_of late q h = Some t ∧ ok_trace up dp t = true ∧ in_contract up t = true.
Proof.
  induction h as [|[e|o] h IH]; intros q up dp HS Hc; simpl in *.
  - by exists [].
  - destruct Hc as [Hok Hc]. destruct (cb_step _ _ _ _ HS Hok) as (q1 & -> & HS1). simpl.
    destruct (IH _ _ _ HS1 Hc) as (t & -> & Ht & Hi). simpl. exists (ICb e :: t). split_and!; try done.
    simpl. rewrite Hi, andb_true_r. by apply bool_decide_eq_true.
  - destruct Hc as (Hcl & Hnr & Hc).
    destruct (flush_gen late o q) as [q1 m1] eqn:Ef.
    destruct (flush_ok late o q q1 m1 up dp HS Hcl Hnr Ef) as (Hok1 & Hd1 & HS1).
    destruct (IH _ _ _ HS1 Hc) as (t & -> & Ht & Hi). simpl. exists (IFlush m1 :: t). split_and!; try done.
    + simpl. rewrite Hd1, Ht, andb_true_r. rewrite (proj2 (ok_msgs_spec _ _) Hok1). simpl.
      rewrite (bool_decide_eq_true_2 (up = up)) by done. rewrite andb_true_r.
      apply no_insync_forallb. pose proof (run_phases_ni o (phases late) q) as H. unfold flush_gen in Ef.
      rewrite Ef in H. exact H.
    + simpl. rewrite Hi, andb_true_r. by apply bool_decide_eq_true.
Qed.

(* c02_model_meets_spec: for every history inside the contract the model runs, and the trace it produces is
   accepted by the oracle that the check applies to the implementation ([ok_trace]: every message well-formed
   and closure after it, no in-sync from the sequencer, dataplane = upstream after every flush), and it is
   recognised as inside the contract by [in_contract]. *)
Lemma model_meets_spec late h :
  contract_gen late world0 world0 h →
  ∃ t, trace_of late seq0 h = Some t ∧ ok_trace world0 world0 t = true ∧ in_contract world0 t = true.
Proof. apply trace_meets, Sync0. Qed.

(* the refutation witness, in existential form *)
Lemma refuted_exists (x : option (seqst * list msg)) :
  match x with Some (_, ms) => negb (ok_msgs world0 ms) | None => false end = true →
  ∃ q ms, x = Some (q, ms) ∧ ¬ stream_ok world0 ms.
Proof.
  destruct x as [[q ms]|]; [|done]. intros H. exists q, ms. split; [done|].
  rewrite <-ok_msgs_spec. apply negb_true_iff in H. rewrite H. done.
Qed.
Lemma retarget_refuted_exists :
  contract world0 retarget_history ∧
  ∃ q ms, seq_run false seq0 retarget_history = Some (q, ms) ∧ ¬ stream_ok world0 ms.
Proof.
  split; [exact (proj1 retarget_refuted)|].
  pose proof refuted_check_true as H. unfold refuted_check in H.
  generalize dependent (seq_run false seq0 retarget_history). intros x H. by apply refuted_exists.
Qed.
