(* C02 — proofs, part 2: a sequence of update/delete phases that respects the dependency
   order keeps the dataplane reference-closed after every message. *)
From stdpp Require Import gmap.
From Verif.C02 Require Import Model Spec ProofsKV.
Local Open Scope N_scope.

Global Instance phase_eq_dec : EqDecision phase.
Proof. solve_decision. Defined.

Definition all_kinds : list kind := [KIPSet; KPol; KProf; KEp; KVtep; KRoute; KHost; KPool; KSA; KNS; KSvc].
Lemma all_kinds_spec K : K ∈ all_kinds.
Proof. destruct K; unfold all_kinds; set_solver. Qed.
Lemma all_kinds_In K : In K all_kinds.
Proof. apply elem_of_list_In, all_kinds_spec. Qed.

Definition inpre (p : phase) (pre : list phase) : bool := bool_decide (p ∈ pre).
Lemma inpre_cons p q pre : inpre p (q :: pre) = bool_decide (p = q) || inpre p pre.
Proof.
  unfold inpre. destruct (bool_decide (p = q)) eqn:E1, (bool_decide (p ∈ pre)) eqn:E2; simpl;
    rewrite ?bool_decide_eq_true, ?bool_decide_eq_false in *; rewrite ?elem_of_cons; tauto.
Qed.

Lemma present_kv w (r : cell) : r.1 ≠ KIPSet → present w r ↔ is_Some (w_kv w !! r).
Proof. unfold present. destruct r as [[] ?]; simpl; done. Qed.
Lemma present_ips w id : present w (KIPSet, id) ↔ is_Some (w_sets w !! id).
Proof. done. Qed.

(* run only update/delete phases on the kv part *)
Definition run_kv_phase (o : list (tag * N)) (p : phase) (s : kvst) : kvst * list msg :=
  match p with
  | PUpd K => flush_updates K o s
  | PDel K => flush_deletes K o s
  | _ => (s, [])
  end.
Fixpoint run_kv_phases (o : list (tag * N)) (ps : list phase) (s : kvst) : kvst * list msg :=
  match ps with
  | [] => (s, [])
  | p :: ps' => let '(s1, m1) := run_kv_phase o p s in
                let '(s2, m2) := run_kv_phases o ps' s1 in (s2, m1 ++ m2)
  end.
Definition is_kv (p : phase) : bool := match p with PUpd _ | PDel _ => true | _ => false end.

Lemma run_phases_kv o ps i k :
  forallb is_kv ps = true →
  run_phases o ps {| q_ip := i; q_kv := k |} =
  let '(k', ms) := run_kv_phases o ps k in ({| q_ip := i; q_kv := k' |}, ms).
Proof.
  revert k. induction ps as [|p ps IH]; intros k Hall; simpl; [done|].
  simpl in Hall. apply andb_true_iff in Hall as [Hp Hall].
  destruct p; try done; simpl.
  - destruct (flush_updates K o k) as [k1 m1]. rewrite (IH k1 Hall).
    by destruct (run_kv_phases o ps k1).
  - destruct (flush_deletes K o k) as [k1 m1]. rewrite (IH k1 Hall).
    by destruct (run_kv_phases o ps k1).
Qed.

Lemma run_phases_app o a b s :
  run_phases o (a ++ b) s =
  let '(s1, m1) := run_phases o a s in let '(s2, m2) := run_phases o b s1 in (s2, m1 ++ m2).
Proof.
  revert s. induction a as [|p a IH]; intros s; simpl.
  - by destruct (run_phases o b s).
  - destruct (run_phase o p s) as [s1 m1]. rewrite IH.
    destruct (run_phases o a s1) as [s2 m2]. destruct (run_phases o b s2) as [s3 m3].
    by rewrite app_assoc.
Qed.

Section sched.
  (* s0: the kv part of the sequencer when Flush starts; D0: the dataplane then; D1: the upstream world *)
  Context (s0 : kvst) (D0 D1 : world) (nr : bool) (S0 : gmap N (gset N)).
  Hypothesis HK2a : ∀ c, c ∈ k_pd s0 → k_pu s0 !! c = None.
  Hypothesis HK2b : ∀ c, c ∈ k_pd s0 → is_Some (w_kv D0 !! c).
  Hypothesis HK3 : ∀ c, w_kv D1 !! c =
    match k_pu s0 !! c with
    | Some v => Some v
    | None => if decide (c ∈ k_pd s0) then None else w_kv D0 !! c
    end.
  Hypothesis Hcl1 : closed D1.
  Hypothesis Hty0 : typed D0.
  Hypothesis Hty1 : typed D1.
  (* "no re-targeting": a route that survives the flush keeps the VTEP it used to need *)
  Hypothesis Hnr : nr = true → ∀ c v0, c.1 = KRoute → w_kv D0 !! c = Some v0 → is_Some (w_kv D1 !! c) →
                   Forall (present D1) (v_refs v0).

  Definition kvInv (pre : list phase) (s : kvst) (d : world) : Prop :=
    closed d ∧ w_sets d = S0 ∧
    (∀ id, is_Some (w_sets D1 !! id) → is_Some (w_sets d !! id)) ∧
    (∀ c, k_pu s !! c = if inpre (PUpd c.1) pre then None else k_pu s0 !! c) ∧
    (∀ c, c ∈ k_pd s ↔ c ∈ k_pd s0 ∧ inpre (PDel c.1) pre = false) ∧
    (∀ c, c ∈ k_sent s ↔ is_Some (w_kv d !! c)) ∧
    (∀ c, w_kv d !! c =
          match k_pu s0 !! c with
          | Some v => if inpre (PUpd c.1) pre then Some v else w_kv D0 !! c
          | None => if decide (c ∈ k_pd s0)
                    then (if inpre (PDel c.1) pre then None else w_kv D0 !! c)
                    else w_kv D0 !! c
          end).

  (* what must already have been flushed when phase p starts *)
  Definition req_ok (pre : list phase) (p : phase) : bool :=
    match p with
    | PUpd K => negb (bool_decide (K = KIPSet)) &&
                forallb (λ B, negb (dep_ok K B) || bool_decide (B = KIPSet) || inpre (PUpd B) pre) all_kinds
    | PDel K => forallb (λ A, negb (dep_ok A K) ||
                              (inpre (PDel A) pre && (inpre (PUpd A) pre || (nr && bool_decide (A = KRoute))))) all_kinds
    | _ => false
    end.
  Fixpoint sched_ok (pre ps : list phase) : bool :=
    match ps with [] => true | p :: ps' => req_ok pre p && sched_ok (p :: pre) ps' end.

  Lemma kvInv_typed pre s d c v : kvInv pre s d → w_kv d !! c = Some v →
    c.1 ≠ KIPSet ∧ Forall (λ r : cell, dep_ok c.1 r.1 = true) (v_refs v).
  Proof.
    intros (_ & _ & _ & _ & _ & _ & HD) Hl. rewrite HD in Hl.
    destruct (k_pu s0 !! c) as [v1|] eqn:E.
    - destruct (inpre _ _).
      + injection Hl as <-. apply Hty1. by rewrite HK3, E.
      + by apply Hty0.
    - destruct (decide _); [destruct (inpre _ _); [done|]|]; by apply Hty0.
  Qed.

  Lemma kvInv_done pre s d c :
    kvInv pre s d → inpre (PUpd c.1) pre = true → inpre (PDel c.1) pre = true →
    w_kv d !! c = w_kv D1 !! c.
  Proof.
    intros (_ & _ & _ & _ & _ & _ & HD) HU HP. rewrite HD, HK3, HU, HP.
    destruct (k_pu s0 !! c); [done|]. by destruct (decide _).
  Qed.

  Lemma kv_phase_step o pre p s d s' ms :
    kvInv pre s d → req_ok pre p = true → run_kv_phase o p s = (s', ms) →
    stream_ok d ms ∧ kvInv (p :: pre) s' (apply_msgs d ms).
  Proof.
    intros HI Hreq Hrun. pose proof HI as (Hcl & HS0 & Hips & Hpu & Hpd & Hsent & HD).
    destruct p as [| | |K|K]; try done; simpl in Hrun; unfold req_ok in Hreq.
    - (* PUpd K *)
      apply andb_true_iff in Hreq as [HKne Hreq]. apply negb_true_iff, bool_decide_eq_false in HKne.
      rewrite forallb_forall in Hreq.
      destruct (flush_updates_spec K o s s' ms d Hrun HKne Hcl) as (Hok & Hcl' & Hsets & Hkv & Hpd' & Hpu' & Hsent').
      { intros id v Hl. rewrite Hpu in Hl. simpl in Hl.
        destruct (inpre (PUpd K) pre) eqn:Epre; [done|].
        assert (H1 : w_kv D1 !! (K, id) = Some v) by (by rewrite HK3, Hl).
        rewrite Forall_forall. intros r Hr.
        pose proof (closed_lookup _ _ _ _ Hcl1 H1 Hr) as Hp1.
        destruct (Hty1 _ _ H1) as [_ Hdeps]. rewrite Forall_forall in Hdeps. specialize (Hdeps r Hr). simpl in Hdeps.
        specialize (Hreq r.1). rewrite Hdeps in Hreq. simpl in Hreq.
        specialize (Hreq (all_kinds_In _)).
        destruct r as [rk rid]; simpl in *.
        destruct (decide (rk = KIPSet)) as [->|Hrk].
        - apply present_ips. apply Hips. by apply present_ips in Hp1.
        - rewrite bool_decide_eq_false_2 in Hreq by done. simpl in Hreq.
          apply present_kv; [done|]. apply present_kv in Hp1; [|done]. rewrite HD. simpl. rewrite Hreq.
          rewrite HK3 in Hp1. destruct (k_pu s0 !! (rk, rid)); [eauto|].
          destruct (decide _); [by destruct Hp1|done]. }
      split; [done|]. split_and!; try done.
      + by rewrite Hsets.
      + intros id. rewrite Hsets. auto.
      + intros c. rewrite Hpu', inpre_cons. destruct (decide (c.1 = K)) as [->|Hne].
        * by rewrite bool_decide_eq_true_2.
        * rewrite bool_decide_eq_false_2; [apply Hpu|]. intros E. by injection E.
      + intros c. rewrite Hpd', Hpd, inpre_cons. rewrite bool_decide_eq_false_2; [done|]. done.
      + intros c. rewrite Hsent', Hkv, Hsent. destruct (decide (c.1 = K)) as [HcK|HcK].
        * destruct (k_pu s !! c) as [v|] eqn:E.
          -- split; [intros _; eauto|intros _; right; split; eauto].
          -- split; [intros [?|[_ [? ?]]]; done|intros ?; by left].
        * split; [intros [?|[? ?]]; done|auto].
      + intros c. rewrite Hkv, !inpre_cons, Hpu, HD.
        rewrite (bool_decide_eq_false_2 (PDel c.1 = PUpd K)) by done. simpl.
        destruct (decide (c.1 = K)) as [HcK|HcK].
        * rewrite (bool_decide_eq_true_2 (PUpd c.1 = PUpd K)) by (by rewrite HcK). simpl.
          destruct (inpre (PUpd c.1) pre); destruct (k_pu s0 !! c); done.
        * rewrite (bool_decide_eq_false_2 (PUpd c.1 = PUpd K)); [done|]. intros E. by injection E.
    - (* PDel K *)
      rewrite forallb_forall in Hreq.
      destruct (flush_deletes_spec K o s s' ms d Hrun Hcl) as (Hok & Hcl' & Hsets & Hkv & Hpu' & Hpd' & Hsent').
      { intros id Hin. apply Hpd in Hin as [Hin Hpre]. simpl in Hpre. rewrite HD, (HK2a _ Hin).
        rewrite decide_True by done. simpl. rewrite Hpre. auto. }
      { intros id c' v' Hin Hl Hr. apply Hpd in Hin as [Hin Hpre]. simpl in Hpre.
        destruct (kvInv_typed _ _ _ _ _ HI Hl) as [_ Hdeps]. rewrite Forall_forall in Hdeps.
        specialize (Hdeps _ Hr). simpl in Hdeps.
        specialize (Hreq c'.1 (all_kinds_In _)). rewrite Hdeps in Hreq. simpl in Hreq.
        apply andb_true_iff in Hreq as [HpreD HpreU].
        assert (HK : K ≠ KIPSet).
        { destruct (HK2b _ Hin) as [x Hx]. by destruct (Hty0 _ _ Hx). }
        assert (Hnone : w_kv D1 !! (K, id) = None).
        { rewrite HK3, (HK2a _ Hin). by rewrite decide_True. }
        assert (Hall : Forall (present D1) (v_refs v')).
        { rewrite HD in Hl. destruct (k_pu s0 !! c') as [v1|] eqn:E.
          - destruct (inpre (PUpd c'.1) pre) eqn:EU.
            + injection Hl as <-. apply (Hcl1 c'). by rewrite HK3, E.
            + simpl in HpreU. apply andb_true_iff in HpreU as [Hnrt HR].
              apply bool_decide_eq_true in HR. apply (Hnr Hnrt c'); [done|done|]. rewrite HK3, E. eauto.
          - destruct (decide (c' ∈ k_pd s0)).
            + rewrite HpreD in Hl. done.
            + apply (Hcl1 c'). rewrite HK3, E. by rewrite decide_False. }
        rewrite Forall_forall in Hall. specialize (Hall _ Hr). apply present_kv in Hall; [|done].
        rewrite Hnone in Hall. by destruct Hall. }
      split; [done|]. split_and!; try done.
      + by rewrite Hsets.
      + intros id. rewrite Hsets. auto.
      + intros c. rewrite Hpu', Hpu, inpre_cons. by rewrite bool_decide_eq_false_2.
      + intros c. rewrite Hpd', Hpd, inpre_cons. destruct (decide (c.1 = K)) as [HcK|HcK].
        * rewrite (bool_decide_eq_true_2 (PDel c.1 = PDel K)) by (by rewrite HcK). simpl. naive_solver.
        * rewrite (bool_decide_eq_false_2 (PDel c.1 = PDel K)); [simpl; tauto|]. intros E. by injection E.
      + intros c. rewrite Hsent', Hkv, Hsent. destruct (decide (c.1 = K ∧ c ∈ k_pd s)) as [Hd|Hd].
        * split; [tauto|]. intros [? ?]. done.
        * tauto.
      + intros c. rewrite Hkv, !inpre_cons, HD.
        rewrite (bool_decide_eq_false_2 (PUpd c.1 = PDel K)) by done. simpl.
        destruct (decide (c.1 = K ∧ c ∈ k_pd s)) as [[HcK Hin]|Hd].
        * apply Hpd in Hin as [Hin Hpre]. rewrite (HK2a _ Hin), decide_True by done.
          rewrite (bool_decide_eq_true_2 (PDel c.1 = PDel K)) by (by rewrite HcK). done.
        * destruct (k_pu s0 !! c) eqn:E; [done|]. destruct (decide (c ∈ k_pd s0)) as [Hin|]; [|done].
          destruct (decide (c.1 = K)) as [HcK|HcK].
          -- rewrite (bool_decide_eq_true_2 (PDel c.1 = PDel K)) by (by rewrite HcK). simpl.
             destruct (inpre (PDel c.1) pre) eqn:EP; [done|]. destruct Hd. split; [done|]. apply Hpd. done.
          -- rewrite (bool_decide_eq_false_2 (PDel c.1 = PDel K)); [done|]. intros E'. by injection E'.
  Qed.

  Lemma kv_phases_ok o : ∀ ps pre s d s' ms,
    kvInv pre s d → sched_ok pre ps = true → run_kv_phases o ps s = (s', ms) →
    stream_ok d ms ∧ kvInv (rev ps ++ pre) s' (apply_msgs d ms).
  Proof.
    induction ps as [|p ps IH]; intros pre s d s' ms HI Hs Hrun; simpl in *.
    - injection Hrun as <- <-. done.
    - apply andb_true_iff in Hs as [Hreq Hs].
      destruct (run_kv_phase o p s) as [s1 m1] eqn:E1.
      destruct (run_kv_phases o ps s1) as [s2 m2] eqn:E2. injection Hrun as <- <-.
      destruct (kv_phase_step _ _ _ _ _ _ _ HI Hreq E1) as [Hok1 HI1].
      destruct (IH _ _ _ _ _ HI1 Hs E2) as [Hok2 HI2].
      split; [by apply stream_ok_app|]. rewrite apply_msgs_app, <-app_assoc. done.
  Qed.
End sched.
