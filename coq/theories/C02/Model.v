(* C02 — executable model of felix/calc/event_sequencer.go (EventSequencer) and of the
   flush / in-sync gating of felix/calc/async_calc_graph.go (AsyncCalcGraph.loop, maybeFlush).

   Hand-written; tied to the Go code by the correspondence run (harness/C02).

   Representation choices (all stated, none hidden):
   * every identifier (IP set id, policy key, profile key, endpoint key, node name, route dst,
     IP set member) is an [N]; the Go driver maps its strings/structs to numbers injectively;
   * Go's per-kind maps  pendingPolicyUpdates / pendingProfileUpdates / pendingEndpointUpdates /
     pendingVTEPUpdates / pendingRouteUpdates / pendingHostMetadataUpdates / pendingIPPoolUpdates /
     pendingServiceAccountUpdates / pendingNamespaceUpdates / pendingServiceUpdates are the
     kind-slices of ONE finite map keyed by (kind, id) ([k_pu]); likewise pendingXDeletes
     ([k_pd]) and sentX ([k_sent]).  The code of OnXUpdate/OnXRemove/flushXUpdates/flushXDeletes
     is the same text for each of these kinds in Go, and one definition here;
   * a value (ParsedRules, endpoint+tiers, VTEP, RouteUpdate ...) is abstracted to the list of
     objects it references plus a version number standing for the rest of its content;
   * IP sets keep their own five structures exactly as in Go (pendingAddedIPSets,
     pendingRemovedIPSets, the two member multidicts, sentIPSets);
   * Go map iteration order is NOT fixed: every flush takes an arbitrary list [o] of (tag,id)
     pairs; each phase first visits the ids that [o] names for its tag, in that order, and then
     whatever is still pending.  Every Go iteration order is obtained for some [o], and the
     theorems quantify over all [o];
   * a Go panic (log.Panic in OnIPSet...) is the result [None].
   Not modelled: config / ready-flag / encapsulation / BGP-config singletons and the wireguard
   maps (they carry no references; the driver does not exercise them). *)
From stdpp Require Import gmap.
Local Open Scope N_scope.

Inductive kind := KIPSet | KPol | KProf | KEp | KVtep | KRoute | KHost | KPool | KSA | KNS | KSvc.
Global Instance kind_eq_dec : EqDecision kind.
Proof. solve_decision. Defined.
Definition kind_to_N (k : kind) : N :=
  match k with KIPSet => 0 | KPol => 1 | KProf => 2 | KEp => 3 | KVtep => 4 | KRoute => 5
             | KHost => 6 | KPool => 7 | KSA => 8 | KNS => 9 | KSvc => 10 end.
Definition kind_of_N (n : N) : kind :=
  match n with 0 => KIPSet | 1 => KPol | 2 => KProf | 3 => KEp | 4 => KVtep | 5 => KRoute
             | 6 => KHost | 7 => KPool | 8 => KSA | 9 => KNS | _ => KSvc end.
Global Instance kind_countable : Countable kind.
Proof. apply (inj_countable' kind_to_N kind_of_N). by intros []. Defined.

Notation cell := (kind * N)%type.

(* what a policy / profile / endpoint / route ... carries, as far as C02 is concerned *)
Record value := { v_refs : list cell; v_ver : N }.
Global Instance value_eq_dec : EqDecision value.
Proof. solve_decision. Defined.

Inductive tag := TIPSetUpdate | TIPSetDelta | TIPSetRemove | TUpd (k : kind) | TRem (k : kind) | TInSync.
Global Instance tag_eq_dec : EqDecision tag.
Proof. solve_decision. Defined.

(* messages handed to EventSequencer.Callback *)
Inductive msg :=
| MIPSetUpdate (id : N) (members : list N) (ty : N)      (* proto.IPSetUpdate *)
| MIPSetDelta (id : N) (added removed : list N)          (* proto.IPSetDeltaUpdate *)
| MIPSetRemove (id : N)                                  (* proto.IPSetRemove *)
| MUpdate (c : cell) (v : value)                         (* Active{Policy,Profile}Update, {Workload,Host}EndpointUpdate,
                                                            VXLANTunnelEndpointUpdate, RouteUpdate, ... *)
| MRemove (c : cell)                                     (* the matching ...Remove *)
| MInSync.                                               (* proto.InSync (sent by AsyncCalcGraph) *)
Global Instance msg_eq_dec : EqDecision msg.
Proof. solve_decision. Defined.

Definition tag_of (m : msg) : tag * N :=
  match m with
  | MIPSetUpdate id _ _ => (TIPSetUpdate, id)
  | MIPSetDelta id _ _ => (TIPSetDelta, id)
  | MIPSetRemove id => (TIPSetRemove, id)
  | MUpdate c _ => (TUpd c.1, c.2)
  | MRemove c => (TRem c.1, c.2)
  | MInSync => (TInSync, 0)
  end.

(* the ids an order list names for one tag *)
Definition sel (t : tag) (o : list (tag * N)) : list N :=
  map snd (filter (λ x, x.1 = t) o).

(* ---------------------------------------------------------------- multidict (felix/multidict) *)
Notation md := (gmap N (gset N)).
Definition md_get (m : md) (k : N) : gset N := default ∅ (m !! k).
Definition md_put (k v : N) (m : md) : md := <[k := {[v]} ∪ md_get m k]> m.
Definition md_discard (k v : N) (m : md) : md :=
  match m !! k with
  | None => m
  | Some s => let s' := s ∖ {[v]} in if decide (s' = ∅) then delete k m else <[k := s']> m
  end.
Definition md_contains (k v : N) (m : md) : bool := bool_decide (v ∈ md_get m k).
Definition md_keys (m : md) : list N := elements (dom m).

(* ---------------------------------------------------------------- IP set part of the sequencer *)
Record ipst := {
  i_added : gmap N N;     (* pendingAddedIPSets : id -> type *)
  i_removed : gset N;     (* pendingRemovedIPSets *)
  i_addm : md;            (* pendingAddedIPSetMembers *)
  i_remm : md;            (* pendingRemovedIPSetMembers *)
  i_sent : gset N         (* sentIPSets *)
}.
Definition ipst0 : ipst := {| i_added := ∅; i_removed := ∅; i_addm := ∅; i_remm := ∅; i_sent := ∅ |}.

Definition known (s : ipst) (id : N) : bool :=
  bool_decide (id ∈ i_sent s) || bool_decide (is_Some (i_added s !! id)).

(* OnIPSetAdded *)
Definition on_ipset_added (id ty : N) (s : ipst) : option ipst :=
  if bool_decide (id ∈ i_sent s) && negb (bool_decide (id ∈ i_removed s)) then None
  else Some {| i_added := <[id := ty]> (i_added s); i_removed := i_removed s ∖ {[id]};
               i_addm := delete id (i_addm s); i_remm := delete id (i_remm s); i_sent := i_sent s |}.
(* OnIPSetRemoved *)
Definition on_ipset_removed (id : N) (s : ipst) : option ipst :=
  if negb (known s id) then None
  else Some {| i_added := delete id (i_added s);
               i_removed := if bool_decide (id ∈ i_sent s) then {[id]} ∪ i_removed s else i_removed s;
               i_addm := delete id (i_addm s); i_remm := delete id (i_remm s); i_sent := i_sent s |}.
(* OnIPSetMemberAdded *)
Definition on_member_added (id m : N) (s : ipst) : option ipst :=
  if negb (known s id) then None
  else if md_contains id m (i_remm s)
       then Some {| i_added := i_added s; i_removed := i_removed s; i_addm := i_addm s;
                    i_remm := md_discard id m (i_remm s); i_sent := i_sent s |}
       else Some {| i_added := i_added s; i_removed := i_removed s; i_addm := md_put id m (i_addm s);
                    i_remm := i_remm s; i_sent := i_sent s |}.
(* OnIPSetMemberRemoved *)
Definition on_member_removed (id m : N) (s : ipst) : option ipst :=
  if negb (known s id) then None
  else if md_contains id m (i_addm s)
       then Some {| i_added := i_added s; i_removed := i_removed s; i_addm := md_discard id m (i_addm s);
                    i_remm := i_remm s; i_sent := i_sent s |}
       else Some {| i_added := i_added s; i_removed := i_removed s; i_addm := i_addm s;
                    i_remm := md_put id m (i_remm s); i_sent := i_sent s |}.

(* flushAddedIPSets: visit candidate ids; those still pending are emitted *)
Fixpoint flush_added_loop (cands : list N) (s : ipst) : ipst * list msg :=
  match cands with
  | [] => (s, [])
  | id :: rest =>
      match i_added s !! id with
      | None => flush_added_loop rest s
      | Some ty =>
          let m := MIPSetUpdate id (elements (md_get (i_addm s) id)) ty in
          let s1 := {| i_added := delete id (i_added s); i_removed := i_removed s;
                       i_addm := delete id (i_addm s); i_remm := i_remm s;
                       i_sent := {[id]} ∪ i_sent s |} in
          let '(s2, ms) := flush_added_loop rest s1 in (s2, m :: ms)
      end
  end.
Definition flush_added_ipsets (ks : list N) (s : ipst) : ipst * list msg :=
  flush_added_loop (ks ++ elements (dom (i_added s))) s.

(* flushAddsOrRemoves *)
Definition flush_one_delta (id : N) (s : ipst) : ipst * msg :=
  ({| i_added := i_added s; i_removed := i_removed s; i_addm := delete id (i_addm s);
      i_remm := delete id (i_remm s); i_sent := i_sent s |},
   MIPSetDelta id (elements (md_get (i_addm s) id)) (elements (md_get (i_remm s) id))).
(* IterKeys over one of the two multidicts (rem = true: pendingRemovedIPSetMembers) *)
Fixpoint flush_delta_loop (rem : bool) (cands : list N) (s : ipst) : ipst * list msg :=
  match cands with
  | [] => (s, [])
  | id :: rest =>
      if bool_decide (is_Some ((if rem then i_remm s else i_addm s) !! id)) then
        let '(s1, m) := flush_one_delta id s in
        let '(s2, ms) := flush_delta_loop rem rest s1 in (s2, m :: ms)
      else flush_delta_loop rem rest s
  end.
(* flushIPSetDeltas *)
Definition flush_deltas (ks : list N) (s : ipst) : ipst * list msg :=
  let '(s1, m1) := flush_delta_loop true (ks ++ md_keys (i_remm s)) s in
  let '(s2, m2) := flush_delta_loop false (ks ++ md_keys (i_addm s1)) s1 in
  (s2, m1 ++ m2).

(* flushRemovedIPSets *)
Fixpoint flush_removed_loop (cands : list N) (s : ipst) : ipst * list msg :=
  match cands with
  | [] => (s, [])
  | id :: rest =>
      if bool_decide (id ∈ i_removed s) then
        let s1 := {| i_added := i_added s; i_removed := i_removed s ∖ {[id]};
                     i_addm := delete id (i_addm s); i_remm := delete id (i_remm s);
                     i_sent := i_sent s ∖ {[id]} |} in
        let '(s2, ms) := flush_removed_loop rest s1 in (s2, MIPSetRemove id :: ms)
      else flush_removed_loop rest s
  end.
Definition flush_removed_ipsets (ks : list N) (s : ipst) : ipst * list msg :=
  flush_removed_loop (ks ++ elements (i_removed s)) s.

(* ---------------------------------------------------------------- update/delete kinds *)
Record kvst := {
  k_pu : gmap cell value;   (* pendingXUpdates *)
  k_pd : gset cell;         (* pendingXDeletes *)
  k_sent : gset cell        (* sentX *)
}.
Definition kvst0 : kvst := {| k_pu := ∅; k_pd := ∅; k_sent := ∅ |}.

(* OnPolicyActive, OnProfileActive, OnEndpointTierUpdate(ep != nil), OnVTEPUpdate, OnRouteUpdate,
   OnHostMetadataUpdate, OnIPPoolUpdate, OnServiceAccountUpdate, OnNamespaceUpdate, OnServiceUpdate *)
Definition on_update (c : cell) (v : value) (s : kvst) : kvst :=
  {| k_pu := <[c := v]> (k_pu s); k_pd := k_pd s ∖ {[c]}; k_sent := k_sent s |}.
(* OnPolicyInactive, OnProfileInactive, OnEndpointTierUpdate(nil), OnVTEPRemove, OnRouteRemove, ... *)
Definition on_remove (c : cell) (s : kvst) : kvst :=
  {| k_pu := delete c (k_pu s);
     k_pd := if bool_decide (c ∈ k_sent s) then {[c]} ∪ k_pd s else k_pd s;
     k_sent := k_sent s |}.

Definition kind_ids (K : kind) (X : gset cell) : list N :=
  map snd (filter (λ c : cell, c.1 = K) (elements X)).

(* flushXUpdates *)
Fixpoint flush_upd_loop (K : kind) (cands : list N) (s : kvst) : kvst * list msg :=
  match cands with
  | [] => (s, [])
  | id :: rest =>
      match k_pu s !! (K, id) with
      | None => flush_upd_loop K rest s
      | Some v =>
          let s1 := {| k_pu := delete (K, id) (k_pu s); k_pd := k_pd s; k_sent := {[(K, id)]} ∪ k_sent s |} in
          let '(s2, ms) := flush_upd_loop K rest s1 in (s2, MUpdate (K, id) v :: ms)
      end
  end.
Definition flush_updates (K : kind) (o : list (tag * N)) (s : kvst) : kvst * list msg :=
  flush_upd_loop K (sel (TUpd K) o ++ kind_ids K (dom (k_pu s))) s.

(* flushXDeletes *)
Fixpoint flush_del_loop (K : kind) (cands : list N) (s : kvst) : kvst * list msg :=
  match cands with
  | [] => (s, [])
  | id :: rest =>
      if bool_decide ((K, id) ∈ k_pd s) then
        let s1 := {| k_pu := k_pu s; k_pd := k_pd s ∖ {[(K, id)]}; k_sent := k_sent s ∖ {[(K, id)]} |} in
        let '(s2, ms) := flush_del_loop K rest s1 in (s2, MRemove (K, id) :: ms)
      else flush_del_loop K rest s
  end.
Definition flush_deletes (K : kind) (o : list (tag * N)) (s : kvst) : kvst * list msg :=
  flush_del_loop K (sel (TRem K) o ++ kind_ids K (k_pd s)) s.

(* ---------------------------------------------------------------- the sequencer *)
Record seqst := { q_ip : ipst; q_kv : kvst }.
Definition seq0 : seqst := {| q_ip := ipst0; q_kv := kvst0 |}.

(* one phase of Flush() *)
Inductive phase :=
| PAddedIPSets | PDeltas | PRemovedIPSets
| PUpd (K : kind) | PDel (K : kind).

(* Flush(): the phases in the order of the Go function (config/ready/wireguard/encap/BGP omitted).
   [vtep_removes_last] = false is the order of the code as it stands:
       flushRouteRemoves; flushVTEPRemoves; flushVTEPAdds; flushRouteAdds
   [vtep_removes_last] = true is the order after fixes/C02-vtep-remove-after-route-update.patch:
       flushRouteRemoves; flushVTEPAdds; flushRouteAdds; flushVTEPRemoves *)
Definition vxlan_phases (vtep_removes_last : bool) : list phase :=
  if vtep_removes_last then [PDel KRoute; PUpd KVtep; PUpd KRoute; PDel KVtep]
  else [PDel KRoute; PDel KVtep; PUpd KVtep; PUpd KRoute].
Definition phases (vtep_removes_last : bool) : list phase :=
  [PAddedIPSets; PDeltas; PUpd KPol; PUpd KProf; PUpd KEp;
   PDel KEp; PDel KProf; PDel KPol; PRemovedIPSets;
   PDel KSA; PUpd KSA; PDel KNS; PUpd KNS]
  ++ vxlan_phases vtep_removes_last ++
  [PDel KHost; PUpd KHost; PDel KPool; PUpd KPool; PDel KSvc; PUpd KSvc].

Definition run_phase (o : list (tag * N)) (p : phase) (s : seqst) : seqst * list msg :=
  match p with
  | PAddedIPSets => let '(i, ms) := flush_added_ipsets (sel TIPSetUpdate o) (q_ip s) in ({| q_ip := i; q_kv := q_kv s |}, ms)
  | PDeltas => let '(i, ms) := flush_deltas (sel TIPSetDelta o) (q_ip s) in ({| q_ip := i; q_kv := q_kv s |}, ms)
  | PRemovedIPSets => let '(i, ms) := flush_removed_ipsets (sel TIPSetRemove o) (q_ip s) in ({| q_ip := i; q_kv := q_kv s |}, ms)
  | PUpd K => let '(k, ms) := flush_updates K o (q_kv s) in ({| q_ip := q_ip s; q_kv := k |}, ms)
  | PDel K => let '(k, ms) := flush_deletes K o (q_kv s) in ({| q_ip := q_ip s; q_kv := k |}, ms)
  end.

Fixpoint run_phases (o : list (tag * N)) (ps : list phase) (s : seqst) : seqst * list msg :=
  match ps with
  | [] => (s, [])
  | p :: ps' => let '(s1, m1) := run_phase o p s in
                let '(s2, m2) := run_phases o ps' s1 in (s2, m1 ++ m2)
  end.

Definition flush_gen (late : bool) (o : list (tag * N)) (s : seqst) : seqst * list msg :=
  run_phases o (phases late) s.
(* the code as it stands *)
Definition flush := flush_gen false.

(* callbacks from the calculation graph *)
Inductive cb :=
| CIPSetAdded (id ty : N) | CIPSetRemoved (id : N)
| CMemberAdded (id m : N) | CMemberRemoved (id m : N)
| CUpdate (c : cell) (v : value) | CRemove (c : cell).

Definition on_cb (e : cb) (s : seqst) : option seqst :=
  match e with
  | CIPSetAdded id ty => i ← on_ipset_added id ty (q_ip s); Some {| q_ip := i; q_kv := q_kv s |}
  | CIPSetRemoved id => i ← on_ipset_removed id (q_ip s); Some {| q_ip := i; q_kv := q_kv s |}
  | CMemberAdded id m => i ← on_member_added id m (q_ip s); Some {| q_ip := i; q_kv := q_kv s |}
  | CMemberRemoved id m => i ← on_member_removed id m (q_ip s); Some {| q_ip := i; q_kv := q_kv s |}
  | CUpdate c v => Some {| q_ip := q_ip s; q_kv := on_update c v (q_kv s) |}
  | CRemove c => Some {| q_ip := q_ip s; q_kv := on_remove c (q_kv s) |}
  end.

(* a history for the sequencer alone: callbacks and flush points *)
Inductive sev := SCb (e : cb) | SFlush (o : list (tag * N)).

Definition seq_step (late : bool) (s : seqst) (e : sev) : option (seqst * list msg) :=
  match e with
  | SCb c => s' ← on_cb c s; Some (s', [])
  | SFlush o => Some (flush_gen late o s)
  end.

Fixpoint seq_run (late : bool) (s : seqst) (h : list sev) : option (seqst * list msg) :=
  match h with
  | [] => Some (s, [])
  | e :: h' => '(s1, m1) ← seq_step late s e; '(s2, m2) ← seq_run late s1 h'; Some (s2, m1 ++ m2)
  end.

(* ---------------------------------------------------------------- AsyncCalcGraph loop (flush gating, in-sync) *)
Record ast := {
  a_seq : seqst;
  a_sync_done : bool;      (* initialSyncCompleted *)
  a_need_insync : bool;    (* needToSendInSync *)
  a_dirty : bool;          (* dirty *)
  a_bucket : nat           (* flushLeakyBucket, 0..leakyBucketSize *)
}.
Definition leaky_bucket_size : nat := 10.
Definition ast0 : ast := {| a_seq := seq0; a_sync_done := false; a_need_insync := false; a_dirty := false; a_bucket := 0 |}.

(* what the loop's select can receive *)
Inductive lev :=
| LUpdates (cbs : list cb)     (* []api.Update: the calc graph turns it into sequencer callbacks *)
| LStatus (insync : bool)      (* api.SyncStatus: true = api.InSync *)
| LTick                        (* flushTicks *)
| LHealth.                     (* healthTicks *)

Fixpoint on_cbs (cbs : list cb) (s : seqst) : option seqst :=
  match cbs with [] => Some s | c :: r => s' ← on_cb c s; on_cbs r s' end.

(* maybeFlush *)
Definition maybe_flush (late : bool) (o : list (tag * N)) (a : ast) : ast * list msg :=
  if negb (a_dirty a) then (a, [])
  else match a_bucket a with
       | O => (a, [])
       | S b =>
           let '(s', ms) := flush_gen late o (a_seq a) in
           ({| a_seq := s'; a_sync_done := a_sync_done a; a_need_insync := false; a_dirty := false; a_bucket := b |},
            ms ++ (if a_need_insync a then [MInSync] else []))
       end.

(* one iteration of loop(): handle one input, then maybeFlush *)
Definition loop_step (late : bool) (a : ast) (e : lev) (o : list (tag * N)) : option (ast * list msg) :=
  a1 ← match e with
       | LUpdates cbs => s' ← on_cbs cbs (a_seq a);
           Some {| a_seq := s'; a_sync_done := a_sync_done a; a_need_insync := a_need_insync a; a_dirty := true; a_bucket := a_bucket a |}
       | LStatus st =>
           if st && negb (a_sync_done a) then
             Some {| a_seq := a_seq a; a_sync_done := true; a_need_insync := true; a_dirty := true;
                     a_bucket := match a_bucket a with O => 1%nat | n => n end |}
           else Some {| a_seq := a_seq a; a_sync_done := a_sync_done a; a_need_insync := a_need_insync a; a_dirty := true; a_bucket := a_bucket a |}
       | LTick => Some {| a_seq := a_seq a; a_sync_done := a_sync_done a; a_need_insync := a_need_insync a; a_dirty := a_dirty a;
                          a_bucket := if Nat.ltb (a_bucket a) leaky_bucket_size then S (a_bucket a) else a_bucket a |}
       | LHealth => Some a
       end;
  Some (maybe_flush late o a1).

Fixpoint loop_run (late : bool) (a : ast) (h : list (lev * list (tag * N))) : option (ast * list msg) :=
  match h with
  | [] => Some (a, [])
  | (e, o) :: h' => '(a1, m1) ← loop_step late a e o; '(a2, m2) ← loop_run late a1 h'; Some (a2, m1 ++ m2)
  end.
