(* C02 — the rest of EventSequencer: the message kinds that carry no references and that Model.v left out
   (ready flag, config update, encapsulation, global BGP config, wireguard endpoints v4/v6), added AROUND the
   existing model (nothing in Model.v changes; [xflush] calls [run_phases] on the same phase lists).

   Go code mirrored: OnDatastoreNotReady/flushReadyFlag, OnConfigUpdate/flushConfigUpdate, OnEncapUpdate/
   flushEncapUpdate, OnGlobalBGPConfigUpdate + the inline flush in Flush(), OnWireguardUpdate/OnWireguardRemove/
   flushHostWireguardDeletes/flushHostWireguardUpdates, and the position of each in Flush().
   Abstractions: a config source's raw map, an Encapsulation, a BGP config are numbers; the config object behind
   the sequencer's configInterface is "remember the last raw value per source, changed = differs" (the driver's
   stub implements exactly that; felix/config itself is C27's subject); a wireguard value is (v4 key, v6 key,
   version) with key 0 = empty string. *)
From stdpp Require Import gmap.
From Verif.C02 Require Import Model.
Local Open Scope N_scope.

Record wgv := { wg_k4 : N; wg_k6 : N; wg_ver : N }.
Global Instance wgv_eq_dec : EqDecision wgv.
Proof. solve_decision. Defined.

Inductive xmsg :=
| XBase (m : msg)
| XNotReady                         (* *calc.DatastoreNotReady *)
| XConfig (g s h : N)               (* proto.ConfigUpdate *)
| XEncap (v : N)                    (* proto.Encapsulation *)
| XBGP (v : N)                      (* proto.GlobalBGPConfigUpdate *)
| XWg4Upd (n k ver : N) | XWg4Rem (n : N)     (* proto.WireguardEndpointUpdate / Remove *)
| XWg6Upd (n k ver : N) | XWg6Rem (n : N).    (* proto.WireguardEndpointV6Update / Remove *)
Global Instance xmsg_eq_dec : EqDecision xmsg.
Proof. solve_decision. Defined.

Record xst := {
  x_q : seqst;
  x_notready : bool;                 (* pendingNotReady *)
  x_pcfg : option (N * N * N);       (* pendingGlobalConfig / pendingSelectorConfig / pendingHostConfig *)
  x_cfg : N * N * N;                 (* what the config object last saw per source *)
  x_encap : option N;                (* pendingEncapUpdate *)
  x_bgp : option N;                  (* pendingGlobalBGPConfig *)
  x_wgu : gmap N wgv;                (* pendingWireguardUpdates *)
  x_wgd : gset N;                    (* pendingWireguardDeletes *)
  x_wg4 : gset N;                    (* sentWireguard *)
  x_wg6 : gset N                     (* sentWireguardV6 *)
}.
Definition xst0 : xst :=
  {| x_q := seq0; x_notready := false; x_pcfg := None; x_cfg := (0, 0, 0); x_encap := None; x_bgp := None;
     x_wgu := ∅; x_wgd := ∅; x_wg4 := ∅; x_wg6 := ∅ |}.

Definition set_q (x : xst) (q : seqst) : xst :=
  {| x_q := q; x_notready := x_notready x; x_pcfg := x_pcfg x; x_cfg := x_cfg x; x_encap := x_encap x;
     x_bgp := x_bgp x; x_wgu := x_wgu x; x_wgd := x_wgd x; x_wg4 := x_wg4 x; x_wg6 := x_wg6 x |}.
Definition set_wg (x : xst) (u : gmap N wgv) (d w4 w6 : gset N) : xst :=
  {| x_q := x_q x; x_notready := x_notready x; x_pcfg := x_pcfg x; x_cfg := x_cfg x; x_encap := x_encap x;
     x_bgp := x_bgp x; x_wgu := u; x_wgd := d; x_wg4 := w4; x_wg6 := w6 |}.

Inductive xcb :=
| XCb (e : cb)
| XCbNotReady                         (* OnDatastoreNotReady *)
| XCbConfig (g s h : N)               (* OnConfigUpdate *)
| XCbEncap (v : N)                    (* OnEncapUpdate *)
| XCbBGP (v : N)                      (* OnGlobalBGPConfigUpdate *)
| XCbWgUpdate (n : N) (w : wgv)       (* OnWireguardUpdate *)
| XCbWgRemove (n : N).                (* OnWireguardRemove *)

Definition on_xcb (e : xcb) (x : xst) : option xst :=
  match e with
  | XCb c => q ← on_cb c (x_q x); Some (set_q x q)
  | XCbNotReady => Some {| x_q := x_q x; x_notready := true; x_pcfg := x_pcfg x; x_cfg := x_cfg x; x_encap := x_encap x;
                           x_bgp := x_bgp x; x_wgu := x_wgu x; x_wgd := x_wgd x; x_wg4 := x_wg4 x; x_wg6 := x_wg6 x |}
  | XCbConfig g s h => Some {| x_q := x_q x; x_notready := x_notready x; x_pcfg := Some (g, s, h); x_cfg := x_cfg x;
                               x_encap := x_encap x; x_bgp := x_bgp x; x_wgu := x_wgu x; x_wgd := x_wgd x;
                               x_wg4 := x_wg4 x; x_wg6 := x_wg6 x |}
  | XCbEncap v => Some {| x_q := x_q x; x_notready := x_notready x; x_pcfg := x_pcfg x; x_cfg := x_cfg x;
                          x_encap := Some v; x_bgp := x_bgp x; x_wgu := x_wgu x; x_wgd := x_wgd x;
                          x_wg4 := x_wg4 x; x_wg6 := x_wg6 x |}
  | XCbBGP v => Some {| x_q := x_q x; x_notready := x_notready x; x_pcfg := x_pcfg x; x_cfg := x_cfg x;
                        x_encap := x_encap x; x_bgp := Some v; x_wgu := x_wgu x; x_wgd := x_wgd x;
                        x_wg4 := x_wg4 x; x_wg6 := x_wg6 x |}
  | XCbWgUpdate n w => Some (set_wg x (<[n := w]> (x_wgu x)) (x_wgd x ∖ {[n]}) (x_wg4 x) (x_wg6 x))
  | XCbWgRemove n => Some (set_wg x (delete n (x_wgu x)) ({[n]} ∪ x_wgd x) (x_wg4 x) (x_wg6 x))
  end.

(* flushHostWireguardDeletes *)
Fixpoint wg_del_loop (cands : list N) (x : xst) : xst * list xmsg :=
  match cands with
  | [] => (x, [])
  | n :: r =>
      if bool_decide (n ∈ x_wgd x) then
        let m4 := if bool_decide (n ∈ x_wg4 x) then [XWg4Rem n] else [] in
        let m6 := if bool_decide (n ∈ x_wg6 x) then [XWg6Rem n] else [] in
        let x1 := set_wg x (x_wgu x) (x_wgd x ∖ {[n]}) (x_wg4 x ∖ {[n]}) (x_wg6 x ∖ {[n]}) in
        let '(x2, ms) := wg_del_loop r x1 in (x2, m4 ++ m6 ++ ms)
      else wg_del_loop r x
  end.
(* flushHostWireguardUpdates *)
Fixpoint wg_upd_loop (cands : list N) (x : xst) : xst * list xmsg :=
  match cands with
  | [] => (x, [])
  | n :: r =>
      match x_wgu x !! n with
      | None => wg_upd_loop r x
      | Some w =>
          let '(m4, w4) :=
            if bool_decide (wg_k4 w ≠ 0) then ([XWg4Upd n (wg_k4 w) (wg_ver w)], {[n]} ∪ x_wg4 x)
            else if bool_decide (n ∈ x_wg4 x) then ([XWg4Rem n], x_wg4 x ∖ {[n]}) else ([], x_wg4 x) in
          let '(m6, w6) :=
            if bool_decide (wg_k6 w ≠ 0) then ([XWg6Upd n (wg_k6 w) (wg_ver w)], {[n]} ∪ x_wg6 x)
            else if bool_decide (n ∈ x_wg6 x) then ([XWg6Rem n], x_wg6 x ∖ {[n]}) else ([], x_wg6 x) in
          let x1 := set_wg x (delete n (x_wgu x)) (x_wgd x) w4 w6 in
          let '(x2, ms) := wg_upd_loop r x1 in (x2, m4 ++ m6 ++ ms)
      end
  end.

(* the three stretches of Model.phases between which Flush() does the extra work *)
Definition phasesA (late : bool) : list phase :=
  [PAddedIPSets; PDeltas; PUpd KPol; PUpd KProf; PUpd KEp; PDel KEp; PDel KProf; PDel KPol; PRemovedIPSets;
   PDel KSA; PUpd KSA; PDel KNS; PUpd KNS] ++ vxlan_phases late.
Definition phasesB : list phase := [PDel KHost; PUpd KHost; PDel KPool; PUpd KPool].
Definition phasesC : list phase := [PDel KSvc; PUpd KSvc].

(* Flush(), complete.  [o] orders the phases of Model.v, [ow] the two wireguard loops. *)
Definition xflush (late : bool) (o : list (tag * N)) (ow : list N) (x : xst) : xst * list xmsg :=
  (* flushReadyFlag *)
  let m_ready := if x_notready x then [XNotReady] else [] in
  (* flushConfigUpdate: UpdateFrom for the three sources, ConfigUpdate if any of them changed *)
  let '(m_cfg, cfg') :=
    match x_pcfg x with
    | None => ([], x_cfg x)
    | Some (g, s, h) =>
        let '(g0, s0, h0) := x_cfg x in
        (if bool_decide (g ≠ g0) || bool_decide (s ≠ s0) || bool_decide (h ≠ h0) then [XConfig g s h] else [], (g, s, h))
    end in
  let '(qa, ma) := run_phases o (phasesA late) (x_q x) in
  let xa := {| x_q := qa; x_notready := false; x_pcfg := None; x_cfg := cfg'; x_encap := x_encap x; x_bgp := x_bgp x;
               x_wgu := x_wgu x; x_wgd := x_wgd x; x_wg4 := x_wg4 x; x_wg6 := x_wg6 x |} in
  let '(xd, md) := wg_del_loop (ow ++ elements (x_wgd xa)) xa in
  let '(xu, mu) := wg_upd_loop (ow ++ elements (dom (x_wgu xd))) xd in
  let '(qb, mb) := run_phases o phasesB (x_q xu) in
  let m_encap := match x_encap xu with Some v => [XEncap v] | None => [] end in
  let m_bgp := match x_bgp xu with Some v => [XBGP v] | None => [] end in
  let '(qc, mc) := run_phases o phasesC qb in
  ({| x_q := qc; x_notready := false; x_pcfg := None; x_cfg := cfg'; x_encap := None; x_bgp := None;
      x_wgu := x_wgu xu; x_wgd := x_wgd xu; x_wg4 := x_wg4 xu; x_wg6 := x_wg6 xu |},
   m_ready ++ m_cfg ++ map XBase ma ++ md ++ mu ++ map XBase mb ++ m_encap ++ m_bgp ++ map XBase mc).

Inductive xsev := XSCb (e : xcb) | XSFlush (o : list (tag * N)) (ow : list N).

Fixpoint xseq_run (late : bool) (x : xst) (h : list xsev) : option (xst * list xmsg) :=
  match h with
  | [] => Some (x, [])
  | XSCb e :: r => x' ← on_xcb e x; xseq_run late x' r
  | XSFlush o ow :: r => let '(x1, m1) := xflush late o ow x in '(x2, m2) ← xseq_run late x1 r; Some (x2, m1 ++ m2)
  end.

(* projections onto the part Model.v describes *)
Definition xbase (ms : list xmsg) : list msg :=
  omap (λ m, match m with XBase b => Some b | _ => None end) ms.
Definition xproj (h : list xsev) : list sev :=
  omap (λ e, match e with XSCb (XCb c) => Some (SCb c) | XSFlush o _ => Some (SFlush o) | _ => None end) h.
