(* C02 — proofs, part 5: every callback inside the upstream contract keeps the invariant
   (and does not hit a Go panic). *)
From stdpp Require Import gmap.
From Verif.C02 Require Import Model Spec ProofsKV ProofsSched ProofsIP ProofsMain.
Local Open Scope N_scope.

Lemma md_get_put k v (m : md) k' :
  md_get (md_put k v m) k' = if decide (k = k') then {[v]} ∪ md_get m k' else md_get m k'.
Proof.
  unfold md_put, md_get. destruct (decide (k = k')) as [->|Hne].
  - by rewrite lookup_insert.
  - by rewrite lookup_insert_ne.
Qed.
Lemma md_put_ne k v (m : md) k' : k ≠ k' → md_put k v m !! k' = m !! k'.
Proof. intros. unfold md_put. by rewrite lookup_insert_ne. Qed.
Lemma md_get_discard k v (m : md) k' :
  md_get (md_discard k v m) k' = if decide (k = k') then md_get m k' ∖ {[v]} else md_get m k'.
Proof.
  unfold md_discard, md_get. destruct (m !! k) as [s|] eqn:E.
  - destruct (decide (s ∖ {[v]} = ∅)) as [He|He]; destruct (decide (k = k')) as [<-|Hne];
      rewrite ?lookup_delete, ?lookup_insert, ?lookup_delete_ne, ?lookup_insert_ne, ?E by done; simpl; try done.
  - destruct (decide (k = k')) as [<-|Hne]; [|done]. rewrite E. simpl. set_solver.
Qed.
Lemma md_discard_ne k v (m : md) k' : k ≠ k' → md_discard k v m !! k' = m !! k'.
Proof.
  intros. unfold md_discard. destruct (m !! k); [|done].
  destruct (decide _); by rewrite ?lookup_delete_ne, ?lookup_insert_ne.
Qed.
Lemma md_discard_None k v (m : md) k' : m !! k' = None → md_discard k v m !! k' = None.
Proof.
  intros Hn. destruct (decide (k = k')) as [<-|Hne]; [|by rewrite md_discard_ne].
  unfold md_discard. by rewrite Hn.
Qed.

Lemma typed_insert w c v :
  typed w → c.1 ≠ KIPSet → Forall (λ r : cell, dep_ok c.1 r.1 = true) (v_refs v) →
  typed {| w_sets := w_sets w; w_kv := <[c := v]> (w_kv w) |}.
Proof.
  intros Ht Hc Hv c' v' Hl. simpl in Hl. destruct (decide (c = c')) as [<-|Hne].
  - rewrite lookup_insert in Hl. by injection Hl as <-.
  - rewrite lookup_insert_ne in Hl by done. by apply Ht.
Qed.
Lemma typed_delete w c : typed w → typed {| w_sets := w_sets w; w_kv := delete c (w_kv w) |}.
Proof. intros Ht c' v' Hl. simpl in Hl. apply lookup_delete_Some in Hl as [_ Hl]. by apply Ht. Qed.

Lemma kv_cb_update c v s up dp :
  kvSync s up dp → kvSync (on_update c v s) {| w_sets := w_sets up; w_kv := <[c := v]> (w_kv up) |} dp.
Proof.
  intros (K1 & K2a & K2b & K3). unfold kvSync, on_update. simpl. split_and!.
  - done.
  - intros c' Hin. apply elem_of_difference in Hin as [Hin Hne]. rewrite elem_of_singleton in Hne.
    rewrite lookup_insert_ne by done. auto.
  - intros c' Hin. apply elem_of_difference in Hin as [Hin _]. auto.
  - intros c'. destruct (decide (c = c')) as [<-|Hne].
    + by rewrite !lookup_insert.
    + rewrite !lookup_insert_ne by done. rewrite K3. destruct (k_pu s !! c'); [done|].
      destruct (decide (c' ∈ k_pd s)) as [Hin|Hin].
      * rewrite decide_True; [done|]. apply elem_of_difference. split; [done|]. by rewrite elem_of_singleton.
      * rewrite decide_False; [done|]. intros Hin'. apply elem_of_difference in Hin' as [? _]. done.
Qed.

Lemma kv_cb_remove c s up dp :
  kvSync s up dp → kvSync (on_remove c s) {| w_sets := w_sets up; w_kv := delete c (w_kv up) |} dp.
Proof.
  intros (K1 & K2a & K2b & K3). unfold kvSync, on_remove. simpl.
  assert (Hpd : ∀ c', c' ∈ (if bool_decide (c ∈ k_sent s) then {[c]} ∪ k_pd s else k_pd s) ↔
                      (c' = c ∧ c ∈ k_sent s) ∨ c' ∈ k_pd s).
  { intros c'. destruct (bool_decide (c ∈ k_sent s)) eqn:E.
    - apply bool_decide_eq_true in E. rewrite elem_of_union, elem_of_singleton. tauto.
    - apply bool_decide_eq_false in E. tauto. }
  split_and!.
  - done.
  - intros c' Hin. apply Hpd in Hin as [[-> _]|Hin].
    + apply lookup_delete.
    + destruct (decide (c = c')) as [<-|Hne]; [apply lookup_delete|]. rewrite lookup_delete_ne by done. auto.
  - intros c' Hin. apply Hpd in Hin as [[-> Hs]|Hin]; [by apply K1|auto].
  - intros c'. destruct (decide (c = c')) as [<-|Hne].
    + rewrite !lookup_delete. destruct (decide (c ∈ _)) as [Hin|Hin]; [done|].
      rewrite Hpd in Hin. destruct (w_kv dp !! c) eqn:E; [|done]. destruct Hin. left. split; [done|].
      apply K1. eauto.
    + rewrite !lookup_delete_ne by done. rewrite K3. destruct (k_pu s !! c'); [done|].
      destruct (decide (c' ∈ k_pd s)) as [Hin|Hin].
      * rewrite decide_True; [done|]. apply Hpd. auto.
      * rewrite decide_False; [done|]. rewrite Hpd. intros [[? _]|?]; congruence.
Qed.

(* ------------------------------------------------------------------ IP set callbacks *)
Lemma ip_known s up dp id :
  ipInv s up dp → is_Some (w_sets up !! id) → known s id = true.
Proof.
  intros (I1 & I2 & I3 & _) Hs. rewrite I3 in Hs. unfold known.
  destruct (i_added s !! id) eqn:Ea.
  - rewrite (bool_decide_eq_true_2 (is_Some (Some _))) by eauto. by rewrite orb_true_r.
  - destruct (decide _); [by destruct Hs|]. destruct (w_sets dp !! id) eqn:Ed; [|by destruct Hs].
    rewrite bool_decide_eq_true_2; [done|]. apply I1. rewrite Ed. eauto.
Qed.

Lemma ip_cb_added id ty s up dp :
  ipInv s up dp → w_sets up !! id = None →
  ∃ s', on_ipset_added id ty s = Some s' ∧
        ipInv s' {| w_sets := <[id := ∅]> (w_sets up); w_kv := w_kv up |} dp.
Proof.
  intros HI Hn. pose proof HI as (I1 & I2 & I3 & I4 & I5 & I6). unfold on_ipset_added.
  assert (Hnp : bool_decide (id ∈ i_sent s) && negb (bool_decide (id ∈ i_removed s)) = false).
  { apply andb_false_iff. destruct (decide (id ∈ i_removed s)) as [Hr|Hr].
    - right. by rewrite bool_decide_eq_true_2.
    - left. apply bool_decide_eq_false. intros Hs. apply I1 in Hs as [M HM].
      rewrite I3 in Hn. destruct (i_added s !! id); [done|]. rewrite decide_False, HM in Hn by done. done. }
  rewrite Hnp. eexists. split; [done|]. unfold ipInv. simpl. split_and!.
  - done.
  - intros id' Hin. apply elem_of_difference in Hin as [Hin Hne]. rewrite elem_of_singleton in Hne.
    rewrite lookup_insert_ne by done. auto.
  - intros id'. destruct (decide (id = id')) as [<-|Hne].
    + rewrite !lookup_insert. by rewrite md_get_delete, decide_True.
    + rewrite !lookup_insert_ne by done. rewrite I3, !md_get_delete. rewrite !(decide_False (P := id = id')) by done.
      destruct (i_added s !! id'); [done|].
      destruct (decide (id' ∈ i_removed s)) as [Hr|Hr].
      * rewrite decide_True; [done|]. apply elem_of_difference. split; [done|]. rewrite elem_of_singleton. congruence.
      * rewrite decide_False; [done|]. intros Hin. apply elem_of_difference in Hin as [? _]. done.
  - intros id' Hs. destruct (decide (id = id')) as [<-|Hne]; [apply lookup_delete|].
    rewrite lookup_insert_ne in Hs by done. rewrite lookup_delete_ne by done. auto.
  - intros id' M Ha Hd. destruct (decide (id = id')) as [<-|Hne]; [by rewrite lookup_insert in Ha|].
    rewrite lookup_insert_ne in Ha by done. rewrite !md_get_delete, !decide_False by done. auto.
  - intros id' Ha Hor. destruct (decide (id = id')) as [<-|Hne]; [by rewrite lookup_insert in Ha|].
    rewrite lookup_insert_ne in Ha by done. rewrite !lookup_delete_ne by done. apply I6; [done|].
    destruct Hor as [Hin|?]; [|auto]. left. apply elem_of_difference in Hin as [? _]. done.
Qed.

Lemma ip_cb_removed id s up dp :
  ipInv s up dp → is_Some (w_sets up !! id) →
  ∃ s', on_ipset_removed id s = Some s' ∧
        ipInv s' {| w_sets := delete id (w_sets up); w_kv := w_kv up |} dp.
Proof.
  intros HI Hs. pose proof HI as (I1 & I2 & I3 & I4 & I5 & I6). unfold on_ipset_removed.
  rewrite (ip_known _ _ _ _ HI Hs). simpl. eexists. split; [done|].
  assert (Hrm : ∀ id', id' ∈ (if bool_decide (id ∈ i_sent s) then {[id]} ∪ i_removed s else i_removed s) ↔
                       (id' = id ∧ id ∈ i_sent s) ∨ id' ∈ i_removed s).
  { intros id'. destruct (bool_decide (id ∈ i_sent s)) eqn:E.
    - apply bool_decide_eq_true in E. rewrite elem_of_union, elem_of_singleton. tauto.
    - apply bool_decide_eq_false in E. tauto. }
  unfold ipInv. simpl. split_and!.
  - done.
  - intros id' Hin. apply Hrm in Hin as [[-> ?]|Hin].
    + split; [done|apply lookup_delete].
    + destruct (I2 id' Hin) as [? Ha]. split; [done|].
      destruct (decide (id = id')) as [<-|Hne]; [apply lookup_delete|by rewrite lookup_delete_ne].
  - intros id'. destruct (decide (id = id')) as [<-|Hne].
    + rewrite !lookup_delete. destruct (decide _) as [Hin|Hin]; [done|].
      rewrite Hrm in Hin. destruct (w_sets dp !! id) eqn:Ed; [|done].
      destruct Hin. left. split; [done|]. apply I1. rewrite Ed. eauto.
    + rewrite !lookup_delete_ne by done. rewrite I3, !md_get_delete. rewrite !(decide_False (P := id = id')) by done.
      destruct (i_added s !! id'); [done|].
      destruct (decide (id' ∈ i_removed s)) as [Hr|Hr].
      * rewrite decide_True; [done|]. apply Hrm. auto.
      * rewrite decide_False; [done|]. rewrite Hrm. intros [[? _]|?]; congruence.
  - intros id' Hs'. destruct (decide (id = id')) as [<-|Hne]; [by rewrite lookup_delete in Hs'; destruct Hs'|].
    rewrite lookup_delete_ne in Hs' by done. rewrite lookup_delete_ne by done. auto.
  - intros id' M Ha Hd. rewrite !md_get_delete. destruct (decide (id = id')) as [<-|Hne]; [set_solver|].
    rewrite lookup_delete_ne in Ha by done. auto.
  - intros id' Ha Hor. destruct (decide (id = id')) as [<-|Hne]; [by rewrite !lookup_delete|].
    rewrite lookup_delete_ne in Ha by done. rewrite !lookup_delete_ne by done. apply I6; [done|].
    destruct Hor as [Hin|?]; [|auto]. apply Hrm in Hin as [[? _]|?]; [congruence|auto].
Qed.

(* the upstream members of an existing set, in terms of the sequencer state *)
Lemma ip_cb_member_added id m s up dp U :
  ipInv s up dp → w_sets up !! id = Some U → m ∉ U →
  ∃ s', on_member_added id m s = Some s' ∧
        ipInv s' {| w_sets := alter (λ M, {[m]} ∪ M) id (w_sets up); w_kv := w_kv up |} dp.
Proof.
  intros HI HU Hm. pose proof HI as (I1 & I2 & I3 & I4 & I5 & I6). unfold on_member_added.
  rewrite (ip_known _ _ _ _ HI) by (rewrite HU; eauto). simpl.
  pose proof (I3 id) as I3id. rewrite HU in I3id.
  unfold md_contains. destruct (bool_decide (m ∈ md_get (i_remm s) id)) eqn:Ec.
  - (* cancels a pending removal *)
    apply bool_decide_eq_true in Ec. eexists. split; [done|].
    assert (Ha : i_added s !! id = None).
    { destruct (i_added s !! id) eqn:E; [|done]. rewrite (md_get_None _ _ (I4 id ltac:(eauto))) in Ec. set_solver. }
    rewrite Ha in I3id. destruct (decide (id ∈ i_removed s)); [done|].
    destruct (w_sets dp !! id) as [M|] eqn:Ed; [|done]. injection I3id as HUeq.
    destruct (I5 id M Ha Ed) as [HAM HRM].
    unfold ipInv. simpl. split_and!; try done.
    + intros id'. destruct (decide (id = id')) as [<-|Hne].
      * rewrite lookup_alter, HU, Ha, decide_False, Ed, md_get_discard, decide_True by done. simpl. f_equal.
        rewrite HUeq. apply set_eq. intros x. rewrite !elem_of_union, !elem_of_difference, !elem_of_union, !elem_of_singleton.
        split; [intros [->|[? ?]]|intros [[?|?] ?]]; try tauto.
        -- split; [left; set_solver|tauto].
        -- destruct (decide (x = m)); [left; done|right]. tauto.
        -- destruct (decide (x = m)); [left; done|right]. tauto.
      * rewrite lookup_alter_ne by done. rewrite I3, md_get_discard. rewrite (decide_False (P := id = id')) by done. done.
    + intros id' Hs. destruct (decide (id = id')) as [<-|Hne]; [rewrite Ha in Hs; by destruct Hs|].
      rewrite md_discard_ne by done. auto.
    + intros id' M' Ha' Hd'. rewrite md_get_discard. destruct (decide (id = id')) as [<-|Hne]; [|auto].
      destruct (I5 id M' Ha' Hd'). split; [done|]. set_solver.
    + intros id' Ha' Hor. destruct (I6 id' Ha' Hor) as [? Hx]. split; [done|]. by apply md_discard_None.
  - (* a new pending addition *)
    apply bool_decide_eq_false in Ec. eexists. split; [done|].
    unfold ipInv. simpl. split_and!; try done.
    + intros id'. destruct (decide (id = id')) as [<-|Hne].
      * rewrite lookup_alter, HU, md_get_put, decide_True by done. simpl.
        destruct (i_added s !! id) eqn:Ha.
        -- injection I3id as ->. done.
        -- destruct (decide (id ∈ i_removed s)); [done|]. destruct (w_sets dp !! id) as [M|]; [|done].
           injection I3id as ->. f_equal. apply set_eq. intros x.
           rewrite !elem_of_union, !elem_of_difference, !elem_of_union, !elem_of_singleton.
           split; [intros [->|[? ?]]; [split; [tauto|done]|tauto]|intros [[?|[?|?]] ?]; tauto].
      * rewrite lookup_alter_ne by done. rewrite I3, md_get_put. rewrite (decide_False (P := id = id')) by done. done.
    + intros id' M Ha' Hd'. rewrite md_get_put. destruct (decide (id = id')) as [<-|Hne]; [|auto].
      destruct (I5 id M Ha' Hd') as [HAM HRM]. split; [|done].
      rewrite Ha' in I3id. destruct (decide (id ∈ i_removed s)); [done|]. rewrite Hd' in I3id.
      injection I3id as ->. apply disjoint_union_l. split; [|done]. apply disjoint_singleton_l.
      intros HmM. apply Hm. apply elem_of_difference. split; [apply elem_of_union; auto|done].
    + intros id' Ha' Hor. destruct (decide (id = id')) as [<-|Hne].
      * rewrite Ha' in I3id. destruct Hor as [Hr|Hd]; [by rewrite decide_True in I3id|].
        destruct (decide _); [done|]. by rewrite Hd in I3id.
      * rewrite md_put_ne by done. auto.
Qed.

Lemma ip_cb_member_removed id m s up dp U :
  ipInv s up dp → w_sets up !! id = Some U → m ∈ U →
  ∃ s', on_member_removed id m s = Some s' ∧
        ipInv s' {| w_sets := alter (λ M, M ∖ {[m]}) id (w_sets up); w_kv := w_kv up |} dp.
Proof.
  intros HI HU Hm. pose proof HI as (I1 & I2 & I3 & I4 & I5 & I6). unfold on_member_removed.
  rewrite (ip_known _ _ _ _ HI) by (rewrite HU; eauto). simpl.
  pose proof (I3 id) as I3id. rewrite HU in I3id.
  unfold md_contains. destruct (bool_decide (m ∈ md_get (i_addm s) id)) eqn:Ec.
  - (* cancels a pending addition *)
    apply bool_decide_eq_true in Ec. eexists. split; [done|].
    unfold ipInv. simpl. split_and!; try done.
    + intros id'. destruct (decide (id = id')) as [<-|Hne].
      * rewrite lookup_alter, HU, md_get_discard, decide_True by done. simpl.
        destruct (i_added s !! id) eqn:Ha.
        -- injection I3id as ->. done.
        -- destruct (decide (id ∈ i_removed s)); [done|]. destruct (w_sets dp !! id) as [M|] eqn:Ed; [|done].
           injection I3id as ->. destruct (I5 id M Ha Ed) as [HAM HRM]. f_equal. apply set_eq. intros x.
           rewrite !elem_of_difference, !elem_of_union, !elem_of_difference, !elem_of_singleton.
           split; [intros [[[?|?] ?] ?]; tauto|intros [[?|[? ?]] ?]; [|tauto]].
           split; [tauto|]. intros ->. set_solver.
      * rewrite lookup_alter_ne by done. rewrite I3, md_get_discard. rewrite (decide_False (P := id = id')) by done. done.
    + intros id' M Ha' Hd'. rewrite md_get_discard. destruct (decide (id = id')) as [<-|Hne]; [|auto].
      destruct (I5 id M Ha' Hd'). split; [set_solver|done].
    + intros id' Ha' Hor. destruct (I6 id' Ha' Hor) as [Hx ?]. split; [|done]. by apply md_discard_None.
  - (* a new pending removal *)
    apply bool_decide_eq_false in Ec. eexists. split; [done|].
    assert (Ha : i_added s !! id = None).
    { destruct (i_added s !! id) eqn:E; [|done]. injection I3id as ->. done. }
    rewrite Ha in I3id. destruct (decide (id ∈ i_removed s)); [done|].
    destruct (w_sets dp !! id) as [M|] eqn:Ed; [|done]. injection I3id as HUeq.
    destruct (I5 id M Ha Ed) as [HAM HRM].
    unfold ipInv. simpl. split_and!; try done.
    + intros id'. destruct (decide (id = id')) as [<-|Hne].
      * rewrite lookup_alter, HU, Ha, decide_False, Ed, md_get_put, decide_True by done. simpl. f_equal.
        rewrite HUeq. apply set_eq. intros x.
        rewrite !elem_of_difference, !elem_of_union, !elem_of_singleton. tauto.
      * rewrite lookup_alter_ne by done. rewrite I3, md_get_put. rewrite (decide_False (P := id = id')) by done. done.
    + intros id' Hs. destruct (decide (id = id')) as [<-|Hne]; [rewrite Ha in Hs; by destruct Hs|].
      rewrite md_put_ne by done. auto.
    + intros id' M' Ha' Hd'. rewrite md_get_put. destruct (decide (id = id')) as [<-|Hne]; [|auto].
      rewrite Ed in Hd'. injection Hd' as <-. split; [done|]. apply union_subseteq. split; [|done].
      apply singleton_subseteq_l. rewrite HUeq in Hm. apply elem_of_difference in Hm as [Hm _].
      apply elem_of_union in Hm as [?|?]; done.
    + intros id' Ha' Hor. destruct (decide (id = id')) as [<-|Hne].
      * destruct Hor as [?|Hd]; [done|]. by rewrite Ed in Hd.
      * rewrite md_put_ne by done. auto.
Qed.
