(* C02 — property theorems only. *)
From stdpp Require Import gmap.
From Verif.C02 Require Import Model Spec Proofs.

Theorem c02_placeholder : forall t, sel t [] = [].
Proof. exact sel_nil. Qed.
Print Assumptions c02_placeholder.
