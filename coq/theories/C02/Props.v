(* C02 — property theorems only.  Each is closed by `exact <lemma>` and followed by Print Assumptions.

   Reading guide (definitions in Spec.v / Model.v):
   - [seq_run late seq0 h = Some (q, ms)]: the model of EventSequencer, started empty, run over the history
     [h] of callbacks and flush points (each flush with an ARBITRARY intra-phase order), emits [ms];
     [late = true] is the phase order of the code as it now stands (fix b52c0b5, VTEP removes last),
     [late = false] the order before that fix;
   - [contract_gen late world0 world0 h]: the upstream contract (cb_ok for each callback, upstream world
     reference-closed at each flush; for [late = false] additionally [no_retarget]);
   - [closed w]: every reference of every object in dataplane world [w] exists in [w];
   - [msg_ok w m]: delta updates name an existing set, add only absent / remove only present members;
     removals name existing objects; full updates list no member twice. *)
From stdpp Require Import gmap.
From Verif.C02 Require Import Model Spec Proofs ProofsLoop Meets ModelX ProofsX.

(* After EVERY single emitted message the dataplane is reference-closed. *)
Theorem c02_refs_present : forall late h q ms a m b,
  contract_gen late world0 world0 h -> seq_run late seq0 h = Some (q, ms) -> ms = a ++ m :: b ->
  closed (apply_msgs world0 (a ++ [m])).
Proof. exact refs_present. Qed.
Print Assumptions c02_refs_present.

(* Every message is well-formed in the dataplane state it arrives in. *)
Theorem c02_delta_wellformed : forall late h q ms a m b,
  contract_gen late world0 world0 h -> seq_run late seq0 h = Some (q, ms) -> ms = a ++ m :: b ->
  msg_ok (apply_msgs world0 a) m.
Proof. exact msgs_wellformed. Qed.
Print Assumptions c02_delta_wellformed.

(* With the repaired phase order the plain contract (no extra restriction) is enough. *)
Theorem c02_refs_present_fixed_order : forall h q ms,
  contract world0 h -> seq_run true seq0 h = Some (q, ms) -> stream_ok world0 ms.
Proof. intros h q ms Hc. exact (run_ok true h q ms (contract_gen_true _ _ _ Hc)). Qed.
Print Assumptions c02_refs_present_fixed_order.

(* Inside the contract no Go panic is reached. *)
Theorem c02_no_panic : forall late h, contract_gen late world0 world0 h -> is_Some (seq_run late seq0 h).
Proof. exact no_panic. Qed.
Print Assumptions c02_no_panic.

(* After a flush the dataplane equals the net upstream state (used by C01). *)
Theorem c02_net_effect : forall late h o q ms,
  contract_gen late world0 world0 (h ++ [SFlush o]) -> seq_run late seq0 (h ++ [SFlush o]) = Some (q, ms) ->
  apply_msgs world0 ms = upstream world0 h.
Proof. exact net_effect. Qed.
Print Assumptions c02_net_effect.

(* AsyncCalcGraph loop (flush throttling + in-sync forwarding around the sequencer): as long as the input
   has not reported in-sync (no LStatus true among the loop's inputs so far), no InSync message has been
   emitted, whatever the updates, ticks and flush orders were.  Every prefix of a run is a run, so this is
   "in-sync is never reported before the datastore reported it". *)
Theorem c02_insync_not_early : forall late h a ms,
  (forall e o, (e, o) ∈ h -> e <> LStatus true) -> loop_run late ast0 h = Some (a, ms) -> MInSync ∉ ms.
Proof. exact insync_not_early. Qed.
Print Assumptions c02_insync_not_early.

(* The stream that actually leaves Felix is the loop's: the loop itself decides when to flush (dirty flag, leaky
   bucket, forced flush at in-sync), so the contract must hold after every update batch ([loop_contract]).  With the
   phase order of the code as it now stands (VTEP removes last) every message of the loop's whole output,
   InSync included, is well-formed and leaves the dataplane reference-closed, and no Go panic is reached. *)
Theorem c02_loop_stream_ok : forall h a ms,
  loop_contract world0 h -> loop_run true ast0 h = Some (a, ms) -> stream_ok world0 ms.
Proof. exact loop_stream_ok. Qed.
Print Assumptions c02_loop_stream_ok.

Theorem c02_loop_no_panic : forall h, loop_contract world0 h -> is_Some (loop_run true ast0 h).
Proof. exact loop_no_panic. Qed.
Print Assumptions c02_loop_no_panic.

(* The full statement is FALSE of the faithful model with the order of the code as it stands: a history
   inside the plain contract whose stream is rejected (a VTEP is removed while a route still needs it). *)
Theorem c02_vtep_retarget_refuted :
  contract world0 retarget_history /\
  exists q ms, seq_run false seq0 retarget_history = Some (q, ms) /\ ~ stream_ok world0 ms.
Proof. exact retarget_refuted_exists. Qed.
Print Assumptions c02_vtep_retarget_refuted.

(* The specification oracle accepts every run of the model: for every history inside the contract the model
   runs, and the trace it produces (callbacks + the model's messages at each flush) passes [ok_trace] - the
   oracle the check applies to the implementation - and [in_contract]. *)
Theorem c02_model_meets_spec : forall late h,
  contract_gen late world0 world0 h ->
  exists t, trace_of late seq0 h = Some t /\ ok_trace world0 world0 t = true /\ in_contract world0 t = true.
Proof. exact model_meets_spec. Qed.
Print Assumptions c02_model_meets_spec.

(* ---- the complete sequencer (ModelX.v: + ready flag, config, encapsulation, BGP config, wireguard) ---- *)
(* Restricted to the message kinds of Model.v, a run of the complete sequencer IS a run of Model.v on the
   restricted history: all theorems above speak about the complete Flush(). *)
Theorem c02_x_projection : forall late h x x' ms,
  xseq_run late x h = Some (x', ms) -> seq_run late (x_q x) (xproj h) = Some (x_q x', xbase ms).
Proof. exact xseq_run_proj. Qed.
Print Assumptions c02_x_projection.

Theorem c02_x_stream_ok : forall late h x ms,
  contract_gen late world0 world0 (xproj h) -> xseq_run late xst0 h = Some (x, ms) -> stream_ok world0 (xbase ms).
Proof. exact x_stream_ok. Qed.
Print Assumptions c02_x_stream_ok.

(* the extra callbacks never panic: the complete sequencer runs whenever its Model.v part does *)
Theorem c02_x_no_panic : forall late h x,
  is_Some (seq_run late (x_q x) (xproj h)) -> is_Some (xseq_run late x h).
Proof. exact x_no_panic. Qed.
Print Assumptions c02_x_no_panic.

(* every wireguard endpoint remove (v4 and v6) names an endpoint the dataplane has - for ALL histories (no
   contract needed), and the sequencer's sentWireguard/sentWireguardV6 are exactly the dataplane's endpoints *)
Theorem c02_wireguard_removes_exist : forall late h x x' ms,
  xseq_run late x h = Some (x', ms) -> wg_stream_ok (wgof x) ms /\ apply_wgs (wgof x) ms = wgof x'.
Proof. exact x_wg_ok. Qed.
Print Assumptions c02_wireguard_removes_exist.

(* hypotheses are satisfiable by a non-trivial history: the refutation witness itself satisfies the contract
   of the repaired order *)
Example c02_contract_inhabited : contract_gen true world0 world0 retarget_history.
Proof. exact (contract_gen_true _ _ _ (proj1 retarget_refuted)). Qed.
