(* C02 — specification level.  Independent of the sequencer's bookkeeping: it only talks about
   (1) what the calculation graph told the sequencer (callbacks, folded into the "upstream" world),
   (2) what came out (messages, folded into the "dataplane" world),
   and states the property of the message stream.  [ok_trace]/[ok_loop] are the oracles that the
   check applies to the IMPLEMENTATION's own message stream. *)
From stdpp Require Import gmap sorting.
From Verif.C02 Require Import Model.
Local Open Scope N_scope.

(* A world: which IP sets exist with which members, which other objects exist with which value.
   Used both for the dataplane's view (fold of the emitted messages) and for the upstream view
   (fold of the callbacks). *)
Record world := { w_sets : gmap N (gset N); w_kv : gmap cell value }.
Global Instance world_eq_dec : EqDecision world.
Proof. solve_decision. Defined.
Definition world0 : world := {| w_sets := ∅; w_kv := ∅ |}.

Definition present (w : world) (c : cell) : Prop :=
  match c.1 with
  | KIPSet => is_Some (w_sets w !! c.2)
  | _ => is_Some (w_kv w !! c)
  end.
Global Instance present_dec w c : Decision (present w c).
Proof. unfold present. destruct (c.1); apply _. Defined.

(* reference-closed: everything that an existing object references exists *)
Definition closed (w : world) : Prop :=
  map_Forall (λ _ v, Forall (present w) (v_refs v)) (w_kv w).
Global Instance closed_dec w : Decision (closed w).
Proof. unfold closed. apply _. Defined.

(* ------------------------------------------------------------------ dataplane side *)
Definition apply_msg (w : world) (m : msg) : world :=
  match m with
  | MIPSetUpdate id ms _ => {| w_sets := <[id := list_to_set ms]> (w_sets w); w_kv := w_kv w |}
  | MIPSetDelta id a r =>
      match w_sets w !! id with
      | Some M => {| w_sets := <[id := (M ∪ list_to_set a) ∖ list_to_set r]> (w_sets w); w_kv := w_kv w |}
      | None => w
      end
  | MIPSetRemove id => {| w_sets := delete id (w_sets w); w_kv := w_kv w |}
  | MUpdate c v => {| w_sets := w_sets w; w_kv := <[c := v]> (w_kv w) |}
  | MRemove c => {| w_sets := w_sets w; w_kv := delete c (w_kv w) |}
  | MInSync => w
  end.
Definition apply_msgs : world → list msg → world := foldl apply_msg.

(* a single message is well-formed with respect to the dataplane state it arrives in:
   - a full IP set update lists no member twice;
   - a delta update names an existing set, adds only absent members, removes only present ones;
   - a removal names an existing object. *)
Definition msg_ok (w : world) (m : msg) : Prop :=
  match m with
  | MIPSetUpdate _ ms _ => NoDup ms
  | MIPSetDelta id a r =>
      match w_sets w !! id with
      | Some M => NoDup a ∧ NoDup r ∧ Forall (λ x, x ∉ M) a ∧ Forall (λ x, x ∈ M) r
      | None => False
      end
  | MIPSetRemove id => is_Some (w_sets w !! id)
  | MUpdate c _ => c.1 ≠ KIPSet
  | MRemove c => is_Some (w_kv w !! c)
  | MInSync => True
  end.
Global Instance msg_ok_dec w m : Decision (msg_ok w m).
Proof. destruct m; simpl; try apply _. destruct (w_sets w !! id); apply _. Defined.

(* THE property of a message stream, starting from dataplane state [w]: every message is
   well-formed where it arrives and leaves the dataplane reference-closed. *)
Fixpoint stream_ok (w : world) (ms : list msg) : Prop :=
  match ms with
  | [] => True
  | m :: r => msg_ok w m ∧ closed (apply_msg w m) ∧ stream_ok (apply_msg w m) r
  end.
Fixpoint ok_msgs (w : world) (ms : list msg) : bool :=
  match ms with
  | [] => true
  | m :: r => bool_decide (msg_ok w m) && bool_decide (closed (apply_msg w m)) && ok_msgs (apply_msg w m) r
  end.

(* ------------------------------------------------------------------ upstream side *)
Definition apply_cb (w : world) (e : cb) : world :=
  match e with
  | CIPSetAdded id _ => {| w_sets := <[id := ∅]> (w_sets w); w_kv := w_kv w |}
  | CIPSetRemoved id => {| w_sets := delete id (w_sets w); w_kv := w_kv w |}
  | CMemberAdded id m => {| w_sets := alter (λ M, {[m]} ∪ M) id (w_sets w); w_kv := w_kv w |}
  | CMemberRemoved id m => {| w_sets := alter (λ M, M ∖ {[m]}) id (w_sets w); w_kv := w_kv w |}
  | CUpdate c v => {| w_sets := w_sets w; w_kv := <[c := v]> (w_kv w) |}
  | CRemove c => {| w_sets := w_sets w; w_kv := delete c (w_kv w) |}
  end.
Definition apply_cbs : world → list cb → world := foldl apply_cb.

(* which kind may reference which: policy/profile -> IP set, endpoint -> policy/profile, route -> VTEP *)
Definition dep_ok (K R : kind) : bool :=
  match K, R with
  | KPol, KIPSet | KProf, KIPSet | KEp, KPol | KEp, KProf | KRoute, KVtep => true
  | _, _ => false
  end.

(* The upstream contract for one callback, given the upstream world it arrives in (this is what
   the calculation graph guarantees: rule scanner / IP set index for IP sets and members, and the
   types of the objects). *)
Definition cb_ok (w : world) (e : cb) : Prop :=
  match e with
  | CIPSetAdded id _ => w_sets w !! id = None
  | CIPSetRemoved id => is_Some (w_sets w !! id)
  | CMemberAdded id m => match w_sets w !! id with Some M => m ∉ M | None => False end
  | CMemberRemoved id m => match w_sets w !! id with Some M => m ∈ M | None => False end
  | CUpdate c v => c.1 ≠ KIPSet ∧ Forall (λ r : cell, dep_ok c.1 r.1 = true) (v_refs v)
  | CRemove c => c.1 ≠ KIPSet
  end.
Global Instance cb_ok_dec w e : Decision (cb_ok w e).
Proof. destruct e; simpl; try apply _; destruct (w_sets w !! id); apply _. Defined.

(* The upstream contract for a whole sequencer history: every callback respects [cb_ok] and at
   every flush point the upstream world is reference-closed. *)
Fixpoint contract (w : world) (h : list sev) : Prop :=
  match h with
  | [] => True
  | SCb e :: r => cb_ok w e ∧ contract (apply_cb w e) r
  | SFlush _ :: r => closed w ∧ contract w r
  end.
(* "No re-targeting": a route that stays keeps alive the VTEP it needed so far.  This is the extra
   restriction under which the VXLAN phase order of the code as it stands
   (flushRouteRemoves; flushVTEPRemoves; flushVTEPAdds; flushRouteAdds) is safe; the real route
   resolver does NOT guarantee it (see c02_vtep_retarget_refuted and known-findings.txt).  It is not
   needed for the repaired order (VTEP removes last). *)
Definition no_retarget (dp up : world) : Prop :=
  ∀ c v0, c.1 = KRoute → w_kv dp !! c = Some v0 → is_Some (w_kv up !! c) → Forall (present up) (v_refs v0).

(* contract for the order selected by [late] (false = code as it stands): [dp] is the upstream world
   at the last flush, which is what the dataplane holds *)
Fixpoint contract_gen (late : bool) (dp up : world) (h : list sev) : Prop :=
  match h with
  | [] => True
  | SCb e :: r => cb_ok up e ∧ contract_gen late dp (apply_cb up e) r
  | SFlush _ :: r => closed up ∧ (late = false → no_retarget dp up) ∧ contract_gen late up up r
  end.

Fixpoint upstream (w : world) (h : list sev) : world :=
  match h with
  | [] => w
  | SCb e :: r => upstream (apply_cb w e) r
  | SFlush _ :: r => upstream w r
  end.

(* ------------------------------------------------------------------ oracles on observed traces *)
(* sequencer alone: callbacks, and at each flush point the messages the IMPLEMENTATION emitted *)
(* IPanic: the implementation panicked at this point of a history inside the contract *)
Inductive istep := ICb (e : cb) | IFlush (ms : list msg) | IPanic.
Definition V (refs : list cell) (ver : N) : value := {| v_refs := refs; v_ver := ver |}.

Fixpoint ok_trace (up dpw : world) (steps : list istep) : bool :=
  match steps with
  | [] => true
  | ICb e :: r => ok_trace (apply_cb up e) dpw r
  | IFlush ms :: r =>
      let d' := apply_msgs dpw ms in
      ok_msgs dpw ms                       (* every single message: well-formed, leaves the dataplane closed *)
      && forallb (λ m, negb (bool_decide (m = MInSync))) ms
      && bool_decide (d' = up)             (* after the flush the dataplane equals the upstream net state *)
      && ok_trace up d' r
  | IPanic :: _ => true
  end.

(* the driver only produces histories inside the contract; checked here so that a generator bug
   cannot masquerade as a finding *)
Fixpoint in_contract (up : world) (steps : list istep) : bool :=
  match steps with
  | [] => true
  | ICb e :: r => bool_decide (cb_ok up e) && in_contract (apply_cb up e) r
  | IFlush _ :: r => bool_decide (closed up) && in_contract up r
  | IPanic :: _ => true
  end.

(* AsyncCalcGraph loop: one entry per loop iteration = the input it received and the messages
   the implementation emitted during that iteration. *)
Fixpoint ok_loop (seen_insync : bool) (up dpw : world) (steps : list (lev * list msg)) : bool :=
  match steps with
  | [] => true
  | (e, ms) :: r =>
      let seen := seen_insync || match e with LStatus true => true | _ => false end in
      let up' := match e with LUpdates cbs => apply_cbs up cbs | _ => up end in
      let d' := apply_msgs dpw ms in
      ok_msgs dpw ms
      && (seen || forallb (λ m, negb (bool_decide (m = MInSync))) ms)   (* in-sync never before the input in-sync *)
      && (match ms with [] => true | _ => bool_decide (d' = up') end)    (* a flush happened: net effect *)
      && ok_loop seen up' d' r
  end.
Fixpoint loop_in_contract (up : world) (steps : list (lev * list msg)) : bool :=
  match steps with
  | [] => true
  | (LUpdates cbs, _) :: r =>
      (fix go (w : world) (l : list cb) : bool :=
         match l with [] => true | e :: l' => bool_decide (cb_ok w e) && go (apply_cb w e) l' end) up cbs
      && bool_decide (closed (apply_cbs up cbs)) && loop_in_contract (apply_cbs up cbs) r
  | _ :: r => loop_in_contract up r
  end.

(* ------------------------------------------------------------------ correspondence cases *)
Definition canon_msg (m : msg) : msg :=
  match m with
  | MIPSetUpdate id ms ty => MIPSetUpdate id (merge_sort N.le ms) ty
  | MIPSetDelta id a r => MIPSetDelta id (merge_sort N.le a) (merge_sort N.le r)
  | _ => m
  end.
Definition msgs_eqb (a b : list msg) : bool := bool_decide (map canon_msg a = map canon_msg b).

(* model vs implementation, sequencer alone: the intra-phase order is taken from the
   implementation's own messages (that is the only freedom the model leaves open) *)
Fixpoint agree_trace (late : bool) (s : seqst) (steps : list istep) : bool :=
  match steps with
  | [] => true
  | ICb e :: r => match on_cb e s with Some s' => agree_trace late s' r | None => false end
  | IFlush ms :: r =>
      let '(s', mm) := flush_gen late (map tag_of ms) s in
      msgs_eqb mm ms && agree_trace late s' r
  | IPanic :: _ => false
  end.
Fixpoint agree_loop (late : bool) (a : ast) (steps : list (lev * list msg)) : bool :=
  match steps with
  | [] => true
  | (e, ms) :: r =>
      match loop_step late a e (map tag_of ms) with
      | Some (a', mm) => msgs_eqb mm ms && agree_loop late a' r
      | None => false
      end
  end.

(* the model state after an observed sequencer trace (None: model and implementation already disagree) *)
Fixpoint state_after (late : bool) (s : seqst) (steps : list istep) : option seqst :=
  match steps with
  | [] => Some s
  | ICb e :: r => match on_cb e s with Some s' => state_after late s' r | None => None end
  | IFlush ms :: r =>
      let '(s', mm) := flush_gen late (map tag_of ms) s in
      if msgs_eqb mm ms then state_after late s' r else None
  | IPanic :: _ => None
  end.
(* after [steps], one more callback [e] (outside the contract); did the implementation reach log.Panic? *)
Definition agree_panic (late : bool) (steps : list istep) (e : cb) (panicked : bool) : bool :=
  match state_after late seq0 steps with
  | Some s => match on_cb e s with None => panicked | Some _ => negb panicked end
  | None => false
  end.

Inductive case :=
| CasePanic (steps : list istep) (e : cb) (panicked : bool)   (* contract-respecting prefix, then one malformed callback *)
| CaseSeq (steps : list istep)                 (* real EventSequencer driven directly *)
| CaseLoop (steps : list (lev * list msg))     (* real AsyncCalcGraph loop around the real sequencer *)
| CaseGraph (steps : list (lev * list msg)).   (* whole real calculation graph: oracle only; callbacks are those the
                                                  graph itself made (recorded), so model agreement is checked too *)

(* (model agrees with implementation, oracle accepts implementation output).
   The model is accepted with either order of the VXLAN phases (Model.vxlan_phases); theorems exist for both. *)
Definition check_case (c : case) : bool * bool :=
  match c with
  | CasePanic steps e panicked =>
      (in_contract world0 steps && (agree_panic false steps e panicked || agree_panic true steps e panicked),
       ok_trace world0 world0 steps)
  | CaseSeq steps =>
      (in_contract world0 steps && (agree_trace false seq0 steps || agree_trace true seq0 steps),
       ok_trace world0 world0 steps)
  | CaseLoop steps | CaseGraph steps =>
      (loop_in_contract world0 steps && (agree_loop false ast0 steps || agree_loop true ast0 steps),
       ok_loop false world0 world0 steps)
  end.
