(* C02 — proofs, part 3: the three IP set phases of Flush. *)
From stdpp Require Import gmap.
From Verif.C02 Require Import Model Spec ProofsKV.
Local Open Scope N_scope.

Lemma md_get_delete (m : md) id id' :
  md_get (delete id m) id' = if decide (id = id') then ∅ else md_get m id'.
Proof.
  unfold md_get. destruct (decide (id = id')) as [->|Hne].
  - by rewrite lookup_delete.
  - by rewrite lookup_delete_ne.
Qed.
Lemma md_get_None (m : md) id : m !! id = None → md_get m id = ∅.
Proof. unfold md_get. by intros ->. Qed.

Lemma apply_msgs_cons w m ms : apply_msgs w (m :: ms) = apply_msgs (apply_msg w m) ms.
Proof. done. Qed.

(* ------------------------------------------------------------------ flushAddedIPSets *)
Lemma added_loop_spec cands : ∀ s s' ms d,
  flush_added_loop cands s = (s', ms) →
  closed d →
  stream_ok d ms ∧ closed (apply_msgs d ms) ∧ w_kv (apply_msgs d ms) = w_kv d ∧
  (∀ id, w_sets (apply_msgs d ms) !! id =
         match i_added s !! id, i_added s' !! id with
         | Some _, None => Some (md_get (i_addm s) id) | _, _ => w_sets d !! id end) ∧
  i_removed s' = i_removed s ∧ i_remm s' = i_remm s ∧
  (∀ id, i_added s' !! id = None ∨ i_added s' !! id = i_added s !! id) ∧
  (∀ id, id ∈ cands → i_added s' !! id = None) ∧
  (∀ id, i_addm s' !! id =
         match i_added s !! id, i_added s' !! id with
         | Some _, None => None | _, _ => i_addm s !! id end) ∧
  (∀ id, id ∈ i_sent s' ↔ id ∈ i_sent s ∨ (is_Some (i_added s !! id) ∧ i_added s' !! id = None)).
Proof.
  induction cands as [|id rest IH]; intros s s' ms d Hf Hcl; simpl in Hf.
  - injection Hf as <- <-. simpl. split_and!; try done.
    + intros id. by destruct (i_added s !! id).
    + auto.
    + intros ? Hin. by apply elem_of_nil in Hin.
    + intros id. by destruct (i_added s !! id).
    + intros id. split; [auto|]. intros [?|[[x Hx] Hn]]; [done|congruence].
  - destruct (i_added s !! id) as [ty|] eqn:Hl.
    + destruct (flush_added_loop rest _) as [s2 ms2] eqn:Hrec. injection Hf as <- <-.
      set (s1 := {| i_added := delete id (i_added s); i_removed := i_removed s;
                    i_addm := delete id (i_addm s); i_remm := i_remm s; i_sent := {[id]} ∪ i_sent s |}) in *.
      set (A := md_get (i_addm s) id).
      set (d1 := sets_set d (<[id := A]> (w_sets d))).
      assert (Hd1 : apply_msg d (MIPSetUpdate id (elements A) ty) = d1).
      { unfold d1, sets_set. simpl. by rewrite list_to_set_elements_L. }
      assert (Hcl1 : closed d1) by (by apply closed_sets_insert).
      destruct (IH s1 s2 ms2 d1 Hrec Hcl1) as (Hok & Hcl' & Hkv & Hsets & Hrm & Hremm & Hmono & Hcand & Haddm & Hsent).
      assert (Hnone : i_added s2 !! id = None).
      { destruct (Hmono id) as [?|E]; [done|]. rewrite E. simpl. apply lookup_delete. }
      rewrite apply_msgs_cons. cbn [stream_ok]. rewrite Hd1.
      split_and!; try done.
      * apply NoDup_elements.
      * intros id'. rewrite Hsets. simpl. destruct (decide (id' = id)) as [->|Hne].
        -- by rewrite lookup_delete, lookup_insert, Hl, Hnone.
        -- by rewrite !lookup_delete_ne, lookup_insert_ne, md_get_delete, decide_False by done.
      * intros id'. destruct (decide (id' = id)) as [->|Hne]; [auto|].
        destruct (Hmono id') as [?|E]; [auto|]. right. rewrite E. simpl. by rewrite lookup_delete_ne.
      * intros id' Hin. apply elem_of_cons in Hin as [->|Hin]; auto.
      * intros id'. rewrite Haddm. simpl. destruct (decide (id' = id)) as [->|Hne].
        -- by rewrite !lookup_delete, Hl, Hnone.
        -- by rewrite !lookup_delete_ne by done.
      * intros id'. rewrite Hsent. simpl. rewrite elem_of_union, elem_of_singleton.
        destruct (decide (id' = id)) as [->|Hne].
        -- rewrite lookup_delete, Hl, Hnone. split; [intros [[?|?]|[[? ?] _]]; eauto; done|intros [?|_]; auto].
        -- rewrite lookup_delete_ne by done. tauto.
    + destruct (IH s s' ms d Hf Hcl) as (Hok & Hcl' & Hkv & Hsets & Hrm & Hremm & Hmono & Hcand & Haddm & Hsent).
      split_and!; try done.
      intros id' Hin. apply elem_of_cons in Hin as [->|Hin]; auto.
      destruct (Hmono id) as [?|E]; [done|]. by rewrite E.
Qed.

Lemma flush_added_spec ks s s' ms d :
  flush_added_ipsets ks s = (s', ms) →
  closed d →
  stream_ok d ms ∧ closed (apply_msgs d ms) ∧ w_kv (apply_msgs d ms) = w_kv d ∧
  (∀ id, w_sets (apply_msgs d ms) !! id =
         match i_added s !! id with Some _ => Some (md_get (i_addm s) id) | None => w_sets d !! id end) ∧
  i_removed s' = i_removed s ∧ i_remm s' = i_remm s ∧
  (∀ id, i_added s' !! id = None) ∧
  (∀ id, i_addm s' !! id = match i_added s !! id with Some _ => None | None => i_addm s !! id end) ∧
  (∀ id, id ∈ i_sent s' ↔ id ∈ i_sent s ∨ is_Some (i_added s !! id)).
Proof.
  unfold flush_added_ipsets. intros Hf Hcl.
  destruct (added_loop_spec _ _ _ _ _ Hf Hcl) as (Hok & Hcl' & Hkv & Hsets & Hrm & Hremm & Hmono & Hcand & Haddm & Hsent).
  assert (Hall : ∀ id, i_added s' !! id = None).
  { intros id. destruct (i_added s !! id) eqn:E.
    - apply Hcand. apply elem_of_app. right. apply elem_of_elements, elem_of_dom. eauto.
    - destruct (Hmono id) as [?|E']; [done|]. by rewrite E'. }
  split_and!; try done.
  - intros id. rewrite Hsets, Hall. by destruct (i_added s !! id).
  - intros id. rewrite Haddm, Hall. by destruct (i_added s !! id).
  - intros id. rewrite Hsent, Hall. split; [intros [?|[? _]]; auto|intros [?|?]; auto].
Qed.

(* ------------------------------------------------------------------ flushIPSetDeltas *)
Definition deltas_ok (s : ipst) (d : world) : Prop :=
  ∀ id, is_Some (i_addm s !! id) ∨ is_Some (i_remm s !! id) →
        ∃ M, w_sets d !! id = Some M ∧ md_get (i_addm s) id ## M ∧ md_get (i_remm s) id ⊆ M.

Lemma delta_loop_spec rem cands : ∀ s s' ms d,
  flush_delta_loop rem cands s = (s', ms) →
  closed d → deltas_ok s d →
  stream_ok d ms ∧ closed (apply_msgs d ms) ∧ w_kv (apply_msgs d ms) = w_kv d ∧
  i_added s' = i_added s ∧ i_removed s' = i_removed s ∧ i_sent s' = i_sent s ∧
  (∀ id, (i_addm s' !! id = None ∧ i_remm s' !! id = None) ∨
         (i_addm s' !! id = i_addm s !! id ∧ i_remm s' !! id = i_remm s !! id)) ∧
  (∀ id, id ∈ cands → (if rem then i_remm s' else i_addm s') !! id = None) ∧
  (∀ id, w_sets (apply_msgs d ms) !! id =
         match w_sets d !! id with
         | Some M => if decide (i_addm s' !! id = i_addm s !! id ∧ i_remm s' !! id = i_remm s !! id) then Some M
                     else Some ((M ∪ md_get (i_addm s) id) ∖ md_get (i_remm s) id)
         | None => None
         end).
Proof.
  induction cands as [|id rest IH]; intros s s' ms d Hf Hcl Hdok; simpl in Hf.
  - injection Hf as <- <-. simpl. split_and!; try done.
    + auto.
    + intros ? Hin. by apply elem_of_nil in Hin.
    + intros id. destruct (w_sets d !! id); [|done]. by rewrite decide_True.
  - destruct (bool_decide (is_Some ((if rem then i_remm s else i_addm s) !! id))) eqn:Hb.
    + apply bool_decide_eq_true in Hb.
      destruct (flush_delta_loop rem rest _) as [s2 ms2] eqn:Hrec. injection Hf as <- <-.
      set (s1 := {| i_added := i_added s; i_removed := i_removed s; i_addm := delete id (i_addm s);
                    i_remm := delete id (i_remm s); i_sent := i_sent s |}) in *.
      set (A := md_get (i_addm s) id). set (R := md_get (i_remm s) id).
      destruct (Hdok id) as (M & HM & HAM & HRM).
      { destruct rem; auto. }
      set (d1 := sets_set d (<[id := (M ∪ A) ∖ R]> (w_sets d))).
      assert (Hd1 : apply_msg d (MIPSetDelta id (elements A) (elements R)) = d1).
      { unfold d1, sets_set. simpl. by rewrite HM, !list_to_set_elements_L. }
      assert (Hcl1 : closed d1) by (by apply closed_sets_insert).
      assert (Hdok1 : deltas_ok s1 d1).
      { intros id' Hp. simpl in Hp. destruct (decide (id' = id)) as [->|Hne].
        - rewrite !lookup_delete in Hp. destruct Hp as [[? ?]|[? ?]]; done.
        - rewrite !lookup_delete_ne in Hp by done. destruct (Hdok id' Hp) as (M' & ? & ? & ?).
          exists M'. simpl. rewrite lookup_insert_ne by done. rewrite !md_get_delete, !decide_False by done. done. }
      destruct (IH s1 s2 ms2 d1 Hrec Hcl1 Hdok1) as (Hok & Hcl' & Hkv & Had & Hrm & Hse & Hmono & Hcand & Hsets).
      assert (Hnone : i_addm s2 !! id = None ∧ i_remm s2 !! id = None).
      { destruct (Hmono id) as [?|[E1 E2]]; [done|]. rewrite E1, E2. simpl. by rewrite !lookup_delete. }
      destruct Hnone as [Hn1 Hn2].
      rewrite apply_msgs_cons. cbn [stream_ok]. rewrite Hd1.
      split_and!; try done.
      * cbn [msg_ok]. rewrite HM. split_and!; try apply NoDup_elements.
        -- rewrite Forall_forall. intros x Hx. apply elem_of_elements in Hx. set_solver.
        -- rewrite Forall_forall. intros x Hx. apply elem_of_elements in Hx. set_solver.
      * intros id'. destruct (decide (id' = id)) as [->|Hne]; [auto|].
        destruct (Hmono id') as [?|[E1 E2]]; [auto|]. right. rewrite E1, E2. simpl. by rewrite !lookup_delete_ne.
      * intros id' Hin. apply elem_of_cons in Hin as [->|Hin]; [|auto]. by destruct rem.
      * intros id'. rewrite Hsets. simpl. destruct (decide (id' = id)) as [->|Hne].
        -- rewrite lookup_insert, HM, Hn1, Hn2, !lookup_delete. rewrite decide_True by done.
           rewrite decide_False; [done|]. intros [E1 E2]. destruct rem; destruct Hb; congruence.
        -- rewrite lookup_insert_ne, !lookup_delete_ne, !md_get_delete, !decide_False by done. done.
    + apply bool_decide_eq_false in Hb.
      destruct (IH s s' ms d Hf Hcl Hdok) as (Hok & Hcl' & Hkv & Had & Hrm & Hse & Hmono & Hcand & Hsets).
      split_and!; try done.
      intros id' Hin. apply elem_of_cons in Hin as [->|Hin]; [|auto].
      destruct (Hmono id) as [[? ?]|[E1 E2]]; [by destruct rem|].
      destruct rem; [rewrite E2|rewrite E1]; by apply eq_None_not_Some.
Qed.

Lemma flush_deltas_spec ks s s' ms d :
  flush_deltas ks s = (s', ms) →
  closed d → deltas_ok s d →
  stream_ok d ms ∧ closed (apply_msgs d ms) ∧ w_kv (apply_msgs d ms) = w_kv d ∧
  i_added s' = i_added s ∧ i_removed s' = i_removed s ∧ i_sent s' = i_sent s ∧
  (∀ id, i_addm s' !! id = None) ∧ (∀ id, i_remm s' !! id = None) ∧
  (∀ id, w_sets (apply_msgs d ms) !! id =
         match w_sets d !! id with
         | Some M => Some ((M ∪ md_get (i_addm s) id) ∖ md_get (i_remm s) id)
         | None => None
         end).
Proof.
  unfold flush_deltas. intros Hf Hcl Hdok.
  destruct (flush_delta_loop true _ s) as [s1 m1] eqn:E1.
  destruct (flush_delta_loop false _ s1) as [s2 m2] eqn:E2. injection Hf as <- <-.
  destruct (delta_loop_spec _ _ _ _ _ _ E1 Hcl Hdok) as (Hok1 & Hcl1 & Hkv1 & Had1 & Hrm1 & Hse1 & Hmono1 & Hcand1 & Hsets1).
  assert (Hr1 : ∀ id, i_remm s1 !! id = None).
  { intros id. destruct (i_remm s !! id) eqn:E.
    - apply (Hcand1 id). apply elem_of_app. right. unfold md_keys. apply elem_of_elements, elem_of_dom. eauto.
    - destruct (Hmono1 id) as [[_ ?]|[_ E']]; [done|]. by rewrite E'. }
  assert (Hdok1 : deltas_ok s1 (apply_msgs d m1)).
  { intros id Hp. rewrite Hr1 in Hp. destruct Hp as [Hp|[? ?]]; [|done].
    destruct (Hmono1 id) as [[Ea _]|[Ea Er]]; [rewrite Ea in Hp; by destruct Hp|].
    destruct (Hdok id) as (M & HM & HAM & HRM).
    { left. by rewrite <-Ea. }
    exists M. rewrite Hsets1, HM. rewrite decide_True by done. split; [done|].
    unfold md_get. rewrite Ea, Hr1. split; [done|]. set_solver. }
  destruct (delta_loop_spec _ _ _ _ _ _ E2 Hcl1 Hdok1) as (Hok2 & Hcl2 & Hkv2 & Had2 & Hrm2 & Hse2 & Hmono2 & Hcand2 & Hsets2).
  assert (Ha2 : ∀ id, i_addm s2 !! id = None).
  { intros id. destruct (i_addm s1 !! id) eqn:E.
    - apply (Hcand2 id). apply elem_of_app. right. unfold md_keys. apply elem_of_elements, elem_of_dom. eauto.
    - destruct (Hmono2 id) as [[? _]|[E' _]]; [done|]. by rewrite E'. }
  assert (Hr2 : ∀ id, i_remm s2 !! id = None).
  { intros id. destruct (Hmono2 id) as [[_ ?]|[_ E']]; [done|]. by rewrite E', Hr1. }
  rewrite apply_msgs_app.
  split_and!; try done; try congruence.
  - by apply stream_ok_app.
  - intros id. rewrite Hsets2, Hsets1. destruct (w_sets d !! id) as [M|] eqn:HM; [|done].
    pose proof (Ha2 id) as Ha2'. pose proof (Hr2 id) as Hr2'. pose proof (Hr1 id) as Hr1'.
    destruct (Hmono1 id) as [[Ea Er]|[Ea Er]].
    + destruct (decide (i_addm s1 !! id = i_addm s !! id ∧ i_remm s1 !! id = i_remm s !! id)) as [[H1a H1r]|H1].
      * rewrite decide_True by (split; congruence).
        f_equal. rewrite (md_get_None (i_addm s) id), (md_get_None (i_remm s) id) by congruence. set_solver.
      * rewrite decide_True by (split; congruence). done.
    + rewrite decide_True by done.
      destruct (decide (i_addm s2 !! id = i_addm s1 !! id ∧ i_remm s2 !! id = i_remm s1 !! id)) as [[H2a H2r]|H2].
      * f_equal. rewrite (md_get_None (i_addm s) id), (md_get_None (i_remm s) id) by congruence. set_solver.
      * f_equal. rewrite (md_get_None (i_remm s1) id), (md_get_None (i_remm s) id) by congruence.
        unfold md_get. rewrite Ea. done.
Qed.

(* ------------------------------------------------------------------ flushRemovedIPSets *)
Lemma removed_loop_spec cands : ∀ s s' ms d,
  flush_removed_loop cands s = (s', ms) →
  closed d →
  (∀ id, id ∈ i_removed s → is_Some (w_sets d !! id)) →
  (∀ id c' v', id ∈ i_removed s → w_kv d !! c' = Some v' → (KIPSet, id) ∉ v_refs v') →
  stream_ok d ms ∧ closed (apply_msgs d ms) ∧ w_kv (apply_msgs d ms) = w_kv d ∧
  i_added s' = i_added s ∧
  (∀ id, id ∈ i_removed s' → id ∈ i_removed s) ∧
  (∀ id, id ∈ cands → id ∉ i_removed s') ∧
  (∀ id, w_sets (apply_msgs d ms) !! id =
         if decide (id ∈ i_removed s ∧ id ∉ i_removed s') then None else w_sets d !! id) ∧
  (∀ id, i_addm s' !! id = if decide (id ∈ i_removed s ∧ id ∉ i_removed s') then None else i_addm s !! id) ∧
  (∀ id, i_remm s' !! id = if decide (id ∈ i_removed s ∧ id ∉ i_removed s') then None else i_remm s !! id) ∧
  (∀ id, id ∈ i_sent s' ↔ id ∈ i_sent s ∧ ¬ (id ∈ i_removed s ∧ id ∉ i_removed s')).
Proof.
  induction cands as [|id rest IH]; intros s s' ms d Hf Hcl Hex Hno; simpl in Hf.
  - injection Hf as <- <-. simpl. split_and!; try done.
    + intros ? Hin. by apply elem_of_nil in Hin.
    + intros id. rewrite decide_False; [done|tauto].
    + intros id. rewrite decide_False; [done|tauto].
    + intros id. rewrite decide_False; [done|tauto].
    + intros id. tauto.
  - destruct (bool_decide (id ∈ i_removed s)) eqn:Hb.
    + apply bool_decide_eq_true in Hb.
      destruct (flush_removed_loop rest _) as [s2 ms2] eqn:Hrec. injection Hf as <- <-.
      set (s1 := {| i_added := i_added s; i_removed := i_removed s ∖ {[id]};
                    i_addm := delete id (i_addm s); i_remm := delete id (i_remm s);
                    i_sent := i_sent s ∖ {[id]} |}) in *.
      set (d1 := sets_set d (delete id (w_sets d))).
      assert (Hcl1 : closed d1).
      { apply closed_sets_delete; [done|]. intros c' v' Hl. eapply Hno; eauto. }
      destruct (IH s1 s2 ms2 d1 Hrec Hcl1) as (Hok & Hcl' & Hkv & Had & Hsub & Hcand & Hsets & Haddm & Hremm & Hsent).
      { intros id' Hin. simpl in Hin. apply elem_of_difference in Hin as [Hin Hne].
        rewrite elem_of_singleton in Hne. simpl. rewrite lookup_delete_ne by done. auto. }
      { intros id' c' v' Hin Hl. simpl in Hin, Hl. apply elem_of_difference in Hin as [Hin _]. eauto. }
      assert (Hnin : id ∉ i_removed s2).
      { intros Hin. apply Hsub in Hin. simpl in Hin. apply elem_of_difference in Hin as [_ Hne].
        apply Hne. by apply elem_of_singleton. }
      assert (Hiff : ∀ id', id' ≠ id → (id' ∈ i_removed s1 ∧ id' ∉ i_removed s2) ↔ (id' ∈ i_removed s ∧ id' ∉ i_removed s2)).
      { intros id' Hne. simpl. rewrite elem_of_difference, elem_of_singleton. tauto. }
      assert (Hn1 : ¬ (id ∈ i_removed s1 ∧ id ∉ i_removed s2)).
      { simpl. rewrite elem_of_difference, elem_of_singleton. tauto. }
      simpl. change (apply_msg d (MIPSetRemove id)) with d1. fold (apply_msgs d1 ms2).
      split_and!; try done.
      * auto.
      * intros id' Hin. apply Hsub in Hin. simpl in Hin. by apply elem_of_difference in Hin as [? _].
      * intros id' Hin. apply elem_of_cons in Hin as [->|Hin]; auto.
      * intros id'. rewrite Hsets. destruct (decide (id' = id)) as [->|Hne].
        -- rewrite decide_False by done. rewrite decide_True by done. simpl. apply lookup_delete.
        -- simpl. rewrite lookup_delete_ne by done.
           destruct (decide (id' ∈ i_removed s ∖ {[id]} ∧ id' ∉ i_removed s2)) as [Hd|Hd];
             [rewrite decide_True; [done|by apply (Hiff id' Hne)]|rewrite decide_False; [done|]].
           intros Hd'. apply Hd. by apply (Hiff id' Hne).
      * intros id'. rewrite Haddm. destruct (decide (id' = id)) as [->|Hne].
        -- rewrite decide_False by done. rewrite decide_True by done. simpl. apply lookup_delete.
        -- simpl. rewrite lookup_delete_ne by done.
           destruct (decide (id' ∈ i_removed s ∖ {[id]} ∧ id' ∉ i_removed s2)) as [Hd|Hd];
             [rewrite decide_True; [done|by apply (Hiff id' Hne)]|rewrite decide_False; [done|]].
           intros Hd'. apply Hd. by apply (Hiff id' Hne).
      * intros id'. rewrite Hremm. destruct (decide (id' = id)) as [->|Hne].
        -- rewrite decide_False by done. rewrite decide_True by done. simpl. apply lookup_delete.
        -- simpl. rewrite lookup_delete_ne by done.
           destruct (decide (id' ∈ i_removed s ∖ {[id]} ∧ id' ∉ i_removed s2)) as [Hd|Hd];
             [rewrite decide_True; [done|by apply (Hiff id' Hne)]|rewrite decide_False; [done|]].
           intros Hd'. apply Hd. by apply (Hiff id' Hne).
      * intros id'. rewrite Hsent. simpl. rewrite !elem_of_difference, !elem_of_singleton.
        destruct (decide (id' = id)) as [->|Hne]; tauto.
    + apply bool_decide_eq_false in Hb.
      destruct (IH s s' ms d Hf Hcl Hex Hno) as (Hok & Hcl' & Hkv & Had & Hsub & Hcand & Hsets & Haddm & Hremm & Hsent).
      split_and!; try done.
      intros id' Hin. apply elem_of_cons in Hin as [->|Hin]; auto.
Qed.

Lemma flush_removed_spec ks s s' ms d :
  flush_removed_ipsets ks s = (s', ms) →
  closed d →
  (∀ id, id ∈ i_removed s → is_Some (w_sets d !! id)) →
  (∀ id c' v', id ∈ i_removed s → w_kv d !! c' = Some v' → (KIPSet, id) ∉ v_refs v') →
  stream_ok d ms ∧ closed (apply_msgs d ms) ∧ w_kv (apply_msgs d ms) = w_kv d ∧
  i_added s' = i_added s ∧
  (∀ id, id ∉ i_removed s') ∧
  (∀ id, w_sets (apply_msgs d ms) !! id = if decide (id ∈ i_removed s) then None else w_sets d !! id) ∧
  (∀ id, i_addm s' !! id = if decide (id ∈ i_removed s) then None else i_addm s !! id) ∧
  (∀ id, i_remm s' !! id = if decide (id ∈ i_removed s) then None else i_remm s !! id) ∧
  (∀ id, id ∈ i_sent s' ↔ id ∈ i_sent s ∧ id ∉ i_removed s).
Proof.
  unfold flush_removed_ipsets. intros Hf Hcl Hex Hno.
  destruct (removed_loop_spec _ _ _ _ _ Hf Hcl Hex Hno) as (Hok & Hcl' & Hkv & Had & Hsub & Hcand & Hsets & Haddm & Hremm & Hsent).
  assert (Hall : ∀ id, id ∉ i_removed s').
  { intros id Hin. apply (Hcand id); [|done]. apply elem_of_app. right. apply elem_of_elements. auto. }
  assert (Hiff : ∀ id, (id ∈ i_removed s ∧ id ∉ i_removed s') ↔ id ∈ i_removed s).
  { intros id. specialize (Hall id). tauto. }
  split_and!; try done.
  - intros id. rewrite Hsets. destruct (decide (id ∈ i_removed s)); [rewrite decide_True|rewrite decide_False]; try done; by rewrite Hiff.
  - intros id. rewrite Haddm. destruct (decide (id ∈ i_removed s)); [rewrite decide_True|rewrite decide_False]; try done; by rewrite Hiff.
  - intros id. rewrite Hremm. destruct (decide (id ∈ i_removed s)); [rewrite decide_True|rewrite decide_False]; try done; by rewrite Hiff.
  - intros id. rewrite Hsent, Hiff. done.
Qed.
