(* C02 — proofs, part 7: the AsyncCalcGraph loop forwards in-sync only after the input in-sync. *)
From stdpp Require Import gmap.
From Verif.C02 Require Import Model Spec.
Local Open Scope N_scope.

Definition no_insync (ms : list msg) : Prop := Forall (λ m, m ≠ MInSync) ms.

Lemma added_loop_ni cands : ∀ s, no_insync (flush_added_loop cands s).2.
Proof.
  induction cands as [|id r IH]; intros s; simpl; [constructor|].
  destruct (i_added s !! id); [|apply IH].
  match goal with |- context [flush_added_loop r ?s1] => specialize (IH s1); destruct (flush_added_loop r s1) end.
  simpl in *. by constructor.
Qed.
Lemma delta_loop_ni rem cands : ∀ s, no_insync (flush_delta_loop rem cands s).2.
Proof.
  induction cands as [|id r IH]; intros s; simpl; [constructor|].
  destruct (bool_decide _); [|apply IH].
  match goal with |- context [flush_delta_loop rem r ?s1] => specialize (IH s1); destruct (flush_delta_loop rem r s1) end.
  simpl in *. by constructor.
Qed.
Lemma removed_loop_ni cands : ∀ s, no_insync (flush_removed_loop cands s).2.
Proof.
  induction cands as [|id r IH]; intros s; simpl; [constructor|].
  destruct (bool_decide _); [|apply IH].
  match goal with |- context [flush_removed_loop r ?s1] => specialize (IH s1); destruct (flush_removed_loop r s1) end.
  simpl in *. by constructor.
Qed.
Lemma upd_loop_ni K cands : ∀ s, no_insync (flush_upd_loop K cands s).2.
Proof.
  induction cands as [|id r IH]; intros s; simpl; [constructor|].
  destruct (k_pu s !! (K, id)); [|apply IH].
  match goal with |- context [flush_upd_loop K r ?s1] => specialize (IH s1); destruct (flush_upd_loop K r s1) end.
  simpl in *. by constructor.
Qed.
Lemma del_loop_ni K cands : ∀ s, no_insync (flush_del_loop K cands s).2.
Proof.
  induction cands as [|id r IH]; intros s; simpl; [constructor|].
  destruct (bool_decide _); [|apply IH].
  match goal with |- context [flush_del_loop K r ?s1] => specialize (IH s1); destruct (flush_del_loop K r s1) end.
  simpl in *. by constructor.
Qed.

Lemma run_phase_ni o p s : no_insync (run_phase o p s).2.
Proof.
  destruct p; simpl.
  - unfold flush_added_ipsets. pose proof (added_loop_ni (sel TIPSetUpdate o ++ elements (dom (i_added (q_ip s)))) (q_ip s)) as H.
    by destruct (flush_added_loop _ _).
  - unfold flush_deltas.
    pose proof (delta_loop_ni true (sel TIPSetDelta o ++ md_keys (i_remm (q_ip s))) (q_ip s)) as H1.
    destruct (flush_delta_loop true _ _) as [s1 m1].
    pose proof (delta_loop_ni false (sel TIPSetDelta o ++ md_keys (i_addm s1)) s1) as H2.
    destruct (flush_delta_loop false _ _) as [s2 m2]. simpl in *. by apply Forall_app.
  - unfold flush_removed_ipsets. pose proof (removed_loop_ni (sel TIPSetRemove o ++ elements (i_removed (q_ip s))) (q_ip s)) as H.
    by destruct (flush_removed_loop _ _).
  - unfold flush_updates. pose proof (upd_loop_ni K (sel (TUpd K) o ++ kind_ids K (dom (k_pu (q_kv s)))) (q_kv s)) as H.
    by destruct (flush_upd_loop _ _ _).
  - unfold flush_deletes. pose proof (del_loop_ni K (sel (TRem K) o ++ kind_ids K (k_pd (q_kv s))) (q_kv s)) as H.
    by destruct (flush_del_loop _ _ _).
Qed.

Lemma run_phases_ni o ps : ∀ s, no_insync (run_phases o ps s).2.
Proof.
  induction ps as [|p ps IH]; intros s; simpl; [constructor|].
  pose proof (run_phase_ni o p s) as H1. destruct (run_phase o p s) as [s1 m1].
  specialize (IH s1). destruct (run_phases o ps s1) as [s2 m2]. simpl in *. by apply Forall_app.
Qed.

Lemma maybe_flush_ni late o a :
  a_need_insync a = false →
  no_insync (maybe_flush late o a).2 ∧ a_need_insync (maybe_flush late o a).1 = false.
Proof.
  intros Hn. unfold maybe_flush. destruct (negb (a_dirty a)); [split; [constructor|done]|].
  destruct (a_bucket a); [split; [constructor|done]|].
  pose proof (run_phases_ni o (phases late) (a_seq a)) as H. unfold flush_gen.
  destruct (run_phases o (phases late) (a_seq a)) as [s' ms]. simpl in *. rewrite Hn, app_nil_r. done.
Qed.

(* no in-sync on the output as long as no in-sync arrived on the input *)
Lemma loop_insync late : ∀ h a a' ms,
  a_need_insync a = false →
  (∀ e o, (e, o) ∈ h → e ≠ LStatus true) →
  loop_run late a h = Some (a', ms) → no_insync ms.
Proof.
  induction h as [|[e o] h IH]; intros a a' ms Hn Hno Hr; simpl in Hr.
  - injection Hr as <- <-. constructor.
  - destruct (loop_step late a e o) as [[a1 m1]|] eqn:E1; [|done]. simpl in Hr.
    destruct (loop_run late a1 h) as [[a2 m2]|] eqn:E2; [|done]. simpl in Hr. injection Hr as <- <-.
    unfold loop_step in E1.
    assert (∃ a0, a_need_insync a0 = false ∧ (a1, m1) = maybe_flush late o a0) as (a0 & Hn0 & Em).
    { destruct e as [cbs|st| |]; simpl in E1.
      - destruct (on_cbs cbs (a_seq a)); [|done]. simpl in E1. injection E1 as E1. eexists. split; [|done]. done.
      - destruct st.
        + exfalso. eapply (Hno (LStatus true) o); [apply elem_of_cons; left; reflexivity|done].
        + simpl in E1. injection E1 as E1. eexists. split; [|done]. done.
      - injection E1 as E1. eexists. split; [|done]. done.
      - injection E1 as E1. eexists. split; [|done]. done. }
    destruct (maybe_flush_ni late o a0 Hn0) as [H1 H2]. rewrite <-Em in H1, H2. simpl in *.
    apply Forall_app. split; [done|]. eapply IH; [exact H2| |exact E2].
    intros e' o' Hin. apply (Hno e' o'). apply elem_of_cons. auto.
Qed.

Lemma insync_not_early late h a ms :
  (∀ e o, (e, o) ∈ h → e ≠ LStatus true) → loop_run late ast0 h = Some (a, ms) → MInSync ∉ ms.
Proof.
  intros Hno Hr Hin. pose proof (loop_insync late h ast0 a ms eq_refl Hno Hr) as H.
  unfold no_insync in H. rewrite Forall_forall in H. by apply (H _ Hin).
Qed.

(* ------------------------------------------------------------------ the loop's whole output stream *)
(* The loop decides by itself when to flush (dirty flag, leaky bucket), so the contract has to hold after every
   update batch: callbacks inside cb_ok, and the upstream world reference-closed at the end of each batch. *)
From Verif.C02 Require Import ProofsKV ProofsMain ProofsCb Proofs.

Fixpoint cbs_ok (w : world) (cbs : list cb) : Prop :=
  match cbs with [] => True | e :: r => cb_ok w e ∧ cbs_ok (apply_cb w e) r end.
Fixpoint loop_contract (up : world) (h : list (lev * list (tag * N))) : Prop :=
  match h with
  | [] => True
  | (LUpdates cbs, _) :: r => cbs_ok up cbs ∧ closed (apply_cbs up cbs) ∧ loop_contract (apply_cbs up cbs) r
  | _ :: r => loop_contract up r
  end.

Lemma on_cbs_ok cbs : ∀ s up dp,
  Sync s up dp → cbs_ok up cbs → ∃ s', on_cbs cbs s = Some s' ∧ Sync s' (apply_cbs up cbs) dp.
Proof.
  induction cbs as [|e r IH]; intros s up dp HS Hok; simpl in *; [eauto|].
  destruct Hok as [He Hr]. destruct (cb_step _ _ _ _ HS He) as (s1 & -> & HS1). simpl. eauto.
Qed.

Lemma maybe_flush_ok o a up dp :
  Sync (a_seq a) up dp → closed up →
  let '(a', ms) := maybe_flush true o a in
  stream_ok dp ms ∧ ∃ dp', Sync (a_seq a') up dp' ∧ apply_msgs dp ms = dp'.
Proof.
  intros HS Hcl. unfold maybe_flush. destruct (negb (a_dirty a)); [simpl; eauto|].
  destruct (a_bucket a); [simpl; eauto|].
  destruct (flush_gen true o (a_seq a)) as [s' ms] eqn:Ef.
  destruct (flush_ok true o _ _ _ _ _ HS Hcl ltac:(done) Ef) as (Hok & Hd & HS').
  simpl. split.
  - apply stream_ok_app; [done|]. rewrite Hd. destruct (a_need_insync a); simpl; [|done].
    split_and!; done.
  - exists up. split; [done|]. rewrite apply_msgs_app, Hd. by destruct (a_need_insync a).
Qed.

Lemma loop_ok : ∀ h a up dp,
  Sync (a_seq a) up dp → closed up → loop_contract up h →
  ∃ a' ms, loop_run true a h = Some (a', ms) ∧ stream_ok dp ms.
Proof.
  induction h as [|[e o] h IH]; intros a up dp HS Hcl Hc; simpl in *; [by exists a, []|].
  assert (Hstep : ∃ a1 up1, loop_contract up1 h ∧ closed up1 ∧ Sync (a_seq a1) up1 dp ∧
            loop_step true a e o = Some (maybe_flush true o a1)).
  { unfold loop_step. destruct e as [cbs|st| |]; simpl.
    - destruct Hc as (Hok & Hcl1 & Hc). destruct (on_cbs_ok _ _ _ _ HS Hok) as (s1 & -> & HS1). simpl.
      eexists _, _. split_and!; [exact Hc|exact Hcl1| |simpl; reflexivity]; done.
    - destruct (st && negb (a_sync_done a)); eexists _, up; (split_and!; [done|done| |simpl; reflexivity]; done).
    - eexists _, up. split_and!; [done|done| |simpl; reflexivity]; done.
    - eexists a, up. by split_and!. }
  destruct Hstep as (a1 & up1 & Hc1 & Hcl1 & HS1 & ->).
  pose proof (maybe_flush_ok o a1 up1 dp HS1 Hcl1) as Hmf.
  destruct (maybe_flush true o a1) as [a2 m1]. destruct Hmf as (Hok1 & dp' & HS2 & Hd). simpl.
  destruct (IH a2 up1 dp' HS2 Hcl1 Hc1) as (a' & ms & -> & Hok2). simpl.
  exists a', (m1 ++ ms). split; [done|]. apply stream_ok_app; [done|]. by rewrite Hd.
Qed.

Lemma loop_stream_ok h a ms :
  loop_contract world0 h → loop_run true ast0 h = Some (a, ms) → stream_ok world0 ms.
Proof.
  intros Hc Hr. destruct (loop_ok h ast0 world0 world0 Sync0 ltac:(apply map_Forall_empty) Hc) as (a' & ms' & Hr' & Hok).
  rewrite Hr in Hr'. by injection Hr' as <- <-.
Qed.
Lemma loop_no_panic h : loop_contract world0 h → is_Some (loop_run true ast0 h).
Proof.
  intros Hc. destruct (loop_ok h ast0 world0 world0 Sync0 ltac:(apply map_Forall_empty) Hc) as (a' & ms' & Hr' & _).
  rewrite Hr'. eauto.
Qed.
