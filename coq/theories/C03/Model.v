(* C03 — executable model of felix/calc/policy_sorter.go (PolicySorter, TierLess, PolKVLess,
   ExtractPolicyMetadata), felix/calc/policy_resolver.go (PolicyResolver) and the conversion
   tierInfoToProtoTierInfo / addPolicyToTierInfo of felix/calc/event_sequencer.go.

   Conventions
   * strings are `bytes` (Common/Labels.v), Go `<` on strings is `bytes_ltb`;
   * float64 orders are modelled as `option Z` (None = unset; for policies Go stores +Inf for unset, for
     tiers a nil pointer).  Only comparisons are ever made on orders; NaN and explicit +-Inf are excluded
     (validated upstream, JSON cannot carry them); the driver scales the orders it uses to integers;
   * a google/btree is modelled as a list kept sorted by the tree's `less`; ReplaceOrInsert / Delete
     locate their argument with `less` exactly like the tree's search does (`bt_insert` / `bt_delete`);
   * Go maps are association lists; wherever Go iterates a map the model iterates the list, and the one
     place where the iteration order is chosen by the runtime and could matter (pendingPolicyUpdates in
     Flush) takes the order as an explicit argument of the `Flush` operation;
   * two variants of the code are modelled, selected by `variant`:
       v_fixed   = false : OnPolicyMatchStopped as pinned;
                   true  : with fixes/C03-discard-pending-on-last-match-stopped.patch
       v_lexname = false : PolKVLess breaks ties on the string "name/namespace/kind" (pinned);
                   true  : tie-break on name, then namespace, then kind.
       v_resetact = false: deleting a tier that policies still name keeps the entry's DefaultAction (pinned);
                   true  : with fixes/C01-deleted-tier-resets-default-action.patch it is reset to "".
   No proofs in this file. *)
From Coq Require Import List NArith ZArith Bool.
From Verif.Common Require Import Labels.
Import ListNotations.

Record variant := mkVariant3 { v_fixed : bool; v_lexname : bool; v_resetact : bool }.
(* the two-flag form used by the witnesses: tier deletion as pinned (keeps the default action) *)
Definition mkVariant (fx lx : bool) : variant := mkVariant3 fx lx false.

(* ------------------------------------------------------------------ keys, orders, metadata *)

Definition pkey := (bytes * bytes * bytes)%type.      (* model.PolicyKey: Name, Namespace, Kind *)
Definition pk_name (k : pkey) : bytes := fst (fst k).
Definition pk_ns (k : pkey) : bytes := snd (fst k).
Definition pk_kind (k : pkey) : bytes := snd k.
Definition pkey_eqb (a b : pkey) : bool :=
  bytes_eqb (pk_name a) (pk_name b) && bytes_eqb (pk_ns a) (pk_ns b) && bytes_eqb (pk_kind a) (pk_kind b).

Definition epkey := N.                                 (* model.EndpointKey, numbered by the driver *)

Definition order := option Z.
Definition order_eqb (a b : order) : bool :=
  match a, b with
  | None, None => true
  | Some x, Some y => Z.eqb x y
  | _, _ => false
  end.
(* `<` with unset = +Inf *)
Definition order_ltb (a b : order) : bool :=
  match a, b with
  | Some x, Some y => Z.ltb x y
  | Some _, None => true
  | None, _ => false
  end.

(* policyMetadata: Order, Flags (DoNotTrack, PreDNAT, ApplyOnForward, Ingress, Egress), Tier *)
Record meta := mkMeta { m_order : order; m_dnt : bool; m_pre : bool; m_aof : bool;
                        m_in : bool; m_eg : bool; m_tier : bytes }.
Definition meta_eqb (a b : meta) : bool :=
  order_eqb (m_order a) (m_order b) && Bool.eqb (m_dnt a) (m_dnt b) && Bool.eqb (m_pre a) (m_pre b)
  && Bool.eqb (m_aof a) (m_aof b) && Bool.eqb (m_in a) (m_in b) && Bool.eqb (m_eg a) (m_eg b)
  && bytes_eqb (m_tier a) (m_tier b).

(* the part of model.Policy the resolver looks at; Types already folded to lower case by the driver
   (strings.EqualFold): TIn = "ingress", TEg = "egress", TOther = anything else *)
Inductive ptype := TIn | TEg | TOther.
Record polval := mkPol { pv_tier : bytes; pv_order : order; pv_dnt : bool; pv_pre : bool; pv_aof : bool;
                         pv_types : list ptype }.

Definition default_tier : bytes := [100; 101; 102; 97; 117; 108; 116]%N.   (* "default" *)

Definition is_in (t : ptype) : bool := match t with TIn => true | _ => false end.
Definition is_eg (t : ptype) : bool := match t with TEg => true | _ => false end.

(* ExtractPolicyMetadata *)
Definition extract_meta (p : polval) : meta :=
  let tier := match pv_tier p with [] => default_tier | t => t end in
  let none := match pv_types p with [] => true | _ => false end in
  mkMeta (pv_order p) (pv_dnt p) (pv_pre p) (pv_aof p)
         (none || existsb is_in (pv_types p)) (none || existsb is_eg (pv_types p)) tier.

Definition polkv := (pkey * meta)%type.                (* PolKV *)

Definition slash : N := 47%N.
Definition keystr (k : pkey) : bytes := pk_name k ++ slash :: pk_ns k ++ slash :: pk_kind k.
Definition key_ltb_str (a b : pkey) : bool := bytes_ltb (keystr a) (keystr b).
Definition key_ltb_lex (a b : pkey) : bool :=
  bytes_ltb (pk_name a) (pk_name b)
  || (bytes_eqb (pk_name a) (pk_name b)
      && (bytes_ltb (pk_ns a) (pk_ns b)
          || (bytes_eqb (pk_ns a) (pk_ns b) && bytes_ltb (pk_kind a) (pk_kind b)))).
Definition key_ltb (v : variant) : pkey -> pkey -> bool :=
  if v_lexname v then key_ltb_lex else key_ltb_str.

(* PolKVLess *)
Definition polkv_less (v : variant) (i j : polkv) : bool :=
  if order_eqb (m_order (snd i)) (m_order (snd j)) then key_ltb v (fst i) (fst j)
  else order_ltb (m_order (snd i)) (m_order (snd j)).

(* tierInfoKey *)
Record tkey := mkTKey { tk_name : bytes; tk_valid : bool; tk_order : order }.

(* TierLess *)
Definition tier_less (i j : tkey) : bool :=
  if negb (tk_valid i) && tk_valid j then false
  else if tk_valid i && negb (tk_valid j) then true
  else match tk_order i, tk_order j with
       | None, Some _ => false
       | Some _, None => true
       | None, None => bytes_ltb (tk_name i) (tk_name j)
       | Some a, Some b => if Z.eqb a b then bytes_ltb (tk_name i) (tk_name j) else Z.ltb a b
       end.

(* ------------------------------------------------------------------ btree as a sorted list *)

Section BT.
  Context {A : Type} (less : A -> A -> bool).
  (* ReplaceOrInsert *)
  Fixpoint bt_insert (x : A) (l : list A) : list A :=
    match l with
    | [] => [x]
    | y :: l' => if less y x then y :: bt_insert x l'
                 else if less x y then x :: l
                 else x :: l'
    end.
  (* Delete: removes the item equivalent to x (neither less than the other), if the search finds it *)
  Fixpoint bt_delete (x : A) (l : list A) : list A :=
    match l with
    | [] => []
    | y :: l' => if less y x then y :: bt_delete x l'
                 else if less x y then l
                 else l'
    end.
End BT.

(* ------------------------------------------------------------------ association lists (Go maps) *)

Section AL.
  Context {K V : Type} (keqb : K -> K -> bool).
  Fixpoint alookup (k : K) (l : list (K * V)) : option V :=
    match l with
    | [] => None
    | (k', x) :: l' => if keqb k k' then Some x else alookup k l'
    end.
  Fixpoint adel (k : K) (l : list (K * V)) : list (K * V) :=
    match l with
    | [] => []
    | (k', x) :: l' => if keqb k k' then adel k l' else (k', x) :: adel k l'
    end.
  Definition aset (k : K) (x : V) (l : list (K * V)) : list (K * V) := (k, x) :: adel k l.
End AL.

(* ------------------------------------------------------------------ PolicySorter *)

(* TierInfo: Name, Valid, Order, DefaultAction, Policies (map), SortedPolicies (btree) *)
Record tinfo := mkTI { ti_name : bytes; ti_valid : bool; ti_order : order; ti_action : N;
                       ti_pols : list (pkey * meta); ti_sorted : list polkv }.
Record sorter := mkSorter { so_tiers : list (bytes * tinfo); so_sorted : list tkey }.

Definition new_sorter : sorter := mkSorter [] [].
Definition new_tinfo (name : bytes) : tinfo := mkTI name false None 0%N [] [].
Definition tkey_of (t : tinfo) : tkey := mkTKey (ti_name t) (ti_valid t) (ti_order t).

Definition has_key (k : pkey) (t : tinfo) : bool :=
  match alookup pkey_eqb k (ti_pols t) with Some _ => true | None => false end.

(* HasPolicy *)
Definition has_policy (s : sorter) (k : pkey) : bool := existsb (fun nt => has_key k (snd nt)) (so_tiers s).

(* tierForPolicy(key, nil): the tier (in map iteration order) holding the key *)
Definition tier_holding (s : sorter) (k : pkey) : option tinfo :=
  match find (fun nt => has_key k (snd nt)) (so_tiers s) with Some nt => Some (snd nt) | None => None end.

(* tier value from the datastore: Order, DefaultAction (code chosen by the driver) *)
Record tierval := mkTier { tv_order : order; tv_action : N }.

(* OnUpdate for a model.TierKey *)
Definition sorter_tier_update (v : variant) (s : sorter) (name : bytes) (val : option tierval) : sorter :=
  match val with
  | Some tv =>
      match alookup bytes_eqb name (so_tiers s) with
      | None =>
          let t := mkTI name true (tv_order tv) (tv_action tv) [] [] in
          mkSorter (aset bytes_eqb name t (so_tiers s)) (bt_insert tier_less (tkey_of t) (so_sorted s))
      | Some old =>
          let t := mkTI (ti_name old) true (tv_order tv) (tv_action tv) (ti_pols old) (ti_sorted old) in
          mkSorter (aset bytes_eqb name t (so_tiers s))
                   (bt_insert tier_less (tkey_of t) (bt_delete tier_less (tkey_of old) (so_sorted s)))
      end
  | None =>
      match alookup bytes_eqb name (so_tiers s) with
      | None => s
      | Some old =>
          let srt := bt_delete tier_less (tkey_of old) (so_sorted s) in
          let t := mkTI (ti_name old) false None (if v_resetact v then 0%N else ti_action old)
                        (ti_pols old) (ti_sorted old) in
          match ti_pols old with
          | [] => mkSorter (adel bytes_eqb name (so_tiers s)) srt
          | _ => mkSorter (aset bytes_eqb name t (so_tiers s)) (bt_insert tier_less (tkey_of t) srt)
          end
      end
  end.

(* remove key k (stored with metadata om) from tier t of the sorter; drop the tier when it becomes an
   empty invalid one *)
Definition remove_from_tier (v : variant) (s : sorter) (t : tinfo) (k : pkey) (om : meta) : sorter :=
  let t' := mkTI (ti_name t) (ti_valid t) (ti_order t) (ti_action t)
                 (adel pkey_eqb k (ti_pols t)) (bt_delete (polkv_less v) (k, om) (ti_sorted t)) in
  match ti_pols t', ti_valid t' with
  | [], false => mkSorter (adel bytes_eqb (ti_name t) (so_tiers s)) (bt_delete tier_less (tkey_of t) (so_sorted s))
  | _, _ => mkSorter (aset bytes_eqb (ti_name t) t' (so_tiers s)) (so_sorted s)
  end.

(* the tier a policy goes to, created as an invalid placeholder (NewTierInfo) if it is unknown *)
Definition ensure_tier (s : sorter) (tname : bytes) : sorter * tinfo :=
  match alookup bytes_eqb tname (so_tiers s) with
  | Some t => (s, t)
  | None => let t := new_tinfo tname in
            (mkSorter (aset bytes_eqb tname t (so_tiers s)) (bt_insert tier_less (tkey_of t) (so_sorted s)), t)
  end.

(* store (k, m) in tier t: delete the old tree entry first, then ReplaceOrInsert; second result = "changed" *)
Definition put_in_tier (v : variant) (s : sorter) (tname : bytes) (t : tinfo) (k : pkey) (m : meta) : sorter * bool :=
  let oldp := alookup pkey_eqb k (ti_pols t) in
  let d2 := match oldp with Some om => negb (meta_eqb om m) | None => true end in
  let sorted1 := match oldp with Some om => bt_delete (polkv_less v) (k, om) (ti_sorted t) | None => ti_sorted t end in
  let t' := mkTI (ti_name t) (ti_valid t) (ti_order t) (ti_action t)
                 (aset pkey_eqb k m (ti_pols t)) (bt_insert (polkv_less v) (k, m) sorted1) in
  (mkSorter (aset bytes_eqb tname t' (so_tiers s)) (so_sorted s), d2).

(* tier changed: remove from the old tier first *)
Definition leave_old_tier (v : variant) (s : sorter) (k : pkey) (tname : bytes) : sorter * bool :=
  match tier_holding s k with
  | Some ot =>
      if bytes_eqb (ti_name ot) tname then (s, false)
      else match alookup pkey_eqb k (ti_pols ot) with
           | Some om => (remove_from_tier v s ot k om, true)
           | None => (s, true)
           end
  | None => (s, false)
  end.

(* UpdatePolicy(key, newPolicy); returns the new sorter and the `dirty` result *)
Definition sorter_update_policy (v : variant) (s : sorter) (k : pkey) (nm : option meta) : sorter * bool :=
  match nm with
  | Some m =>
      let '(s1, d1) := leave_old_tier v s k (m_tier m) in
      let '(s2, t) := ensure_tier s1 (m_tier m) in
      let '(s3, d2) := put_in_tier v s2 (m_tier m) t k m in
      (s3, d1 || d2)
  | None =>
      match tier_holding s k with
      | Some ot =>
          match alookup pkey_eqb k (ti_pols ot) with
          | Some om => (remove_from_tier v s ot k om, true)
          | None => (s, false)
          end
      | None => (s, false)
      end
  end.

(* Sorted(): tiers in tree order, each with its policies in tree order.  A tier key without map entry
   makes the Go code panic; the model skips it (the invariant proved in Proofs.v excludes it). *)
Definition sorter_sorted (s : sorter) : list tinfo :=
  flat_map (fun tk => match alookup bytes_eqb (tk_name tk) (so_tiers s) with Some t => [t] | None => [] end)
           (so_sorted s).

(* ------------------------------------------------------------------ PolicyResolver *)

Record st := mkSt {
  p2e : list (pkey * epkey);          (* policyIDToEndpointIDs *)
  e2p : list (epkey * pkey);          (* endpointIDToPolicyIDs *)
  allpol : list (pkey * meta);        (* allPolicies *)
  eps : list epkey;                   (* endpoints (existence only) *)
  dirty : list epkey;                 (* dirtyEndpoints *)
  pending : list pkey;                (* pendingPolicyUpdates *)
  srt : sorter;                       (* policySorter *)
  insync : bool }.                    (* InitialSyncCompleted *)

Definition st0 : st := mkSt [] [] [] [] [] [] new_sorter false.

Inductive op :=
| MatchStart (p : pkey) (e : epkey)          (* OnPolicyMatch *)
| MatchStop (p : pkey) (e : epkey)           (* OnPolicyMatchStopped *)
| PolUpd (p : pkey) (val : option polval)    (* OnUpdate, model.PolicyKey *)
| TierUpd (name : bytes) (val : option tierval)  (* OnUpdate, model.TierKey *)
| EpUpd (e : epkey) (present : bool)         (* OnUpdate, endpoint key *)
| InSync                                     (* OnDatamodelStatus(InSync) *)
| Flush (ord : list pkey).                   (* Flush; ord = iteration order of the pending set *)

(* set.Set / multidict helpers *)
Definition ep_mem (e : epkey) (l : list epkey) : bool := existsb (N.eqb e) l.
Definition ep_add (e : epkey) (l : list epkey) : list epkey := if ep_mem e l then l else l ++ [e].
Definition pk_mem (k : pkey) (l : list pkey) : bool := existsb (pkey_eqb k) l.
Definition pk_add (k : pkey) (l : list pkey) : list pkey := if pk_mem k l then l else l ++ [k].
Definition pk_del (k : pkey) (l : list pkey) : list pkey := filter (fun x => negb (pkey_eqb k x)) l.

Definition pe_eqb (a b : pkey * epkey) : bool := pkey_eqb (fst a) (fst b) && N.eqb (snd a) (snd b).
Definition ep_eqb (a b : epkey * pkey) : bool := N.eqb (fst a) (fst b) && pkey_eqb (snd a) (snd b).
Definition md_put {A} (eqb : A -> A -> bool) (x : A) (l : list A) : list A := if existsb (eqb x) l then l else l ++ [x].
Definition md_discard {A} (eqb : A -> A -> bool) (x : A) (l : list A) : list A := filter (fun y => negb (eqb x y)) l.
Definition p2e_has_key (k : pkey) (l : list (pkey * epkey)) : bool := existsb (fun pe => pkey_eqb k (fst pe)) l.

Definition ep_add_all (es : list epkey) (l : list epkey) : list epkey := fold_left (fun acc e => ep_add e acc) es l.

(* what OnEndpointTierUpdate receives *)
Record tout := mkTout { to_name : bytes; to_order : order; to_action : N; to_pols : list polkv }.
Definition epout := (epkey * option (list tout))%type.   (* None: endpoint unknown, "remove" update *)

(* sendEndpointUpdate *)
Definition endpoint_tiers (s : st) (sorted : list tinfo) (e : epkey) : list tout :=
  flat_map (fun t =>
              match filter (fun kv => existsb (ep_eqb (e, fst kv)) (e2p s)) (ti_sorted t) with
              | [] => []
              | ps => [mkTout (ti_name t) (ti_order t) (ti_action t) ps]
              end) sorted.
Definition send_endpoint_update (s : st) (sorted : list tinfo) (e : epkey) : epout :=
  if ep_mem e (eps s) then (e, Some (endpoint_tiers s sorted e)) else (e, None).

(* Flush's loop over pendingPolicyUpdates: the keys named by `ord` are visited first (in that order),
   then whatever is still pending; a key that is (no longer) pending is skipped, a key without metadata
   stays pending. *)
Definition flush_one (v : variant) (s : st) (k : pkey) : st :=
  if pk_mem k (pending s) then
    match alookup pkey_eqb k (allpol s) with
    | None => s
    | Some m => mkSt (p2e s) (e2p s) (allpol s) (eps s) (dirty s) (pk_del k (pending s))
                     (fst (sorter_update_policy v (srt s) k (Some m))) (insync s)
    end
  else s.
Definition flush_pending (v : variant) (s : st) (ord : list pkey) : st :=
  fold_left (flush_one v) (ord ++ pending s) s.

Definition step (v : variant) (s : st) (o : op) : st * list epout :=
  match o with
  | MatchStart p e =>
      let pend := if has_policy (srt s) p then pending s else pk_add p (pending s) in
      (mkSt (md_put pe_eqb (p, e) (p2e s)) (md_put ep_eqb (e, p) (e2p s)) (allpol s) (eps s)
            (ep_add e (dirty s)) pend (srt s) (insync s), [])
  | MatchStop p e =>
      let p2e' := md_discard pe_eqb (p, e) (p2e s) in
      let last := negb (p2e_has_key p p2e') in
      let srt' := if last then fst (sorter_update_policy v (srt s) p None) else srt s in
      let pend := if last && v_fixed v then pk_del p (pending s) else pending s in
      (mkSt p2e' (md_discard ep_eqb (e, p) (e2p s)) (allpol s) (eps s)
            (ep_add e (dirty s)) pend srt' (insync s), [])
  | PolUpd p val =>
      let allpol' := match val with Some pv => aset pkey_eqb p (extract_meta pv) (allpol s)
                                  | None => adel pkey_eqb p (allpol s) end in
      let pend := match val with Some _ => pending s | None => pk_del p (pending s) end in
      if p2e_has_key p (p2e s) then
        let '(srt', d) := sorter_update_policy v (srt s) p (option_map extract_meta val) in
        let dirty' := if d then ep_add_all (map snd (filter (fun pe => pkey_eqb p (fst pe)) (p2e s))) (dirty s)
                      else dirty s in
        (mkSt (p2e s) (e2p s) allpol' (eps s) dirty' pend srt' (insync s), [])
      else (mkSt (p2e s) (e2p s) allpol' (eps s) (dirty s) pend (srt s) (insync s), [])
  | TierUpd name val =>
      (mkSt (p2e s) (e2p s) (allpol s) (eps s) (ep_add_all (map fst (e2p s)) (dirty s)) (pending s)
            (sorter_tier_update v (srt s) name val) (insync s), [])
  | EpUpd e present =>
      let eps' := if present then ep_add e (eps s) else filter (fun x => negb (N.eqb e x)) (eps s) in
      (mkSt (p2e s) (e2p s) (allpol s) eps' (ep_add e (dirty s)) (pending s) (srt s) (insync s), [])
  | InSync =>
      (mkSt (p2e s) (e2p s) (allpol s) (eps s) (dirty s) (pending s) (srt s) true, [])
  | Flush ord =>
      if insync s then
        let s1 := flush_pending v s ord in
        let sorted := sorter_sorted (srt s1) in
        (mkSt (p2e s1) (e2p s1) (allpol s1) (eps s1) [] (pending s1) (srt s1) (insync s1),
         map (send_endpoint_update s1 sorted) (dirty s1))
      else (s, [])
  end.

(* run a history; the observation is one list of endpoint updates per Flush operation *)
Definition is_flush (o : op) : bool := match o with Flush _ => true | _ => false end.
Fixpoint run_from (v : variant) (s : st) (ops : list op) : st * list (list epout) :=
  match ops with
  | [] => (s, [])
  | o :: ops' =>
      let '(s1, out) := step v s o in
      let '(s2, outs) := run_from v s1 ops' in
      (s2, if is_flush o then out :: outs else outs)
  end.
Definition run (v : variant) (ops : list op) : list (list epout) := snd (run_from v st0 ops).

(* ------------------------------------------------------------------ tierInfoToProtoTierInfo *)

(* proto.TierInfo: Name, DefaultAction, IngressPolicies, EgressPolicies *)
Record ptier := mkPTier { pt_name : bytes; pt_action : N; pt_in : list pkey; pt_eg : list pkey }.
Record psplit := mkSplit { ps_normal : list ptier; ps_untracked : list ptier; ps_prednat : list ptier;
                           ps_forward : list ptier }.

Definition act_pass : N := 3%N.     (* code the driver uses for v3.Pass *)

(* addPolicyToTierInfo over a whole list *)
Definition proto_tier (name : bytes) (action : N) (egress_allowed : bool) (ps : list polkv) : ptier :=
  mkPTier name action
          (map fst (filter (fun kv => m_in (snd kv)) ps))
          (if egress_allowed then map fst (filter (fun kv => m_eg (snd kv)) ps) else []).
Definition nonempty_tier (t : ptier) : list ptier :=
  match pt_in t, pt_eg t with [], [] => [] | _, _ => [t] end.

Definition is_untracked (kv : polkv) : bool := m_dnt (snd kv).
Definition is_prednat (kv : polkv) : bool := negb (m_dnt (snd kv)) && m_pre (snd kv).
Definition is_normal (kv : polkv) : bool := negb (m_dnt (snd kv)) && negb (m_pre (snd kv)).
Definition is_forward (kv : polkv) : bool := is_normal kv && m_aof (snd kv).

Definition to_proto (ts : list tout) : psplit :=
  mkSplit
    (flat_map (fun t => nonempty_tier (proto_tier (to_name t) (to_action t) true (filter is_normal (to_pols t)))) ts)
    (flat_map (fun t => nonempty_tier (proto_tier (to_name t) act_pass true (filter is_untracked (to_pols t)))) ts)
    (flat_map (fun t => nonempty_tier (proto_tier (to_name t) act_pass false (filter is_prednat (to_pols t)))) ts)
    (flat_map (fun t => nonempty_tier (proto_tier (to_name t) (to_action t) true (filter is_forward (to_pols t)))) ts).
