(* C03 — what a Flush emits is characterised, and the characterisation has exactly one solution (up to the
   default action of tiers that do not exist): expected_tiers. *)
From Coq Require Import List NArith ZArith Bool Sorted.
From Verif.Common Require Import Labels.
From Verif.C03 Require Import Model Spec Order BT SpecProps Resolver Sorter Refine.
Import ListNotations.

Definition tkeyT (T : bytes -> option tierval) (n : bytes) : tkey :=
  match T n with Some tv => mkTKey n true (tv_order tv) | None => mkTKey n false None end.

Lemma tkeyT_name : forall T n, tk_name (tkeyT T n) = n.
Proof. intros. unfold tkeyT. destruct (T n); reflexivity. Qed.

(* ts lists, tier by tier, exactly the (key, metadata) pairs selected by `app`, tiers and policies strictly sorted *)
Record charP (pless : polkv -> polkv -> bool) (app : pkey -> meta -> Prop) (T : bytes -> option tierval)
             (ts : list tout) : Prop := mk_charP {
  ch_tiers : SS tier_less (map (fun t => tkeyT T (to_name t)) ts);
  ch_each : forall t, In t ts ->
      SS pless (to_pols t) /\ to_pols t <> []
      /\ to_order t = tk_order (tkeyT T (to_name t))
      /\ (forall tv, T (to_name t) = Some tv -> to_action t = tv_action tv)
      /\ (forall k m, In (k, m) (to_pols t) <-> app k m /\ m_tier m = to_name t);
  ch_cover : forall k m, app k m -> exists t, In t ts /\ to_name t = m_tier m }.

Definition blankT (T : bytes -> option tierval) (ts : list tout) : list tout :=
  map (fun t => match T (to_name t) with
                | Some _ => t
                | None => mkTout (to_name t) (to_order t) 0%N (to_pols t)
                end) ts.

Lemma map_eq_pointwise : forall {A B C} (f : A -> B) (g : A -> C) l1 l2,
  map f l1 = map f l2 ->
  (forall a b, In a l1 -> In b l2 -> f a = f b -> g a = g b) ->
  map g l1 = map g l2.
Proof.
  induction l1 as [|a l1 IH]; intros [|b l2] E H; simpl in *; try discriminate; [reflexivity|].
  inversion E. f_equal; [apply H; auto | apply IH; auto].
Qed.

Lemma charP_unique : forall pless app T ts1 ts2,
  (forall a, pless a a = false) ->
  (forall a b c, pless a b = true -> pless b c = true -> pless a c = true) ->
  charP pless app T ts1 -> charP pless app T ts2 -> blankT T ts1 = blankT T ts2.
Proof.
  intros pless app T ts1 ts2 Irr Tr C1 C2.
  assert (Sub : forall tsa tsb, charP pless app T tsa -> charP pless app T tsb ->
                forall x, In x (map (fun t => tkeyT T (to_name t)) tsa) -> In x (map (fun t => tkeyT T (to_name t)) tsb)).
  { intros tsa tsb Ca Cb x I. apply in_map_iff in I. destruct I as [t [<- I]].
    destruct (ch_each _ _ _ _ Ca t I) as (_ & NE & _ & _ & M).
    destruct (to_pols t) as [|[k m] r] eqn:E; [congruence|].
    destruct (proj1 (M k m) (or_introl eq_refl)) as [A Q].
    destruct (ch_cover _ _ _ _ Cb k m A) as [t2 [I2 Q2]].
    apply in_map_iff. exists t2. split; [congruence | exact I2]. }
  assert (EK : map (fun t => tkeyT T (to_name t)) ts1 = map (fun t => tkeyT T (to_name t)) ts2).
  { apply (SS_unique tier_less tier_less_irrefl tier_less_trans); [apply C1 | apply C2|].
    intros x. split; apply Sub; assumption. }
  unfold blankT. eapply map_eq_pointwise; [exact EK|].
  intros a b Ia Ib Q. apply (f_equal tk_name) in Q. rewrite !tkeyT_name in Q.
  destruct (ch_each _ _ _ _ C1 a Ia) as (Sa & _ & Oa & Aa & Ma).
  destruct (ch_each _ _ _ _ C2 b Ib) as (Sb & _ & Ob & Ab & Mb).
  assert (EP : to_pols a = to_pols b).
  { apply (SS_unique pless Irr Tr); auto. intros [k m]. rewrite Ma, Mb, Q. tauto. }
  assert (EO : to_order a = to_order b) by congruence.
  rewrite <- Q in *. destruct (T (to_name a)) as [tv|] eqn:E.
  - pose proof (Aa tv eq_refl) as A1. pose proof (Ab tv eq_refl) as A2.
    destruct a as [na oa aa pa], b as [nb ob ab pb]. simpl in *. congruence.
  - destruct a as [na oa aa pa], b as [nb ob ab pb]. simpl in *. congruence.
Qed.

(* ------------------------------------------------------------------ the flush output satisfies the characterisation *)

Lemma SS_filter : forall {A} (less : A -> A -> bool) f l, SS less l -> SS less (filter f l).
Proof.
  induction l as [|x l IH]; simpl; intros H; [constructor|].
  apply SS_inv in H. destruct H as [H F]. destruct (f x); [|apply IH; exact H].
  constructor; [apply IH; exact H|]. apply Forall_forall. intros y I. apply filter_In in I.
  rewrite Forall_forall in F. apply F. tauto.
Qed.

Lemma flat_map_key_SS : forall {A B} (less : A -> A -> bool) (g : A -> list B) (key : B -> A) l,
  SS less l ->
  (forall x y, In x l -> In y (g x) -> key y = x) ->
  (forall x, g x = [] \/ exists y, g x = [y]) ->
  SS less (map key (flat_map g l)).
Proof.
  induction l as [|x l IH]; simpl; intros H K One; [constructor|].
  apply SS_inv in H. destruct H as [H F].
  assert (IHl : SS less (map key (flat_map g l))) by (apply IH; auto).
  destruct (One x) as [E|[y E]]; rewrite E; simpl; [exact IHl|].
  constructor; [exact IHl|]. apply Forall_forall. rewrite Forall_forall in F. intros z I.
  apply in_map_iff in I. destruct I as [w [<- I]]. apply in_flat_map in I. destruct I as [x' [I1 I2]].
  rewrite (K x y) by (auto; rewrite E; left; reflexivity). rewrite (K x' w) by auto. apply F. exact I1.
Qed.

Definition tier_out (s1 : st) (e : epkey) (t : tinfo) : list tout :=
  match filter (fun kv => existsb (ep_eqb (e, fst kv)) (e2p s1)) (ti_sorted t) with
  | [] => []
  | ps => [mkTout (ti_name t) (ti_order t) (ti_action t) ps]
  end.

Lemma tier_out_cases : forall s1 e t,
  let ps := filter (fun kv => existsb (ep_eqb (e, fst kv)) (e2p s1)) (ti_sorted t) in
  (ps = [] /\ tier_out s1 e t = []) \/
  (ps <> [] /\ tier_out s1 e t = [mkTout (ti_name t) (ti_order t) (ti_action t) ps]).
Proof.
  intros. unfold tier_out. fold ps. destruct ps; [left; auto | right; split; [discriminate | reflexivity]].
Qed.

Lemma existsb_ep_In : forall e k l, existsb (ep_eqb (e, k)) l = true <-> In (e, k) l.
Proof.
  intros. split; [apply in_existsb_ep|]. intros I. apply existsb_exists. exists (e, k). split; [exact I|].
  unfold ep_eqb; simpl. rewrite N.eqb_refl, pkey_eqb_refl. reflexivity.
Qed.

Lemma tkey_of_fields : forall t T n, ti_name t = n -> tier_fields t (T n) -> tkey_of t = tkeyT T n.
Proof.
  intros t T n N F. unfold tkey_of, tkeyT. destruct (T n) as [tv|].
  - destruct F as (F1 & F2 & _). rewrite N, F1, F2. reflexivity.
  - destruct F as (F1 & F2). rewrite N, F1, F2. reflexivity.
Qed.

Lemma endpoint_tiers_char : forall v so P T s1 e,
  srep v so P T ->
  charP (polkv_less v) (fun k m => P k = Some m /\ In (e, k) (e2p s1)) T
        (endpoint_tiers s1 (sorter_sorted so) e).
Proof.
  intros v so P T s1 e R.
  set (g := fun tk => match tl so (tk_name tk) with Some t => tier_out s1 e t | None => [] end).
  assert (EQ : endpoint_tiers s1 (sorter_sorted so) e = flat_map g (so_sorted so)).
  { unfold endpoint_tiers, sorter_sorted. fold (tier_out s1 e).
    generalize (so_sorted so) as l. induction l as [|tk l IH]; simpl; [reflexivity|].
    rewrite flat_map_app, IH. f_equal. unfold g. destruct (tl so (tk_name tk)); simpl; [apply app_nil_r | reflexivity]. }
  rewrite EQ.
  (* every output tier comes from a tier record *)
  assert (Src : forall tk o, In tk (so_sorted so) -> In o (g tk) ->
                exists t, tl so (tk_name tk) = Some t /\ tk = tkey_of t /\
                  o = mkTout (ti_name t) (ti_order t) (ti_action t)
                             (filter (fun kv => existsb (ep_eqb (e, fst kv)) (e2p s1)) (ti_sorted t))
                  /\ to_pols o <> []).
  { intros tk o I Io. apply (sr_keys _ _ _ _ R) in I. destruct I as [t [Ht Q]]. unfold g in Io. rewrite Ht in Io.
    destruct (tier_out_cases s1 e t) as [[_ E]|[NE E]]; rewrite E in Io; [contradiction|].
    destruct Io as [<-|[]]. exists t. simpl. auto. }
  apply mk_charP.
  - apply flat_map_key_SS.
    + eapply sr_sorted; eauto.
    + intros tk o I Io. destruct (Src tk o I Io) as [t (Ht & Q & -> & _)]. cbn [to_name].
      pose proof (sr_name _ _ _ _ R _ _ Ht) as N. pose proof (sr_fields _ _ _ _ R _ _ Ht) as F.
      rewrite N. rewrite <- (tkey_of_fields t T (tk_name tk) N F). symmetry. exact Q.
    + intros tk. unfold g. destruct (tl so (tk_name tk)) as [t|]; [|left; reflexivity].
      destruct (tier_out_cases s1 e t) as [[_ E]|[_ E]]; rewrite E; eauto.
  - intros o Io. apply in_flat_map in Io. destruct Io as [tk [I Io]].
    destruct (Src tk o I Io) as [t (Ht & Q & -> & NE)]. cbn [to_pols to_name to_order to_action] in *.
    assert (N : ti_name t = tk_name tk) by (eapply sr_name; eauto).
    pose proof (sr_fields _ _ _ _ R _ _ Ht) as F. rewrite <- N in F.
    split; [apply SS_filter; eapply sr_psorted; eauto|]. split; [exact NE|].
    split; [rewrite <- (tkey_of_fields t T (ti_name t) eq_refl F); reflexivity|].
    split.
    + intros tv E. rewrite E in F. destruct F as (_ & _ & F3). exact F3.
    + intros k m. rewrite filter_In. cbn [fst]. rewrite existsb_ep_In, (sr_pmem _ _ _ _ R _ _ Ht). split.
      * intros [H1 H2]. destruct (sr_psound _ _ _ _ R _ _ Ht k m H1) as [HP HT]. rewrite N. auto.
      * intros [[HP HE] HT]. split; [|exact HE].
        destruct (sr_pcomplete _ _ _ _ R k m HP) as [t' [Ht' Hk']]. rewrite HT, N, Ht in Ht'.
        inversion Ht'; subst t'. exact Hk'.
  - intros k m [HP HE]. destruct (sr_pcomplete _ _ _ _ R k m HP) as [t [Ht Hk]].
    assert (N : ti_name t = m_tier m) by (eapply sr_name; eauto).
    assert (IK : In (tkey_of t) (so_sorted so)).
    { apply (sr_keys _ _ _ _ R). exists t. rewrite tkey_name, N. auto. }
    assert (IF : In (k, m) (filter (fun kv => existsb (ep_eqb (e, fst kv)) (e2p s1)) (ti_sorted t))).
    { apply filter_In. split; [apply (sr_pmem _ _ _ _ R _ _ Ht); exact Hk|]. cbn [fst]. apply existsb_ep_In. exact HE. }
    destruct (tier_out_cases s1 e t) as [[E _]|[_ E]]; [rewrite E in IF; contradiction|].
    eexists. split.
    + apply in_flat_map. exists (tkey_of t). split; [exact IK|]. unfold g. rewrite tkey_name, N, Ht, E. left. reflexivity.
    + simpl. exact N.
Qed.
