(* C03 — representation invariant of the PolicySorter model: the two levels of sorted lists are exactly the
   set of tiers / policies recorded in the maps, and the maps represent abstract finite maps
   P : policy key -> metadata (the policies the sorter currently holds) and T : tier name -> tier value (the tiers
   that exist).  Carried through every branch of UpdatePolicy and of the tier update. *)
From Coq Require Import List NArith ZArith Bool Sorted.
From Verif.Common Require Import Labels.
From Verif.C03 Require Import Model Spec Order BT SpecProps.
Import ListNotations.

(* ------------------------------------------------------------------ association lists as maps *)

Section AL2.
  Context {K V : Type} (keqb : K -> K -> bool).
  Hypothesis keqb_eq : forall a b, keqb a b = true <-> a = b.

  Lemma keqb_refl : forall k, keqb k k = true.
  Proof. intros. apply keqb_eq. reflexivity. Qed.
  Lemma keqb_false : forall a b, a <> b -> keqb a b = false.
  Proof. intros a b N. destruct (keqb a b) eqn:E; [apply keqb_eq in E; contradiction | reflexivity]. Qed.

  Lemma alookup_adel : forall k k' (l : list (K * V)),
    alookup keqb k' (adel keqb k l) = if keqb k' k then None else alookup keqb k' l.
  Proof.
    induction l as [|[k0 x0] l IH]; simpl.
    - destruct (keqb k' k); reflexivity.
    - destruct (keqb k k0) eqn:E0.
      + apply keqb_eq in E0. subst k0. rewrite IH. destruct (keqb k' k); reflexivity.
      + simpl. rewrite IH. destruct (keqb k' k0) eqn:E1; [|reflexivity].
        apply keqb_eq in E1. subst k0. destruct (keqb k' k) eqn:E2; [|reflexivity].
        apply keqb_eq in E2. subst k'. rewrite keqb_refl in E0. discriminate.
  Qed.

  Lemma alookup_aset : forall k x k' (l : list (K * V)),
    alookup keqb k' (aset keqb k x l) = if keqb k' k then Some x else alookup keqb k' l.
  Proof.
    intros. unfold aset. simpl. destruct (keqb k' k) eqn:E; [reflexivity|].
    rewrite alookup_adel, E. reflexivity.
  Qed.

  Lemma alookup_In : forall k x (l : list (K * V)), alookup keqb k l = Some x -> In (k, x) l.
  Proof.
    induction l as [|[k0 x0] l IH]; simpl; [discriminate|].
    destruct (keqb k k0) eqn:E; [|auto]. apply keqb_eq in E. subst. intros [= ->]. auto.
  Qed.

  Lemma In_alookup : forall k x (l : list (K * V)), NoDup (map fst l) -> In (k, x) l -> alookup keqb k l = Some x.
  Proof.
    induction l as [|[k0 x0] l IH]; simpl; intros ND H; [contradiction|].
    inversion ND; subst. destruct H as [H|H].
    - inversion H; subst. rewrite keqb_refl. reflexivity.
    - destruct (keqb k k0) eqn:E; [|auto]. apply keqb_eq in E. subst. exfalso. apply H2.
      apply in_map_iff. exists (k0, x). auto.
  Qed.

  Lemma adel_nil_lookup : forall k k' (l : list (K * V)), adel keqb k l = [] -> k' <> k -> alookup keqb k' l = None.
  Proof.
    intros k k' l H N. pose proof (alookup_adel k k' l) as E. rewrite H in E. simpl in E.
    rewrite (keqb_false _ _ N) in E. auto.
  Qed.
End AL2.

Notation tl s n := (alookup bytes_eqb n (so_tiers s)).
Notation pl t k := (alookup pkey_eqb k (ti_pols t)).

Definition tl_aset := alookup_aset bytes_eqb bytes_eqb_eq (V := tinfo).
Definition tl_adel := alookup_adel bytes_eqb bytes_eqb_eq (V := tinfo).
Definition pl_aset := alookup_aset pkey_eqb pkey_eqb_eq (V := meta).
Definition pl_adel := alookup_adel pkey_eqb pkey_eqb_eq (V := meta).

Lemma bytes_eqb_false : forall a b, a <> b -> bytes_eqb a b = false.
Proof. apply keqb_false. apply bytes_eqb_eq. Qed.
Lemma pkey_eqb_false : forall a b, a <> b -> pkey_eqb a b = false.
Proof. apply keqb_false. apply pkey_eqb_eq. Qed.

(* functional update of an abstract map *)
Definition updP (P : pkey -> option meta) (k : pkey) (x : option meta) : pkey -> option meta :=
  fun k' => if pkey_eqb k' k then x else P k'.
Definition updT (T : bytes -> option tierval) (n : bytes) (x : option tierval) : bytes -> option tierval :=
  fun n' => if bytes_eqb n' n then x else T n'.

Definition tier_fields (t : tinfo) (o : option tierval) : Prop :=
  match o with
  | Some tv => ti_valid t = true /\ ti_order t = tv_order tv /\ ti_action t = tv_action tv
  | None => ti_valid t = false /\ ti_order t = None
  end.

Notation SSt := (SS tier_less).
Notation SSp v := (SS (polkv_less v)).

Record srep (v : variant) (s : sorter) (P : pkey -> option meta) (T : bytes -> option tierval) : Prop := mk_srep {
  sr_nodup : NoDup (map fst (so_tiers s));
  sr_name : forall n t, tl s n = Some t -> ti_name t = n;
  sr_sorted : SSt (so_sorted s);
  sr_keys : forall tk, In tk (so_sorted s) <-> exists t, tl s (tk_name tk) = Some t /\ tk = tkey_of t;
  sr_psorted : forall n t, tl s n = Some t -> SSp v (ti_sorted t);
  sr_pmem : forall n t, tl s n = Some t -> forall k m, In (k, m) (ti_sorted t) <-> pl t k = Some m;
  sr_psound : forall n t, tl s n = Some t -> forall k m, pl t k = Some m -> P k = Some m /\ m_tier m = n;
  sr_fields : forall n t, tl s n = Some t -> tier_fields t (T n);
  sr_pcomplete : forall k m, P k = Some m -> exists t, tl s (m_tier m) = Some t /\ pl t k = Some m;
  sr_tcomplete : forall n tv, T n = Some tv -> exists t, tl s n = Some t;
  sr_wf : forall k m, P k = Some m -> key_wf v k }.

Lemma srep_ext : forall v s P T P' T',
  (forall k, P k = P' k) -> (forall n, T n = T' n) -> srep v s P T -> srep v s P' T'.
Proof.
  intros v s P T P' T' EP ET H. destruct H. constructor; auto.
  - intros n t H k m I. rewrite <- EP. eauto.
  - intros n t H. rewrite <- ET. auto.
  - intros k m I. rewrite <- EP in I. auto.
  - intros n tv I. rewrite <- ET in I. eauto.
  - intros k m I. rewrite <- EP in I. eauto.
Qed.

Lemma srep_empty : forall v, srep v new_sorter (fun _ => None) (fun _ => None).
Proof.
  intros v. constructor; simpl; try (intros; discriminate); try constructor.
  - intros []. - intros [t [H _]]. discriminate.
Qed.

(* ------------------------------------------------------------------ reading the sorter *)

Lemma has_key_pl : forall k t, has_key k t = true <-> exists m, pl t k = Some m.
Proof.
  intros. unfold has_key. destruct (alookup pkey_eqb k (ti_pols t)).
  - split; eauto. - split; [discriminate | intros [m H]; discriminate].
Qed.

Lemma tier_holding_some : forall v s P T k m, srep v s P T -> P k = Some m ->
  exists t, tier_holding s k = Some t /\ tl s (m_tier m) = Some t /\ pl t k = Some m.
Proof.
  intros v s P T k m R H. destruct (sr_pcomplete _ _ _ _ R k m H) as [t [Ht Hk]].
  unfold tier_holding. destruct (find (fun nt => has_key k (snd nt)) (so_tiers s)) as [[n' t']|] eqn:F.
  - apply find_some in F. destruct F as [I Hk']. simpl in Hk'. apply has_key_pl in Hk'. destruct Hk' as [m' Hk'].
    pose proof (In_alookup bytes_eqb bytes_eqb_eq _ _ _ (sr_nodup _ _ _ _ R) I) as L.
    destruct (sr_psound _ _ _ _ R n' t' L k m' Hk') as [E1 E2]. rewrite H in E1. inversion E1; subst m'.
    subst n'. rewrite L in Ht. inversion Ht; subst. exists t. simpl. auto.
  - exfalso. apply alookup_In in Ht; [|apply bytes_eqb_eq].
    pose proof (find_none _ _ F _ Ht) as N. simpl in N.
    assert (has_key k t = true) by (apply has_key_pl; eauto). congruence.
Qed.

Lemma tier_holding_none : forall v s P T k, srep v s P T -> P k = None -> tier_holding s k = None.
Proof.
  intros v s P T k R H. unfold tier_holding.
  destruct (find (fun nt => has_key k (snd nt)) (so_tiers s)) as [[n' t']|] eqn:F; [|reflexivity].
  apply find_some in F. destruct F as [I Hk']. simpl in Hk'. apply has_key_pl in Hk'. destruct Hk' as [m' Hk'].
  pose proof (In_alookup bytes_eqb bytes_eqb_eq _ _ _ (sr_nodup _ _ _ _ R) I) as L.
  destruct (sr_psound _ _ _ _ R n' t' L k m' Hk') as [E1 _]. congruence.
Qed.

Lemma has_policy_iff : forall v s P T k, srep v s P T -> (has_policy s k = true <-> exists m, P k = Some m).
Proof.
  intros v s P T k R. unfold has_policy. rewrite existsb_exists. split.
  - intros [[n t] [I Hk]]. simpl in Hk. apply has_key_pl in Hk. destruct Hk as [m Hk].
    pose proof (In_alookup bytes_eqb bytes_eqb_eq _ _ _ (sr_nodup _ _ _ _ R) I) as L.
    destruct (sr_psound _ _ _ _ R n t L k m Hk). eauto.
  - intros [m H]. destruct (sr_pcomplete _ _ _ _ R k m H) as [t [Ht Hk]].
    exists (m_tier m, t). split; [apply alookup_In in Ht; [exact Ht | apply bytes_eqb_eq]|].
    simpl. apply has_key_pl. eauto.
Qed.

(* ------------------------------------------------------------------ storing a policy in its tier *)

Lemma pair_neq_key : forall (k k' : pkey) (m m' : meta), k' <> k -> (k', m') <> (k, m).
Proof. intros k k' m m' N E. inversion E. contradiction. Qed.

Lemma srep_put : forall v s P T n t k m,
  srep v s P T -> tl s n = Some t -> m_tier m = n -> key_wf v k ->
  (forall om, P k = Some om -> m_tier om = n) ->
  srep v (fst (put_in_tier v s n t k m)) (updP P k (Some m)) T.
Proof.
  intros v s P T n t k m R Ht Em Wk Hold.
  pose proof (sr_psorted _ _ _ _ R n t Ht) as S0.
  pose proof (sr_pmem _ _ _ _ R n t Ht) as M0.
  pose proof (sr_psound _ _ _ _ R n t Ht) as PS0.
  unfold put_in_tier. cbn [fst].
  set (sorted1 := match pl t k with Some om => bt_delete (polkv_less v) (k, om) (ti_sorted t) | None => ti_sorted t end).
  assert (S1 : SSp v sorted1).
  { unfold sorted1. destruct (pl t k); [apply SS_sub_delete; exact S0 | exact S0]. }
  assert (M1 : forall k' m', In (k', m') sorted1 <-> pl t k' = Some m' /\ k' <> k).
  { intros k' m'. unfold sorted1. destruct (pl t k) as [om|] eqn:E.
    - rewrite (bt_delete_In_iff (polkv_less v) (polkv_less_irrefl v) (k, om) (ti_sorted t) (k', m') S0)
        by (apply M0; exact E).
      rewrite M0. split.
      + intros [H N]. split; [exact H|]. intros ->. rewrite E in H. inversion H; subst. apply N. reflexivity.
      + intros [H N]. split; [exact H | apply pair_neq_key; exact N].
    - rewrite M0. split; [|tauto]. intros H. split; [exact H|]. intros ->. congruence. }
  assert (NE : forall y, In y sorted1 -> ~ equiv (polkv_less v) (k, m) y).
  { intros [k' m'] I [E1 E2]. apply M1 in I. destruct I as [H N].
    destruct (PS0 _ _ H) as [HP _].
    assert (W' : key_wf v k') by (eapply sr_wf; eauto).
    destruct (polkv_less_total v (k, m) (k', m') Wk W' E1 E2) as [Q _]. simpl in Q. congruence. }
  pose proof (bt_insert_SS (polkv_less v) (polkv_less_trans v) (k, m) sorted1 S1 NE) as S2.
  pose proof (fun y => bt_insert_In_iff (polkv_less v) (k, m) sorted1 y NE) as M2.
  set (t' := mkTI (ti_name t) (ti_valid t) (ti_order t) (ti_action t) (aset pkey_eqb k m (ti_pols t))
                  (bt_insert (polkv_less v) (k, m) sorted1)).
  assert (TL : forall n', tl (mkSorter (aset bytes_eqb n t' (so_tiers s)) (so_sorted s)) n'
                         = if bytes_eqb n' n then Some t' else tl s n').
  { intros n'. simpl. apply tl_aset. }
  assert (Nt : ti_name t = n) by (eapply sr_name; eauto).
  constructor.
  - cbn [so_tiers]. apply (aset_keys_NoDup bytes_eqb bytes_eqb_eq n t'). eapply sr_nodup; eauto.
  - intros n' t0. rewrite TL. destruct (bytes_eqb n' n) eqn:E.
    + apply bytes_eqb_eq in E. intros [= <-]. simpl. congruence.
    + eapply sr_name; eauto.
  - simpl. eapply sr_sorted; eauto.
  - intros tk. cbn [so_sorted]. rewrite (sr_keys _ _ _ _ R tk). split; intros [t0 [H Q]].
    + destruct (bytes_eqb (tk_name tk) n) eqn:E.
      * apply bytes_eqb_eq in E. rewrite E in H. rewrite Ht in H. inversion H; subst t0.
        exists t'. rewrite TL, E. rewrite bytes_eqb_refl. split; [reflexivity|]. rewrite Q. reflexivity.
      * exists t0. rewrite TL, E. auto.
    + rewrite TL in H. destruct (bytes_eqb (tk_name tk) n) eqn:E.
      * apply bytes_eqb_eq in E. inversion H; subst t0. exists t. rewrite E. split; [exact Ht|]. rewrite Q. reflexivity.
      * exists t0. auto.
  - intros n' t0. rewrite TL. destruct (bytes_eqb n' n) eqn:E.
    + intros [= <-]. exact S2.
    + eapply sr_psorted; eauto.
  - intros n' t0. rewrite TL. destruct (bytes_eqb n' n) eqn:E.
    + intros [= <-] k' m'. cbn [ti_sorted ti_pols t']. rewrite M2, M1, pl_aset.
      destruct (pkey_eqb k' k) eqn:Ek.
      * apply pkey_eqb_eq in Ek. subst k'. split.
        -- intros [Q|[_ N]]; [inversion Q; reflexivity | contradiction].
        -- intros [= ->]. left. reflexivity.
      * apply pkey_eqb_neq in Ek. split.
        -- intros [Q|[H _]]; [inversion Q; contradiction | exact H].
        -- intros H. right. auto.
    + eapply sr_pmem; eauto.
  - intros n' t0. rewrite TL. destruct (bytes_eqb n' n) eqn:E.
    + apply bytes_eqb_eq in E. subst n'. intros [= <-] k' m'. cbn [ti_pols t']. rewrite pl_aset. unfold updP.
      destruct (pkey_eqb k' k) eqn:Ek.
      * intros [= <-]. auto.
      * apply PS0.
    + intros H0 k' m' H. destruct (sr_psound _ _ _ _ R n' t0 H0 k' m' H) as [HP HT]. split; [|exact HT].
      unfold updP. destruct (pkey_eqb k' k) eqn:Ek; [|exact HP].
      apply pkey_eqb_eq in Ek. subst k'. pose proof (Hold _ HP). apply bytes_eqb_neq in E. congruence.
  - intros n' t0. rewrite TL. destruct (bytes_eqb n' n) eqn:E.
    + apply bytes_eqb_eq in E. subst n'. intros [= <-]. pose proof (sr_fields _ _ _ _ R n t Ht) as F.
      destruct (T n); exact F.
    + eapply sr_fields; eauto.
  - intros k' m'. unfold updP. destruct (pkey_eqb k' k) eqn:Ek.
    + apply pkey_eqb_eq in Ek. subst k'. intros [= <-]. exists t'. rewrite TL, Em, bytes_eqb_refl.
      split; [reflexivity|]. cbn [ti_pols t']. rewrite pl_aset, pkey_eqb_refl. reflexivity.
    + intros HP. destruct (sr_pcomplete _ _ _ _ R k' m' HP) as [t0 [H0 H1]].
      destruct (bytes_eqb (m_tier m') n) eqn:E.
      * apply bytes_eqb_eq in E. rewrite E in H0. rewrite Ht in H0. inversion H0; subst t0.
        exists t'. rewrite TL, E, bytes_eqb_refl. split; [reflexivity|]. cbn [ti_pols t']. rewrite pl_aset, Ek. exact H1.
      * exists t0. rewrite TL, E. auto.
  - intros n' tv H. rewrite TL. destruct (bytes_eqb n' n); eauto. eapply sr_tcomplete; eauto.
  - intros k' m'. unfold updP. destruct (pkey_eqb k' k) eqn:Ek.
    + apply pkey_eqb_eq in Ek. subst. auto.
    + eapply sr_wf; eauto.
Qed.

(* ------------------------------------------------------------------ removing a policy from its tier *)

Definition tier_without (v : variant) (t : tinfo) (k : pkey) (om : meta) : tinfo :=
  mkTI (ti_name t) (ti_valid t) (ti_order t) (ti_action t)
       (adel pkey_eqb k (ti_pols t)) (bt_delete (polkv_less v) (k, om) (ti_sorted t)).

Definition is_nil {A} (l : list A) : bool := match l with [] => true | _ => false end.

Lemma remove_from_tier_cases : forall v s t k om,
  remove_from_tier v s t k om =
  if is_nil (adel pkey_eqb k (ti_pols t)) && negb (ti_valid t)
  then mkSorter (adel bytes_eqb (ti_name t) (so_tiers s)) (bt_delete tier_less (tkey_of t) (so_sorted s))
  else mkSorter (aset bytes_eqb (ti_name t) (tier_without v t k om) (so_tiers s)) (so_sorted s).
Proof.
  intros. unfold remove_from_tier, tier_without. cbn [ti_pols ti_valid ti_name].
  destruct (adel pkey_eqb k (ti_pols t)); destruct (ti_valid t); reflexivity.
Qed.

Lemma srep_remove : forall v s P T n t k om,
  srep v s P T -> tl s n = Some t -> pl t k = Some om ->
  srep v (remove_from_tier v s t k om) (updP P k None) T.
Proof.
  intros v s P T n t k om R Ht Hk.
  pose proof (sr_psorted _ _ _ _ R n t Ht) as S0.
  pose proof (sr_pmem _ _ _ _ R n t Ht) as M0.
  pose proof (sr_psound _ _ _ _ R n t Ht) as PS0.
  assert (Nt : ti_name t = n) by (eapply sr_name; eauto).
  assert (S1 : SSp v (bt_delete (polkv_less v) (k, om) (ti_sorted t))) by (apply SS_sub_delete; exact S0).
  assert (M1 : forall k' m', In (k', m') (bt_delete (polkv_less v) (k, om) (ti_sorted t)) <-> pl t k' = Some m' /\ k' <> k).
  { intros k' m'.
    rewrite (bt_delete_In_iff (polkv_less v) (polkv_less_irrefl v) (k, om) (ti_sorted t) (k', m') S0)
      by (apply M0; exact Hk).
    rewrite M0. split.
    - intros [H N]. split; [exact H|]. intros ->. rewrite Hk in H. inversion H; subst. apply N. reflexivity.
    - intros [H N]. split; [exact H | apply pair_neq_key; exact N]. }
  rewrite remove_from_tier_cases, Nt.
  destruct (is_nil (adel pkey_eqb k (ti_pols t)) && negb (ti_valid t)) eqn:C.
  - (* the tier becomes an empty invalid one: dropped *)
    apply andb_true_iff in C. destruct C as [C1 C2].
    assert (EA : adel pkey_eqb k (ti_pols t) = []) by (destruct (adel pkey_eqb k (ti_pols t)); [reflexivity | discriminate]).
    assert (EV : ti_valid t = false) by (destruct (ti_valid t); [discriminate | reflexivity]).
    assert (TL : forall n', tl (mkSorter (adel bytes_eqb n (so_tiers s)) (bt_delete tier_less (tkey_of t) (so_sorted s))) n'
                           = if bytes_eqb n' n then None else tl s n').
    { intros n'. cbn [so_tiers]. apply tl_adel. }
    assert (IK : In (tkey_of t) (so_sorted s)).
    { apply (sr_keys _ _ _ _ R). exists t. unfold tkey_of at 1. cbn [tk_name]. rewrite Nt. auto. }
    assert (OnlyK : forall k' m', pl t k' = Some m' -> k' = k).
    { intros k' m' H. destruct (pkey_eqb k' k) eqn:E; [apply pkey_eqb_eq; exact E|].
      apply pkey_eqb_neq in E. rewrite (adel_nil_lookup pkey_eqb pkey_eqb_eq k k' _ EA E) in H. discriminate. }
    constructor.
    + cbn [so_tiers]. apply (adel_keys_NoDup bytes_eqb bytes_eqb_eq). eapply sr_nodup; eauto.
    + intros n' t0. rewrite TL. destruct (bytes_eqb n' n); [discriminate|]. eapply sr_name; eauto.
    + cbn [so_sorted]. apply SS_sub_delete. eapply sr_sorted; eauto.
    + intros tk. cbn [so_sorted].
      rewrite (bt_delete_In_iff tier_less tier_less_irrefl (tkey_of t) (so_sorted s) tk (sr_sorted _ _ _ _ R) IK).
      rewrite (sr_keys _ _ _ _ R tk). split.
      * intros [[t0 [H Q]] N]. exists t0. rewrite TL. destruct (bytes_eqb (tk_name tk) n) eqn:E; [|auto].
        apply bytes_eqb_eq in E. rewrite E, Ht in H. inversion H; subst t0. contradiction.
      * intros [t0 [H Q]]. rewrite TL in H. destruct (bytes_eqb (tk_name tk) n) eqn:E; [discriminate|].
        split; [eauto|]. intros ->. unfold tkey_of in E. cbn [tk_name] in E. rewrite Nt, bytes_eqb_refl in E. discriminate.
    + intros n' t0. rewrite TL. destruct (bytes_eqb n' n); [discriminate|]. eapply sr_psorted; eauto.
    + intros n' t0. rewrite TL. destruct (bytes_eqb n' n); [discriminate|]. eapply sr_pmem; eauto.
    + intros n' t0. rewrite TL. destruct (bytes_eqb n' n) eqn:E; [discriminate|]. intros H0 k' m' H.
      destruct (sr_psound _ _ _ _ R n' t0 H0 k' m' H) as [HP HT]. split; [|exact HT].
      unfold updP. destruct (pkey_eqb k' k) eqn:Ek; [|exact HP].
      apply pkey_eqb_eq in Ek. subst k'. destruct (PS0 _ _ Hk) as [HP' HT']. rewrite HP in HP'. inversion HP'; subst.
      apply bytes_eqb_neq in E. congruence.
    + intros n' t0. rewrite TL. destruct (bytes_eqb n' n); [discriminate|]. eapply sr_fields; eauto.
    + intros k' m'. unfold updP. destruct (pkey_eqb k' k) eqn:Ek; [discriminate|]. intros HP.
      destruct (sr_pcomplete _ _ _ _ R k' m' HP) as [t0 [H0 H1]]. exists t0. rewrite TL.
      destruct (bytes_eqb (m_tier m') n) eqn:E; [|auto].
      apply bytes_eqb_eq in E. rewrite E, Ht in H0. inversion H0; subst t0.
      apply OnlyK in H1. subst k'. rewrite pkey_eqb_refl in Ek. discriminate.
    + intros n' tv H. rewrite TL. destruct (bytes_eqb n' n) eqn:E; [|eapply sr_tcomplete; eauto].
      apply bytes_eqb_eq in E. subst n'. pose proof (sr_fields _ _ _ _ R n t Ht) as F. rewrite H in F.
      destruct F as [F _]. congruence.
    + intros k' m'. unfold updP. destruct (pkey_eqb k' k); [discriminate|]. eapply sr_wf; eauto.
  - (* the tier stays *)
    clear C. set (t' := tier_without v t k om).
    assert (TL : forall n', tl (mkSorter (aset bytes_eqb n t' (so_tiers s)) (so_sorted s)) n'
                           = if bytes_eqb n' n then Some t' else tl s n').
    { intros n'. cbn [so_tiers]. apply tl_aset. }
    constructor.
    + cbn [so_tiers]. apply (aset_keys_NoDup bytes_eqb bytes_eqb_eq n t'). eapply sr_nodup; eauto.
    + intros n' t0. rewrite TL. destruct (bytes_eqb n' n) eqn:E.
      * apply bytes_eqb_eq in E. intros [= <-]. simpl. congruence.
      * eapply sr_name; eauto.
    + cbn [so_sorted]. eapply sr_sorted; eauto.
    + intros tk. cbn [so_sorted]. rewrite (sr_keys _ _ _ _ R tk). split; intros [t0 [H Q]].
      * destruct (bytes_eqb (tk_name tk) n) eqn:E.
        -- apply bytes_eqb_eq in E. rewrite E in H. rewrite Ht in H. inversion H; subst t0.
           exists t'. rewrite TL, E. rewrite bytes_eqb_refl. split; [reflexivity|]. rewrite Q. reflexivity.
        -- exists t0. rewrite TL, E. auto.
      * rewrite TL in H. destruct (bytes_eqb (tk_name tk) n) eqn:E.
        -- apply bytes_eqb_eq in E. inversion H; subst t0. exists t. rewrite E. split; [exact Ht|]. rewrite Q. reflexivity.
        -- exists t0. auto.
    + intros n' t0. rewrite TL. destruct (bytes_eqb n' n) eqn:E.
      * intros [= <-]. exact S1.
      * eapply sr_psorted; eauto.
    + intros n' t0. rewrite TL. destruct (bytes_eqb n' n) eqn:E.
      * intros [= <-] k' m'. cbn [ti_sorted ti_pols t' tier_without]. rewrite M1, pl_adel.
        destruct (pkey_eqb k' k) eqn:Ek.
        -- apply pkey_eqb_eq in Ek. split; [intros [_ N]; contradiction | discriminate].
        -- apply pkey_eqb_neq in Ek. tauto.
      * eapply sr_pmem; eauto.
    + intros n' t0. rewrite TL. destruct (bytes_eqb n' n) eqn:E.
      * apply bytes_eqb_eq in E. subst n'. intros [= <-] k' m'. cbn [ti_pols t' tier_without]. rewrite pl_adel. unfold updP.
        destruct (pkey_eqb k' k) eqn:Ek; [discriminate | apply PS0].
      * intros H0 k' m' H. destruct (sr_psound _ _ _ _ R n' t0 H0 k' m' H) as [HP HT]. split; [|exact HT].
        unfold updP. destruct (pkey_eqb k' k) eqn:Ek; [|exact HP].
        apply pkey_eqb_eq in Ek. subst k'. destruct (PS0 _ _ Hk) as [HP' HT']. rewrite HP in HP'. inversion HP'; subst.
        apply bytes_eqb_neq in E. congruence.
    + intros n' t0. rewrite TL. destruct (bytes_eqb n' n) eqn:E.
      * apply bytes_eqb_eq in E. subst n'. intros [= <-]. pose proof (sr_fields _ _ _ _ R n t Ht) as F.
        destruct (T n); exact F.
      * eapply sr_fields; eauto.
    + intros k' m'. unfold updP. destruct (pkey_eqb k' k) eqn:Ek; [discriminate|]. intros HP.
      destruct (sr_pcomplete _ _ _ _ R k' m' HP) as [t0 [H0 H1]].
      destruct (bytes_eqb (m_tier m') n) eqn:E.
      * apply bytes_eqb_eq in E. rewrite E in H0. rewrite Ht in H0. inversion H0; subst t0.
        exists t'. rewrite TL, E, bytes_eqb_refl. split; [reflexivity|]. cbn [ti_pols t' tier_without]. rewrite pl_adel, Ek. exact H1.
      * exists t0. rewrite TL, E. auto.
    + intros n' tv H. rewrite TL. destruct (bytes_eqb n' n); eauto. eapply sr_tcomplete; eauto.
    + intros k' m'. unfold updP. destruct (pkey_eqb k' k); [discriminate|]. eapply sr_wf; eauto.
Qed.

(* ------------------------------------------------------------------ (re)writing a tier record *)

Lemma tkey_name : forall t, tk_name (tkey_of t) = ti_name t.
Proof. reflexivity. Qed.

Lemma srep_set_tier : forall v s P T n vld ord act val,
  srep v s P T ->
  tier_fields (mkTI n vld ord act [] []) val ->
  let pols := match tl s n with Some old => ti_pols old | None => [] end in
  let srt := match tl s n with Some old => ti_sorted old | None => [] end in
  let t' := mkTI n vld ord act pols srt in
  let ks := match tl s n with Some old => bt_delete tier_less (tkey_of old) (so_sorted s) | None => so_sorted s end in
  srep v (mkSorter (aset bytes_eqb n t' (so_tiers s)) (bt_insert tier_less (tkey_of t') ks)) P (updT T n val).
Proof.
  intros v s P T n vld ord act val R F pols srt t' ks.
  assert (K1 : SSt ks).
  { unfold ks. destruct (tl s n); [apply SS_sub_delete|]; eapply sr_sorted; eauto. }
  assert (MK : forall tk, In tk ks <-> In tk (so_sorted s) /\ tk_name tk <> n).
  { intros tk. unfold ks. destruct (tl s n) as [old|] eqn:E.
    - assert (IK : In (tkey_of old) (so_sorted s)).
      { apply (sr_keys _ _ _ _ R). exists old. rewrite tkey_name, (sr_name _ _ _ _ R n old E). auto. }
      rewrite (bt_delete_In_iff tier_less tier_less_irrefl (tkey_of old) (so_sorted s) tk (sr_sorted _ _ _ _ R) IK).
      split; intros [I N]; (split; [exact I|]).
      + intros Q. apply (sr_keys _ _ _ _ R) in I. destruct I as [t0 [H0 Q0]]. rewrite Q, E in H0.
        inversion H0; subst t0. contradiction.
      + intros ->. apply N. rewrite tkey_name. eapply sr_name; eauto.
    - split; [|tauto]. intros I. split; [exact I|]. intros Q.
      apply (sr_keys _ _ _ _ R) in I. destruct I as [t0 [H0 _]]. rewrite Q, E in H0. discriminate. }
  assert (NE : forall y, In y ks -> ~ equiv tier_less (tkey_of t') y).
  { intros y I [E1 E2]. apply MK in I. destruct I as [_ N]. apply N.
    rewrite <- (tier_less_total _ _ E1 E2). reflexivity. }
  pose proof (bt_insert_SS tier_less tier_less_trans (tkey_of t') ks K1 NE) as K2.
  pose proof (fun y => bt_insert_In_iff tier_less (tkey_of t') ks y NE) as MK2.
  assert (TL : forall n', tl (mkSorter (aset bytes_eqb n t' (so_tiers s)) (bt_insert tier_less (tkey_of t') ks)) n'
                         = if bytes_eqb n' n then Some t' else tl s n').
  { intros n'. cbn [so_tiers]. apply tl_aset. }
  constructor.
  - cbn [so_tiers]. apply (aset_keys_NoDup bytes_eqb bytes_eqb_eq n t'). eapply sr_nodup; eauto.
  - intros n' t0. rewrite TL. destruct (bytes_eqb n' n) eqn:E.
    + apply bytes_eqb_eq in E. intros [= <-]. simpl. congruence.
    + eapply sr_name; eauto.
  - exact K2.
  - intros tk. cbn [so_sorted]. rewrite MK2, MK, (sr_keys _ _ _ _ R tk). split.
    + intros [->|[[t0 [H0 Q0]] N]].
      * exists t'. rewrite TL, tkey_name. cbn [ti_name t']. rewrite bytes_eqb_refl. auto.
      * exists t0. rewrite TL, (bytes_eqb_false _ _ N). auto.
    + intros [t0 [H0 Q0]]. rewrite TL in H0. destruct (bytes_eqb (tk_name tk) n) eqn:E.
      * inversion H0; subst t0. left. exact Q0.
      * right. apply bytes_eqb_neq in E. split; [eauto | exact E].
  - intros n' t0. rewrite TL. destruct (bytes_eqb n' n) eqn:E.
    + intros [= <-]. cbn [ti_sorted t']. unfold srt. destruct (tl s n) as [old|] eqn:E0.
      * eapply sr_psorted; eauto. * constructor.
    + eapply sr_psorted; eauto.
  - intros n' t0. rewrite TL. destruct (bytes_eqb n' n) eqn:E.
    + intros [= <-] k m. cbn [ti_sorted ti_pols t']. unfold srt, pols. destruct (tl s n) as [old|] eqn:E0.
      * eapply sr_pmem; eauto. * simpl. split; [contradiction | discriminate].
    + eapply sr_pmem; eauto.
  - intros n' t0. rewrite TL. destruct (bytes_eqb n' n) eqn:E.
    + apply bytes_eqb_eq in E. subst n'. intros [= <-] k m. cbn [ti_pols t']. unfold pols. destruct (tl s n) as [old|] eqn:E0.
      * eapply sr_psound; eauto. * simpl. discriminate.
    + eapply sr_psound; eauto.
  - intros n' t0. rewrite TL. unfold updT. destruct (bytes_eqb n' n) eqn:E.
    + intros [= <-]. exact F.
    + eapply sr_fields; eauto.
  - intros k m HP. destruct (sr_pcomplete _ _ _ _ R k m HP) as [t0 [H0 H1]].
    destruct (bytes_eqb (m_tier m) n) eqn:E.
    + apply bytes_eqb_eq in E. exists t'. rewrite TL, E, bytes_eqb_refl. split; [reflexivity|].
      cbn [ti_pols t']. unfold pols. rewrite E in H0. rewrite H0. exact H1.
    + exists t0. rewrite TL, E. auto.
  - intros n' tv. unfold updT. rewrite TL. destruct (bytes_eqb n' n); [eauto|]. eapply sr_tcomplete; eauto.
  - eapply sr_wf; eauto.
Qed.

Lemma srep_drop_tier : forall v s P T n old,
  srep v s P T -> tl s n = Some old -> ti_pols old = [] ->
  srep v (mkSorter (adel bytes_eqb n (so_tiers s)) (bt_delete tier_less (tkey_of old) (so_sorted s))) P (updT T n None).
Proof.
  intros v s P T n t R Ht EP.
  assert (Nt : ti_name t = n) by (eapply sr_name; eauto).
  assert (TL : forall n', tl (mkSorter (adel bytes_eqb n (so_tiers s)) (bt_delete tier_less (tkey_of t) (so_sorted s))) n'
                         = if bytes_eqb n' n then None else tl s n').
  { intros n'. cbn [so_tiers]. apply tl_adel. }
  assert (IK : In (tkey_of t) (so_sorted s)).
  { apply (sr_keys _ _ _ _ R). exists t. rewrite tkey_name, Nt. auto. }
  constructor.
  - cbn [so_tiers]. apply (adel_keys_NoDup bytes_eqb bytes_eqb_eq). eapply sr_nodup; eauto.
  - intros n' t0. rewrite TL. destruct (bytes_eqb n' n); [discriminate|]. eapply sr_name; eauto.
  - cbn [so_sorted]. apply SS_sub_delete. eapply sr_sorted; eauto.
  - intros tk. cbn [so_sorted].
    rewrite (bt_delete_In_iff tier_less tier_less_irrefl (tkey_of t) (so_sorted s) tk (sr_sorted _ _ _ _ R) IK).
    rewrite (sr_keys _ _ _ _ R tk). split.
    + intros [[t0 [H Q]] N]. exists t0. rewrite TL. destruct (bytes_eqb (tk_name tk) n) eqn:E; [|auto].
      apply bytes_eqb_eq in E. rewrite E, Ht in H. inversion H; subst t0. contradiction.
    + intros [t0 [H Q]]. rewrite TL in H. destruct (bytes_eqb (tk_name tk) n) eqn:E; [discriminate|].
      split; [eauto|]. intros ->. rewrite tkey_name, Nt, bytes_eqb_refl in E. discriminate.
  - intros n' t0. rewrite TL. destruct (bytes_eqb n' n); [discriminate|]. eapply sr_psorted; eauto.
  - intros n' t0. rewrite TL. destruct (bytes_eqb n' n); [discriminate|]. eapply sr_pmem; eauto.
  - intros n' t0. rewrite TL. destruct (bytes_eqb n' n); [discriminate|]. eapply sr_psound; eauto.
  - intros n' t0. rewrite TL. unfold updT. destruct (bytes_eqb n' n); [discriminate|]. eapply sr_fields; eauto.
  - intros k m HP. destruct (sr_pcomplete _ _ _ _ R k m HP) as [t0 [H0 H1]]. exists t0. rewrite TL.
    destruct (bytes_eqb (m_tier m) n) eqn:E; [|auto].
    apply bytes_eqb_eq in E. rewrite E, Ht in H0. inversion H0; subst t0. rewrite EP in H1. discriminate.
  - intros n' tv. unfold updT. rewrite TL. destruct (bytes_eqb n' n); [discriminate|]. eapply sr_tcomplete; eauto.
  - eapply sr_wf; eauto.
Qed.

Lemma T_none_of_no_tier : forall v s P T n, srep v s P T -> tl s n = None -> T n = None.
Proof.
  intros v s P T n R H. destruct (T n) as [tv|] eqn:E; [|reflexivity].
  destruct (sr_tcomplete _ _ _ _ R n tv E) as [t Ht]. congruence.
Qed.

Lemma updT_same : forall T n x, T n = x -> forall n', T n' = updT T n x n'.
Proof.
  intros T n x H n'. unfold updT. destruct (bytes_eqb n' n) eqn:E; [|reflexivity].
  apply bytes_eqb_eq in E. subst n'. exact H.
Qed.

(* OnUpdate for a tier key *)
Lemma srep_tier_update : forall v s P T n val,
  srep v s P T -> srep v (sorter_tier_update v s n val) P (updT T n val).
Proof.
  intros v s P T n val R. unfold sorter_tier_update. destruct val as [tv|].
  - pose proof (srep_set_tier v s P T n true (tv_order tv) (tv_action tv) (Some tv) R) as H.
    cbv zeta in H. destruct (tl s n) as [old|] eqn:E.
    + rewrite (sr_name _ _ _ _ R n old E). apply H. simpl. auto.
    + apply H. simpl. auto.
  - destruct (tl s n) as [old|] eqn:E.
    + destruct (ti_pols old) eqn:EP.
      * apply srep_drop_tier; auto.
      * pose proof (srep_set_tier v s P T n false None (if v_resetact v then 0%N else ti_action old) None R) as H.
        cbv zeta in H. rewrite E in H. rewrite EP in H. rewrite (sr_name _ _ _ _ R n old E). apply H. simpl. auto.
    + eapply srep_ext; [reflexivity | apply updT_same; eapply T_none_of_no_tier; eauto | exact R].
Qed.

(* tierForPolicy(meta): the tier record, created as an invalid placeholder if unknown *)
Lemma srep_ensure : forall v s P T n,
  srep v s P T -> srep v (fst (ensure_tier s n)) P T /\ tl (fst (ensure_tier s n)) n = Some (snd (ensure_tier s n)).
Proof.
  intros v s P T n R. unfold ensure_tier. destruct (tl s n) as [t|] eqn:E; cbn [fst snd].
  - auto.
  - split.
    + pose proof (srep_set_tier v s P T n false None 0%N None R) as H. cbv zeta in H. rewrite E in H.
      eapply srep_ext; [reflexivity | | apply H; simpl; auto].
      intros n'. symmetry. apply updT_same. eapply T_none_of_no_tier; eauto.
    + cbn [so_tiers]. rewrite tl_aset, bytes_eqb_refl. reflexivity.
Qed.

(* ------------------------------------------------------------------ UpdatePolicy *)

Lemma meta_eqb_eq : forall a b, meta_eqb a b = true -> a = b.
Proof.
  intros [o1 a1 b1 c1 d1 e1 t1] [o2 a2 b2 c2 d2 e2 t2]. unfold meta_eqb; simpl.
  rewrite !andb_true_iff. intros [[[[[[H1 H2] H3] H4] H5] H6] H7].
  apply order_eqb_eq in H1. apply Bool.eqb_prop in H2, H3, H4, H5, H6. apply bytes_eqb_eq in H7.
  subst. reflexivity.
Qed.

Lemma updP_same : forall P k x, P k = x -> forall k', P k' = updP P k x k'.
Proof.
  intros P k x H k'. unfold updP. destruct (pkey_eqb k' k) eqn:E; [|reflexivity].
  apply pkey_eqb_eq in E. subst k'. exact H.
Qed.

Lemma srep_update_none : forall v s P T k,
  srep v s P T ->
  srep v (fst (sorter_update_policy v s k None)) (updP P k None) T
  /\ (snd (sorter_update_policy v s k None) = false -> P k = None).
Proof.
  intros v s P T k R. unfold sorter_update_policy. destruct (P k) as [m|] eqn:HP.
  - destruct (tier_holding_some v s P T k m R HP) as [t [H1 [H2 H3]]]. rewrite H1, H3. cbn [fst snd].
    split; [eapply srep_remove; eauto | discriminate].
  - rewrite (tier_holding_none v s P T k R HP). cbn [fst snd]. split; [|reflexivity].
    eapply srep_ext; [apply updP_same; exact HP | reflexivity | exact R].
Qed.

Lemma srep_leave_old : forall v s P T k n,
  srep v s P T ->
  exists P1, srep v (fst (leave_old_tier v s k n)) P1 T
    /\ (forall k', k' <> k -> P1 k' = P k')
    /\ (forall om, P1 k = Some om -> m_tier om = n)
    /\ (snd (leave_old_tier v s k n) = false -> P1 k = P k)
    /\ (P1 k = P k \/ P1 k = None).
Proof.
  intros v s P T k n R. unfold leave_old_tier. destruct (P k) as [m|] eqn:HP.
  - destruct (tier_holding_some v s P T k m R HP) as [t [H1 [H2 H3]]]. rewrite H1.
    rewrite (sr_name _ _ _ _ R _ _ H2).
    destruct (bytes_eqb (m_tier m) n) eqn:E.
    + apply bytes_eqb_eq in E. exists P. cbn [fst snd].
      split; [exact R|]. split; [reflexivity|]. split; [|split; [intros; congruence | left; congruence]].
      intros om Q. rewrite HP in Q. inversion Q; subst om. exact E.
    + rewrite H3. cbn [fst snd]. exists (updP P k None). split; [eapply srep_remove; eauto|].
      split; [|split; [|split]].
      * intros k' N. unfold updP. rewrite (pkey_eqb_false _ _ N). reflexivity.
      * unfold updP. rewrite pkey_eqb_refl. discriminate.
      * discriminate.
      * right. unfold updP. rewrite pkey_eqb_refl. reflexivity.
  - rewrite (tier_holding_none v s P T k R HP). cbn [fst snd]. exists P.
    split; [exact R|]. split; [reflexivity|]. split; [|split; [intros; congruence | left; congruence]].
    intros om Q. rewrite HP in Q. discriminate.
Qed.

Lemma srep_update_some : forall v s P T k m,
  srep v s P T -> key_wf v k ->
  srep v (fst (sorter_update_policy v s k (Some m))) (updP P k (Some m)) T
  /\ (snd (sorter_update_policy v s k (Some m)) = false -> P k = Some m).
Proof.
  intros v s P T k m R W. unfold sorter_update_policy.
  destruct (srep_leave_old v s P T k (m_tier m) R) as [P1 [R1 [A1 [A2 [A3 A4]]]]].
  destruct (leave_old_tier v s k (m_tier m)) as [s1 d1]. cbn [fst snd] in *.
  destruct (srep_ensure v s1 P1 T (m_tier m) R1) as [R2 L2].
  destruct (ensure_tier s1 (m_tier m)) as [s2 t]. cbn [fst snd] in *.
  pose proof (srep_put v s2 P1 T (m_tier m) t k m R2 L2 eq_refl W A2) as R3.
  assert (D2 : snd (put_in_tier v s2 (m_tier m) t k m) = false -> P1 k = Some m).
  { unfold put_in_tier. cbn [snd]. destruct (pl t k) as [om|] eqn:E; [|discriminate].
    intros H. apply negb_false_iff in H. apply meta_eqb_eq in H. subst om.
    destruct (sr_psound _ _ _ _ R2 _ _ L2 k m E). assumption. }
  destruct (put_in_tier v s2 (m_tier m) t k m) as [s3 d2]. cbn [fst snd] in *. split.
  - eapply srep_ext; [| reflexivity | exact R3]. intros k'. unfold updP.
    destruct (pkey_eqb k' k) eqn:E; [reflexivity|]. apply A1. apply pkey_eqb_neq. exact E.
  - intros H. apply orb_false_iff in H. destruct H as [H1 H2]. rewrite <- (A3 H1). auto.
Qed.
