(* C03 — the pipeline in front of the resolver: datastore-level events (endpoints with own labels and profile ids,
   profile label resources, policies with selectors, tiers) as the ActiveRulesCalculator + label inheritance index
   turn them into the resolver's events.

   MODEL of the upstream (`translate`): after every datastore event the label index reports exactly the difference
   between the old and the new match relation { (policy, endpoint) | eval selector (effective labels) } as
   match-stopped / match-started callbacks (that the real InheritIndex does this is C07's theorem c07_index_exact /
   c07_alternation; here it is re-checked against the real ActiveRulesCalculator+InheritIndex on every run), and the
   ActiveRulesCalculator is registered ahead of the PolicyResolver, so the callbacks precede the resolver's own
   OnUpdate for the same event.

   SPEC (`ok_phistory`): the same view oracle as Spec.ok_history, with the match relation COMPUTED from selectors
   and effective labels (own labels override inherited ones; profiles in ProfileIDs order; a profile whose labels
   are unknown contributes nothing). *)
From Coq Require Import List NArith ZArith Bool.
From Verif.Common Require Import Labels.
From Verif.C03 Require Import Model Spec.
Import ListNotations.

Record pepval := mkPEp { pe_labels : labels; pe_profiles : list bytes }.

Inductive pop :=
| PEp (e : epkey) (val : option pepval)              (* local endpoint update / delete *)
| PProf (n : bytes) (val : option labels)            (* profile LabelsToApply resource update / delete *)
| PPol (k : pkey) (val : option (polval * ast))      (* policy (with its parsed selector) update / delete *)
| PTier (n : bytes) (val : option tierval)
| PInSync
| PFlush.

Record pstate := mkPS { ps_eps : list (epkey * pepval); ps_profs : list (bytes * labels);
                        ps_pols : list (pkey * (polval * ast)); ps_tiers : list (bytes * tierval);
                        ps_insync : bool }.
Definition PS0 : pstate := mkPS [] [] [] [] false.

Definition papply (S : pstate) (o : pop) : pstate :=
  match o with
  | PEp e (Some x) => mkPS (aset N.eqb e x (ps_eps S)) (ps_profs S) (ps_pols S) (ps_tiers S) (ps_insync S)
  | PEp e None => mkPS (adel N.eqb e (ps_eps S)) (ps_profs S) (ps_pols S) (ps_tiers S) (ps_insync S)
  | PProf n (Some L) => mkPS (ps_eps S) (aset bytes_eqb n L (ps_profs S)) (ps_pols S) (ps_tiers S) (ps_insync S)
  | PProf n None => mkPS (ps_eps S) (adel bytes_eqb n (ps_profs S)) (ps_pols S) (ps_tiers S) (ps_insync S)
  | PPol k (Some x) => mkPS (ps_eps S) (ps_profs S) (aset pkey_eqb k x (ps_pols S)) (ps_tiers S) (ps_insync S)
  | PPol k None => mkPS (ps_eps S) (ps_profs S) (adel pkey_eqb k (ps_pols S)) (ps_tiers S) (ps_insync S)
  | PTier n (Some tv) => mkPS (ps_eps S) (ps_profs S) (ps_pols S) (aset bytes_eqb n tv (ps_tiers S)) (ps_insync S)
  | PTier n None => mkPS (ps_eps S) (ps_profs S) (ps_pols S) (adel bytes_eqb n (ps_tiers S)) (ps_insync S)
  | PInSync => mkPS (ps_eps S) (ps_profs S) (ps_pols S) (ps_tiers S) true
  | PFlush => S
  end.

(* labels inherited from the profiles, in ProfileIDs order; unknown profile = no labels *)
Definition parent_labels (S : pstate) (x : pepval) : list labels :=
  map (fun n => match alookup bytes_eqb n (ps_profs S) with Some L => L | None => [] end) (pe_profiles x).

(* does policy k's selector match endpoint e's effective labels *)
Definition pmatch (S : pstate) (k : pkey) (e : epkey) : bool :=
  match alookup pkey_eqb k (ps_pols S), alookup N.eqb e (ps_eps S) with
  | Some (_, sel), Some x => matches sel (pe_labels x) (parent_labels S x)
  | _, _ => false
  end.

(* the match relation as a list (one entry per (policy, endpoint) of the state) *)
Fixpoint nodup_keys {K V} (eqb : K -> K -> bool) (l : list (K * V)) : list K :=
  match l with
  | [] => []
  | (k, _) :: l' => if existsb (eqb k) (nodup_keys eqb l') then nodup_keys eqb l' else k :: nodup_keys eqb l'
  end.
Definition pmatches (S : pstate) : list (pkey * epkey) :=
  flat_map (fun k => flat_map (fun e => if pmatch S k e then [(k, e)] else [])
                              (nodup_keys N.eqb (ps_eps S)))
           (nodup_keys pkey_eqb (ps_pols S)).

(* the resolver's view of the datastore state *)
Definition dstate_of (S : pstate) : dstate :=
  mkD (map (fun kx => (fst kx, fst (snd kx))) (ps_pols S)) (ps_tiers S) (map fst (ps_eps S))
      (pmatches S) (ps_insync S).

(* ------------------------------------------------------------------ upstream model *)

Definition mdiff (a b : list (pkey * epkey)) : list (pkey * epkey) :=
  filter (fun x => negb (existsb (pe_eqb x) b)) a.

(* the resolver events one datastore event turns into *)
Definition translate1 (S : pstate) (o : pop) : list op :=
  let S' := papply S o in
  let stops := map (fun x => MatchStop (fst x) (snd x)) (mdiff (pmatches S) (pmatches S')) in
  let starts := map (fun x => MatchStart (fst x) (snd x)) (mdiff (pmatches S') (pmatches S)) in
  match o with
  | PEp e (Some _) => stops ++ starts ++ [EpUpd e true]
  | PEp e None => stops ++ starts ++ [EpUpd e false]
  | PProf _ _ => stops ++ starts
  | PPol k (Some x) => stops ++ starts ++ [PolUpd k (Some (fst x))]
  | PPol k None => stops ++ starts ++ [PolUpd k None]
  | PTier n val => [TierUpd n val]
  | PInSync => [InSync]
  | PFlush => [Flush []]
  end.

Fixpoint translate_from (S : pstate) (h : list pop) : list op :=
  match h with
  | [] => []
  | o :: h' => translate1 S o ++ translate_from (papply S o) h'
  end.
Definition translate (h : list pop) : list op := translate_from PS0 h.
Definition pnet (h : list pop) : pstate := fold_left papply h PS0.

(* model of the whole pipeline: what every Flush emits *)
Definition prun (v : variant) (h : list pop) : list (list epout) := run v (translate h).

(* ------------------------------------------------------------------ oracle *)

Fixpoint ok_pfrom (S : pstate) (vw : view) (h : list pop) (outs : list (list epout)) : bool :=
  match h with
  | [] => match outs with [] => true | _ => false end
  | PFlush :: h' =>
      match outs with
      | [] => false
      | out :: outs' =>
          if ps_insync S then
            let vw' := apply_outs vw out in
            nodup_eps (map fst out) && view_ok (dstate_of S) vw' && ok_pfrom S vw' h' outs'
          else match out with [] => ok_pfrom S vw h' outs' | _ => false end
      end
  | o :: h' => ok_pfrom (papply S o) vw h' outs
  end.
Definition ok_phistory (h : list pop) (outs : list (list epout)) : bool := ok_pfrom PS0 [] h outs.

Record pcase := mk_pcase { pc_var : variant; pc_ops : list pop; pc_outs : list (list epout);
                           pc_splits : list psplit }.

Definition check_pcase (c : pcase) : bool * bool :=
  (list_eqb (list_eqb epout_eqb) (map sort_outs (prun (pc_var c) (pc_ops c))) (pc_outs c)
   && list_eqb psplit_eqb (map to_proto (all_tiers (pc_outs c))) (pc_splits c),
   ok_phistory (pc_ops c) (pc_outs c)
   && list_eqb psplit_eqb (map spec_split (all_tiers (pc_outs c))) (pc_splits c)).

(* both kinds of correspondence case *)
Inductive acase := ARes (c : case) | APipe (c : pcase).
Definition check_acase (c : acase) : bool * bool :=
  match c with ARes c => check_case c | APipe c => check_pcase c end.
