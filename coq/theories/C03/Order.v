(* C03 — the comparison functions: TierLess and PolKVLess (both tie-break variants) are strict total orders on
   distinct keys, and coincide with the specification's orders (the pinned tie-break only partially). *)
From Coq Require Import List NArith ZArith Bool Lia.
From Verif.Common Require Import Labels.
From Verif.C03 Require Import Model Spec.
Import ListNotations.

Lemma bytes_ltb_asym : forall a b, bytes_ltb a b = true -> bytes_ltb b a = false.
Proof.
  intros a b H. destruct (bytes_ltb b a) eqn:E; [|reflexivity].
  pose proof (bytes_ltb_trans _ _ _ H E) as T. rewrite bytes_ltb_irrefl in T. discriminate.
Qed.

Lemma bytes_eqb_true : forall a b, bytes_eqb a b = true -> a = b.
Proof. intros a b H. apply bytes_eqb_eq. exact H. Qed.

(* ------------------------------------------------------------------ orders *)

Lemma order_ltb_irrefl : forall a, order_ltb a a = false.
Proof. destruct a; simpl; [apply Z.ltb_irrefl | reflexivity]. Qed.
Lemma order_ltb_trans : forall a b c, order_ltb a b = true -> order_ltb b c = true -> order_ltb a c = true.
Proof. destruct a, b, c; simpl; try congruence; rewrite !Z.ltb_lt; lia. Qed.
Lemma order_eqb_eq : forall a b, order_eqb a b = true <-> a = b.
Proof.
  destruct a, b; simpl; split; try congruence; try discriminate.
  - rewrite Z.eqb_eq. congruence.
  - intros [= ->]. apply Z.eqb_refl.
Qed.
Lemma order_total : forall a b, order_eqb a b = false -> order_ltb a b = false -> order_ltb b a = true.
Proof.
  destruct a, b; simpl; try congruence. rewrite Z.eqb_neq, Z.ltb_ge, Z.ltb_lt. lia.
Qed.
Lemma order_eqb_refl : forall a, order_eqb a a = true.
Proof. intros. apply order_eqb_eq. reflexivity. Qed.
Lemma order_eqb_sym : forall a b, order_eqb a b = order_eqb b a.
Proof. destruct a, b; simpl; auto using Z.eqb_sym. Qed.
Lemma order_ltb_neq : forall a b, order_ltb a b = true -> order_eqb a b = false.
Proof. destruct a, b; simpl; try congruence. rewrite Z.ltb_lt, Z.eqb_neq. lia. Qed.

(* ------------------------------------------------------------------ TierLess *)

Lemma tier_less_irrefl : forall a, tier_less a a = false.
Proof.
  intros [n v o]. unfold tier_less; simpl. destruct v, o; simpl; try rewrite Z.eqb_refl; apply bytes_ltb_irrefl.
Qed.

Lemma tier_less_trans : forall a b c, tier_less a b = true -> tier_less b c = true -> tier_less a c = true.
Proof.
  intros [na va oa] [nb vb ob] [nc vc oc]. unfold tier_less; simpl.
  destruct va, vb, vc; simpl; try congruence;
  destruct oa as [x|], ob as [y|], oc as [z|]; simpl; try congruence;
  try (destruct (Z.eqb_spec x y), (Z.eqb_spec y z), (Z.eqb_spec x z); try lia;
       rewrite ?Z.ltb_lt; intros; subst; try lia; eauto using bytes_ltb_trans);
  eauto using bytes_ltb_trans.
Qed.

Lemma tier_less_total : forall a b, tier_less a b = false -> tier_less b a = false -> a = b.
Proof.
  intros [na va oa] [nb vb ob]. unfold tier_less; simpl.
  destruct va, vb; simpl; try congruence;
  destruct oa as [x|], ob as [y|]; simpl; try congruence;
  try (rewrite (Z.eqb_sym y x); destruct (Z.eqb_spec x y); [subst|rewrite !Z.ltb_ge; lia]);
  intros H1 H2; rewrite (bytes_ltb_total _ _ H1 H2); reflexivity.
Qed.

(* the specification's tier order is TierLess *)
Lemma bytes_cmp_lt : forall a b, bytes_cmp a b = Lt <-> bytes_ltb a b = true.
Proof. intros. unfold bytes_cmp. destruct (bytes_ltb a b); [tauto|]. destruct (bytes_ltb b a); split; congruence. Qed.
Lemma bytes_cmp_eq : forall a b, bytes_cmp a b = Eq <-> a = b.
Proof.
  intros. unfold bytes_cmp. destruct (bytes_ltb a b) eqn:E1.
  - split; [discriminate|]. intros ->. rewrite bytes_ltb_irrefl in E1. discriminate.
  - destruct (bytes_ltb b a) eqn:E2.
    + split; [discriminate|]. intros ->. rewrite bytes_ltb_irrefl in E2. discriminate.
    + split; auto using bytes_ltb_total.
Qed.

Lemma bytes_cmp_is_lt : forall a b, is_lt (bytes_cmp a b) = bytes_ltb a b.
Proof. intros. unfold bytes_cmp. destruct (bytes_ltb a b); [reflexivity|]. destruct (bytes_ltb b a); reflexivity. Qed.

Lemma zcmp_lexc : forall x y c, is_lt (lexc (Z.compare x y) c) = if Z.eqb x y then is_lt c else Z.ltb x y.
Proof.
  intros. destruct (Z.eqb_spec x y).
  - subst. rewrite Z.compare_refl. reflexivity.
  - destruct (Z.compare_spec x y); try lia; simpl; symmetry; [apply Z.ltb_lt | apply Z.ltb_ge]; lia.
Qed.

Lemma tier_before_is_tier_less : forall a b, tier_before a b = tier_less a b.
Proof.
  intros [na va oa] [nb vb ob]. unfold tier_before, tier_less; simpl.
  destruct va, vb; simpl; try reflexivity;
  destruct oa as [x|], ob as [y|]; simpl; try reflexivity; try apply bytes_cmp_is_lt;
  rewrite zcmp_lexc, bytes_cmp_is_lt; reflexivity.
Qed.

(* ------------------------------------------------------------------ policy keys *)

Lemma pkey_eqb_eq : forall a b, pkey_eqb a b = true <-> a = b.
Proof.
  intros [[n1 s1] k1] [[n2 s2] k2]. unfold pkey_eqb, pk_name, pk_ns, pk_kind; simpl.
  rewrite !andb_true_iff, !bytes_eqb_eq. split; [intros [[-> ->] ->]; reflexivity | intros [= -> -> ->]; auto].
Qed.
Lemma pkey_eqb_refl : forall a, pkey_eqb a a = true.
Proof. intros. apply pkey_eqb_eq. reflexivity. Qed.
Lemma pkey_eqb_neq : forall a b, pkey_eqb a b = false <-> a <> b.
Proof. intros. rewrite <- pkey_eqb_eq. destruct (pkey_eqb a b); split; congruence. Qed.

(* name, then namespace, then kind *)
Lemma key_ltb_lex_irrefl : forall a, key_ltb_lex a a = false.
Proof. intros. unfold key_ltb_lex. rewrite !bytes_ltb_irrefl, !bytes_eqb_refl. reflexivity. Qed.

Lemma key_ltb_lex_trans : forall a b c, key_ltb_lex a b = true -> key_ltb_lex b c = true -> key_ltb_lex a c = true.
Proof.
  intros [[n1 s1] k1] [[n2 s2] k2] [[n3 s3] k3]. unfold key_ltb_lex, pk_name, pk_ns, pk_kind; simpl.
  rewrite !orb_true_iff, !andb_true_iff, !orb_true_iff, !andb_true_iff, !bytes_eqb_eq.
  intros [H1|[-> [H1|[-> H1]]]] [H2|[E2 [H2|[E3 H2]]]]; subst; eauto 10 using bytes_ltb_trans.
Qed.

Lemma key_ltb_lex_total : forall a b, key_ltb_lex a b = false -> key_ltb_lex b a = false -> a = b.
Proof.
  intros [[n1 s1] k1] [[n2 s2] k2]. unfold key_ltb_lex, pk_name, pk_ns, pk_kind; simpl.
  rewrite !orb_false_iff. intros [A1 A2] [B1 B2].
  pose proof (bytes_ltb_total _ _ A1 B1); subst. rewrite bytes_eqb_refl in *. simpl in *.
  apply orb_false_iff in A2, B2. destruct A2 as [A2 A3], B2 as [B2 B3].
  pose proof (bytes_ltb_total _ _ A2 B2); subst. rewrite bytes_eqb_refl in *. simpl in *.
  pose proof (bytes_ltb_total _ _ A3 B3); subst. reflexivity.
Qed.

(* the joined string: injective when no component contains '/' *)
Definition no_slash (b : bytes) : Prop := ~ In slash b.
Definition key_ok (k : pkey) : Prop := no_slash (pk_name k) /\ no_slash (pk_ns k).

Lemma app_slash_inj : forall a b x y,
  no_slash a -> no_slash b -> a ++ slash :: x = b ++ slash :: y -> a = b /\ x = y.
Proof.
  induction a as [|c a IH]; intros [|d b] x y Ha Hb H; simpl in *.
  - inversion H. auto.
  - inversion H; subst. exfalso. apply Hb. left. reflexivity.
  - inversion H; subst. exfalso. apply Ha. left. reflexivity.
  - inversion H; subst. destruct (IH b x y) as [-> ->]; auto.
    + intros I. apply Ha. right. exact I.
    + intros I. apply Hb. right. exact I.
Qed.

Lemma keystr_inj : forall a b, key_ok a -> key_ok b -> keystr a = keystr b -> a = b.
Proof.
  intros [[n1 s1] k1] [[n2 s2] k2] [A1 A2] [B1 B2]. unfold keystr, pk_name, pk_ns, pk_kind in *; simpl in *.
  intros H. apply app_slash_inj in H; auto. destruct H as [-> H].
  apply app_slash_inj in H; auto. destruct H as [-> ->]. reflexivity.
Qed.

(* per-variant well-formedness of keys: nothing to ask for the name/namespace/kind tie-break *)
Definition key_wf (v : variant) (k : pkey) : Prop := v_lexname v = true \/ key_ok k.

Lemma key_ltb_irrefl : forall v a, key_ltb v a a = false.
Proof. intros. unfold key_ltb. destruct (v_lexname v); [apply key_ltb_lex_irrefl | apply bytes_ltb_irrefl]. Qed.
Lemma key_ltb_trans : forall v a b c, key_ltb v a b = true -> key_ltb v b c = true -> key_ltb v a c = true.
Proof. intros v a b c. unfold key_ltb. destruct (v_lexname v); [apply key_ltb_lex_trans | apply bytes_ltb_trans]. Qed.
Lemma key_ltb_total : forall v a b, key_wf v a -> key_wf v b ->
  key_ltb v a b = false -> key_ltb v b a = false -> a = b.
Proof.
  intros v a b Ha Hb. unfold key_ltb, key_wf in *. destruct (v_lexname v).
  - apply key_ltb_lex_total.
  - destruct Ha as [|Ha]; [discriminate|]. destruct Hb as [|Hb]; [discriminate|].
    intros H1 H2. apply keystr_inj; auto. apply bytes_ltb_total; assumption.
Qed.

(* ------------------------------------------------------------------ PolKVLess *)

Lemma polkv_less_irrefl : forall v a, polkv_less v a a = false.
Proof. intros. unfold polkv_less. rewrite order_eqb_refl. apply key_ltb_irrefl. Qed.

Lemma polkv_less_trans : forall v a b c,
  polkv_less v a b = true -> polkv_less v b c = true -> polkv_less v a c = true.
Proof.
  intros v [ka ma] [kb mb] [kc mc]. unfold polkv_less; simpl.
  destruct (order_eqb (m_order ma) (m_order mb)) eqn:E1; destruct (order_eqb (m_order mb) (m_order mc)) eqn:E2.
  - apply order_eqb_eq in E1, E2. rewrite E1, E2, order_eqb_refl. apply key_ltb_trans.
  - apply order_eqb_eq in E1. rewrite E1, E2. auto.
  - apply order_eqb_eq in E2. rewrite <- E2, E1. auto.
  - intros H1 H2. pose proof (order_ltb_trans _ _ _ H1 H2) as T. rewrite (order_ltb_neq _ _ T). exact T.
Qed.

(* two entries neither of which is less than the other have the same key and the same order *)
Lemma polkv_less_total : forall v a b, key_wf v (fst a) -> key_wf v (fst b) ->
  polkv_less v a b = false -> polkv_less v b a = false ->
  fst a = fst b /\ m_order (snd a) = m_order (snd b).
Proof.
  intros v [ka ma] [kb mb] Ha Hb. unfold polkv_less; simpl in *.
  rewrite (order_eqb_sym (m_order mb)).
  destruct (order_eqb (m_order ma) (m_order mb)) eqn:E.
  - intros H1 H2. split; [eapply key_ltb_total; eauto | apply order_eqb_eq; exact E].
  - intros H1 H2. pose proof (order_total _ _ E H1). congruence.
Qed.

Lemma polkv_less_same_key : forall v k m1 m2,
  polkv_less v (k, m1) (k, m2) = order_ltb (m_order m1) (m_order m2).
Proof.
  intros. unfold polkv_less; simpl. rewrite key_ltb_irrefl.
  destruct (order_eqb (m_order m1) (m_order m2)) eqn:E; [|reflexivity].
  apply order_eqb_eq in E. rewrite E, order_ltb_irrefl. reflexivity.
Qed.

(* the specification's policy order is PolKVLess with the name/namespace/kind tie-break *)
Lemma bytes_lexc : forall a b c,
  is_lt (lexc (bytes_cmp a b) c) = bytes_ltb a b || (bytes_eqb a b && is_lt c).
Proof.
  intros. unfold bytes_cmp. destruct (bytes_ltb a b) eqn:E1; [reflexivity|].
  destruct (bytes_ltb b a) eqn:E2; simpl.
  - destruct (bytes_eqb a b) eqn:Q; [|reflexivity].
    apply bytes_eqb_true in Q. subst. rewrite bytes_ltb_irrefl in E2. discriminate.
  - rewrite (bytes_ltb_total _ _ E1 E2), bytes_eqb_refl. reflexivity.
Qed.

Lemma pol_before_is_polkv_less_lex : forall fx a b, pol_before a b = polkv_less (mkVariant fx true) a b.
Proof.
  intros fx [k1 m1] [k2 m2].
  unfold pol_before, polkv_less, key_ltb, key_ltb_lex; simpl.
  assert (K : is_lt (lexc (bytes_cmp (pk_name k1) (pk_name k2))
                    (lexc (bytes_cmp (pk_ns k1) (pk_ns k2)) (bytes_cmp (pk_kind k1) (pk_kind k2))))
              = bytes_ltb (pk_name k1) (pk_name k2)
                || (bytes_eqb (pk_name k1) (pk_name k2)
                    && (bytes_ltb (pk_ns k1) (pk_ns k2)
                        || (bytes_eqb (pk_ns k1) (pk_ns k2) && bytes_ltb (pk_kind k1) (pk_kind k2))))).
  { rewrite bytes_lexc, bytes_lexc, bytes_cmp_is_lt. reflexivity. }
  destruct (m_order m1) as [x|], (m_order m2) as [y|]; simpl; try reflexivity; try exact K.
  rewrite zcmp_lexc, K. reflexivity.
Qed.

(* ------------------------------------------------------------------ where the pinned tie-break IS name order *)

(* the two strings differ at some position both have *)
Fixpoint diverge (a b : bytes) : bool :=
  match a, b with
  | c :: a', d :: b' => if N.eqb c d then diverge a' b' else true
  | _, _ => false
  end.

Lemma diverge_ltb_app : forall a b x y, diverge a b = true -> bytes_ltb (a ++ x) (b ++ y) = bytes_ltb a b.
Proof.
  induction a as [|c a IH]; intros [|d b] x y H; simpl in *; try discriminate.
  destruct (N.eqb c d); [rewrite (IH b x y H); reflexivity | rewrite !andb_false_l; reflexivity].
Qed.

Lemma diverge_neq : forall a b, diverge a b = true -> bytes_eqb a b = false.
Proof.
  induction a as [|c a IH]; intros [|d b] H; simpl in *; try discriminate.
  destruct (N.eqb c d); [rewrite (IH b H); reflexivity | reflexivity].
Qed.

Lemma key_ltb_str_is_lex_when_names_diverge : forall a b,
  diverge (pk_name a) (pk_name b) = true -> key_ltb_str a b = key_ltb_lex a b.
Proof.
  intros a b H. unfold key_ltb_str, key_ltb_lex, keystr.
  rewrite (diverge_ltb_app _ _ _ _ H), (diverge_neq _ _ H). simpl. rewrite orb_false_r. reflexivity.
Qed.
