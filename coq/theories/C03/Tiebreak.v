(* C03 — closed form of the pinned tie-break: comparing the joined strings "name/namespace/kind" is the
   lexicographic comparison of (name, namespace, kind) in which the END of a name / namespace counts as the byte
   '/' (47) instead of sorting before every byte. *)
From Coq Require Import List NArith ZArith Bool Lia.
From Verif.Common Require Import Labels.
From Verif.C03 Require Import Model Spec Order.
Import ListNotations.

Fixpoint sep_ltb (x y : bytes) (tail : bool) : bool :=
  match x, y with
  | [], [] => tail
  | [], c :: _ => N.ltb slash c
  | c :: _, [] => N.ltb c slash
  | c :: x', d :: y' => N.ltb c d || (N.eqb c d && sep_ltb x' y' tail)
  end.

Lemma no_slash_cons : forall c x, no_slash (c :: x) -> c <> slash /\ no_slash x.
Proof. intros c x H. split; [intros ->; apply H; left; reflexivity | intros I; apply H; right; exact I]. Qed.

Lemma joined_ltb : forall x y s t, no_slash x -> no_slash y ->
  bytes_ltb (x ++ slash :: s) (y ++ slash :: t) = sep_ltb x y (bytes_ltb s t).
Proof.
  induction x as [|c x IH]; intros [|d y] s t Hx Hy; cbn [bytes_ltb sep_ltb app].
  - rewrite N.ltb_irrefl, N.eqb_refl. reflexivity.
  - apply no_slash_cons in Hy. destruct Hy as [N _].
    destruct (N.eqb slash d) eqn:E; [apply N.eqb_eq in E; congruence|]. rewrite andb_false_l, orb_false_r. reflexivity.
  - apply no_slash_cons in Hx. destruct Hx as [N _].
    destruct (N.eqb c slash) eqn:E; [apply N.eqb_eq in E; congruence|]. rewrite andb_false_l, orb_false_r. reflexivity.
  - apply no_slash_cons in Hx. apply no_slash_cons in Hy. rewrite IH by tauto. reflexivity.
Qed.

Lemma key_ltb_str_closed_form : forall a b, key_ok a -> key_ok b ->
  key_ltb_str a b =
  sep_ltb (pk_name a) (pk_name b) (sep_ltb (pk_ns a) (pk_ns b) (bytes_ltb (pk_kind a) (pk_kind b))).
Proof.
  intros a b [A1 A2] [B1 B2]. unfold key_ltb_str, keystr. rewrite joined_ltb by assumption.
  rewrite joined_ltb by assumption. reflexivity.
Qed.

(* all bytes above '/' (letters and digits: no '-', no '.') *)
Definition high (x : bytes) : Prop := Forall (fun c => (slash < c)%N) x.

Lemma sep_ltb_high : forall x y tail, high x -> high y ->
  sep_ltb x y tail = bytes_ltb x y || (bytes_eqb x y && tail).
Proof.
  induction x as [|c x IH]; intros [|d y] tail Hx Hy; cbn [bytes_ltb bytes_eqb sep_ltb].
  - reflexivity.
  - inversion Hy; subst. apply N.ltb_lt. assumption.
  - inversion Hx; subst. rewrite orb_false_r. apply N.ltb_ge. lia.
  - inversion Hx; inversion Hy; subst. rewrite IH by assumption.
    destruct (N.ltb c d); [reflexivity|]. destruct (N.eqb c d); reflexivity.
Qed.

(* with names and namespaces free of bytes below '0' the pinned tie-break IS (name, namespace, kind) order *)
Lemma key_ltb_str_is_lex_high : forall a b, key_ok a -> key_ok b ->
  high (pk_name a) -> high (pk_name b) -> high (pk_ns a) -> high (pk_ns b) ->
  key_ltb_str a b = key_ltb_lex a b.
Proof.
  intros a b Ka Kb H1 H2 H3 H4. rewrite key_ltb_str_closed_form by assumption.
  rewrite sep_ltb_high by assumption. rewrite sep_ltb_high by assumption. reflexivity.
Qed.

(* one name extending the other by a byte below '/': the two orders disagree *)
Lemma sep_ltb_prefix_low : forall x c r tail, (c < slash)%N ->
  sep_ltb x (x ++ c :: r) tail = false /\ sep_ltb (x ++ c :: r) x tail = true.
Proof.
  induction x as [|d x IH]; intros c r tail H; cbn [sep_ltb app].
  - split; [apply N.ltb_ge; lia | apply N.ltb_lt; exact H].
  - rewrite N.ltb_irrefl, N.eqb_refl. cbn [orb andb]. apply IH. exact H.
Qed.

Lemma key_ltb_str_disagrees : forall a b c r, key_ok a -> key_ok b -> (c < slash)%N ->
  pk_name b = pk_name a ++ c :: r ->
  key_ltb_str a b = false /\ key_ltb_str b a = true /\ key_ltb_lex a b = true /\ key_ltb_lex b a = false.
Proof.
  intros a b c r Ka Kb H E. rewrite !key_ltb_str_closed_form by assumption. rewrite E.
  destruct (sep_ltb_prefix_low (pk_name a) c r (sep_ltb (pk_ns a) (pk_ns b) (bytes_ltb (pk_kind a) (pk_kind b))) H) as [S1 _].
  destruct (sep_ltb_prefix_low (pk_name a) c r (sep_ltb (pk_ns b) (pk_ns a) (bytes_ltb (pk_kind b) (pk_kind a))) H) as [_ S2].
  split; [exact S1 | split; [exact S2|]].
  assert (L : bytes_ltb (pk_name a) (pk_name a ++ c :: r) = true).
  { clear. induction (pk_name a) as [|d x IH]; simpl; [reflexivity|]. rewrite N.eqb_refl, IH. apply orb_true_r. }
  unfold key_ltb_lex. rewrite E, L. split; [reflexivity|].
  rewrite (bytes_ltb_asym _ _ L). simpl.
  destruct (bytes_eqb (pk_name a ++ c :: r) (pk_name a)) eqn:Q; [|reflexivity].
  apply bytes_eqb_true in Q. rewrite Q in L. rewrite bytes_ltb_irrefl in L. discriminate.
Qed.
