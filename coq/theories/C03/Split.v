(* C03 — tierInfoToProtoTierInfo (model: to_proto) implements the specification's class/direction split. *)
From Coq Require Import List NArith ZArith Bool.
From Verif.Common Require Import Labels.
From Verif.C03 Require Import Model Spec.
Import ListNotations.

Lemma filter_filter : forall {A} (f g : A -> bool) l,
  filter f (filter g l) = filter (fun x => g x && f x) l.
Proof.
  induction l as [|x l IH]; simpl; [reflexivity|].
  destruct (g x); simpl; [destruct (f x); simpl; congruence | exact IH].
Qed.

Lemma proto_tier_spec : forall t (cls : polkv -> bool) (sel : meta -> bool) action eg,
  (forall kv, cls kv = sel (snd kv)) ->
  nonempty_tier (proto_tier (to_name t) action eg (filter cls (to_pols t))) = spec_tier t sel action eg.
Proof.
  intros t cls sel action eg H. unfold nonempty_tier, proto_tier, spec_tier, keys_where; simpl.
  rewrite !filter_filter.
  rewrite (filter_ext (fun x => cls x && m_in (snd x)) (fun kv => sel (snd kv) && m_in (snd kv)))
    by (intros; rewrite H; reflexivity).
  rewrite (filter_ext (fun x => cls x && m_eg (snd x)) (fun kv => sel (snd kv) && m_eg (snd kv)))
    by (intros; rewrite H; reflexivity).
  destruct eg; reflexivity.
Qed.

Lemma flat_map_ext' : forall {A B} (f g : A -> list B) l, (forall x, f x = g x) -> flat_map f l = flat_map g l.
Proof. intros. induction l; simpl; congruence. Qed.

Lemma to_proto_is_spec_split : forall ts, to_proto ts = spec_split ts.
Proof.
  intros ts. unfold to_proto, spec_split. f_equal; apply flat_map_ext'; intros t; apply proto_tier_spec; intros [k m];
    unfold is_normal, is_untracked, is_prednat, is_forward, is_normal, klass_of; simpl;
    destruct (m_dnt m), (m_pre m), (m_aof m); reflexivity.
Qed.

(* readable consequences of the specification's split *)
Lemma spec_tier_ingress : forall t sel action eg pt k,
  In pt (spec_tier t sel action eg) ->
  (In k (pt_in pt) <-> exists m, In (k, m) (to_pols t) /\ sel m = true /\ m_in m = true).
Proof.
  intros t sel action eg pt k H. unfold spec_tier in H.
  assert (E : pt_in pt = keys_where (fun m => sel m && m_in m) (to_pols t)).
  { destruct (keys_where (fun m => sel m && m_in m) (to_pols t)) eqn:E1;
    destruct (if eg then keys_where (fun m => sel m && m_eg m) (to_pols t) else []) eqn:E2;
    simpl in H; try contradiction; destruct H as [<-|[]]; reflexivity. }
  rewrite E. unfold keys_where. rewrite in_map_iff. split.
  - intros [[k' m] [<- I]]. apply filter_In in I. destruct I as [I J]. apply andb_true_iff in J. simpl in *. eauto.
  - intros [m [I [S1 S2]]]. exists (k, m). split; [reflexivity|]. apply filter_In. simpl. rewrite S1, S2. auto.
Qed.

Lemma spec_tier_egress : forall t sel action pt k,
  In pt (spec_tier t sel action true) ->
  (In k (pt_eg pt) <-> exists m, In (k, m) (to_pols t) /\ sel m = true /\ m_eg m = true).
Proof.
  intros t sel action pt k H. unfold spec_tier in H.
  assert (E : pt_eg pt = keys_where (fun m => sel m && m_eg m) (to_pols t)).
  { destruct (keys_where (fun m => sel m && m_in m) (to_pols t)) eqn:E1;
    destruct (keys_where (fun m => sel m && m_eg m) (to_pols t)) eqn:E2;
    simpl in H; try contradiction; destruct H as [<-|[]]; reflexivity. }
  rewrite E. unfold keys_where. rewrite in_map_iff. split.
  - intros [[k' m] [<- I]]. apply filter_In in I. destruct I as [I J]. apply andb_true_iff in J. simpl in *. eauto.
  - intros [m [I [S1 S2]]]. exists (k, m). split; [reflexivity|]. apply filter_In. simpl. rewrite S1, S2. auto.
Qed.

Lemma spec_tier_prednat_no_egress : forall t sel action pt,
  In pt (spec_tier t sel action false) -> pt_eg pt = [].
Proof.
  intros t sel action pt H. unfold spec_tier in H.
  destruct (keys_where (fun m => sel m && m_in m) (to_pols t)); simpl in H; try contradiction.
  destruct H as [<-|[]]. reflexivity.
Qed.
