(* C03 — concrete witnesses (computed): the pinned OnPolicyMatchStopped leaves a stale sorter entry; the pinned
   tie-break is not name order. *)
From Coq Require Import List NArith ZArith Bool.
From Verif.Common Require Import Labels.
From Verif.C03 Require Import Model Spec.
Import ListNotations.
Open Scope N_scope.

Definition gnp : bytes := [71; 78; 80].                 (* "GNP" *)
Definition wp1 : pkey := ([112; 49], [], gnp).          (* p1 *)
Definition wp2 : pkey := ([112; 50], [], gnp).          (* p2 *)
Definition wpol (o : Z) : polval := mkPol default_tier (Some o) false false false [].

(* match p1, unmatch it before the flush, flush, re-order p1 while it is inactive, match it again *)
Definition stale_history : list op :=
  [ InSync; EpUpd 1 true; PolUpd wp1 (Some (wpol 1)); PolUpd wp2 (Some (wpol 2));
    MatchStart wp2 1; MatchStart wp1 1; MatchStop wp1 1; Flush [];
    PolUpd wp1 (Some (wpol 3)); MatchStart wp1 1; Flush [] ].

Lemma stale_history_pinned_rejected : forall lx,
  ok_history stale_history (map sort_outs (run (mkVariant false lx) stale_history)) = false.
Proof. intros []; vm_compute; reflexivity. Qed.

Lemma stale_history_fixed_accepted : forall lx,
  ok_history stale_history (map sort_outs (run (mkVariant true lx) stale_history)) = true.
Proof. intros []; vm_compute; reflexivity. Qed.

(* what the pinned code emits last for endpoint 1: p1 (order 3) still ahead of p2 (order 2) *)
Lemma stale_history_pinned_output :
  last (run (mkVariant false false) stale_history) [] =
  [(1, Some [mkTout default_tier None 0
               [(wp1, extract_meta (wpol 1)); (wp2, extract_meta (wpol 2))]])].
Proof. vm_compute. reflexivity. Qed.

(* "a" and "a-b" with equal order: the joined-string tie-break puts "a-b" first *)
Definition wa : pkey := ([97], [], gnp).
Definition wab : pkey := ([97; 45; 98], [], gnp).
Definition tiebreak_history : list op :=
  [ InSync; EpUpd 1 true; PolUpd wa (Some (wpol 1)); PolUpd wab (Some (wpol 1));
    MatchStart wa 1; MatchStart wab 1; Flush [] ].
Lemma tiebreak_pinned_rejected : forall fx,
  ok_history tiebreak_history (map sort_outs (run (mkVariant fx false) tiebreak_history)) = false.
Proof. intros []; vm_compute; reflexivity. Qed.
Lemma tiebreak_lex_accepted : forall fx,
  ok_history tiebreak_history (map sort_outs (run (mkVariant fx true) tiebreak_history)) = true.
Proof. intros []; vm_compute; reflexivity. Qed.

(* the hypotheses of the main theorem hold of stale_history under the pinned tie-break *)
From Verif.C03 Require Import Order Resolver Sorter Refine Char Main.
Lemma stale_history_hyps :
  Forall (op_wf (mkVariant true false)) stale_history /\ order_ok (mkVariant true false) (net stale_history).
Proof.
  split.
  - apply Forall_forall. intros o Io. unfold stale_history in Io. simpl in Io.
    repeat (destruct Io as [<-|Io];
            [simpl; try exact I; right; split; unfold no_slash; simpl; intuition discriminate|]).
    contradiction.
  - intros a b Ia Ib. vm_compute in Ia, Ib.
    destruct Ia as [<-|[<-|[]]]; destruct Ib as [<-|[<-|[]]]; vm_compute; reflexivity.
Qed.
