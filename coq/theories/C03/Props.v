(* C03 — property theorems only.  Each is closed by `exact <lemma>` and followed by Print Assumptions.

   Vocabulary: `run v ops` = what every Flush of the history `ops` emits in the model (variant v: v_fixed =
   with fixes/C03-discard-pending-on-last-match-stopped.patch, v_lexname = tie-break on name proper, v_resetact =
   with fixes/C01-deleted-tier-resets-default-action.patch; every theorem quantified over v holds for all of them);
   `flush_out v ops ord` = what a Flush emits after the history `ops` (ord = iteration order of the pending set);
   `net ops` = the datastore / upstream state the history leaves (fold); `expected_tiers D e` = the specification.

   MAIN RESULT (c03_emitted_is_expected): for the repaired OnPolicyMatchStopped (v_fixed = true), after ANY
   history - no hypothesis at all on the match callbacks: starts and stops may repeat, arrive for unknown policies
   or endpoints, in any order (the alternation contract C07 proves of the real label index is not even needed; the
   match relation of the net state is simply the set of pairs started and not stopped since) - every update an
   in-sync Flush emits equals expected_tiers of the net state, up to the default action of tiers that do not exist.
   Hypotheses: op_wf (policy keys of PolUpd events without '/', only for the pinned joined-string tie-break) and
   order_ok (the sorter's tie-break orders the policy keys of the net state like (name, namespace, kind): always
   true for the name-proper tie-break; for the pinned one this is exactly the complement of known finding
   tiebreak-joined-string).

   NOT PROVED: c03_model_meets_spec (the boolean oracle ok_history accepts every run of the repaired model).  Its
   content IS proved in Prop form (c03_emitted_is_expected + c03_no_stale_view + c03_flush_clears_dirty +
   c03_nothing_before_insync); what is missing is only the reflection glue: that the oracle's association-list
   view built by apply_outs over the sorted per-flush output equals view_after pointwise, that sort_outs keeps
   the endpoints distinct, and soundness of list_eqb/tout_eqb. *)
From Coq Require Import List NArith ZArith Bool Sorted.
From Verif.Common Require Import Labels.
From Verif.C03 Require Import Model Spec Witness Order BT Split Resolver SpecProps Sorter Refine Char Main Dirty Pipe PipeProofs Tiebreak.
Import ListNotations.
Open Scope N_scope.

(* ---------------------------------------------------------------- the comparison functions *)

(* TierLess is a strict total order on tier keys *)
Theorem c03_tier_less_strict_total :
  (forall a, tier_less a a = false)
  /\ (forall a b c, tier_less a b = true -> tier_less b c = true -> tier_less a c = true)
  /\ (forall a b, tier_less a b = false -> tier_less b a = false -> a = b).
Proof. exact (conj tier_less_irrefl (conj tier_less_trans tier_less_total)). Qed.
Print Assumptions c03_tier_less_strict_total.

(* PolKVLess (either tie-break; the joined-string one for key components without '/') is a strict order, total
   on distinct keys: two entries neither of which is less have the same key and the same order *)
Theorem c03_polkv_less_strict_total : forall v,
  (forall a, polkv_less v a a = false)
  /\ (forall a b c, polkv_less v a b = true -> polkv_less v b c = true -> polkv_less v a c = true)
  /\ (forall a b, key_wf v (fst a) -> key_wf v (fst b) ->
        polkv_less v a b = false -> polkv_less v b a = false ->
        fst a = fst b /\ m_order (snd a) = m_order (snd b)).
Proof. exact (fun v => conj (polkv_less_irrefl v) (conj (polkv_less_trans v) (polkv_less_total v))). Qed.
Print Assumptions c03_polkv_less_strict_total.
Example c03_key_wf_inhabited : key_wf (mkVariant true false) wab.
Proof. right. split; unfold no_slash; simpl; intuition discriminate. Qed.

(* the specification's orders (valid first / ascending order, unset last / name[, namespace, kind]) are the Go
   comparison functions (PolKVLess: with the name-proper tie-break) *)
Theorem c03_spec_orders_are_go_orders :
  (forall a b, tier_before a b = tier_less a b)
  /\ (forall fx a b, pol_before a b = polkv_less (mkVariant fx true) a b).
Proof. exact (conj tier_before_is_tier_less pol_before_is_polkv_less_lex). Qed.
Print Assumptions c03_spec_orders_are_go_orders.

(* CLOSED FORM of the pinned joined-string tie-break (key components without '/'): it is the lexicographic order on
   (name, namespace, kind) in which the END of a name / namespace counts as the byte '/' instead of sorting before
   every byte (sep_ltb) *)
Theorem c03_tiebreak_closed_form : forall a b, key_ok a -> key_ok b ->
  key_ltb_str a b =
  sep_ltb (pk_name a) (pk_name b) (sep_ltb (pk_ns a) (pk_ns b) (bytes_ltb (pk_kind a) (pk_kind b))).
Proof. exact key_ltb_str_closed_form. Qed.
Print Assumptions c03_tiebreak_closed_form.

(* hence it IS (name, namespace, kind) order when names and namespaces have no byte below '0' (no '-', no '.'),
   and whenever the two names differ at a position both have ... *)
Theorem c03_tiebreak_is_name_order_without_low_bytes : forall a b, key_ok a -> key_ok b ->
  high (pk_name a) -> high (pk_name b) -> high (pk_ns a) -> high (pk_ns b) ->
  key_ltb_str a b = key_ltb_lex a b.
Proof. exact key_ltb_str_is_lex_high. Qed.
Print Assumptions c03_tiebreak_is_name_order_without_low_bytes.

Theorem c03_tiebreak_agrees_when_names_diverge : forall a b,
  diverge (pk_name a) (pk_name b) = true -> key_ltb_str a b = key_ltb_lex a b.
Proof. exact key_ltb_str_is_lex_when_names_diverge. Qed.
Print Assumptions c03_tiebreak_agrees_when_names_diverge.

(* ... and it is the REVERSE of name order exactly in the known-finding class: one name extending the other by a
   byte below '/' ('-' or '.') *)
Theorem c03_tiebreak_disagrees_on_low_extension : forall a b c r, key_ok a -> key_ok b -> (c < slash)%N ->
  pk_name b = pk_name a ++ c :: r ->
  key_ltb_str a b = false /\ key_ltb_str b a = true /\ key_ltb_lex a b = true /\ key_ltb_lex b a = false.
Proof. exact key_ltb_str_disagrees. Qed.
Print Assumptions c03_tiebreak_disagrees_on_low_extension.

(* ... and is NOT name order otherwise: "a-b" is emitted before "a" *)
Theorem c03_tiebreak_name_order_refuted : forall fx,
  ok_history tiebreak_history (map sort_outs (run (mkVariant fx false) tiebreak_history)) = false.
Proof. exact tiebreak_pinned_rejected. Qed.
Print Assumptions c03_tiebreak_name_order_refuted.

(* ---------------------------------------------------------------- the btree model is a finite set *)

(* On a strictly sorted sequence: ReplaceOrInsert of an item no stored item is equivalent to adds exactly it and
   keeps the sequence sorted; Delete of a stored item removes exactly it; a strictly sorted sequence is determined
   by its elements ("the sorted permutation is unique"). *)
Theorem c03_btree_is_a_set : forall (A : Type) (less : A -> A -> bool),
  (forall a, less a a = false) ->
  (forall a b c, less a b = true -> less b c = true -> less a c = true) ->
  (forall x l, SS less l -> (forall y, In y l -> ~ equiv less x y) ->
     SS less (bt_insert less x l) /\ forall y, In y (bt_insert less x l) <-> y = x \/ In y l)
  /\ (forall x l, SS less l -> In x l ->
     SS less (bt_delete less x l) /\ forall y, In y (bt_delete less x l) <-> In y l /\ y <> x)
  /\ (forall l1 l2, SS less l1 -> SS less l2 -> (forall x, In x l1 <-> In x l2) -> l1 = l2).
Proof.
  exact (fun A less irr tr =>
    conj (fun x l H NE => conj (bt_insert_SS less tr x l H NE) (fun y => bt_insert_In_iff less x l y NE))
   (conj (fun x l H I => conj (SS_sub_delete less x l H) (fun y => bt_delete_In_iff less irr x l y H I))
         (SS_unique less irr tr))).
Qed.
Print Assumptions c03_btree_is_a_set.

(* ---------------------------------------------------------------- after every history, both variants *)

(* the resolver's multidicts, endpoint set and in-sync flag are the fold of the history *)
Theorem c03_match_state_is_fold : forall v ops, base_inv (state_after v ops) (net ops).
Proof. exact base_inv_run. Qed.
Print Assumptions c03_match_state_is_fold.

(* Flush is gated on in-sync *)
Theorem c03_nothing_before_insync : forall v ops ord, d_insync (net ops) = false -> flush_out v ops ord = [].
Proof. exact not_in_sync_no_output. Qed.
Print Assumptions c03_nothing_before_insync.

(* tier lists go to endpoints that exist, "removed" to endpoints that do not *)
Theorem c03_update_shape : forall v ops ord e r,
  In (e, r) (flush_out v ops ord) ->
  d_insync (net ops) = true /\
  match r with
  | Some ts => In e (d_eps (net ops)) /\
               ts = endpoint_tiers (flush_pending v (state_after v ops) ord)
                                   (sorter_sorted (srt (flush_pending v (state_after v ops) ord))) e
  | None => ~ In e (d_eps (net ops))
  end.
Proof. exact flush_out_shape. Qed.
Print Assumptions c03_update_shape.

(* only policies that currently apply to THIS local endpoint are sent to it (hence only active policies), and
   no tier is sent empty *)
Theorem c03_only_active_sent : forall v ops ord e ts t,
  In (e, Some ts) (flush_out v ops ord) -> In t ts ->
  to_pols t <> [] /\ forall k m, In (k, m) (to_pols t) -> matched (net ops) k e = true.
Proof.
  exact (fun v ops ord e ts t H It =>
           conj (no_empty_tier_sent v ops ord e ts t H It)
                (fun k m Ik => only_matching_sent v ops ord e ts t k m H It Ik)).
Qed.
Print Assumptions c03_only_active_sent.
Example c03_only_active_sent_inhabited :
  flush_out (mkVariant true false) [InSync; EpUpd 1 true; PolUpd wp1 (Some (wpol 1)); MatchStart wp1 1] [] =
  [(1, Some [mkTout default_tier None 0 [(wp1, extract_meta (wpol 1))]])].
Proof. vm_compute. reflexivity. Qed.

(* flush_out is what `run` records for a trailing Flush *)
Theorem c03_run_snoc_flush : forall v ops ord, run v (ops ++ [Flush ord]) = run v ops ++ [flush_out v ops ord].
Proof. exact run_snoc_flush. Qed.
Print Assumptions c03_run_snoc_flush.

(* ---------------------------------------------------------------- direction / class split *)

(* tierInfoToProtoTierInfo (model) IS the specification's split, for every tier list: untracked / pre-DNAT /
   normal (+ forward when ApplyOnForward) by the policy's class, ingress / egress by its types, pre-DNAT ingress
   only, list order preserved, tiers left empty dropped *)
Theorem c03_direction_split : forall ts, to_proto ts = spec_split ts.
Proof. exact to_proto_is_spec_split. Qed.
Print Assumptions c03_direction_split.

Theorem c03_direction_split_meaning : forall t sel action eg pt k,
  In pt (spec_tier t sel action eg) ->
  (In k (pt_in pt) <-> exists m, In (k, m) (to_pols t) /\ sel m = true /\ m_in m = true)
  /\ (eg = true -> (In k (pt_eg pt) <-> exists m, In (k, m) (to_pols t) /\ sel m = true /\ m_eg m = true))
  /\ (eg = false -> pt_eg pt = []).
Proof.
  exact (fun t sel action eg pt k H =>
    conj (spec_tier_ingress t sel action eg pt k H)
   (conj (fun E => spec_tier_egress t sel action pt k (eq_ind eg (fun b => In pt (spec_tier t sel action b)) H true E))
         (fun E => spec_tier_prednat_no_egress t sel action pt
                     (eq_ind eg (fun b => In pt (spec_tier t sel action b)) H false E)))).
Qed.
Print Assumptions c03_direction_split_meaning.

(* ---------------------------------------------------------------- MAIN: what the repaired model emits *)

(* representation invariant of the sorter model (sorted lists = the sets recorded in the maps = abstract maps P, T)
   is kept by every branch of UpdatePolicy and of the tier update *)
Theorem c03_sorter_invariant : forall v s P T,
  srep v s P T ->
  (forall k m, key_wf v k -> srep v (fst (sorter_update_policy v s k (Some m))) (updP P k (Some m)) T
                            /\ (snd (sorter_update_policy v s k (Some m)) = false -> P k = Some m))
  /\ (forall k, srep v (fst (sorter_update_policy v s k None)) (updP P k None) T
              /\ (snd (sorter_update_policy v s k None) = false -> P k = None))
  /\ (forall n val, srep v (sorter_tier_update v s n val) P (updT T n val))
  /\ (forall k, has_policy s k = true <-> exists m, P k = Some m).
Proof.
  exact (fun v s P T R =>
    conj (fun k m W => srep_update_some v s P T k m R W)
   (conj (fun k => srep_update_none v s P T k R)
   (conj (fun n val => srep_tier_update v s P T n val R)
         (fun k => has_policy_iff v s P T k R)))).
Qed.
Print Assumptions c03_sorter_invariant.

(* resolver invariant after every history: the sorter holds only active known policies with their current
   metadata, every active known policy is in the sorter or pending, every pending policy is active *)
Theorem c03_resolver_invariant : forall v ops, v_fixed v = true -> Forall (op_wf v) ops ->
  exists P, rinv v (state_after v ops) (net ops) P.
Proof. exact rinv_run. Qed.
Print Assumptions c03_resolver_invariant.

(* every update emitted by an in-sync Flush after any history is expected_tiers of the net state *)
Theorem c03_emitted_is_expected : forall v ops ord e ts,
  v_fixed v = true -> Forall (op_wf v) ops -> order_ok v (net ops) ->
  In (e, Some ts) (flush_out v ops ord) ->
  blank_missing (net ops) ts = expected_tiers (net ops) e.
Proof. exact emitted_is_expected. Qed.
Print Assumptions c03_emitted_is_expected.

(* the hypotheses are met: always by the name-proper tie-break ... *)
Theorem c03_hypotheses_name_tiebreak : forall v ops, v_lexname v = true ->
  Forall (op_wf v) ops /\ order_ok v (net ops).
Proof.
  exact (fun v ops H => conj (proj2 (Forall_forall (op_wf v) ops)
                                (fun o _ => match o as o0 return op_wf v o0 with
                                            | PolUpd k _ => or_introl H
                                            | _ => I
                                            end))
                             (order_ok_lexname v (net ops) H)).
Qed.
Print Assumptions c03_hypotheses_name_tiebreak.
(* ... and by the pinned one on a non-trivial history *)
Example c03_hypotheses_inhabited_pinned :
  Forall (op_wf (mkVariant true false)) stale_history /\ order_ok (mkVariant true false) (net stale_history).
Proof. exact stale_history_hyps. Qed.

(* exactly the policies of the datastore that match the endpoint, each with the metadata it carries *)
Theorem c03_exact_set : forall v ops ord e ts,
  v_fixed v = true -> Forall (op_wf v) ops -> order_ok v (net ops) ->
  In (e, Some ts) (flush_out v ops ord) ->
  forall k m,
  (exists t, In t ts /\ In (k, m) (to_pols t)) <->
  (exists pv, In (k, pv) (d_pols (net ops)) /\ m = extract_meta pv /\ matched (net ops) k e = true).
Proof. exact emitted_exact_set. Qed.
Print Assumptions c03_exact_set.

(* grouped by tier; no policy twice, no tier twice, no tier empty *)
Theorem c03_grouped_by_tier : forall v ops ord e ts,
  v_fixed v = true -> Forall (op_wf v) ops -> order_ok v (net ops) ->
  In (e, Some ts) (flush_out v ops ord) ->
  (forall t k m, In t ts -> In (k, m) (to_pols t) -> m_tier m = to_name t)
  /\ (forall t, In t ts -> NoDup (to_pols t) /\ to_pols t <> [])
  /\ NoDup (map to_name ts).
Proof. exact emitted_grouped_once. Qed.
Print Assumptions c03_grouped_by_tier.

(* tiers strictly ascending: existing before missing, order (unset last), name; order and default action are
   those of the datastore's tier *)
Theorem c03_tier_order : forall v ops ord e ts,
  v_fixed v = true -> Forall (op_wf v) ops -> order_ok v (net ops) ->
  In (e, Some ts) (flush_out v ops ord) ->
  let D := net ops in
  SSb tier_before (map (fun t => tier_key D (to_name t)) ts)
  /\ forall t, In t ts ->
       to_order t = tk_order (tier_key D (to_name t))
       /\ (forall tv, alookup bytes_eqb (to_name t) (d_tiers D) = Some tv -> to_action t = tv_action tv).
Proof. exact emitted_tier_order. Qed.
Print Assumptions c03_tier_order.

(* policies strictly ascending inside a tier: order (unset last), name, namespace, kind *)
Theorem c03_policy_order : forall v ops ord e ts t,
  v_fixed v = true -> Forall (op_wf v) ops -> order_ok v (net ops) ->
  In (e, Some ts) (flush_out v ops ord) -> In t ts -> SSb pol_before (to_pols t).
Proof. exact emitted_policy_order. Qed.
Print Assumptions c03_policy_order.

(* ---------------------------------------------------------------- the upstream: selectors and effective labels *)

(* datastore-level histories (endpoints with own labels + profile ids, profile label resources, policies with
   selectors, tiers).  `translate h` = the resolver events the ActiveRulesCalculator + label inheritance index turn
   them into (match diff per event, callbacks ahead of the resolver's own update; C07 proves the real index reports
   exactly this diff, and the pipeline stream of the driver re-checks it against the real code on every run).
   The net state of the translated history is the datastore state, with the match relation = selector evaluated
   on the effective labels *)
Theorem c03_upstream_net_state : forall h, prel (pnet h) (net (translate h)).
Proof. exact translate_prel. Qed.
Print Assumptions c03_upstream_net_state.

(* MAIN at datastore level: every list emitted for a local endpoint is expected_tiers, and contains exactly the
   policies whose selector matches the endpoint's effective labels (own labels overriding those inherited from its
   profiles, in ProfileIDs order; a profile whose labels are unknown contributes none) *)
Theorem c03_pipeline_exact_set : forall v h ord e ts,
  v_fixed v = true -> Forall (pop_wf v) h -> order_ok v (net (translate h)) ->
  In (e, Some ts) (flush_out v (translate h) ord) ->
  blank_missing (net (translate h)) ts = expected_tiers (net (translate h)) e
  /\ forall k m,
     (exists t, In t ts /\ In (k, m) (to_pols t)) <->
     (exists pv sel x, alookup pkey_eqb k (ps_pols (pnet h)) = Some (pv, sel) /\ m = extract_meta pv
                       /\ alookup N.eqb e (ps_eps (pnet h)) = Some x
                       /\ eval sel (effective (pe_labels x) (parent_labels (pnet h) x)) = true).
Proof. exact pipeline_exact_set. Qed.
Print Assumptions c03_pipeline_exact_set.

(* ---------------------------------------------------------------- dirty marking: no stale view *)

(* `view_after v ops e` = the last update emitted for e along the history.  After every history every endpoint that
   is NOT marked dirty was last told a list characterised by the current net state (DM), and every endpoint matched
   by a pending, known policy the sorter does not hold yet IS dirty (PD) *)
Theorem c03_dirty_marking : forall v ops, v_fixed v = true -> Forall (op_wf v) ops ->
  DM v (state_after v ops) (net ops) (view_after v ops) /\ PD (state_after v ops).
Proof. exact dm_run. Qed.
Print Assumptions c03_dirty_marking.

(* hence: an endpoint not marked dirty was last told exactly expected_tiers of the net state (a removed endpoint:
   nothing or "removed") *)
Theorem c03_no_stale_view : forall v ops e,
  v_fixed v = true -> Forall (op_wf v) ops -> order_ok v (net ops) ->
  ~ In e (dirty (state_after v ops)) ->
  (In e (d_eps (net ops)) ->
     exists ts, view_after v ops e = Some (Some ts) /\ blank_missing (net ops) ts = expected_tiers (net ops) e)
  /\ (~ In e (d_eps (net ops)) -> view_after v ops e = None \/ view_after v ops e = Some None).
Proof. exact no_stale_view. Qed.
Print Assumptions c03_no_stale_view.

(* and an in-sync Flush leaves no endpoint dirty: after a history ending in-sync + flushed, EVERY local endpoint's
   last update is expected_tiers *)
Theorem c03_flush_clears_dirty : forall v ops ord, d_insync (net ops) = true ->
  dirty (state_after v (ops ++ [Flush ord])) = [].
Proof. exact flush_clears_dirty. Qed.
Print Assumptions c03_flush_clears_dirty.

(* ---------------------------------------------------------------- the defect *)

(* The pinned OnPolicyMatchStopped violates the property: on `stale_history` (match p1, unmatch it before the
   flush, flush, re-order p1 while inactive, match it again) the specification oracle rejects what the pinned
   model emits - p1 keeps its old position - ... *)
Theorem c03_pending_stale_refuted : forall lx,
  ok_history stale_history (map sort_outs (run (mkVariant false lx) stale_history)) = false.
Proof. exact stale_history_pinned_rejected. Qed.
Print Assumptions c03_pending_stale_refuted.

(* ... and accepts what the repaired model emits on the same history *)
Theorem c03_pending_fixed_on_witness : forall lx,
  ok_history stale_history (map sort_outs (run (mkVariant true lx) stale_history)) = true.
Proof. exact stale_history_fixed_accepted. Qed.
Print Assumptions c03_pending_fixed_on_witness.
