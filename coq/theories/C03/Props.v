(* C03 — property theorems only.  Each is closed by `exact <lemma>` and followed by Print Assumptions. *)
From Coq Require Import List NArith ZArith Bool.
From Verif.Common Require Import Labels.
From Verif.C03 Require Import Model Spec Witness.
Import ListNotations.
Open Scope N_scope.

(* The pinned OnPolicyMatchStopped violates the property: on `stale_history` (match p1, unmatch it before the
   flush, flush, re-order p1 while inactive, match it again) the specification oracle rejects what the pinned
   model emits - p1 keeps its old position - and accepts what the repaired model emits. *)
Theorem c03_pending_stale_refuted : forall lx,
  ok_history stale_history (map sort_outs (run (mkVariant false lx) stale_history)) = false.
Proof. exact stale_history_pinned_rejected. Qed.
Print Assumptions c03_pending_stale_refuted.

(* The pinned tie-break (compare the joined string "name/namespace/kind") is not name order: "a-b" is emitted
   before "a". *)
Theorem c03_tiebreak_name_order_refuted : forall fx,
  ok_history tiebreak_history (map sort_outs (run (mkVariant fx false) tiebreak_history)) = false.
Proof. exact tiebreak_pinned_rejected. Qed.
Print Assumptions c03_tiebreak_name_order_refuted.
