(* C03 — composition with the upstream: for datastore-level histories, the net state of the translated resolver
   history IS the datastore state with the match relation computed from selectors and effective labels; hence the
   main theorem speaks about "policies whose selector matches the endpoint's effective labels". *)
From Coq Require Import List NArith ZArith Bool Sorted.
From Verif.Common Require Import Labels.
From Verif.C03 Require Import Model Spec Order BT SpecProps Resolver Sorter Refine Char Main Dirty Pipe.
Import ListNotations.

Lemma Neqb_eq : forall a b : N, N.eqb a b = true <-> a = b.
Proof. intros. apply N.eqb_eq. Qed.

Lemma existsb_pe_In : forall x l, existsb (pe_eqb x) l = true <-> In x l.
Proof.
  intros. rewrite existsb_exists. split.
  - intros [y [I Q]]. apply pe_eqb_eq in Q. subst. exact I.
  - intros I. exists x. split; [exact I | apply pe_eqb_eq; reflexivity].
Qed.

Lemma mdiff_In : forall x a b, In x (mdiff a b) <-> In x a /\ ~ In x b.
Proof.
  intros. unfold mdiff. rewrite filter_In, negb_true_iff. split; intros [H1 H2]; (split; [exact H1|]).
  - intros I. apply existsb_pe_In in I. congruence.
  - destruct (existsb (pe_eqb x) b) eqn:E; [|reflexivity]. apply existsb_pe_In in E. contradiction.
Qed.

(* membership in the key enumeration / the match list *)
Lemma nodup_keys_In : forall {K V} (eqb : K -> K -> bool) (Heq : forall a b, eqb a b = true <-> a = b)
  (l : list (K * V)) k, In k (nodup_keys eqb l) <-> alookup eqb k l <> None.
Proof.
  intros K V eqb Heq. induction l as [|[k0 x0] l IH]; intros k; simpl; [tauto|].
  destruct (eqb k k0) eqn:E.
  - apply Heq in E. subst k0. split; [discriminate|]. intros _.
    destruct (existsb (eqb k) (nodup_keys eqb l)) eqn:X.
    + apply existsb_exists in X. destruct X as [y [I Q]]. apply Heq in Q. subst. exact I.
    + left. reflexivity.
  - destruct (existsb (eqb k0) (nodup_keys eqb l)); simpl; rewrite <- IH.
    + tauto.
    + split; [intros [Q|I]; [subst; rewrite (proj2 (Heq k k) eq_refl) in E; discriminate | exact I] | auto].
Qed.

Lemma pmatches_In : forall S k e, In (k, e) (pmatches S) <-> pmatch S k e = true.
Proof.
  intros S k e. unfold pmatches. rewrite in_flat_map. split.
  - intros [k' [_ I]]. apply in_flat_map in I. destruct I as [e' [_ I]].
    destruct (pmatch S k' e') eqn:E; [|contradiction]. destruct I as [Q|[]]. inversion Q; subst. exact E.
  - intros H. exists k. split.
    + apply (nodup_keys_In pkey_eqb pkey_eqb_eq). unfold pmatch in H. destruct (alookup pkey_eqb k (ps_pols S)); [discriminate | discriminate].
    + apply in_flat_map. exists e. split.
      * apply (nodup_keys_In N.eqb Neqb_eq). unfold pmatch in H.
        destruct (alookup pkey_eqb k (ps_pols S)) as [[pv sel]|]; [|discriminate].
        destruct (alookup N.eqb e (ps_eps S)); [discriminate | discriminate].
      * rewrite H. left. reflexivity.
Qed.

(* the net effect of a block of stop / start callbacks on the datastore state *)
Lemma stops_effect : forall xs D,
  let D' := fold_left apply_op (map (fun x => MatchStop (fst x) (snd x)) xs) D in
  d_pols D' = d_pols D /\ d_tiers D' = d_tiers D /\ d_eps D' = d_eps D /\ d_insync D' = d_insync D
  /\ forall x, In x (d_match D') <-> In x (d_match D) /\ ~ In x xs.
Proof.
  induction xs as [|[k e] xs IH]; intros D; simpl.
  - repeat split; auto; tauto.
  - destruct (IH (apply_op D (MatchStop k e))) as (A & B & C & E & F). simpl in *.
    repeat split; auto; intros.
    + apply F in H. rewrite md_discard_In in H. tauto.
    + apply F in H. rewrite md_discard_In in H. intros [Q|Q]; [subst; tauto | tauto].
    + apply F. rewrite md_discard_In. destruct H as [H1 H2]. split; [split; [exact H1 | intros ->; apply H2; auto] | auto].
Qed.

Lemma starts_effect : forall xs D,
  let D' := fold_left apply_op (map (fun x => MatchStart (fst x) (snd x)) xs) D in
  d_pols D' = d_pols D /\ d_tiers D' = d_tiers D /\ d_eps D' = d_eps D /\ d_insync D' = d_insync D
  /\ forall x, In x (d_match D') <-> In x (d_match D) \/ In x xs.
Proof.
  induction xs as [|[k e] xs IH]; intros D; simpl.
  - repeat split; auto; tauto.
  - destruct (IH (apply_op D (MatchStart k e))) as (A & B & C & E & F). simpl in *.
    repeat split; auto; intros.
    + apply F in H. rewrite md_put_In in H. destruct H as [[->|H]|H]; auto.
    + apply F. rewrite md_put_In. destruct H as [H|[<-|H]]; auto.
Qed.

Record prel (S : pstate) (D : dstate) : Prop := mk_prel {
  pr_pols : forall k, alookup pkey_eqb k (d_pols D) = option_map fst (alookup pkey_eqb k (ps_pols S));
  pr_tiers : d_tiers D = ps_tiers S;
  pr_eps : forall e, In e (d_eps D) <-> alookup N.eqb e (ps_eps S) <> None;
  pr_match : forall k e, In (k, e) (d_match D) <-> pmatch S k e = true;
  pr_insync : d_insync D = ps_insync S }.

(* after the callbacks the match relation is that of the new state *)
Lemma callbacks_effect : forall S S' D, (forall k e, In (k, e) (d_match D) <-> pmatch S k e = true) ->
  let D' := fold_left apply_op
              (map (fun x => MatchStop (fst x) (snd x)) (mdiff (pmatches S) (pmatches S'))
               ++ map (fun x => MatchStart (fst x) (snd x)) (mdiff (pmatches S') (pmatches S))) D in
  d_pols D' = d_pols D /\ d_tiers D' = d_tiers D /\ d_eps D' = d_eps D /\ d_insync D' = d_insync D
  /\ forall k e, In (k, e) (d_match D') <-> pmatch S' k e = true.
Proof.
  intros S S' D HM. cbv zeta. rewrite fold_left_app.
  destruct (stops_effect (mdiff (pmatches S) (pmatches S')) D) as (A1 & B1 & C1 & E1 & F1).
  destruct (starts_effect (mdiff (pmatches S') (pmatches S))
              (fold_left apply_op (map (fun x => MatchStop (fst x) (snd x)) (mdiff (pmatches S) (pmatches S'))) D))
    as (A2 & B2 & C2 & E2 & F2).
  cbv zeta in *. repeat split; try congruence.
  - intros H. apply F2 in H. rewrite F1, !mdiff_In, !pmatches_In, HM in H.
    destruct (pmatch S' k e); [reflexivity|]. exfalso. destruct H as [[H1 H2]|[H1 _]]; [|discriminate].
    apply H2. split; [exact H1 | discriminate].
  - intros H. apply F2. rewrite F1, !mdiff_In, !pmatches_In, HM.
    destruct (pmatch S k e) eqn:E.
    + left. split; [reflexivity|]. intros [_ N]. apply N. exact H.
    + right. split; [exact H | discriminate].
Qed.

Lemma option_map_fst_some : forall {A B} (o : option (A * B)) a, option_map fst o = Some a -> exists b, o = Some (a, b).
Proof. intros A B [[a' b]|] a H; simpl in H; [inversion H; eauto | discriminate]. Qed.

Lemma translate1_prel : forall S D o, prel S D -> prel (papply S o) (fold_left apply_op (translate1 S o) D).
Proof.
  intros S D o R. destruct R as [RP RT RE RM RI].
  pose proof (callbacks_effect S (papply S o) D RM) as CB. cbv zeta in CB.
  destruct o as [e [x|]|n [L|]|k [x|]|n val| |]; unfold translate1; cbv zeta;
    try (rewrite app_assoc, fold_left_app; destruct CB as (A & B & C & E & F); cbn [fold_left apply_op]).
  - (* endpoint update *)
    cbn [papply] in *. apply mk_prel; cbn [d_pols d_tiers d_eps d_match d_insync ps_pols ps_tiers ps_eps ps_insync].
    + intros k. rewrite A. apply RP.
    + congruence.
    + intros e'. rewrite ep_add_In, C, RE, (alookup_aset N.eqb Neqb_eq).
      destruct (N.eqb e' e) eqn:Q; [apply N.eqb_eq in Q; split; [discriminate | auto] |].
      apply N.eqb_neq in Q. split; [intros [->|H]; [congruence | exact H] | auto].
    + exact F.
    + congruence.
  - (* endpoint delete *)
    cbn [papply] in *. apply mk_prel; cbn [d_pols d_tiers d_eps d_match d_insync ps_pols ps_tiers ps_eps ps_insync].
    + intros k. rewrite A. apply RP.
    + congruence.
    + intros e'. rewrite filter_In, C, RE, (alookup_adel N.eqb Neqb_eq), negb_true_iff, N.eqb_sym.
      destruct (N.eqb e' e) eqn:Q; [split; [intros [_ H]; discriminate | congruence] | tauto].
    + exact F.
    + congruence.
  - (* profile labels *)
    destruct CB as (A & B & C & E & F). cbn [papply] in *.
    apply mk_prel; cbn [ps_pols ps_tiers ps_eps ps_insync].
    + intros k. rewrite A. apply RP.
    + congruence.
    + intros e'. rewrite C. apply RE.
    + exact F.
    + congruence.
  - destruct CB as (A & B & C & E & F). cbn [papply] in *.
    apply mk_prel; cbn [ps_pols ps_tiers ps_eps ps_insync].
    + intros k. rewrite A. apply RP.
    + congruence.
    + intros e'. rewrite C. apply RE.
    + exact F.
    + congruence.
  - (* policy update *)
    cbn [papply] in *. apply mk_prel; cbn [d_pols d_tiers d_eps d_match d_insync ps_pols ps_tiers ps_eps ps_insync].
    + intros k'. rewrite (alookup_aset pkey_eqb pkey_eqb_eq), (alookup_aset pkey_eqb pkey_eqb_eq), A.
      destruct (pkey_eqb k' k); [reflexivity | apply RP].
    + congruence.
    + intros e'. rewrite C. apply RE.
    + exact F.
    + congruence.
  - cbn [papply] in *. apply mk_prel; cbn [d_pols d_tiers d_eps d_match d_insync ps_pols ps_tiers ps_eps ps_insync].
    + intros k'. rewrite (alookup_adel pkey_eqb pkey_eqb_eq), (alookup_adel pkey_eqb pkey_eqb_eq), A.
      destruct (pkey_eqb k' k); [reflexivity | apply RP].
    + congruence.
    + intros e'. rewrite C. apply RE.
    + exact F.
    + congruence.
  - (* tier *)
    assert (PM : forall k e, pmatch (papply S (PTier n val)) k e = pmatch S k e) by (intros; destruct val; reflexivity).
    destruct val; apply mk_prel; cbn [fold_left apply_op d_pols d_tiers d_eps d_match d_insync papply ps_pols ps_tiers ps_eps ps_insync];
      try congruence; auto.
  - apply mk_prel; cbn [fold_left apply_op d_pols d_tiers d_eps d_match d_insync papply ps_pols ps_tiers ps_eps ps_insync]; auto.
  - apply mk_prel; cbn [fold_left apply_op d_pols d_tiers d_eps d_match d_insync papply ps_pols ps_tiers ps_eps ps_insync]; auto.
Qed.

Lemma translate_prel : forall h, prel (pnet h) (net (translate h)).
Proof.
  intros h. unfold pnet, net, translate.
  assert (G : forall S D, prel S D -> prel (fold_left papply h S) (fold_left apply_op (translate_from S h) D)).
  { induction h as [|o h IH]; intros S D R; simpl; [exact R|].
    rewrite fold_left_app. apply IH. apply translate1_prel. exact R. }
  apply G. apply mk_prel; simpl; auto; try (intros; split; [contradiction | congruence]).
  intros k e. split; [contradiction | discriminate].
Qed.

(* the resolver-level hypothesis on keys, for translated histories *)
Definition pop_wf (v : variant) (o : pop) : Prop := match o with PPol k _ => key_wf v k | _ => True end.

Lemma stops_wf : forall v xs, Forall (op_wf v) (map (fun x => MatchStop (fst x) (snd x)) xs).
Proof. intros. apply Forall_forall. intros y I. apply in_map_iff in I. destruct I as [z [<- _]]. exact I. Qed.
Lemma starts_wf : forall v xs, Forall (op_wf v) (map (fun x => MatchStart (fst x) (snd x)) xs).
Proof. intros. apply Forall_forall. intros y I. apply in_map_iff in I. destruct I as [z [<- _]]. exact I. Qed.

Lemma translate1_wf : forall v S o, pop_wf v o -> Forall (op_wf v) (translate1 S o).
Proof.
  intros v S o W. unfold translate1. cbv zeta.
  destruct o as [e [x|]|n [L|]|k [x|]|n val| |];
    repeat (apply Forall_app; split); try apply stops_wf; try apply starts_wf;
    try (apply Forall_cons; [first [exact W | exact I] | apply Forall_nil]).
Qed.

Lemma translate_wf : forall v h, Forall (pop_wf v) h -> Forall (op_wf v) (translate h).
Proof.
  intros v h W. unfold translate. generalize PS0 as S.
  induction W as [|o h Wo W IH]; intros S; simpl; [constructor|].
  apply Forall_app. split; [apply translate1_wf; exact Wo | apply IH].
Qed.

(* MAIN, datastore level: what a Flush emits for endpoint e lists exactly the policies whose selector matches
   e's effective labels *)
Theorem pipeline_exact_set : forall v h ord e ts,
  v_fixed v = true -> Forall (pop_wf v) h -> order_ok v (net (translate h)) ->
  In (e, Some ts) (flush_out v (translate h) ord) ->
  blank_missing (net (translate h)) ts = expected_tiers (net (translate h)) e
  /\ forall k m,
     (exists t, In t ts /\ In (k, m) (to_pols t)) <->
     (exists pv sel x, alookup pkey_eqb k (ps_pols (pnet h)) = Some (pv, sel) /\ m = extract_meta pv
                       /\ alookup N.eqb e (ps_eps (pnet h)) = Some x
                       /\ eval sel (effective (pe_labels x) (parent_labels (pnet h) x)) = true).
Proof.
  intros v h ord e ts Hf W OK H. pose proof (translate_wf v h W) as W'.
  split; [apply (emitted_is_expected v _ ord e ts Hf W' OK H)|].
  intros k m. rewrite (emitted_exact_set v _ ord e ts Hf W' OK H k m).
  destruct (translate_prel h) as [RP _ _ RM _]. split.
  - intros [pv [I [-> M]]].
    apply (In_alookup pkey_eqb pkey_eqb_eq _ _ _ (net_pols_NoDup _)) in I. rewrite RP in I.
    apply option_map_fst_some in I. destruct I as [sel I].
    apply matched_iff in M. apply RM in M. unfold pmatch in M. rewrite I in M.
    destruct (alookup N.eqb e (ps_eps (pnet h))) as [x|] eqn:E; [|discriminate].
    exists pv, sel, x. auto.
  - intros [pv [sel [x (I & -> & E & M)]]]. exists pv. split; [|split; [reflexivity|]].
    + apply (alookup_In pkey_eqb pkey_eqb_eq). rewrite RP, I. reflexivity.
    + apply matched_iff. apply RM. unfold pmatch. rewrite I, E. exact M.
Qed.
