(* C03 — specification: what the property text says, independent of the resolver's bookkeeping.

   The datastore / upstream state D reached by a history is the plain fold of its events: the policies and
   tiers last written, the local endpoints present, and the set of (policy, endpoint) pairs the upstream
   label index currently reports as matching (by C07's theorems that set is exactly
   { (p, e) | eval (selector p) (effective labels of e) } ).

   expected_tiers D e  =  take the policies of D that match e, group them by tier, put the tiers in ascending
   (order, name) order — tiers that exist before tiers that do not, unset order last — and inside a tier the
   policies in ascending (order, name, namespace, kind) order, unset order last.

   The oracle `ok_history` looks only at the operation list and at what the IMPLEMENTATION emitted. *)
From Coq Require Import List NArith ZArith Bool.
From Verif.Common Require Import Labels.
From Verif.C03 Require Import Model.
Import ListNotations.

(* ------------------------------------------------------------------ datastore state = fold of the history *)

Record dstate := mkD { d_pols : list (pkey * polval); d_tiers : list (bytes * tierval);
                       d_eps : list epkey; d_match : list (pkey * epkey); d_insync : bool }.
Definition D0 : dstate := mkD [] [] [] [] false.

Definition apply_op (D : dstate) (o : op) : dstate :=
  match o with
  | MatchStart p e => mkD (d_pols D) (d_tiers D) (d_eps D) (md_put pe_eqb (p, e) (d_match D)) (d_insync D)
  | MatchStop p e => mkD (d_pols D) (d_tiers D) (d_eps D) (md_discard pe_eqb (p, e) (d_match D)) (d_insync D)
  | PolUpd p (Some pv) => mkD (aset pkey_eqb p pv (d_pols D)) (d_tiers D) (d_eps D) (d_match D) (d_insync D)
  | PolUpd p None => mkD (adel pkey_eqb p (d_pols D)) (d_tiers D) (d_eps D) (d_match D) (d_insync D)
  | TierUpd n (Some tv) => mkD (d_pols D) (aset bytes_eqb n tv (d_tiers D)) (d_eps D) (d_match D) (d_insync D)
  | TierUpd n None => mkD (d_pols D) (adel bytes_eqb n (d_tiers D)) (d_eps D) (d_match D) (d_insync D)
  | EpUpd e true => mkD (d_pols D) (d_tiers D) (ep_add e (d_eps D)) (d_match D) (d_insync D)
  | EpUpd e false => mkD (d_pols D) (d_tiers D) (filter (fun x => negb (N.eqb e x)) (d_eps D)) (d_match D) (d_insync D)
  | InSync => mkD (d_pols D) (d_tiers D) (d_eps D) (d_match D) true
  | Flush _ => D
  end.
Definition net (ops : list op) : dstate := fold_left apply_op ops D0.

(* ------------------------------------------------------------------ orders *)

Definition lexc (c1 c2 : comparison) : comparison := match c1 with Eq => c2 | c => c end.
Definition bytes_cmp (a b : bytes) : comparison :=
  if bytes_ltb a b then Lt else if bytes_ltb b a then Gt else Eq.
(* ascending, unset last *)
Definition order_cmp (a b : order) : comparison :=
  match a, b with
  | Some x, Some y => Z.compare x y
  | Some _, None => Lt
  | None, Some _ => Gt
  | None, None => Eq
  end.
Definition is_lt (c : comparison) : bool := match c with Lt => true | _ => false end.

(* policies: ascending order (unset last), then name, namespace, kind *)
Definition pol_before (a b : polkv) : bool :=
  is_lt (lexc (order_cmp (m_order (snd a)) (m_order (snd b)))
        (lexc (bytes_cmp (pk_name (fst a)) (pk_name (fst b)))
        (lexc (bytes_cmp (pk_ns (fst a)) (pk_ns (fst b)))
              (bytes_cmp (pk_kind (fst a)) (pk_kind (fst b)))))).

(* tiers: existing tiers before missing ones, then ascending order (unset last), then name *)
Definition exists_cmp (a b : bool) : comparison :=
  match a, b with true, false => Lt | false, true => Gt | _, _ => Eq end.
Definition tier_before (a b : tkey) : bool :=
  is_lt (lexc (exists_cmp (tk_valid a) (tk_valid b))
        (lexc (order_cmp (tk_order a) (tk_order b)) (bytes_cmp (tk_name a) (tk_name b)))).

Section Sort.
  Context {A : Type} (lt : A -> A -> bool).
  Fixpoint insert_by (x : A) (l : list A) : list A :=
    match l with
    | [] => [x]
    | y :: l' => if lt x y then x :: l else y :: insert_by x l'
    end.
  Definition isort (l : list A) : list A := fold_right insert_by [] l.
End Sort.

(* ------------------------------------------------------------------ expected output *)

Definition matched (D : dstate) (k : pkey) (e : epkey) : bool := existsb (pe_eqb (k, e)) (d_match D).

(* the policies that apply to e, with the metadata they carry *)
Definition applicable (D : dstate) (e : epkey) : list polkv :=
  map (fun kp => (fst kp, extract_meta (snd kp))) (filter (fun kp => matched D (fst kp) e) (d_pols D)).

Fixpoint dedup_bytes (l : list bytes) : list bytes :=
  match l with
  | [] => []
  | x :: l' => if mem_bytes x l' then dedup_bytes l' else x :: dedup_bytes l'
  end.

Definition tier_key (D : dstate) (n : bytes) : tkey :=
  match alookup bytes_eqb n (d_tiers D) with
  | Some tv => mkTKey n true (tv_order tv)
  | None => mkTKey n false None
  end.
Definition tier_action (D : dstate) (n : bytes) : N :=
  match alookup bytes_eqb n (d_tiers D) with Some tv => tv_action tv | None => 0%N end.

Definition expected_tiers (D : dstate) (e : epkey) : list tout :=
  let ps := applicable D e in
  let tks := isort tier_before (map (tier_key D) (dedup_bytes (map (fun kv => m_tier (snd kv)) ps))) in
  map (fun tk => mkTout (tk_name tk) (tk_order tk) (tier_action D (tk_name tk))
                        (isort pol_before (filter (fun kv => bytes_eqb (m_tier (snd kv)) (tk_name tk)) ps)))
      tks.

(* ------------------------------------------------------------------ equality of observables *)

Definition list_eqb {A} (eqb : A -> A -> bool) : list A -> list A -> bool :=
  fix go (a b : list A) : bool :=
    match a, b with
    | [], [] => true
    | x :: a', y :: b' => eqb x y && go a' b'
    | _, _ => false
    end.
Definition polkv_eqb (a b : polkv) : bool := pkey_eqb (fst a) (fst b) && meta_eqb (snd a) (snd b).
Definition tout_eqb (a b : tout) : bool :=
  bytes_eqb (to_name a) (to_name b) && order_eqb (to_order a) (to_order b) && N.eqb (to_action a) (to_action b)
  && list_eqb polkv_eqb (to_pols a) (to_pols b).
Definition opt_eqb {A} (eqb : A -> A -> bool) (a b : option A) : bool :=
  match a, b with Some x, Some y => eqb x y | None, None => true | _, _ => false end.
Definition epout_eqb (a b : epout) : bool :=
  N.eqb (fst a) (fst b) && opt_eqb (list_eqb tout_eqb) (snd a) (snd b).

(* the default action of a tier that does not exist is not specified: blank it before comparing *)
Definition blank_missing (D : dstate) (ts : list tout) : list tout :=
  map (fun t => match alookup bytes_eqb (to_name t) (d_tiers D) with
                | Some _ => t
                | None => mkTout (to_name t) (to_order t) 0%N (to_pols t)
                end) ts.

(* ------------------------------------------------------------------ oracle over a whole observed history *)

(* view = last update emitted per endpoint *)
Definition view := list (epkey * option (list tout)).
Definition apply_outs (vw : view) (outs : list epout) : view :=
  fold_left (fun vw o => aset N.eqb (fst o) (snd o) vw) outs vw.

Fixpoint nodup_eps (l : list epkey) : bool :=
  match l with [] => true | x :: l' => negb (ep_mem x l') && nodup_eps l' end.

(* after a flush in sync: every local endpoint's last update carries exactly expected_tiers, every endpoint
   that is gone was last told so (or was never mentioned) *)
Definition view_ok (D : dstate) (vw : view) : bool :=
  forallb (fun e => match alookup N.eqb e vw with
                    | Some (Some ts) => list_eqb tout_eqb (blank_missing D ts) (expected_tiers D e)
                    | _ => false
                    end) (d_eps D)
  && forallb (fun ev => match snd ev with
                        | Some _ => ep_mem (fst ev) (d_eps D)
                        | None => negb (ep_mem (fst ev) (d_eps D))
                        end) vw.

Fixpoint ok_from (D : dstate) (vw : view) (ops : list op) (outs : list (list epout)) : bool :=
  match ops with
  | [] => match outs with [] => true | _ => false end
  | Flush _ :: ops' =>
      match outs with
      | [] => false
      | out :: outs' =>
          if d_insync D then
            let vw' := apply_outs vw out in
            nodup_eps (map fst out) && view_ok D vw' && ok_from D vw' ops' outs'
          else match out with [] => ok_from D vw ops' outs' | _ => false end   (* nothing before in-sync *)
      end
  | o :: ops' => ok_from (apply_op D o) vw ops' outs
  end.
Definition ok_history (ops : list op) (outs : list (list epout)) : bool := ok_from D0 [] ops outs.

(* ------------------------------------------------------------------ direction / class split *)

(* a policy is untracked if DoNotTrack, else pre-DNAT if PreDNAT, else normal (and also forwarded when
   ApplyOnForward); pre-DNAT policies only ever act on ingress *)
Inductive klass := KUntracked | KPreDNAT | KNormal.
Definition klass_of (m : meta) : klass :=
  if m_dnt m then KUntracked else if m_pre m then KPreDNAT else KNormal.
Definition klass_eqb (a b : klass) : bool :=
  match a, b with KUntracked, KUntracked | KPreDNAT, KPreDNAT | KNormal, KNormal => true | _, _ => false end.

Definition keys_where (f : meta -> bool) (ps : list polkv) : list pkey :=
  map fst (filter (fun kv => f (snd kv)) ps).

Definition spec_tier (t : tout) (sel : meta -> bool) (action : N) (egress : bool) : list ptier :=
  let ins := keys_where (fun m => sel m && m_in m) (to_pols t) in
  let egs := if egress then keys_where (fun m => sel m && m_eg m) (to_pols t) else [] in
  match ins, egs with
  | [], [] => []
  | _, _ => [mkPTier (to_name t) action ins egs]
  end.

Definition spec_split (ts : list tout) : psplit :=
  mkSplit
    (flat_map (fun t => spec_tier t (fun m => klass_eqb (klass_of m) KNormal) (to_action t) true) ts)
    (flat_map (fun t => spec_tier t (fun m => klass_eqb (klass_of m) KUntracked) act_pass true) ts)
    (flat_map (fun t => spec_tier t (fun m => klass_eqb (klass_of m) KPreDNAT) act_pass false) ts)
    (flat_map (fun t => spec_tier t (fun m => klass_eqb (klass_of m) KNormal && m_aof m) (to_action t) true) ts).

Definition ptier_eqb (a b : ptier) : bool :=
  bytes_eqb (pt_name a) (pt_name b) && N.eqb (pt_action a) (pt_action b)
  && list_eqb pkey_eqb (pt_in a) (pt_in b) && list_eqb pkey_eqb (pt_eg a) (pt_eg b).
Definition psplit_eqb (a b : psplit) : bool :=
  list_eqb ptier_eqb (ps_normal a) (ps_normal b) && list_eqb ptier_eqb (ps_untracked a) (ps_untracked b)
  && list_eqb ptier_eqb (ps_prednat a) (ps_prednat b) && list_eqb ptier_eqb (ps_forward a) (ps_forward b).

(* ------------------------------------------------------------------ correspondence case *)

(* compact strings for the generated cases: B n = the bytes of n, least significant first (no NUL bytes) *)
Fixpoint unpack_bytes (fuel : nat) (n : N) : bytes :=
  match fuel with
  | O => []
  | S f => if N.eqb n 0 then [] else N.modulo n 256 :: unpack_bytes f (N.div n 256)
  end.
Definition B (n : N) : bytes := unpack_bytes 80 n.

(* canonical order of one flush's updates: by endpoint number (the Go side iterates a set) *)
Definition sort_outs (outs : list epout) : list epout := isort (fun a b => N.ltb (fst a) (fst b)) outs.

(* c_outs: per Flush, the updates sorted by endpoint; c_splits: for every update that carried tiers, in the
   same order, what the real tierInfoToProtoTierInfo made of them *)
Record case := mk_case { c_var : variant; c_ops : list op; c_outs : list (list epout);
                         c_splits : list psplit }.

Definition all_tiers (outs : list (list epout)) : list (list tout) :=
  flat_map (fun out => flat_map (fun o => match snd o with Some ts => [ts] | None => [] end) out) outs.

Definition check_case (c : case) : bool * bool :=
  (list_eqb (list_eqb epout_eqb) (map sort_outs (run (c_var c) (c_ops c))) (c_outs c)
   && list_eqb psplit_eqb (map to_proto (all_tiers (c_outs c))) (c_splits c),
   ok_history (c_ops c) (c_outs c)
   && list_eqb psplit_eqb (map spec_split (all_tiers (c_outs c))) (c_splits c)).
