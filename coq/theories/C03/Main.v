(* C03 — main theorem: with the repaired OnPolicyMatchStopped, after ANY history every update an in-sync Flush
   emits equals expected_tiers of the net state (up to the default action of tiers that do not exist). *)
From Coq Require Import List NArith ZArith Bool Sorted.
From Verif.Common Require Import Labels.
From Verif.C03 Require Import Model Spec Order BT SpecProps Resolver Sorter Refine Char.
Import ListNotations.

(* the policy keys of the net state are ordered by the sorter's tie-break as by (name, namespace, kind):
   always true for the name-proper tie-break; for the pinned joined-string tie-break it excludes names /
   namespaces that extend one another by a byte below '/' (known finding tiebreak-joined-string) *)
Definition order_ok (v : variant) (D : dstate) : Prop :=
  forall a b, In a (map fst (d_pols D)) -> In b (map fst (d_pols D)) -> key_ltb v a b = key_ltb_lex a b.

Lemma order_ok_lexname : forall v D, v_lexname v = true -> order_ok v D.
Proof. intros v D H a b _ _. unfold key_ltb. rewrite H. reflexivity. Qed.

Definition appD (D : dstate) (e : epkey) (k : pkey) (m : meta) : Prop :=
  exists pv, alookup pkey_eqb k (d_pols D) = Some pv /\ m = extract_meta pv /\ matched D k e = true.

(* ------------------------------------------------------------------ the invariant holds after every history *)

Lemma rinv_init : forall v, rinv v st0 D0 (fun _ => None).
Proof.
  intros v. apply mk_rinv; simpl; try (intros; discriminate).
  - unfold base_inv; simpl; auto.
  - reflexivity.
  - apply srep_empty.
Qed.

Lemma rinv_run : forall v ops, v_fixed v = true -> Forall (op_wf v) ops ->
  exists P, rinv v (state_after v ops) (net ops) P.
Proof.
  intros v ops Hf W. unfold state_after, net. rewrite run_from_fst_fold.
  assert (G : forall s D P, rinv v s D P ->
              exists P', rinv v (fold_left (fun s o => fst (step v s o)) ops s) (fold_left apply_op ops D) P').
  { induction W as [|o ops Wo W IH]; intros s D P R; simpl; [eauto|].
    destruct (step_rinv v Hf s D P o R Wo) as [P1 R1]. eapply IH. exact R1. }
  eapply G. apply rinv_init.
Qed.

(* ------------------------------------------------------------------ changing the description of the selected set / the order *)

Lemma SS_agree : forall {A} (less less' : A -> A -> bool) l,
  (forall a b, In a l -> In b l -> less a b = less' a b) -> SS less l -> SS less' l.
Proof.
  induction l as [|x l IH]; intros H S; [constructor|].
  apply SS_inv in S. destruct S as [S F]. constructor.
  - apply IH; [|exact S]. intros a b Ia Ib. apply H; right; assumption.
  - apply Forall_forall. rewrite Forall_forall in F. intros y I. unfold lt. rewrite <- (H x y) by (simpl; auto). apply F. exact I.
Qed.

Lemma charP_convert : forall pless pless' app app' T ts,
  (forall k m, app k m <-> app' k m) ->
  (forall k1 m1 k2 m2, app k1 m1 -> app k2 m2 -> pless (k1, m1) (k2, m2) = pless' (k1, m1) (k2, m2)) ->
  charP pless app T ts -> charP pless' app' T ts.
Proof.
  intros pless pless' app app' T ts EA EO C. destruct C as [C1 C2 C3]. apply mk_charP.
  - exact C1.
  - intros t I. destruct (C2 t I) as (S & NE & O & A & M). split; [|split; [exact NE | split; [exact O | split; [exact A|]]]].
    + eapply SS_agree; [|exact S]. intros [k1 m1] [k2 m2] I1 I2. apply EO; [exact (proj1 (proj1 (M k1 m1) I1)) | exact (proj1 (proj1 (M k2 m2) I2))].
    + intros k m. rewrite M, EA. tauto.
  - intros k m H. apply (C3 k m). apply (EA k m). exact H.
Qed.

Lemma polkv_less_pol_before : forall v k1 m1 k2 m2,
  key_ltb v k1 k2 = key_ltb_lex k1 k2 -> polkv_less v (k1, m1) (k2, m2) = pol_before (k1, m1) (k2, m2).
Proof.
  intros v k1 m1 k2 m2 H. rewrite (pol_before_is_polkv_less_lex true). unfold polkv_less. cbn [fst snd].
  rewrite H. reflexivity.
Qed.

Lemma has_key_of_match : forall k e l, In (k, e) l -> p2e_has_key k l = true.
Proof.
  intros k e l I. unfold p2e_has_key. apply existsb_exists. exists (k, e). split; [exact I|]. apply pkey_eqb_refl.
Qed.

(* ------------------------------------------------------------------ expected_tiers solves the characterisation *)

Lemma applicable_appD : forall ops e k m,
  In (k, m) (applicable (net ops) e) <-> appD (net ops) e k m.
Proof.
  intros. rewrite applicable_In. unfold appD. split; intros [pv [H1 H2]]; exists pv; (split; [|exact H2]).
  - apply (In_alookup pkey_eqb pkey_eqb_eq); [apply net_pols_NoDup | exact H1].
  - apply (alookup_In pkey_eqb pkey_eqb_eq). exact H1.
Qed.

Lemma expected_char : forall ops e,
  charP pol_before (appD (net ops) e) (Tof (net ops)) (expected_tiers (net ops) e).
Proof.
  intros ops e. set (D := net ops).
  assert (Shape : forall t, In t (expected_tiers D e) ->
            exists n, In n (map (fun kv => m_tier (snd kv)) (applicable D e)) /\ to_name t = n
              /\ to_pols t = isort pol_before (filter (fun kv => bytes_eqb (m_tier (snd kv)) n) (applicable D e))).
  { intros t I. unfold expected_tiers in I. apply in_map_iff in I. destruct I as [tk [<- I]].
    apply (proj1 (isort_In tier_before _ _)) in I. apply in_map_iff in I. destruct I as [n [<- I]].
    apply (proj1 (dedup_bytes_In _ _)) in I. exists n. rewrite tier_key_name. cbn [to_name to_pols].
    split; [exact I | split; reflexivity]. }
  apply mk_charP.
  - pose proof (expected_tier_order ops e) as H. cbv zeta in H. fold D in H.
    eapply SS_agree; [|exact H]. intros a b _ _. apply tier_before_is_tier_less.
  - intros t I. destruct (Shape t I) as [n (In' & Nn & Ep)].
    split; [exact (expected_policy_order ops e t I)|].
    destruct (expected_tier_fields ops e t I) as [O A]. fold D in O, A.
    assert (M : forall k m, In (k, m) (to_pols t) <-> appD D e k m /\ m_tier m = to_name t).
    { intros k m. rewrite Ep, (isort_In pol_before), filter_In. cbn [snd].
      rewrite bytes_eqb_eq, Nn. unfold D. rewrite applicable_appD. tauto. }
    split; [|split; [exact O | split; [|exact M]]].
    + apply in_map_iff in In'. destruct In' as [[k m] [Q I2]]. cbn [snd] in Q.
      intros E. assert (In (k, m) (to_pols t)); [|rewrite E in H; contradiction].
      apply M. split; [apply applicable_appD; exact I2 | congruence].
    + intros tv E. rewrite A. unfold tier_action. unfold Tof in E. rewrite E. reflexivity.
  - intros k m H. apply applicable_appD in H.
    destruct (proj2 (expected_exact_set ops e k m)) as [t [I1 I2]].
    { apply applicable_In. exact H. }
    exists t. split; [exact I1|]. symmetry. eapply expected_grouped; eauto.
Qed.

Lemma blank_expected : forall ops e, blank_missing (net ops) (expected_tiers (net ops) e) = expected_tiers (net ops) e.
Proof.
  intros ops e. unfold blank_missing.
  assert (G : forall l : list tout, (forall t, In t l -> In t (expected_tiers (net ops) e)) ->
              map (fun t => match alookup bytes_eqb (to_name t) (d_tiers (net ops)) with
                            | Some _ => t
                            | None => mkTout (to_name t) (to_order t) 0%N (to_pols t)
                            end) l = l).
  { induction l as [|t l IH]; intros H; simpl; [reflexivity|]. f_equal; [|apply IH; intros; apply H; right; assumption].
    destruct (alookup bytes_eqb (to_name t) (d_tiers (net ops))) eqn:E; [reflexivity|].
    destruct (expected_tier_fields ops e t (H t (or_introl eq_refl))) as [_ A].
    unfold tier_action in A. rewrite E in A. destruct t; simpl in *. congruence. }
  apply G. auto.
Qed.

(* ------------------------------------------------------------------ main theorem *)

Theorem emitted_char : forall v ops ord e ts,
  v_fixed v = true -> Forall (op_wf v) ops -> order_ok v (net ops) ->
  In (e, Some ts) (flush_out v ops ord) ->
  charP pol_before (appD (net ops) e) (Tof (net ops)) ts.
Proof.
  intros v ops ord e ts Hf W OK H.
  destruct (flush_out_shape v ops ord e (Some ts) H) as [_ [_ ->]].
  destruct (rinv_run v ops Hf W) as [P R].
  destruct (flush_pending_rinv v (state_after v ops) (net ops) P ord R) as [P' [R' Exact]].
  set (s := state_after v ops) in *. set (s1 := flush_pending v s ord) in *. set (D := net ops) in *.
  pose proof (endpoint_tiers_char v (srt s1) P' (Tof D) s1 e (ri_srep _ _ _ _ R')) as C.
  destruct (flush_pending_base v ord s) as (_ & B2 & _). fold s1 in B2.
  destruct (ri_base _ _ _ _ R) as (B1 & B2' & _).
  assert (EA : forall k m, (P' k = Some m /\ In (e, k) (e2p s1)) <-> appD D e k m).
  { intros k m. rewrite Exact, B2, B2'. unfold appD. rewrite (ri_allpol _ _ _ _ R k). split.
    - intros [[A1 A2] I]. apply in_map_iff in I. destruct I as [[k' e'] [Q I]]. unfold swap in Q. simpl in Q.
      inversion Q; subst. destruct (alookup pkey_eqb k (d_pols D)) as [pv|]; [|discriminate].
      exists pv. simpl in A2. inversion A2. split; [reflexivity|]. split; [reflexivity|]. apply matched_iff. exact I.
    - intros [pv [H1 [-> H2]]]. apply matched_iff in H2. rewrite H1. simpl.
      split; [split; [|reflexivity]|].
      + rewrite B1. eapply has_key_of_match. exact H2.
      + apply in_map_iff. exists (k, e). auto. }
  eapply charP_convert; [exact EA | | exact C].
  intros k1 m1 k2 m2 [Q1 _] [Q2 _]. apply polkv_less_pol_before.
  assert (Key : forall k m, P' k = Some m -> In k (map fst (d_pols D))).
  { intros k m HP. apply Exact in HP. destruct HP as [_ A2]. rewrite (ri_allpol _ _ _ _ R k) in A2.
    destruct (alookup pkey_eqb k (d_pols D)) as [pv|] eqn:E; [|discriminate].
    apply (alookup_In pkey_eqb pkey_eqb_eq) in E. apply in_map_iff. exists (k, pv). auto. }
  apply OK; eapply Key; eassumption.
Qed.

Theorem emitted_is_expected : forall v ops ord e ts,
  v_fixed v = true -> Forall (op_wf v) ops -> order_ok v (net ops) ->
  In (e, Some ts) (flush_out v ops ord) ->
  blank_missing (net ops) ts = expected_tiers (net ops) e.
Proof.
  intros v ops ord e ts Hf W OK H.
  pose proof (emitted_char v ops ord e ts Hf W OK H) as C'.
  pose proof (charP_unique pol_before _ _ _ _ pol_before_irrefl pol_before_trans C' (expected_char ops e)) as U.
  change (blankT (Tof (net ops))) with (blank_missing (net ops)) in U.
  rewrite U. apply blank_expected.
Qed.

(* ------------------------------------------------------------------ the listed properties, of what the model emits *)

Lemma appD_In : forall ops e k m,
  appD (net ops) e k m <->
  exists pv, In (k, pv) (d_pols (net ops)) /\ m = extract_meta pv /\ matched (net ops) k e = true.
Proof. intros. rewrite <- applicable_appD. apply applicable_In. Qed.

Theorem emitted_exact_set : forall v ops ord e ts,
  v_fixed v = true -> Forall (op_wf v) ops -> order_ok v (net ops) ->
  In (e, Some ts) (flush_out v ops ord) ->
  forall k m,
  (exists t, In t ts /\ In (k, m) (to_pols t)) <->
  (exists pv, In (k, pv) (d_pols (net ops)) /\ m = extract_meta pv /\ matched (net ops) k e = true).
Proof.
  intros v ops ord e ts Hf W OK H k m. rewrite <- appD_In.
  destruct (emitted_char v ops ord e ts Hf W OK H) as [C1 C2 C3]. split.
  - intros [t [I J]]. destruct (C2 t I) as (_ & _ & _ & _ & M). apply M in J. tauto.
  - intros A. destruct (C3 k m A) as [t [I N]]. exists t. split; [exact I|].
    destruct (C2 t I) as (_ & _ & _ & _ & M). apply M. auto.
Qed.

Theorem emitted_grouped_once : forall v ops ord e ts,
  v_fixed v = true -> Forall (op_wf v) ops -> order_ok v (net ops) ->
  In (e, Some ts) (flush_out v ops ord) ->
  (forall t k m, In t ts -> In (k, m) (to_pols t) -> m_tier m = to_name t)
  /\ (forall t, In t ts -> NoDup (to_pols t) /\ to_pols t <> [])
  /\ NoDup (map to_name ts).
Proof.
  intros v ops ord e ts Hf W OK H. destruct (emitted_char v ops ord e ts Hf W OK H) as [C1 C2 C3].
  split; [|split].
  - intros t k m I J. destruct (C2 t I) as (_ & _ & _ & _ & M). apply M in J. tauto.
  - intros t I. destruct (C2 t I) as (S & NE & _). split; [|exact NE].
    apply (SS_NoDup pol_before pol_before_irrefl). exact S.
  - apply (SS_NoDup tier_less tier_less_irrefl) in C1.
    assert (E : map (fun t => tkeyT (Tof (net ops)) (to_name t)) ts = map (tkeyT (Tof (net ops))) (map to_name ts))
      by (rewrite map_map; reflexivity).
    rewrite E in C1. eapply NoDup_map_inv. exact C1.
Qed.

Theorem emitted_tier_order : forall v ops ord e ts,
  v_fixed v = true -> Forall (op_wf v) ops -> order_ok v (net ops) ->
  In (e, Some ts) (flush_out v ops ord) ->
  let D := net ops in
  SSb tier_before (map (fun t => tier_key D (to_name t)) ts)
  /\ forall t, In t ts ->
       to_order t = tk_order (tier_key D (to_name t))
       /\ (forall tv, alookup bytes_eqb (to_name t) (d_tiers D) = Some tv -> to_action t = tv_action tv).
Proof.
  intros v ops ord e ts Hf W OK H D. destruct (emitted_char v ops ord e ts Hf W OK H) as [C1 C2 C3].
  split.
  - eapply SS_agree; [|exact C1]. intros a b _ _. symmetry. apply tier_before_is_tier_less.
  - intros t I. destruct (C2 t I) as (_ & _ & O & A & _). split; [exact O | exact A].
Qed.

Theorem emitted_policy_order : forall v ops ord e ts t,
  v_fixed v = true -> Forall (op_wf v) ops -> order_ok v (net ops) ->
  In (e, Some ts) (flush_out v ops ord) -> In t ts -> SSb pol_before (to_pols t).
Proof.
  intros v ops ord e ts t Hf W OK H I. destruct (emitted_char v ops ord e ts Hf W OK H) as [C1 C2 C3].
  destruct (C2 t I) as (S & _). exact S.
Qed.
