(* C03 — a btree searched with a strict order behaves like a finite set: lemmas about bt_insert / bt_delete on
   strictly sorted lists, uniqueness of the sorted enumeration, insertion sort. *)
From Coq Require Import List Bool Sorted.
From Verif.C03 Require Import Model Spec.
Import ListNotations.

Section BTL.
  Context {A : Type} (less : A -> A -> bool).
  Hypothesis less_irrefl : forall a, less a a = false.
  Hypothesis less_trans : forall a b c, less a b = true -> less b c = true -> less a c = true.

  Definition lt (a b : A) : Prop := less a b = true.
  Definition SS := StronglySorted lt.
  Definition equiv (a b : A) : Prop := less a b = false /\ less b a = false.

  Lemma less_asym : forall a b, less a b = true -> less b a = false.
  Proof.
    intros a b H. destruct (less b a) eqn:E; [|reflexivity].
    pose proof (less_trans _ _ _ H E) as T. rewrite less_irrefl in T. discriminate.
  Qed.

  Lemma SS_inv : forall x l, SS (x :: l) -> SS l /\ Forall (lt x) l.
  Proof. intros x l H. inversion H; subst. split; assumption. Qed.

  Lemma SS_ordered : forall l a b, SS l -> In a l -> In b l -> a <> b -> lt a b \/ lt b a.
  Proof.
    induction l as [|x l IH]; intros a b H Ia Ib N; [contradiction|].
    apply SS_inv in H. destruct H as [H F]. rewrite Forall_forall in F.
    destruct Ia as [<-|Ia], Ib as [<-|Ib]; try congruence; auto.
  Qed.

  Lemma bt_insert_In : forall x l y, In y (bt_insert less x l) -> y = x \/ In y l.
  Proof.
    induction l as [|z l IH]; simpl; intros y H.
    - destruct H as [<-|[]]. auto.
    - destruct (less z x).
      + destruct H as [<-|H]; auto. destruct (IH _ H); auto.
      + destruct (less x z); destruct H as [<-|H]; auto.
  Qed.

  Lemma bt_insert_In_x : forall x l, In x (bt_insert less x l).
  Proof.
    induction l as [|z l IH]; simpl; auto.
    destruct (less z x); simpl; auto. destruct (less x z); simpl; auto.
  Qed.

  (* ReplaceOrInsert of an item no stored item is equivalent to: plain sorted insertion *)
  Lemma bt_insert_SS : forall x l, SS l -> (forall y, In y l -> ~ equiv x y) -> SS (bt_insert less x l).
  Proof.
    induction l as [|z l IH]; simpl; intros H NE.
    - constructor; constructor.
    - apply SS_inv in H. destruct H as [H F].
      destruct (less z x) eqn:E1.
      + constructor; [apply IH; auto|]. rewrite Forall_forall in *. intros y I.
        apply bt_insert_In in I. destruct I as [->|I]; [exact E1 | apply F; assumption].
      + destruct (less x z) eqn:E2.
        * constructor; [constructor; assumption|]. constructor; [exact E2|].
          rewrite Forall_forall in *. intros y I. eapply less_trans; [exact E2 | apply F; assumption].
        * exfalso. apply (NE z); [left; reflexivity | split; assumption].
  Qed.

  Lemma bt_insert_In_iff : forall x l y, (forall z, In z l -> ~ equiv x z) ->
    (In y (bt_insert less x l) <-> y = x \/ In y l).
  Proof.
    intros x l y NE. split; [apply bt_insert_In|].
    induction l as [|z l IH]; simpl; intros H.
    - destruct H as [->|[]]. auto.
    - destruct (less z x) eqn:E1.
      + destruct H as [->|[<-|H]]; simpl; auto. right. apply IH; auto. intros w I. apply NE. right. exact I.
        right. apply IH; auto. intros w I. apply NE. right. exact I.
      + destruct (less x z) eqn:E2.
        * destruct H as [->|H]; simpl; auto.
        * exfalso. apply (NE z); [left; reflexivity | split; assumption].
  Qed.

  Lemma bt_delete_sub : forall x l y, In y (bt_delete less x l) -> In y l.
  Proof.
    induction l as [|w l IHl]; simpl; auto.
    intros y. destruct (less w x); simpl; [intros [->|I]; auto|]. destruct (less x w); simpl; auto.
  Qed.

  Lemma SS_sub_delete : forall x l, SS l -> SS (bt_delete less x l).
  Proof.
    induction l as [|z l IH]; simpl; intros H; [constructor|].
    apply SS_inv in H. destruct H as [H F].
    destruct (less z x).
    - constructor; [apply IH; exact H|]. apply Forall_forall. intros y I. apply bt_delete_sub in I.
      rewrite Forall_forall in F. apply F. exact I.
    - destruct (less x z); [constructor; assumption | exact H].
  Qed.

  (* Delete of a stored item removes exactly that item *)
  Lemma bt_delete_In_iff : forall x l y, SS l -> In x l ->
    (In y (bt_delete less x l) <-> In y l /\ y <> x).
  Proof.
    induction l as [|z l IH]; simpl; intros y H I; [contradiction|].
    apply SS_inv in H. destruct H as [H F]. rewrite Forall_forall in F.
    destruct I as [->|I].
    - rewrite less_irrefl. split.
      + intros J. split; [auto|]. intros ->. specialize (F _ J). unfold lt in F. rewrite less_irrefl in F. discriminate.
      + intros [[->|J] N]; [congruence | exact J].
    - pose proof (F _ I) as Lzx. unfold lt in Lzx. rewrite Lzx. simpl. rewrite (IH y H I). split.
      + intros [->|[J N]]; [|auto]. split; [auto|]. intros ->. rewrite less_irrefl in Lzx. discriminate.
      + intros [[->|J] N]; auto.
  Qed.

  Lemma bt_delete_absent : forall x l, SS l -> (forall y, In y l -> ~ equiv x y) -> bt_delete less x l = l.
  Proof.
    induction l as [|z l IH]; simpl; intros H NE; [reflexivity|].
    apply SS_inv in H. destruct H as [H F].
    destruct (less z x) eqn:E1; [f_equal; apply IH; auto|].
    destruct (less x z) eqn:E2; [reflexivity|].
    exfalso. apply (NE z); [left; reflexivity | split; assumption].
  Qed.

  (* a strictly sorted list is determined by its elements *)
  Lemma SS_unique : forall l1 l2, SS l1 -> SS l2 -> (forall x, In x l1 <-> In x l2) -> l1 = l2.
  Proof.
    induction l1 as [|a l1 IH]; intros [|b l2] H1 H2 E.
    - reflexivity.
    - exfalso. apply (proj2 (E b)). left. reflexivity.
    - exfalso. apply (proj1 (E a)). left. reflexivity.
    - apply SS_inv in H1. destruct H1 as [H1 F1]. apply SS_inv in H2. destruct H2 as [H2 F2].
      rewrite Forall_forall in F1, F2.
      assert (a = b).
      { destruct (proj1 (E a) (or_introl eq_refl)) as [->|Ia]; [reflexivity|].
        destruct (proj2 (E b) (or_introl eq_refl)) as [->|Ib]; [reflexivity|].
        pose proof (F2 _ Ia) as L1. pose proof (F1 _ Ib) as L2. unfold lt in *.
        rewrite (less_asym _ _ L1) in L2. discriminate. }
      subst b. f_equal. apply IH; auto. intros x. split; intros I.
      + destruct (proj1 (E x) (or_intror I)) as [<-|J]; [|exact J].
        specialize (F1 _ I). unfold lt in F1. rewrite less_irrefl in F1. discriminate.
      + destruct (proj2 (E x) (or_intror I)) as [<-|J]; [|exact J].
        specialize (F2 _ I). unfold lt in F2. rewrite less_irrefl in F2. discriminate.
  Qed.

  Lemma SS_NoDup : forall l, SS l -> NoDup l.
  Proof.
    induction l as [|a l IH]; intros H; constructor.
    - apply SS_inv in H. destruct H as [_ F]. rewrite Forall_forall in F. intros I.
      specialize (F _ I). unfold lt in F. rewrite less_irrefl in F. discriminate.
    - apply IH. apply SS_inv in H. tauto.
  Qed.

  (* insertion sort (the specification's sort) on pairwise comparable elements *)
  Lemma insert_by_In : forall x l y, In y (insert_by less x l) <-> y = x \/ In y l.
  Proof.
    induction l as [|z l IH]; simpl; intros y; [intuition|].
    destruct (less x z); simpl; [intuition|]. rewrite IH. intuition.
  Qed.

  Lemma insert_by_SS : forall x l, SS l -> (forall y, In y l -> less x y = true \/ less y x = true) ->
    SS (insert_by less x l).
  Proof.
    induction l as [|z l IH]; simpl; intros H T.
    - constructor; constructor.
    - apply SS_inv in H. destruct H as [H F]. destruct (less x z) eqn:E.
      + constructor; [constructor; assumption|]. constructor; [exact E|].
        rewrite Forall_forall in *. intros y I. eapply less_trans; [exact E | apply F; assumption].
      + constructor; [apply IH; auto|]. rewrite Forall_forall in *. intros y I.
        apply insert_by_In in I. destruct I as [->|I]; [|auto].
        destruct (T z (or_introl eq_refl)) as [L|L]; [congruence | exact L].
  Qed.

  Lemma isort_In : forall l y, In y (isort less l) <-> In y l.
  Proof.
    induction l as [|x l IH]; simpl; intros y; [tauto|]. rewrite insert_by_In, IH. intuition.
  Qed.

  (* pairwise comparable: distinct positions hold comparable elements *)
  Fixpoint comparable (l : list A) : Prop :=
    match l with
    | [] => True
    | x :: l' => (forall y, In y l' -> less x y = true \/ less y x = true) /\ comparable l'
    end.

  Lemma isort_SS : forall l, comparable l -> SS (isort less l).
  Proof.
    induction l as [|x l IH]; simpl; intros C; [constructor|].
    destruct C as [C1 C2]. apply insert_by_SS; [apply IH; exact C2|]. intros y I. apply C1. apply (proj1 (isort_In _ _) I).
  Qed.
End BTL.
