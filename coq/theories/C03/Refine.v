(* C03 — the resolver invariant (repaired OnPolicyMatchStopped): after every history the sorter holds exactly the
   policies that are active, known, and not still pending, with their current metadata, and the tiers that exist;
   every pending policy is active.  A Flush in sync empties the pending set of every known policy. *)
From Coq Require Import List NArith ZArith Bool Sorted.
From Verif.Common Require Import Labels.
From Verif.C03 Require Import Model Spec Order BT SpecProps Resolver Sorter.
Import ListNotations.

Notation active s k := (p2e_has_key k (p2e s) = true).
Notation apl s k := (alookup pkey_eqb k (allpol s)).
Definition Tof (D : dstate) : bytes -> option tierval := fun n => alookup bytes_eqb n (d_tiers D).

Record rinv (v : variant) (s : st) (D : dstate) (P : pkey -> option meta) : Prop := mk_rinv {
  ri_base : base_inv s D;
  ri_allpol : forall k, apl s k = option_map extract_meta (alookup pkey_eqb k (d_pols D));
  ri_srep : srep v (srt s) P (Tof D);
  ri_sound : forall k m, P k = Some m -> active s k /\ apl s k = Some m;
  ri_complete : forall k m, active s k -> apl s k = Some m -> P k = Some m \/ pk_mem k (pending s) = true;
  ri_pend : forall k, pk_mem k (pending s) = true -> active s k;
  ri_wf : forall k m, apl s k = Some m -> key_wf v k }.

Definition op_wf (v : variant) (o : op) : Prop :=
  match o with PolUpd k _ => key_wf v k | _ => True end.

(* ------------------------------------------------------------------ set / multidict helpers *)

Lemma has_key_put : forall k p e l,
  p2e_has_key k (md_put pe_eqb (p, e) l) = p2e_has_key k l || pkey_eqb k p.
Proof.
  intros. unfold md_put, p2e_has_key. destruct (existsb (pe_eqb (p, e)) l) eqn:E.
  - destruct (pkey_eqb k p) eqn:Ek; [|rewrite orb_false_r; reflexivity].
    rewrite orb_true_r. apply pkey_eqb_eq in Ek. subst k.
    apply existsb_exists in E. destruct E as [[p' e'] [I Q]]. apply existsb_exists. exists (p', e'). split; [exact I|].
    unfold pe_eqb in Q. simpl in *. apply andb_true_iff in Q. tauto.
  - rewrite existsb_app. simpl. rewrite orb_false_r. reflexivity.
Qed.

Lemma has_key_discard_sub : forall k x l,
  p2e_has_key k (md_discard pe_eqb x l) = true -> p2e_has_key k l = true.
Proof.
  intros k x l. unfold md_discard, p2e_has_key. rewrite !existsb_exists.
  intros [y [I Q]]. apply filter_In in I. exists y. tauto.
Qed.

Lemma has_key_discard_other : forall k p e l, k <> p ->
  p2e_has_key k (md_discard pe_eqb (p, e) l) = p2e_has_key k l.
Proof.
  intros k p e l N. unfold md_discard, p2e_has_key. induction l as [|[p' e'] l IH]; simpl; [reflexivity|].
  destruct (pe_eqb (p, e) (p', e')) eqn:Q; simpl.
  - unfold pe_eqb in Q. simpl in Q. apply andb_true_iff in Q. destruct Q as [Q _]. apply pkey_eqb_eq in Q. subst p'.
    rewrite (pkey_eqb_false _ _ N). exact IH.
  - rewrite IH. reflexivity.
Qed.

Lemma pk_mem_add : forall k p l, pk_mem k (pk_add p l) = pk_mem k l || pkey_eqb k p.
Proof.
  intros. unfold pk_add. destruct (pk_mem p l) eqn:E.
  - destruct (pkey_eqb k p) eqn:Ek; [|rewrite orb_false_r; reflexivity].
    apply pkey_eqb_eq in Ek. subst. rewrite E. reflexivity.
  - unfold pk_mem. rewrite existsb_app. simpl. rewrite orb_false_r. reflexivity.
Qed.

Lemma pk_mem_del : forall k p l, pk_mem k (pk_del p l) = pk_mem k l && negb (pkey_eqb k p).
Proof.
  intros. unfold pk_mem, pk_del. induction l as [|x l IH]; simpl; [reflexivity|].
  destruct (pkey_eqb p x) eqn:E; simpl.
  - apply pkey_eqb_eq in E. subst x. rewrite IH. destruct (pkey_eqb k p); simpl; [rewrite andb_false_r; reflexivity | reflexivity].
  - rewrite IH. destruct (pkey_eqb k x) eqn:E2; simpl; [|reflexivity].
    apply pkey_eqb_eq in E2. subst x. destruct (pkey_eqb k p) eqn:E3; [|reflexivity].
    apply pkey_eqb_eq in E3. subst. rewrite pkey_eqb_refl in E. discriminate.
Qed.

Lemma Tof_aset : forall D n tv n',
  alookup bytes_eqb n' (aset bytes_eqb n tv (d_tiers D)) = updT (Tof D) n (Some tv) n'.
Proof. intros. unfold updT, Tof. apply (alookup_aset bytes_eqb bytes_eqb_eq). Qed.
Lemma Tof_adel : forall D n n',
  alookup bytes_eqb n' (adel bytes_eqb n (d_tiers D)) = updT (Tof D) n None n'.
Proof. intros. unfold updT, Tof. apply (alookup_adel bytes_eqb bytes_eqb_eq). Qed.

(* ------------------------------------------------------------------ one operation *)

Section Fixed.
  Variable v : variant.
  Hypothesis Hfixed : v_fixed v = true.

  Lemma flush_one_rinv : forall s D P k, rinv v s D P ->
    exists P', rinv v (flush_one v s k) D P'
      /\ (forall k' m', P k' = Some m' -> P' k' = Some m')
      /\ (forall m, pk_mem k (pending s) = true -> apl s k = Some m -> P' k = Some m).
  Proof.
    intros s D P k R. unfold flush_one. destruct (pk_mem k (pending s)) eqn:Ep.
    2:{ exists P. split; [exact R|]. split; [auto | discriminate]. }
    destruct (apl s k) as [m|] eqn:Ea.
    2:{ exists P. split; [exact R|]. split; [auto | discriminate]. }
    destruct (srep_update_some v (srt s) P (Tof D) k m (ri_srep _ _ _ _ R) (ri_wf _ _ _ _ R k m Ea)) as [SR _].
    exists (updP P k (Some m)). split; [|split].
    - destruct R. constructor; cbn [p2e e2p allpol eps dirty pending srt insync]; auto.
      + intros k' m'. unfold updP. destruct (pkey_eqb k' k) eqn:E; [|auto].
        apply pkey_eqb_eq in E. subst k'. intros [= <-]. auto.
      + intros k' m' A1 A2. unfold updP. rewrite pk_mem_del. destruct (pkey_eqb k' k) eqn:E.
        * apply pkey_eqb_eq in E. subst k'. left. congruence.
        * simpl. rewrite andb_true_r. auto.
      + intros k'. rewrite pk_mem_del. intros H. apply andb_true_iff in H. destruct H. auto.
    - intros k' m' H. unfold updP. destruct (pkey_eqb k' k) eqn:E; [|exact H].
      apply pkey_eqb_eq in E. subst k'. destruct (ri_sound _ _ _ _ R k m' H). congruence.
    - intros m0 _ [= <-]. unfold updP. rewrite pkey_eqb_refl. reflexivity.
  Qed.

  Lemma flush_fold_rinv : forall l s D P, rinv v s D P ->
    (forall k m, active s k -> apl s k = Some m -> P k = Some m \/ (pk_mem k (pending s) = true /\ In k l)) ->
    exists P', rinv v (fold_left (flush_one v) l s) D P'
      /\ (forall k m, active s k -> apl s k = Some m -> P' k = Some m).
  Proof.
    induction l as [|k0 l IH]; intros s D P R Hc; simpl.
    - exists P. split; [exact R|]. intros k m A1 A2. destruct (Hc k m A1 A2) as [H|[_ []]]. exact H.
    - destruct (flush_one_rinv s D P k0 R) as [P1 [R1 [Mono Done]]].
      destruct (flush_one_base v s k0) as (B1 & _ & _ & _ & _ & B6).
      destruct (IH (flush_one v s k0) D P1 R1) as [P' [R' Hall]].
      + rewrite B1, B6. intros k m A1 A2. destruct (Hc k m A1 A2) as [H|[Hp [<-|Hin]]].
        * left. auto.
        * left. eapply Done; eauto.
        * destruct (pkey_eqb k k0) eqn:E.
          -- apply pkey_eqb_eq in E. subst k0. left. eapply Done; eauto.
          -- right. split; [|exact Hin]. unfold flush_one. rewrite ?Hp.
             destruct (pk_mem k0 (pending s)); [|exact Hp].
             destruct (apl s k0); [|exact Hp]. cbn [pending]. rewrite pk_mem_del, Hp, E. reflexivity.
      + exists P'. split; [exact R'|]. intros k m A1 A2. apply Hall; [rewrite B1 | rewrite B6]; assumption.
  Qed.

  Lemma pk_mem_In : forall k l, pk_mem k l = true -> In k l.
  Proof.
    intros k l H. unfold pk_mem in H. apply existsb_exists in H. destruct H as [x [I Q]].
    apply pkey_eqb_eq in Q. subst. exact I.
  Qed.

  (* after the pending loop of a Flush: the sorter holds exactly the active known policies *)
  Lemma flush_pending_rinv : forall s D P ord, rinv v s D P ->
    exists P', rinv v (flush_pending v s ord) D P'
      /\ (forall k m, P' k = Some m <-> active s k /\ apl s k = Some m).
  Proof.
    intros s D P ord R. unfold flush_pending.
    destruct (flush_fold_rinv (ord ++ pending s) s D P R) as [P' [R' Hall]].
    - intros k m A1 A2. destruct (ri_complete _ _ _ _ R k m A1 A2) as [H|H]; [auto|].
      right. split; [exact H|]. apply in_or_app. right. apply pk_mem_In. exact H.
    - exists P'. split; [exact R'|]. intros k m. split.
      + intros H. destruct (ri_sound _ _ _ _ R' k m H) as [A1 A2].
        destruct (flush_pending_base v ord s) as (B1 & _ & _ & _ & _ & B6). unfold flush_pending in B1, B6.
        rewrite B1 in A1. rewrite B6 in A2. auto.
      + intros [A1 A2]. auto.
  Qed.

  Lemma step_rinv : forall s D P o, rinv v s D P -> op_wf v o ->
    exists P', rinv v (fst (step v s o)) (apply_op D o) P'.
  Proof.
    intros s D P o R W. pose proof (step_base v s D o (ri_base _ _ _ _ R)) as B'.
    destruct o as [p e|p e|p val|n val|e pr| |ord].
    - (* OnPolicyMatch *)
      exists P. destruct R. apply mk_rinv; [exact B'| | | | | |];
        cbn [step fst p2e e2p allpol eps dirty pending srt insync apply_op d_pols d_tiers] in *.
      + exact ri_allpol0.
      + exact ri_srep0.
      + intros k m H. destruct (ri_sound0 k m H). rewrite has_key_put. split; [|assumption]. apply orb_true_iff. auto.
      + intros k m A1 A2. rewrite has_key_put in A1. apply orb_true_iff in A1.
        destruct (has_policy (srt s) p) eqn:HP.
        * destruct A1 as [A1|A1]; [auto|]. apply pkey_eqb_eq in A1. subst k.
          apply (has_policy_iff v _ _ _ _ ri_srep0) in HP. destruct HP as [m' HP].
          destruct (ri_sound0 p m' HP). left. congruence.
        * rewrite pk_mem_add. destruct A1 as [A1|A1].
          -- destruct (ri_complete0 k m A1 A2) as [H|H]; [auto|]. right. rewrite H. reflexivity.
          -- right. rewrite A1. apply orb_true_r.
      + intros k. rewrite has_key_put. destruct (has_policy (srt s) p).
        * intros H. apply orb_true_iff. auto.
        * rewrite pk_mem_add. intros H. apply orb_true_iff in H. apply orb_true_iff. destruct H; auto.
      + exact ri_wf0.
    - (* OnPolicyMatchStopped, repaired *)
      cbn [step fst] in *. rewrite Hfixed, andb_true_r in *.
      set (p2e' := md_discard pe_eqb (p, e) (p2e s)) in *.
      destruct (p2e_has_key p p2e') eqn:L; cbn [negb] in *.
      + (* still active *)
        assert (Act : forall k, p2e_has_key k p2e' = p2e_has_key k (p2e s)).
        { intros k. destruct (pkey_eqb k p) eqn:E.
          - apply pkey_eqb_eq in E. subst k. rewrite L. symmetry. eapply has_key_discard_sub. exact L.
          - apply has_key_discard_other. apply pkey_eqb_neq. exact E. }
        exists P. destruct R. apply mk_rinv; [exact B'| | | | | |];
          cbn [p2e e2p allpol eps dirty pending srt insync apply_op d_pols d_tiers] in *.
        * exact ri_allpol0.
        * exact ri_srep0.
        * intros k m H. rewrite Act. auto.
        * intros k m. rewrite Act. auto.
        * intros k. rewrite Act. auto.
        * exact ri_wf0.
      + (* last match gone: leave the sorter and the pending set *)
        destruct (srep_update_none v (srt s) P (Tof D) p (ri_srep _ _ _ _ R)) as [SR _].
        exists (updP P p None). destruct R. apply mk_rinv; [exact B'| | | | | |];
          cbn [p2e e2p allpol eps dirty pending srt insync apply_op d_pols d_tiers] in *.
        * exact ri_allpol0.
        * exact SR.
        * intros k m. unfold updP. destruct (pkey_eqb k p) eqn:E; [discriminate|]. intros H.
          destruct (ri_sound0 k m H). split; [|assumption].
          unfold p2e'. rewrite has_key_discard_other; [assumption | apply pkey_eqb_neq; exact E].
        * intros k m A1 A2. unfold updP. rewrite pk_mem_del. destruct (pkey_eqb k p) eqn:E.
          -- apply pkey_eqb_eq in E. subst k. congruence.
          -- unfold p2e' in A1. rewrite has_key_discard_other in A1 by (apply pkey_eqb_neq; exact E).
             simpl. rewrite andb_true_r. auto.
        * intros k. rewrite pk_mem_del. intros H. apply andb_true_iff in H. destruct H as [H1 H2].
          apply negb_true_iff in H2. unfold p2e'. rewrite has_key_discard_other by (apply pkey_eqb_neq; exact H2). auto.
        * exact ri_wf0.
    - (* policy update / delete *)
      simpl in W. cbn [step] in *.
      assert (AP : forall k, alookup pkey_eqb k (match val with Some pv => aset pkey_eqb p (extract_meta pv) (allpol s)
                                                              | None => adel pkey_eqb p (allpol s) end)
                             = if pkey_eqb k p then option_map extract_meta val else apl s k).
      { intros k. destruct val; [apply pl_aset | apply pl_adel]. }
      assert (DP : forall k, alookup pkey_eqb k (d_pols (apply_op D (PolUpd p val)))
                             = if pkey_eqb k p then val else alookup pkey_eqb k (d_pols D)).
      { intros k. destruct val; cbn [apply_op d_pols];
          [apply (alookup_aset pkey_eqb pkey_eqb_eq) | apply (alookup_adel pkey_eqb pkey_eqb_eq)]. }
      assert (TD : Tof (apply_op D (PolUpd p val)) = Tof D) by (destruct val; reflexivity).
      assert (PM : forall k, k <> p -> pk_mem k (match val with Some _ => pending s | None => pk_del p (pending s) end)
                                       = pk_mem k (pending s)).
      { intros k N. destruct val; [reflexivity|]. rewrite pk_mem_del, (pkey_eqb_false _ _ N). apply andb_true_r. }
      assert (PS : forall k, pk_mem k (match val with Some _ => pending s | None => pk_del p (pending s) end) = true
                             -> pk_mem k (pending s) = true).
      { intros k. destruct val; [auto|]. rewrite pk_mem_del. intros H. apply andb_true_iff in H. tauto. }
      destruct (p2e_has_key p (p2e s)) eqn:Ac.
      + assert (SR : srep v (fst (sorter_update_policy v (srt s) p (option_map extract_meta val)))
                          (updP P p (option_map extract_meta val)) (Tof D)).
        { destruct val as [pv|]; cbn [option_map].
          - apply srep_update_some; [apply (ri_srep _ _ _ _ R) | exact W].
          - apply srep_update_none. apply (ri_srep _ _ _ _ R). }
        destruct (sorter_update_policy v (srt s) p (option_map extract_meta val)) as [srt' d]. cbn [fst] in *.
        exists (updP P p (option_map extract_meta val)). destruct R.
        apply mk_rinv; [exact B'| | | | | |]; cbn [p2e e2p allpol eps dirty pending srt insync] in *.
        * intros k. rewrite AP, DP. destruct (pkey_eqb k p); [reflexivity | auto].
        * rewrite TD. exact SR.
        * intros k m. unfold updP. rewrite AP. destruct (pkey_eqb k p) eqn:E; [|auto].
          apply pkey_eqb_eq in E. subst k. auto.
        * intros k m A1. rewrite AP. unfold updP. destruct (pkey_eqb k p) eqn:E; [auto|].
          intros A2. rewrite PM by (apply pkey_eqb_neq; exact E). auto.
        * intros k H. apply ri_pend0. apply PS. exact H.
        * intros k m. rewrite AP. destruct (pkey_eqb k p) eqn:E; [|eauto].
          apply pkey_eqb_eq in E. subst k. auto.
      + exists P. destruct R. apply mk_rinv; [exact B'| | | | | |];
          cbn [fst p2e e2p allpol eps dirty pending srt insync] in *.
        * intros k. rewrite AP, DP. destruct (pkey_eqb k p); [reflexivity | auto].
        * rewrite TD. assumption.
        * intros k m H. destruct (ri_sound0 k m H) as [A1 A2]. split; [exact A1|]. rewrite AP.
          destruct (pkey_eqb k p) eqn:E; [|exact A2]. apply pkey_eqb_eq in E. subst k. congruence.
        * intros k m A1. rewrite AP. destruct (pkey_eqb k p) eqn:E.
          -- apply pkey_eqb_eq in E. subst k. congruence.
          -- intros A2. rewrite PM by (apply pkey_eqb_neq; exact E). auto.
        * intros k H. apply ri_pend0. apply PS. exact H.
        * intros k m. rewrite AP. destruct (pkey_eqb k p) eqn:E; [|eauto].
          apply pkey_eqb_eq in E. subst k. auto.
    - (* tier update / delete *)
      exists P. destruct R. apply mk_rinv; [exact B'| | | | | |];
        cbn [step fst p2e e2p allpol eps dirty pending srt insync] in *; auto.
      + intros k. rewrite ri_allpol0. destruct val; reflexivity.
      + eapply srep_ext; [reflexivity | | apply srep_tier_update; exact ri_srep0].
        intros n'. destruct val; cbn [apply_op]; unfold Tof at 2; cbn [d_tiers]; symmetry; [apply Tof_aset | apply Tof_adel].
    - (* endpoint update / delete *)
      exists P. destruct R. apply mk_rinv; [exact B'| | | | | |];
        cbn [step fst p2e e2p allpol eps dirty pending srt insync] in *; auto.
      + intros k. rewrite ri_allpol0. destruct pr; reflexivity.
      + destruct pr; exact ri_srep0.
    - exists P. destruct R. apply mk_rinv; auto.
    - (* Flush *)
      cbn [apply_op] in *. cbn [step] in *. destruct (insync s) eqn:I; cbn [fst] in *.
      + destruct (flush_pending_rinv s D P ord R) as [P' [R' _]]. exists P'. destruct R'.
        apply mk_rinv; auto.
      + exists P. exact R.
  Qed.
End Fixed.
