(* C03 — resolver-level facts that hold after EVERY history (both variants): the resolver's match multidicts,
   endpoint set and in-sync flag are the fold of the history; a Flush emits nothing before in-sync, at most one
   update per endpoint, tiers only to endpoints that exist, and only policies currently matching that endpoint. *)
From Coq Require Import List NArith ZArith Bool.
From Verif.Common Require Import Labels.
From Verif.C03 Require Import Model Spec Order.
Import ListNotations.

Definition state_after (v : variant) (ops : list op) : st := fst (run_from v st0 ops).

Definition swap (pe : pkey * epkey) : epkey * pkey := (snd pe, fst pe).

Definition base_inv (s : st) (D : dstate) : Prop :=
  p2e s = d_match D /\ e2p s = map swap (d_match D) /\ eps s = d_eps D /\ insync s = d_insync D.

Lemma md_put_swap : forall x l,
  md_put ep_eqb (swap x) (map swap l) = map swap (md_put pe_eqb x l).
Proof.
  intros x l. unfold md_put.
  assert (E : existsb (ep_eqb (swap x)) (map swap l) = existsb (pe_eqb x) l).
  { induction l as [|y l IH]; simpl; [reflexivity|]. rewrite IH. f_equal.
    unfold ep_eqb, pe_eqb, swap; simpl. apply andb_comm. }
  rewrite E. destruct (existsb (pe_eqb x) l); [reflexivity|]. rewrite map_app. reflexivity.
Qed.

Lemma md_discard_swap : forall x l,
  md_discard ep_eqb (swap x) (map swap l) = map swap (md_discard pe_eqb x l).
Proof.
  intros x l. unfold md_discard. induction l as [|y l IH]; simpl; [reflexivity|].
  replace (ep_eqb (swap x) (swap y)) with (pe_eqb x y) by (unfold ep_eqb, pe_eqb, swap; simpl; apply andb_comm).
  destruct (pe_eqb x y); simpl; congruence.
Qed.

Lemma flush_one_base : forall v s k,
  p2e (flush_one v s k) = p2e s /\ e2p (flush_one v s k) = e2p s /\ eps (flush_one v s k) = eps s
  /\ insync (flush_one v s k) = insync s /\ dirty (flush_one v s k) = dirty s /\ allpol (flush_one v s k) = allpol s.
Proof.
  intros. unfold flush_one. destruct (pk_mem k (pending s)); [|tauto].
  destruct (alookup pkey_eqb k (allpol s)); simpl; tauto.
Qed.

Lemma flush_pending_base : forall v ord s,
  p2e (flush_pending v s ord) = p2e s /\ e2p (flush_pending v s ord) = e2p s /\ eps (flush_pending v s ord) = eps s
  /\ insync (flush_pending v s ord) = insync s /\ dirty (flush_pending v s ord) = dirty s
  /\ allpol (flush_pending v s ord) = allpol s.
Proof.
  intros v ord s. unfold flush_pending. generalize (ord ++ pending s) as l. intros l. revert s.
  induction l as [|k l IH]; intros s; simpl; [tauto|].
  destruct (IH (flush_one v s k)) as (A & B & C & D & E & F).
  destruct (flush_one_base v s k) as (A' & B' & C' & D' & E' & F').
  repeat split; congruence.
Qed.

Lemma step_base : forall v s D o, base_inv s D -> base_inv (fst (step v s o)) (apply_op D o).
Proof.
  intros v s D o (A & B & C & E). unfold base_inv. destruct o as [p e|p e|p val|n val|e pr| |ord]; simpl.
  - rewrite A, B. change (e, p) with (swap (p, e)). rewrite md_put_swap. auto.
  - rewrite A, B. change (e, p) with (swap (p, e)). rewrite md_discard_swap. auto.
  - destruct (p2e_has_key p (p2e s)).
    + destruct (sorter_update_policy v (srt s) p (option_map extract_meta val)); destruct val; simpl; auto.
    + destruct val; simpl; auto.
  - destruct val; simpl; auto.
  - destruct pr; simpl; rewrite C; auto.
  - auto.
  - destruct (insync s) eqn:I; simpl; [|repeat split; congruence].
    destruct (flush_pending_base v ord s) as (A' & B' & C' & D' & _). rewrite A', B', C', D'. repeat split; congruence.
Qed.

Lemma run_from_app : forall v ops1 ops2 s,
  fst (run_from v s (ops1 ++ ops2)) = fst (run_from v (fst (run_from v s ops1)) ops2).
Proof.
  induction ops1 as [|o ops1 IH]; intros ops2 s; simpl; [reflexivity|].
  destruct (step v s o) as [s1 out] eqn:E. specialize (IH ops2 s1).
  destruct (run_from v s1 (ops1 ++ ops2)) as [s2 outs] eqn:E2.
  destruct (run_from v s1 ops1) as [s3 outs3] eqn:E3. simpl in *. exact IH.
Qed.

Lemma run_from_fst_fold : forall v ops s, fst (run_from v s ops) = fold_left (fun s o => fst (step v s o)) ops s.
Proof.
  induction ops as [|o ops IH]; intros s; simpl; [reflexivity|].
  destruct (step v s o) as [s1 out] eqn:E. specialize (IH s1).
  destruct (run_from v s1 ops) as [s2 outs]. simpl in *. exact IH.
Qed.

Lemma base_inv_run : forall v ops, base_inv (state_after v ops) (net ops).
Proof.
  intros v ops. unfold state_after, net. rewrite run_from_fst_fold.
  assert (G : forall s D, base_inv s D ->
              base_inv (fold_left (fun s o => fst (step v s o)) ops s) (fold_left apply_op ops D)).
  { induction ops as [|o ops IH]; intros s D H; simpl; [exact H|]. apply IH. apply step_base. exact H. }
  apply G. unfold base_inv; simpl; auto.
Qed.

(* what a Flush emits after the history `ops` *)
Definition flush_out (v : variant) (ops : list op) (ord : list pkey) : list epout :=
  snd (step v (state_after v ops) (Flush ord)).

Lemma run_snoc_flush : forall v ops ord, run v (ops ++ [Flush ord]) = run v ops ++ [flush_out v ops ord].
Proof.
  intros v ops ord. unfold run, flush_out, state_after. generalize st0 as s.
  induction ops as [|o ops IH]; intros s.
  - cbn [app run_from fst snd is_flush]. destruct (step v s (Flush ord)) as [s1 out]. reflexivity.
  - cbn [app run_from]. destruct (step v s o) as [s1 out] eqn:E. specialize (IH s1).
    destruct (run_from v s1 (ops ++ [Flush ord])) as [s2 outs] eqn:E2.
    destruct (run_from v s1 ops) as [s3 outs3] eqn:E3. simpl in *.
    destruct (is_flush o); simpl; congruence.
Qed.

Lemma not_in_sync_no_output : forall v ops ord, d_insync (net ops) = false -> flush_out v ops ord = [].
Proof.
  intros v ops ord H. unfold flush_out. destruct (base_inv_run v ops) as (_ & _ & _ & I).
  simpl. rewrite I, H. reflexivity.
Qed.

Lemma in_existsb_ep : forall e k l, existsb (ep_eqb (e, k)) l = true -> In (e, k) l.
Proof.
  intros e k l H. apply existsb_exists in H. destruct H as [[e' k'] [I Q]].
  unfold ep_eqb in Q; simpl in Q. apply andb_true_iff in Q. destruct Q as [Q1 Q2].
  apply N.eqb_eq in Q1. apply pkey_eqb_eq in Q2. subst. exact I.
Qed.

Lemma matched_iff : forall D k e, matched D k e = true <-> In (k, e) (d_match D).
Proof.
  intros. unfold matched. rewrite existsb_exists. split.
  - intros [[k' e'] [I Q]]. unfold pe_eqb in Q; simpl in Q. apply andb_true_iff in Q. destruct Q as [Q1 Q2].
    apply pkey_eqb_eq in Q1. apply N.eqb_eq in Q2. subst. exact I.
  - intros I. exists (k, e). split; [exact I|]. unfold pe_eqb; simpl. rewrite pkey_eqb_refl, N.eqb_refl. reflexivity.
Qed.

Lemma ep_mem_In : forall e l, ep_mem e l = true <-> In e l.
Proof.
  intros. unfold ep_mem. rewrite existsb_exists. split.
  - intros [x [I Q]]. apply N.eqb_eq in Q. subst. exact I.
  - intros I. exists e. split; [exact I | apply N.eqb_refl].
Qed.

(* every update a Flush emits: the endpoint is dirty; tiers go to existing endpoints, "removed" to the others *)
Lemma flush_out_shape : forall v ops ord e r,
  In (e, r) (flush_out v ops ord) ->
  d_insync (net ops) = true /\
  match r with
  | Some ts => In e (d_eps (net ops)) /\
               ts = endpoint_tiers (flush_pending v (state_after v ops) ord)
                                   (sorter_sorted (srt (flush_pending v (state_after v ops) ord))) e
  | None => ~ In e (d_eps (net ops))
  end.
Proof.
  intros v ops ord e r H. unfold flush_out in H. destruct (base_inv_run v ops) as (_ & _ & C & I).
  simpl in H. destruct (insync (state_after v ops)) eqn:S; simpl in H; [|contradiction].
  split; [congruence|]. apply in_map_iff in H. destruct H as [e' [Q _]].
  unfold send_endpoint_update in Q.
  destruct (flush_pending_base v ord (state_after v ops)) as (_ & _ & C' & _).
  rewrite C', C in Q. destruct (ep_mem e' (d_eps (net ops))) eqn:M; inversion Q; subst.
  - split; [apply ep_mem_In; exact M | reflexivity].
  - intros J. apply ep_mem_In in J. congruence.
Qed.

(* only policies that currently match THIS endpoint are sent to it *)
Lemma only_matching_sent : forall v ops ord e ts t k m,
  In (e, Some ts) (flush_out v ops ord) -> In t ts -> In (k, m) (to_pols t) ->
  matched (net ops) k e = true.
Proof.
  intros v ops ord e ts t k m H It Ik. apply flush_out_shape in H. destruct H as [_ [_ ->]].
  unfold endpoint_tiers in It. apply in_flat_map in It. destruct It as [ti [_ It]].
  remember (flush_pending v (state_after v ops) ord) as s1.
  destruct (filter (fun kv => existsb (ep_eqb (e, fst kv)) (e2p s1)) (ti_sorted ti)) eqn:F; [contradiction|].
  destruct It as [<-|[]]. cbn [to_pols] in Ik. rewrite <- F in Ik. apply filter_In in Ik. destruct Ik as [_ Q].
  simpl in Q. apply in_existsb_ep in Q.
  destruct (flush_pending_base v ord (state_after v ops)) as (_ & B' & _). rewrite <- Heqs1 in B'.
  destruct (base_inv_run v ops) as (_ & B & _). rewrite B', B in Q.
  apply in_map_iff in Q. destruct Q as [[k' e'] [Q I]]. unfold swap in Q; simpl in Q. inversion Q; subst.
  apply matched_iff. exact I.
Qed.

(* no tier is emitted empty *)
Lemma no_empty_tier_sent : forall v ops ord e ts t,
  In (e, Some ts) (flush_out v ops ord) -> In t ts -> to_pols t <> [].
Proof.
  intros v ops ord e ts t H It. apply flush_out_shape in H. destruct H as [_ [_ ->]].
  unfold endpoint_tiers in It. apply in_flat_map in It. destruct It as [ti [_ It]].
  match type of It with In _ (match ?f with _ => _ end) => destruct f eqn:F end; [contradiction|].
  destruct It as [<-|[]]. simpl. discriminate.
Qed.
