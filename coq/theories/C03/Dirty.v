(* C03 — dirty-marking invariant: after every history, every endpoint that is not marked dirty was last told
   exactly what the current net state prescribes (so a Flush that empties the dirty set leaves no stale view). *)
From Coq Require Import List NArith ZArith Bool Sorted.
From Verif.Common Require Import Labels.
From Verif.C03 Require Import Model Spec Order BT SpecProps Resolver Sorter Refine Char Main.
Import ListNotations.

Definition vview := epkey -> option (option (list tout)).
Definition upd_view (VW : vview) (out : list epout) : vview :=
  fun e => match alookup N.eqb e out with Some r => Some r | None => VW e end.

(* the last update emitted per endpoint along a history *)
Fixpoint view_from (v : variant) (s : st) (VW : vview) (ops : list op) : vview :=
  match ops with
  | [] => VW
  | o :: ops' => view_from v (fst (step v s o)) (upd_view VW (snd (step v s o))) ops'
  end.
Definition view_after (v : variant) (ops : list op) : vview := view_from v st0 (fun _ => None) ops.

Definition good (v : variant) (D : dstate) (e : epkey) (x : option (option (list tout))) : Prop :=
  (In e (d_eps D) -> exists ts, x = Some (Some ts) /\ charP (polkv_less v) (appD D e) (Tof D) ts)
  /\ (~ In e (d_eps D) -> x = None \/ x = Some None).

Definition DM (v : variant) (s : st) (D : dstate) (VW : vview) : Prop :=
  forall e, ~ In e (dirty s) -> good v D e (VW e).

(* a pending policy that is known but not yet in the sorter: every endpoint it matches is dirty *)
Definition PD (s : st) : Prop :=
  forall k, pk_mem k (pending s) = true -> has_policy (srt s) k = false -> apl s k <> None ->
  forall e, In (k, e) (p2e s) -> In e (dirty s).

(* ------------------------------------------------------------------ helpers *)

Lemma ep_add_In : forall e x l, In e (ep_add x l) <-> e = x \/ In e l.
Proof.
  intros. unfold ep_add. destruct (ep_mem x l) eqn:E.
  - split; [auto|]. intros [->|H]; [apply ep_mem_In; exact E | exact H].
  - rewrite in_app_iff. simpl. intuition.
Qed.

Lemma ep_add_all_In : forall es e l, In e (ep_add_all es l) <-> In e es \/ In e l.
Proof.
  unfold ep_add_all. induction es as [|x es IH]; intros e l; simpl; [tauto|].
  rewrite IH, ep_add_In. intuition.
Qed.

Lemma pe_eqb_eq : forall a b, pe_eqb a b = true <-> a = b.
Proof.
  intros [k1 e1] [k2 e2]. unfold pe_eqb; simpl. rewrite andb_true_iff, pkey_eqb_eq, N.eqb_eq.
  split; [intros [-> ->]; reflexivity | intros [= -> ->]; auto].
Qed.

Lemma md_put_In : forall x y l, In x (md_put pe_eqb y l) <-> x = y \/ In x l.
Proof.
  intros. unfold md_put. destruct (existsb (pe_eqb y) l) eqn:E.
  - split; [auto|]. intros [->|H]; [|exact H]. apply existsb_exists in E. destruct E as [z [I Q]].
    apply pe_eqb_eq in Q. subst. exact I.
  - rewrite in_app_iff. simpl. intuition.
Qed.

Lemma md_discard_In : forall x y l, In x (md_discard pe_eqb y l) <-> In x l /\ x <> y.
Proof.
  intros. unfold md_discard. rewrite filter_In. split; intros [H1 H2]; (split; [exact H1|]).
  - intros ->. rewrite (proj2 (pe_eqb_eq y y) eq_refl) in H2. discriminate.
  - destruct (pe_eqb y x) eqn:E; [|reflexivity]. apply pe_eqb_eq in E. congruence.
Qed.

Lemma matched_eq : forall D D' k e,
  (In (k, e) (d_match D) <-> In (k, e) (d_match D')) -> matched D k e = matched D' k e.
Proof.
  intros D D' k e H. destruct (matched D k e) eqn:E1, (matched D' k e) eqn:E2; try reflexivity.
  - apply matched_iff in E1. apply H in E1. apply matched_iff in E1. congruence.
  - apply matched_iff in E2. apply H in E2. apply matched_iff in E2. congruence.
Qed.

Lemma charP_ext : forall pless app app' T T' ts,
  (forall k m, app k m <-> app' k m) -> (forall n, T n = T' n) ->
  charP pless app T ts -> charP pless app' T' ts.
Proof.
  intros pless app app' T T' ts EA ET C.
  assert (EK : forall n, tkeyT T n = tkeyT T' n) by (intros n; unfold tkeyT; rewrite ET; reflexivity).
  destruct C as [C1 C2 C3]. apply mk_charP.
  - rewrite (map_ext _ (fun t => tkeyT T (to_name t))) by (intros; symmetry; apply EK). exact C1.
  - intros t I. destruct (C2 t I) as (S & NE & O & A & M).
    split; [exact S | split; [exact NE | split; [rewrite <- EK; exact O | split]]].
    + intros tv E. apply A. rewrite ET. exact E.
    + intros k m. rewrite M, EA. tauto.
  - intros k m H. apply (C3 k m). apply (EA k m). exact H.
Qed.

Lemma charP_empty : forall pless app T ts, (forall k m, ~ app k m) -> charP pless app T ts -> ts = [].
Proof.
  intros pless app T ts N C. destruct ts as [|t ts]; [reflexivity|]. exfalso.
  destruct (ch_each _ _ _ _ C t (or_introl eq_refl)) as (_ & NE & _ & _ & M).
  destruct (to_pols t) as [|[k m] r]; [congruence|]. apply (N k m). apply (M k m). left. reflexivity.
Qed.

Lemma charP_nil : forall pless app T, (forall k m, ~ app k m) -> charP pless app T [].
Proof.
  intros. apply mk_charP; simpl; [constructor | intros t [] |]. intros k m A. exfalso. eapply H; eauto.
Qed.

Lemma good_ext : forall v D D' e x,
  (In e (d_eps D) <-> In e (d_eps D')) ->
  (forall k m, appD D e k m <-> appD D' e k m) ->
  ((forall n, Tof D n = Tof D' n) \/ (forall k m, ~ appD D e k m)) ->
  good v D e x -> good v D' e x.
Proof.
  intros v D D' e x EE EA ET [G1 G2]. split.
  - intros I. destruct (G1 (proj2 EE I)) as [ts [Q C]]. exists ts. split; [exact Q|].
    destruct ET as [ET|Emp].
    + eapply charP_ext; eauto.
    + rewrite (charP_empty _ _ _ _ Emp C). apply charP_nil. intros k m A. apply (Emp k m). apply EA. exact A.
  - intros N. apply G2. intros I. apply N. apply EE. exact I.
Qed.

Lemma appD_same : forall D D' e k m,
  alookup pkey_eqb k (d_pols D) = alookup pkey_eqb k (d_pols D') ->
  (In (k, e) (d_match D) <-> In (k, e) (d_match D')) ->
  (appD D e k m <-> appD D' e k m).
Proof.
  intros D D' e k m EP EM. unfold appD. rewrite EP, (matched_eq D D' k e EM). tauto.
Qed.

Lemma has_policy_false : forall v s P T k, srep v s P T -> (has_policy s k = false <-> P k = None).
Proof.
  intros v s P T k R. pose proof (has_policy_iff v s P T k R) as H. destruct (has_policy s k); split; intros Q.
  - discriminate.
  - destruct (proj1 H eq_refl) as [m E]. congruence.
  - destruct (P k) eqn:E; [|reflexivity]. assert (true = false); [|discriminate]. symmetry. apply H. eauto.
  - reflexivity.
Qed.

Lemma alookup_send : forall s1 sorted e l,
  alookup N.eqb e (map (send_endpoint_update s1 sorted) l) =
  if ep_mem e l then Some (snd (send_endpoint_update s1 sorted e)) else None.
Proof.
  intros. induction l as [|x l IH]; simpl; [reflexivity|].
  assert (F : fst (send_endpoint_update s1 sorted x) = x)
    by (unfold send_endpoint_update; destruct (ep_mem x (eps s1)); reflexivity).
  destruct (send_endpoint_update s1 sorted x) as [x' r] eqn:E. simpl in F. subst x'.
  destruct (N.eqb e x) eqn:Q; simpl.
  - apply N.eqb_eq in Q. subst x. rewrite E. reflexivity.
  - exact IH.
Qed.

(* the tier list a Flush computes for an endpoint is characterised by the net state (sorter's own order) *)
Lemma flush_char : forall v s D P ord e, rinv v s D P ->
  charP (polkv_less v) (appD D e) (Tof D)
        (endpoint_tiers (flush_pending v s ord) (sorter_sorted (srt (flush_pending v s ord))) e).
Proof.
  intros v s D P ord e R.
  destruct (flush_pending_rinv v s D P ord R) as [P' [R' Exact]].
  set (s1 := flush_pending v s ord) in *.
  pose proof (endpoint_tiers_char v (srt s1) P' (Tof D) s1 e (ri_srep _ _ _ _ R')) as C.
  destruct (flush_pending_base v ord s) as (_ & B2 & _). fold s1 in B2.
  destruct (ri_base _ _ _ _ R) as (B1 & B2' & _).
  eapply charP_ext; [| reflexivity | exact C].
  intros k m. cbv beta. rewrite Exact, B2, B2'. unfold appD. rewrite (ri_allpol _ _ _ _ R k). split.
  - intros [[A1 A2] I]. apply in_map_iff in I. destruct I as [[k' e'] [Q I]]. unfold swap in Q. simpl in Q.
    inversion Q; subst. destruct (alookup pkey_eqb k (d_pols D)) as [pv|]; [|discriminate].
    exists pv. simpl in A2. inversion A2. split; [reflexivity|]. split; [reflexivity|]. apply matched_iff. exact I.
  - intros [pv [H1 [-> H2]]]. apply matched_iff in H2. rewrite H1. simpl.
    split; [split; [|reflexivity]|].
    + rewrite B1. eapply has_key_of_match. exact H2.
    + apply in_map_iff. exists (k, e). auto.
Qed.

Section FixedDM.
  Variable v : variant.
  Hypothesis Hfixed : v_fixed v = true.

  Lemma step_dm : forall s D P VW o, rinv v s D P -> op_wf v o -> DM v s D VW -> PD s ->
    DM v (fst (step v s o)) (apply_op D o) (upd_view VW (snd (step v s o))) /\ PD (fst (step v s o)).
  Proof.
    intros s D P VW o R W HD HP.
    destruct (ri_base _ _ _ _ R) as (B1 & B2 & B3 & B4).
    pose proof (ri_srep _ _ _ _ R) as SR.
    destruct o as [p e0|p e0|p val|n val|e0 pr| |ord].
    - (* OnPolicyMatch *)
      cbn [step fst snd]. split.
      + intros e N. cbn [dirty] in N. rewrite ep_add_In in N.
        assert (e <> e0 /\ ~ In e (dirty s)) as [N1 N2] by tauto.
        refine (good_ext v D _ e (VW e) _ _ _ (HD e N2)); [reflexivity | | left; reflexivity].
        intros k m. apply appD_same; [reflexivity|]. cbn [apply_op d_match]. rewrite md_put_In.
        split; [auto|]. intros [Q|Q]; [inversion Q; congruence | exact Q].
      + intros k Hp Hh Ha e Hin. cbn [pending srt allpol p2e dirty] in *. rewrite ep_add_In.
        apply md_put_In in Hin. destruct Hin as [Q|Hin]; [inversion Q; auto|]. right.
        destruct (pk_mem k (pending s)) eqn:Ek; [apply (HP k Ek Hh Ha e Hin)|]. exfalso.
        destruct (apl s k) as [m|] eqn:Eam; [|congruence].
        destruct (ri_complete _ _ _ _ R k m (has_key_of_match _ _ _ Hin) Eam) as [Q|Q]; [|congruence].
        apply (has_policy_false v _ _ _ k SR) in Hh. congruence.
    - (* OnPolicyMatchStopped *)
      cbn [step fst snd]. rewrite Hfixed, andb_true_r. split.
      + intros e N. cbn [dirty] in N. rewrite ep_add_In in N.
        assert (e <> e0 /\ ~ In e (dirty s)) as [N1 N2] by tauto.
        refine (good_ext v D _ e (VW e) _ _ _ (HD e N2)); [reflexivity | | left; reflexivity].
        intros k m. apply appD_same; [reflexivity|]. cbn [apply_op d_match]. rewrite md_discard_In.
        split; [intros Q; split; [exact Q | intros Q'; inversion Q'; congruence] | tauto].
      + intros k Hp Hh Ha e Hin. cbn [pending srt allpol p2e dirty] in *. rewrite ep_add_In. right.
        apply md_discard_In in Hin. destruct Hin as [Hin _].
        destruct (p2e_has_key p (md_discard pe_eqb (p, e0) (p2e s))); cbn [negb] in *.
        * apply (HP k Hp Hh Ha e Hin).
        * rewrite pk_mem_del in Hp. apply andb_true_iff in Hp. destruct Hp as [Hp1 Hp2]. apply negb_true_iff in Hp2.
          destruct (srep_update_none v (srt s) P (Tof D) p SR) as [SR' _].
          apply (has_policy_false v _ _ _ k SR') in Hh. unfold updP in Hh. rewrite Hp2 in Hh.
          apply (HP k Hp1); auto. apply (has_policy_false v _ _ _ k SR). exact Hh.
    - (* policy update / delete *)
      simpl in W.
      assert (DPp : forall k, alookup pkey_eqb k (d_pols (apply_op D (PolUpd p val)))
                             = if pkey_eqb k p then val else alookup pkey_eqb k (d_pols D)).
      { intros k. destruct val; cbn [apply_op d_pols];
          [apply (alookup_aset pkey_eqb pkey_eqb_eq) | apply (alookup_adel pkey_eqb pkey_eqb_eq)]. }
      assert (MM : d_match (apply_op D (PolUpd p val)) = d_match D) by (destruct val; reflexivity).
      assert (EE : d_eps (apply_op D (PolUpd p val)) = d_eps D) by (destruct val; reflexivity).
      assert (TT : Tof (apply_op D (PolUpd p val)) = Tof D) by (destruct val; reflexivity).
      assert (AP : forall k, alookup pkey_eqb k (match val with Some pv => aset pkey_eqb p (extract_meta pv) (allpol s)
                                                              | None => adel pkey_eqb p (allpol s) end)
                             = if pkey_eqb k p then option_map extract_meta val else apl s k).
      { intros k. destruct val; [apply pl_aset | apply pl_adel]. }
      assert (PS : forall k, pk_mem k (match val with Some _ => pending s | None => pk_del p (pending s) end) = true
                             -> pk_mem k (pending s) = true /\ (val = None -> k <> p)).
      { intros k. destruct val; [intros H; split; [exact H | discriminate]|]. rewrite pk_mem_del. intros H.
        apply andb_true_iff in H. destruct H as [H1 H2]. split; [exact H1|]. intros _ ->. rewrite pkey_eqb_refl in H2. discriminate. }
      (* the part of DM that does not depend on the branch *)
      assert (Gen : forall e, ~ In e (dirty s) ->
                (matched D p e = true ->
                   option_map extract_meta val = option_map extract_meta (alookup pkey_eqb p (d_pols D))) ->
                good v (apply_op D (PolUpd p val)) e (VW e)).
      { intros e N2 Hm. refine (good_ext v D _ e (VW e) _ _ _ (HD e N2)); [rewrite EE; reflexivity | | left; rewrite TT; reflexivity].
        intros k m. destruct (pkey_eqb k p) eqn:Ek.
        - apply pkey_eqb_eq in Ek. subst k. unfold appD. rewrite DPp, pkey_eqb_refl.
          rewrite (matched_eq (apply_op D (PolUpd p val)) D p e) by (rewrite MM; reflexivity).
          destruct (matched D p e) eqn:Em.
          + specialize (Hm eq_refl). destruct (alookup pkey_eqb p (d_pols D)) as [pv0|], val as [pv|]; simpl in Hm;
              try discriminate.
            * inversion Hm as [Hm']. split; intros [x [Q1 [Q2 Q3]]]; inversion Q1; subst x;
                [exists pv | exists pv0]; (split; [reflexivity|]; split; [congruence | reflexivity]).
            * split; intros [x [Q1 _]]; discriminate.
          + split; intros [x [_ [_ Q]]]; discriminate.
        - apply appD_same; [rewrite DPp, Ek; reflexivity | rewrite MM; reflexivity]. }
      cbn [step]. destruct (p2e_has_key p (p2e s)) eqn:Ac.
      + assert (SR' : srep v (fst (sorter_update_policy v (srt s) p (option_map extract_meta val)))
                          (updP P p (option_map extract_meta val)) (Tof D)
                      /\ (snd (sorter_update_policy v (srt s) p (option_map extract_meta val)) = false ->
                          P p = option_map extract_meta val)).
        { destruct val as [pv|]; cbn [option_map]; [apply srep_update_some | apply srep_update_none]; auto. }
        destruct SR' as [SR' Dflag].
        destruct (sorter_update_policy v (srt s) p (option_map extract_meta val)) as [srt' d]. cbn [fst snd] in *. split.
        * intros e N. cbn [dirty] in N.
          assert (N2 : ~ In e (dirty s)).
          { intros I. apply N. destruct d; [apply ep_add_all_In; auto | exact I]. }
          apply Gen; [exact N2|]. intros Em. apply matched_iff in Em. rewrite <- B1 in Em.
          destruct d.
          -- exfalso. apply N. apply ep_add_all_In. left. apply in_map_iff. exists (p, e). split; [reflexivity|].
             apply filter_In. split; [exact Em | apply pkey_eqb_refl].
          -- specialize (Dflag eq_refl). rewrite <- (ri_allpol _ _ _ _ R p).
             destruct (P p) as [m'|] eqn:Epp.
             ++ destruct (ri_sound _ _ _ _ R p m' Epp) as [_ A2]. congruence.
             ++ destruct (apl s p) as [m|] eqn:Eam; [|symmetry; exact Dflag].
                exfalso. destruct (ri_complete _ _ _ _ R p m Ac Eam) as [Q|Q]; [congruence|].
                apply N2. apply (HP p Q); [|congruence | exact Em].
                apply (has_policy_false v _ _ _ p SR). exact Epp.
        * intros k Hp Hh Ha e Hin. cbn [pending srt allpol p2e dirty] in *.
          destruct (PS k Hp) as [Hp1 Hp2]. rewrite AP in Ha.
          apply (has_policy_false v _ _ _ k SR') in Hh. unfold updP in Hh.
          destruct (pkey_eqb k p) eqn:Ek.
          -- apply pkey_eqb_eq in Ek. subst k. destruct val; [discriminate | exfalso; apply (Hp2 eq_refl); reflexivity].
          -- assert (I : In e (dirty s)).
             { apply (HP k Hp1); auto. apply (has_policy_false v _ _ _ k SR). exact Hh. }
             destruct d; [apply ep_add_all_In; auto | exact I].
      + cbn [fst snd]. split.
        * intros e N. cbn [dirty] in N. apply Gen; [exact N|]. intros Em. apply matched_iff in Em. rewrite <- B1 in Em.
          rewrite (has_key_of_match _ _ _ Em) in Ac. discriminate.
        * intros k Hp Hh Ha e Hin. cbn [pending srt allpol p2e dirty] in *.
          destruct (PS k Hp) as [Hp1 Hp2]. rewrite AP in Ha. destruct (pkey_eqb k p) eqn:Ek.
          -- apply pkey_eqb_eq in Ek. subst k. rewrite (has_key_of_match _ _ _ Hin) in Ac. discriminate.
          -- apply (HP k Hp1 Hh Ha e Hin).
    - (* tier update / delete *)
      cbn [step fst snd]. split.
      + intros e N. cbn [dirty] in N. rewrite ep_add_all_In in N.
        assert (N1 : forall k, ~ In (k, e) (d_match D)).
        { intros k I. apply N. left. rewrite B2. apply in_map_iff. exists (e, k). split; [reflexivity|].
          apply in_map_iff. exists (k, e). auto. }
        assert (N2 : ~ In e (dirty s)) by tauto.
        refine (good_ext v D _ e (VW e) _ _ _ (HD e N2)); [| | right].
        * destruct val; reflexivity.
        * intros k m. apply appD_same; destruct val; reflexivity.
        * intros k m [pv [_ [_ Q]]]. apply matched_iff in Q. apply (N1 k Q).
      + intros k Hp Hh Ha e Hin. cbn [pending srt allpol p2e dirty] in *. apply ep_add_all_In. right.
        apply (HP k Hp); auto.
        apply (has_policy_false v _ _ _ k SR).
        apply (has_policy_false v _ _ _ k (srep_tier_update v _ _ _ n val SR)). exact Hh.
    - (* endpoint update / delete *)
      cbn [step fst snd]. split.
      + intros e N. cbn [dirty] in N. rewrite ep_add_In in N.
        assert (e <> e0 /\ ~ In e (dirty s)) as [N1 N2] by tauto.
        refine (good_ext v D _ e (VW e) _ _ _ (HD e N2)); [| | left].
        * destruct pr; cbn [apply_op d_eps].
          -- rewrite ep_add_In. tauto.
          -- rewrite filter_In. split; [intros I; split; [exact I|] | tauto].
             apply negb_true_iff. apply N.eqb_neq. congruence.
        * intros k m. apply appD_same; destruct pr; reflexivity.
        * destruct pr; reflexivity.
      + intros k Hp Hh Ha e Hin. cbn [pending srt allpol p2e dirty] in *. apply ep_add_In. right. apply (HP k Hp Hh Ha e Hin).
    - (* in-sync *)
      cbn [step fst snd]. split.
      + intros e N. refine (good_ext v D _ e (VW e) _ _ _ (HD e N)); [reflexivity | intros; reflexivity | left; reflexivity].
      + exact HP.
    - (* Flush *)
      cbn [step]. destruct (insync s) eqn:Is; cbn [fst snd].
      2:{ split; [intros e N; exact (HD e N) | exact HP]. }
      destruct (flush_pending_base v ord s) as (C1 & C2 & C3 & C4 & C5 & C6).
      split.
      + intros e _. cbn [apply_op]. unfold upd_view. rewrite alookup_send, C5.
        destruct (ep_mem e (dirty s)) eqn:Ed.
        * unfold send_endpoint_update. rewrite C3, B3. destruct (ep_mem e (d_eps D)) eqn:Ee; cbn [snd]; split.
          -- intros _. eexists. split; [reflexivity|]. apply (flush_char v s D P ord e R).
          -- intros N. exfalso. apply N. apply ep_mem_In. exact Ee.
          -- intros I. apply ep_mem_In in I. congruence.
          -- auto.
        * apply HD. intros I. apply ep_mem_In in I. congruence.
      + intros k Hp Hh Ha e Hin. cbn [pending srt allpol p2e dirty] in *. exfalso.
        destruct (flush_pending_rinv v s D P ord R) as [P' [R' Exact]].
        apply (has_policy_false v _ _ _ k (ri_srep _ _ _ _ R')) in Hh.
        rewrite C6 in Ha. rewrite C1 in Hin. destruct (apl s k) as [m|] eqn:Eam; [|congruence].
        assert (P' k = Some m) by (apply Exact; split; [eapply has_key_of_match; eauto | exact Eam]). congruence.
  Qed.
End FixedDM.

(* ------------------------------------------------------------------ over whole histories *)

Lemma dm_fold : forall v, v_fixed v = true -> forall ops s D P VW,
  rinv v s D P -> Forall (op_wf v) ops -> DM v s D VW -> PD s ->
  DM v (fold_left (fun s o => fst (step v s o)) ops s) (fold_left apply_op ops D) (view_from v s VW ops)
  /\ PD (fold_left (fun s o => fst (step v s o)) ops s).
Proof.
  intros v Hf. induction ops as [|o ops IH]; intros s D P VW R W HD HP; simpl; [auto|].
  inversion W as [|o' ops' Wo Wops]; subst.
  destruct (step_rinv v Hf s D P o R Wo) as [P1 R1].
  destruct (step_dm v Hf s D P VW o R Wo HD HP) as [HD1 HP1].
  eapply IH; eauto.
Qed.

Theorem dm_run : forall v ops, v_fixed v = true -> Forall (op_wf v) ops ->
  DM v (state_after v ops) (net ops) (view_after v ops) /\ PD (state_after v ops).
Proof.
  intros v ops Hf W. unfold state_after, net, view_after. rewrite run_from_fst_fold.
  eapply (dm_fold v Hf ops st0 D0 _ (fun _ => None) (rinv_init v) W).
  - intros e _. split; [intros []|]. intros _. left. reflexivity.
  - intros k H. discriminate.
Qed.

(* no stale view: an endpoint that is not marked dirty was last told exactly what the net state prescribes *)
Theorem no_stale_view : forall v ops e,
  v_fixed v = true -> Forall (op_wf v) ops -> order_ok v (net ops) ->
  ~ In e (dirty (state_after v ops)) ->
  (In e (d_eps (net ops)) ->
     exists ts, view_after v ops e = Some (Some ts) /\ blank_missing (net ops) ts = expected_tiers (net ops) e)
  /\ (~ In e (d_eps (net ops)) -> view_after v ops e = None \/ view_after v ops e = Some None).
Proof.
  intros v ops e Hf W OK N. destruct (dm_run v ops Hf W) as [HD _]. destruct (HD e N) as [G1 G2].
  split; [|exact G2]. intros I. destruct (G1 I) as [ts [Q C]]. exists ts. split; [exact Q|].
  assert (C' : charP pol_before (appD (net ops) e) (Tof (net ops)) ts).
  { eapply charP_convert; [intros; reflexivity | | exact C].
    intros k1 m1 k2 m2 [pv1 [A1 _]] [pv2 [A2 _]]. apply polkv_less_pol_before. apply OK.
    - apply (alookup_In pkey_eqb pkey_eqb_eq) in A1. apply in_map_iff. exists (k1, pv1). auto.
    - apply (alookup_In pkey_eqb pkey_eqb_eq) in A2. apply in_map_iff. exists (k2, pv2). auto. }
  pose proof (charP_unique pol_before _ _ _ _ pol_before_irrefl pol_before_trans C' (expected_char ops e)) as U.
  change (blankT (Tof (net ops))) with (blank_missing (net ops)) in U.
  rewrite U. apply blank_expected.
Qed.

(* an in-sync Flush leaves nothing dirty *)
Lemma flush_clears_dirty : forall v ops ord, d_insync (net ops) = true ->
  dirty (state_after v (ops ++ [Flush ord])) = [].
Proof.
  intros v ops ord H. unfold state_after. rewrite run_from_app. fold (state_after v ops).
  destruct (base_inv_run v ops) as (_ & _ & _ & I). cbn [run_from].
  destruct (step v (state_after v ops) (Flush ord)) as [s1 out] eqn:E. cbn [fst].
  cbn [step] in E. rewrite I, H in E. inversion E. reflexivity.
Qed.
