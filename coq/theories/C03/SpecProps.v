(* C03 — the specification function expected_tiers has the properties the property text lists: exactly the
   matching policies, grouped by tier, tiers in (exists, order, name) order, policies in (order, name, namespace,
   kind) order.  (These are facts about Spec.v; they say what the oracle's acceptance means.) *)
From Coq Require Import List NArith ZArith Bool Sorted.
From Verif.Common Require Import Labels.
From Verif.C03 Require Import Model Spec Order BT.
Import ListNotations.

(* ------------------------------------------------------------------ association lists keep one binding per key *)

Section ALL.
  Context {K V : Type} (keqb : K -> K -> bool).
  Hypothesis keqb_eq : forall a b, keqb a b = true <-> a = b.

  Lemma adel_In : forall k (l : list (K * V)) k' x, In (k', x) (adel keqb k l) -> In (k', x) l /\ k' <> k.
  Proof.
    induction l as [|[k0 x0] l IH]; simpl; intros k' x H; [contradiction|].
    destruct (keqb k k0) eqn:E.
    - destruct (IH _ _ H). auto.
    - destruct H as [H|H].
      + inversion H; subst. split; [auto|]. intros ->. rewrite (proj2 (keqb_eq k k) eq_refl) in E. discriminate.
      + destruct (IH _ _ H). auto.
  Qed.

  Lemma adel_keys_NoDup : forall k (l : list (K * V)), NoDup (map fst l) -> NoDup (map fst (adel keqb k l)).
  Proof.
    induction l as [|[k0 x0] l IH]; simpl; intros H; [constructor|].
    inversion H; subst. destruct (keqb k k0); [auto|]. simpl. constructor; [|auto].
    intros I. apply in_map_iff in I. destruct I as [[k1 x1] [Q I]]. simpl in Q. subst.
    apply adel_In in I. destruct I as [I _]. apply H2. apply in_map_iff. exists (k0, x1). auto.
  Qed.

  Lemma aset_keys_NoDup : forall k x (l : list (K * V)), NoDup (map fst l) -> NoDup (map fst (aset keqb k x l)).
  Proof.
    intros k x l H. unfold aset. simpl. constructor; [|apply adel_keys_NoDup; exact H].
    intros I. apply in_map_iff in I. destruct I as [[k1 x1] [Q I]]. simpl in Q. subst.
    apply adel_In in I. destruct I as [_ N]. congruence.
  Qed.
End ALL.

Lemma net_pols_NoDup : forall ops, NoDup (map fst (d_pols (net ops))).
Proof.
  intros ops. unfold net.
  assert (G : forall D, NoDup (map fst (d_pols D)) -> NoDup (map fst (d_pols (fold_left apply_op ops D)))).
  { induction ops as [|o ops IH]; intros D H; simpl; [exact H|]. apply IH.
    destruct o as [p e|p e|p [pv|]|n [tv|]|e [|]| |ord]; simpl; auto.
    - apply (aset_keys_NoDup pkey_eqb pkey_eqb_eq p pv). exact H.
    - apply (adel_keys_NoDup pkey_eqb pkey_eqb_eq). exact H. }
  apply G. constructor.
Qed.

(* ------------------------------------------------------------------ applicable *)

Lemma applicable_In : forall D e k m,
  In (k, m) (applicable D e) <-> exists pv, In (k, pv) (d_pols D) /\ m = extract_meta pv /\ matched D k e = true.
Proof.
  intros. unfold applicable. rewrite in_map_iff. split.
  - intros [[k' pv] [Q I]]. simpl in Q. inversion Q; subst. apply filter_In in I. simpl in I. exists pv. tauto.
  - intros [pv [I [-> M]]]. exists (k, pv). split; [reflexivity|]. apply filter_In. auto.
Qed.

Lemma NoDup_map_filter : forall {A B} (f : A -> B) g l, NoDup (map f l) -> NoDup (map f (filter g l)).
Proof.
  induction l as [|x l IH]; simpl; intros H; [constructor|]. inversion H; subst.
  destruct (g x); simpl; [constructor; [|auto] | auto].
  intros I. apply H2. apply in_map_iff in I. destruct I as [y [Q I]]. apply filter_In in I.
  apply in_map_iff. exists y. tauto.
Qed.

Lemma applicable_keys_NoDup : forall ops e, NoDup (map fst (applicable (net ops) e)).
Proof.
  intros. unfold applicable. rewrite map_map. simpl.
  apply NoDup_map_filter. apply net_pols_NoDup.
Qed.

Lemma dedup_bytes_In : forall l x, In x (dedup_bytes l) <-> In x l.
Proof.
  induction l as [|y l IH]; simpl; intros x; [tauto|].
  destruct (mem_bytes y l) eqn:E.
  - rewrite IH. split; [auto|]. intros [<-|I]; [apply mem_bytes_In; exact E | exact I].
  - simpl. rewrite IH. tauto.
Qed.

Lemma dedup_bytes_NoDup : forall l, NoDup (dedup_bytes l).
Proof.
  induction l as [|y l IH]; simpl; [constructor|].
  destruct (mem_bytes y l) eqn:E; [exact IH|]. constructor; [|exact IH].
  rewrite dedup_bytes_In. intros I. apply mem_bytes_In in I. congruence.
Qed.

(* ------------------------------------------------------------------ comparability *)

Lemma comparable_polkv : forall l : list polkv, NoDup (map fst l) -> comparable pol_before l.
Proof.
  induction l as [|a l IH]; simpl; intros H; [exact I|]. inversion H; subst. split; [|auto].
  intros b Ib. rewrite !(pol_before_is_polkv_less_lex true).
  destruct (polkv_less (mkVariant true true) a b) eqn:E1; [auto|].
  destruct (polkv_less (mkVariant true true) b a) eqn:E2; [auto|]. exfalso.
  destruct (polkv_less_total (mkVariant true true) a b) as [Q _]; try (left; reflexivity); auto.
  apply H2. rewrite Q. apply in_map. exact Ib.
Qed.

Lemma tier_key_name : forall D n, tk_name (tier_key D n) = n.
Proof. intros. unfold tier_key. destruct (alookup bytes_eqb n (d_tiers D)); reflexivity. Qed.

Lemma comparable_tkeys : forall D (l : list bytes), NoDup l -> comparable tier_before (map (tier_key D) l).
Proof.
  induction l as [|a l IH]; simpl; intros H; [exact I|]. inversion H; subst. split; [|auto].
  intros b Ib. apply in_map_iff in Ib. destruct Ib as [n [<- In']].
  rewrite !tier_before_is_tier_less.
  destruct (tier_less (tier_key D a) (tier_key D n)) eqn:E1; [auto|].
  destruct (tier_less (tier_key D n) (tier_key D a)) eqn:E2; [auto|]. exfalso.
  pose proof (tier_less_total _ _ E1 E2) as Q. apply (f_equal tk_name) in Q. rewrite !tier_key_name in Q.
  subst. contradiction.
Qed.

(* ------------------------------------------------------------------ the listed properties *)

Definition SSb {A} (lt : A -> A -> bool) := StronglySorted (fun a b => lt a b = true).

Lemma pol_before_irrefl : forall a, pol_before a a = false.
Proof. intros. rewrite (pol_before_is_polkv_less_lex true). apply polkv_less_irrefl. Qed.
Lemma pol_before_trans : forall a b c, pol_before a b = true -> pol_before b c = true -> pol_before a c = true.
Proof. intros a b c. rewrite !(pol_before_is_polkv_less_lex true). apply polkv_less_trans. Qed.
Lemma tier_before_irrefl : forall a, tier_before a a = false.
Proof. intros. rewrite tier_before_is_tier_less. apply tier_less_irrefl. Qed.
Lemma tier_before_trans : forall a b c, tier_before a b = true -> tier_before b c = true -> tier_before a c = true.
Proof. intros a b c. rewrite !tier_before_is_tier_less. apply tier_less_trans. Qed.

(* exactly the matching policies, each under the tier it names *)
Lemma expected_exact_set : forall ops e k m,
  let D := net ops in
  (exists t, In t (expected_tiers D e) /\ In (k, m) (to_pols t)) <->
  (exists pv, In (k, pv) (d_pols D) /\ m = extract_meta pv /\ matched D k e = true).
Proof.
  intros ops e k m D. rewrite <- applicable_In. unfold expected_tiers. split.
  - intros [t [It Ik]]. apply in_map_iff in It. destruct It as [tk [<- _]]. simpl in Ik.
    apply (proj1 (isort_In pol_before _ _)) in Ik. apply filter_In in Ik. tauto.
  - intros I. exists (mkTout (m_tier m) (tk_order (tier_key D (m_tier m))) (tier_action D (m_tier m))
                     (isort pol_before (filter (fun kv => bytes_eqb (m_tier (snd kv)) (m_tier m)) (applicable D e)))).
    split.
    + apply in_map_iff. exists (tier_key D (m_tier m)). rewrite tier_key_name. split; [reflexivity|].
      apply (proj2 (isort_In tier_before _ _)). apply in_map. apply dedup_bytes_In.
      apply in_map_iff. exists (k, m). auto.
    + simpl. apply (proj2 (isort_In pol_before _ _)). apply filter_In. split; [exact I|]. simpl. apply bytes_eqb_refl.
Qed.

(* grouped by tier: a listed policy names the tier it is listed under; a policy is listed once *)
Lemma expected_grouped : forall ops e t k m,
  In t (expected_tiers (net ops) e) -> In (k, m) (to_pols t) -> m_tier m = to_name t.
Proof.
  intros ops e t k m It Ik. unfold expected_tiers in It. apply in_map_iff in It. destruct It as [tk [<- _]].
  simpl in *. apply (proj1 (isort_In pol_before _ _)) in Ik. apply filter_In in Ik. destruct Ik as [_ Q]. simpl in Q.
  apply bytes_eqb_eq. exact Q.
Qed.

(* tiers: existing ones first, then ascending order (unset last), then name - strictly, so no tier twice *)
Lemma expected_tier_order : forall ops e,
  let D := net ops in
  SSb tier_before (map (fun t => tier_key D (to_name t)) (expected_tiers D e)).
Proof.
  intros ops e D. unfold expected_tiers. rewrite map_map. simpl.
  set (tks := isort tier_before _).
  assert (E : map (fun x => tier_key D (tk_name x)) tks = tks).
  { assert (F : forall x, In x tks -> tier_key D (tk_name x) = x).
    { intros x I. apply (proj1 (isort_In tier_before _ _)) in I. apply in_map_iff in I. destruct I as [n [<- _]].
      rewrite tier_key_name. reflexivity. }
    clear - F. induction tks as [|x l IH]; simpl; [reflexivity|].
    rewrite F by (left; reflexivity). f_equal. apply IH. intros y I. apply F. right. exact I. }
  rewrite E. apply isort_SS; [apply tier_before_trans|].
  apply comparable_tkeys. apply dedup_bytes_NoDup.
Qed.

(* the emitted tier order field and action are those of the datastore's tier *)
Lemma expected_tier_fields : forall ops e t,
  let D := net ops in
  In t (expected_tiers D e) ->
  to_order t = tk_order (tier_key D (to_name t)) /\ to_action t = tier_action D (to_name t).
Proof.
  intros ops e t D It. unfold expected_tiers in It. apply in_map_iff in It. destruct It as [tk [<- I]]. simpl.
  apply (proj1 (isort_In tier_before _ _)) in I. apply in_map_iff in I. destruct I as [n [<- _]].
  rewrite tier_key_name. auto.
Qed.

(* policies inside a tier: ascending order (unset last), then name, namespace, kind - strictly *)
Lemma expected_policy_order : forall ops e t,
  In t (expected_tiers (net ops) e) -> SSb pol_before (to_pols t).
Proof.
  intros ops e t It. unfold expected_tiers in It. apply in_map_iff in It. destruct It as [tk [<- _]]. simpl.
  apply isort_SS; [apply pol_before_trans|]. apply comparable_polkv.
  apply NoDup_map_filter. apply applicable_keys_NoDup.
Qed.
