(* C20 — theorems (statements only; proofs in Lemmas.v / Proofs.v). *)
From Coq Require Import List NArith Bool Arith.
From Verif.Common Require Import Cas.
From Verif.C19 Require Import Model.
From Verif.C20 Require Import Model Spec Lemmas.
Import ListNotations.
Open Scope N_scope.

(* Every pool AutoAssign may draw from (determinePools followed by filterPoolsByUse) is a configured pool that the
   specification allows for the request: enabled, right use, and either named by the request or Automatic and
   selecting the node and the namespace. *)
Theorem c20_pool_selection_meets_spec : forall cf q sel p,
  determine_pools cf q = Some sel -> In p (by_use (q_use q) sel) ->
  In p (g_pools cf) /\ spec_pool_allowed cf q p = true.
Proof. exact allowed_meets_spec. Qed.
Print Assumptions c20_pool_selection_meets_spec.

(* allocationBlock.autoAssign with any reservation filter: every address it hands out was free, is not reserved,
   carries the block's mask; at most num addresses; with the affinity check the block is affine to the host. *)
Theorem c20_block_autoassign : forall resv b num h tag ac host b' ips,
  blk_auto_assign_r resv b num h tag ac host = Some (b', ips) ->
  (length ips <= num)%nat /\
  (ac = true -> bk_aff b = Some host) /\
  (forall a l, In (a, l) ips ->
     exists o, In o (bk_unalloc b) /\ a = bk_cidr b + N.of_nat o /\ resv a = false /\ l = blk_plen b).
Proof. intros. apply baa_spec in H. tauto. Qed.
Print Assumptions c20_block_autoassign.

(* the limit autoAssign enforces is the more restrictive of the global and the per-request value, 20 by default *)
Theorem c20_effective_cap : forall cf q, eff_maxblocks cf q = spec_cap cf q.
Proof. exact eff_maxblocks_spec. Qed.
Print Assumptions c20_effective_cap.
